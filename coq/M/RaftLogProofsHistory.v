(* C14, part 5: every sequence of contract-abiding operations.
   [cstep] lists the operations of the property (appends, truncating appends via
   maybe_append, commits, stabilisations, persistence notices, snapshot restores,
   storage writes per the Ready contract, compaction up to applied); each
   constructor only asks that the model call returned [Ok] plus the caller-side
   contract.  [history_inv]: along every history RepInv holds, so
   applied <= committed <= last, persisted <= storage last, the commit index and
   the base never decrease, and no entry at or below the commit index of ANY
   earlier state is ever altered.  Also the remaining queries
   (commit_info, has_next_entries_since, next_entries_since). *)
From RV Require Import Base.Prelude M.Util M.UtilProofs M.MemStorage M.MemStorageProofs
  M.RaftLog M.RaftLogProofs M.RaftLogProofsOps M.RaftLogProofsStore M.RaftLogProofsSlice.
From Coq Require Import Relations.Relation_Operators.

Local Open Scope N_scope.

Ltac splits := repeat match goal with |- _ /\ _ => split end.

Definition last_ent (l : raft_log) : entry := List.last (u_entries (unst l)) (mkEntry 0 0 0 [] []).

Inductive cstep (l : raft_log) : raft_log -> Prop :=
| CAppend : forall e0 t l' r,
    contiguous_from (e_index e0) (e0 :: t) -> persisted l < e_index e0 ->
    e_index e0 <= ll_last (abs l) + 1 ->
    e_index e0 + N.of_nat (length (e0 :: t)) <= u64_max ->
    log_append l (e0 :: t) = Ok (l', r) -> cstep l l'
| CMaybeAppend : forall i t cmt ents l' r,
    contiguous_from (i + 1) ents -> nz_terms ents ->
    (i <= ll_last (abs l) \/ t <> 0) -> i + N.of_nat (length ents) < u64_max ->
    maybe_append l i t cmt ents = Ok (l', r) -> cstep l l'
| CCommitTo : forall tc l', commit_to l tc = Ok l' -> cstep l l'
| CMaybeCommit : forall i t l' b,
    (i <= ll_last (abs l) \/ t <> 0) -> maybe_commit l i t = Ok (l', b) -> cstep l l'
| CAppliedTo : forall i l', applied_to l i = Ok l' -> cstep l l'
| CRestore : forall s l', s_index s < u64_max -> log_restore l s = Ok l' -> cstep l l'
| CPersistEntries : forall st' l',
    u_snapshot (unst l) = None -> u_entries (unst l) <> [] ->
    append (store l) (u_entries (unst l)) = Ok st' ->
    stable_entries (set_store l st') (e_index (last_ent l)) (e_term (last_ent l)) = Ok l' ->
    cstep l l'
| CApplySnapshot : forall s st',
    u_snapshot (unst l) = Some s -> first_of (store l) <= s_index s ->
    apply_snapshot (store l) s = Ok (st', SOk tt) -> cstep l (set_store l st')
| CStableSnap : forall s l',
    u_snapshot (unst l) = Some s ->
    snap_index (store l) = s_index s -> snap_term (store l) = s_term s ->
    first_of (store l) = s_index s + 1 ->
    (u_entries (unst l) = [] -> entries (store l) = []) ->
    stable_snap l (s_index s) = Ok l' -> cstep l l'
| CMaybePersist : forall i t l' b, maybe_persist l i t = Ok (l', b) -> cstep l l'
| CMaybePersistSnap : forall i l' b,
    i < next_of (store l) -> maybe_persist_snap l i = Ok (l', b) -> cstep l l'
| CCompact : forall ci st',
    u_snapshot (unst l) = None -> ci <= applied l -> ci <= u_offset (unst l) ->
    ci < next_of (store l) ->
    compact (store l) ci = Ok st' -> cstep l (set_store l st').

Lemma base_le_committed : forall rw l, RepInv rw l -> ll_base (abs l) <= committed l.
Proof.
  intros rw l H. destruct H as [_ _ _ Hsh _ _ _ _]. unfold abs.
  destruct (u_snapshot (unst l)); cbn [ll_base]; [destruct Hsh; lia|].
  destruct Hsh as (_ & _ & H). exact H.
Qed.

Definition step_post (l l' : raft_log) : Prop :=
  RepInv false l'
  /\ preserves_upto (committed l) (abs l) (abs l')
  /\ committed l <= committed l'
  /\ ll_base (abs l) <= ll_base (abs l').

Lemma post_same_abs : forall l l',
    RepInv false l' -> abs l' = abs l -> committed l <= committed l' -> step_post l l'.
Proof.
  intros l l' H Ha Hc. unfold step_post. splits; auto.
  - apply preserves_refl. exact Ha.
  - rewrite Ha. lia.
Qed.

Theorem cstep_inv : forall l l', RepInv false l -> cstep l l' -> step_post l l'.
Proof.
  intros l l' H Hs. destruct Hs.
  - (* append *)
    assert (Hcm : committed l < e_index e0).
    { destruct (N.lt_ge_cases (committed l) (e_index e0)) as [Hlt|Hge]; [exact Hlt|]. exfalso.
      destruct (N.eq_dec (e_index e0) 0) as [Hz|Hz].
      - unfold log_append in H4. rewrite Hz in H4. cbn in H4. discriminate.
      - assert (Hf : log_append l (e0 :: t) = Panic site_l_append_range) by (apply log_append_fatal_iff; lia).
        rewrite Hf in H4. discriminate. }
    destruct (log_append_ok false l e0 t H H0 Hcm H2 H1 H3) as (l2 & Ha2 & Hr & Habs & Hc & _).
    rewrite H4 in Ha2. inversion Ha2; subst l2. unfold step_post. splits; auto.
    + apply (committed_immutable_append false l e0 t l' r); auto.
    + lia.
    + rewrite Habs. unfold ll_append. cbn [ll_base]. lia.
  - (* maybe_append *)
    pose proof (committed_immutable_maybe_append false l i t cmt ents l' r H H0 H1 H2 H3 H4) as Hpres.
    destruct (ll_match (abs l) i t) eqn:Em.
    + remember (ll_find_conflict (abs l) ents) as ci eqn:Eci.
      assert (Hci : ci = 0 \/ committed l < ci).
      { destruct (N.eq_dec ci 0) as [Hz|Hz]; [left; exact Hz|]. right.
        destruct (N.lt_ge_cases (committed l) ci) as [Hlt|Hge]; [exact Hlt|]. exfalso.
        rewrite (maybe_append_fatal false l i t cmt ents H Em) in H4; [discriminate|]. subst ci. lia. }
      destruct (maybe_append_ok false l i t cmt ents H H0 H1 H2 H3 Em ltac:(rewrite <- Eci; exact Hci))
        as (l2 & Hm2 & Hr & Habs & Hc & _).
      rewrite H4 in Hm2. inversion Hm2; subst l2. unfold step_post. splits; auto; [lia|].
      rewrite Habs. unfold ll_maybe_append, ll_append.
      destruct (ll_find_conflict (abs l) ents =? 0); [lia|].
      destruct (skipn _ ents); cbn [ll_base]; lia.
    + rewrite (maybe_append_reject false l i t cmt ents H Em) in H4. inversion H4; subst.
      apply post_same_abs; auto. lia.
  - (* commit_to *)
    assert (Htc : tc <= ll_last (abs l)).
    { destruct (N.le_gt_cases tc (ll_last (abs l))) as [Hle|Hgt]; [exact Hle|].
      destruct (N.le_gt_cases tc (committed l)) as [Hle2|Hgt2].
      - pose proof (ri_commit false l H). lia.
      - exfalso. rewrite (proj2 (commit_to_panics_iff false l tc H) (conj Hgt2 Hgt)) in H0. discriminate. }
    destruct (commit_to_ok false l tc H Htc) as (l2 & Hc2 & Hr & Habs & Hc & _).
    rewrite H0 in Hc2. inversion Hc2; subst l2. apply post_same_abs; auto. lia.
  - (* maybe_commit *)
    destruct (maybe_commit_ok false l i t H H0) as (l2 & b2 & Hm2 & Hr & Habs & Hb & Hc & _).
    rewrite H1 in Hm2. inversion Hm2; subst l2 b2. apply post_same_abs; auto.
    rewrite Hc. destruct ((committed l <? i) && ll_match (abs l) i t) eqn:Eb; [|lia].
    apply Bool.andb_true_iff in Eb. lia.
  - (* applied_to *)
    destruct (N.eq_dec i 0) as [Hz|Hz].
    + subst i. unfold applied_to in H0. cbn in H0. inversion H0; subst. apply post_same_abs; auto. lia.
    + assert (Hr : applied l <= i <= committed l).
      { destruct (N.le_gt_cases i (committed l)) as [H1|H1];
          destruct (N.le_gt_cases (applied l) i) as [H2|H2]; try lia; exfalso;
          rewrite (proj2 (applied_to_panics_iff l i)) in H0; try discriminate; lia. }
      destruct (applied_to_ok false l i H Hr) as (l2 & Ha2 & Hr2 & Habs & _ & Hc & _).
      rewrite H0 in Ha2. inversion Ha2; subst l2. apply post_same_abs; auto. lia.
  - (* restore *)
    assert (Hc : committed l <= s_index s).
    { destruct (N.le_gt_cases (committed l) (s_index s)) as [Hle|Hgt]; [exact Hle|]. exfalso.
      rewrite (proj2 (log_restore_panics_iff l s) Hgt) in H1. discriminate. }
    destruct (log_restore_ok false l s H Hc H0) as (l2 & Hr2 & Hr & Habs & Hcm & _).
    rewrite H1 in Hr2. inversion Hr2; subst l2. unfold step_post. splits; auto.
    + apply (committed_immutable_restore false l s l'); auto.
    + lia.
    + rewrite Habs. cbn [ll_base]. pose proof (base_le_committed false l H). lia.
  - (* persist entries *)
    destruct (persist_entries_identity false l H H0 H1) as (st2 & l2 & Ha & Hst & Hr & Habs & _ & Hc & _).
    rewrite H2 in Ha. inversion Ha; subst st2. cbv zeta in Hst. fold (last_ent l) in Hst.
    rewrite H3 in Hst. inversion Hst; subst l2. apply post_same_abs; auto. lia.
  - (* apply the pending snapshot to the storage *)
    destruct (store_apply_snapshot_ok false l s H H0 H1) as (Ha & Hr & Habs & _).
    rewrite H2 in Ha. inversion Ha; subst st'. apply post_same_abs; auto. cbn. lia.
  - (* stable_snap *)
    destruct (stable_snap_ok false l s H H0 H1 H2 H3 H4) as (l2 & Hs2 & Hr & Habs & _ & _ & _ & _ & Hc & _).
    rewrite H5 in Hs2. inversion Hs2; subst l2. apply post_same_abs; auto. lia.
  - (* maybe_persist *)
    destruct (maybe_persist_ok false l i t H) as (l2 & b2 & Hm2 & Hr & Habs & Hc & _).
    rewrite H0 in Hm2. inversion Hm2; subst l2 b2. apply post_same_abs; auto. lia.
  - (* maybe_persist_snap *)
    destruct (maybe_persist_snap_cases l i) as (Hc1 & Hc2 & Hc3).
    destruct (N.le_gt_cases i (persisted l)) as [Hle|Hgt].
    + rewrite (Hc1 Hle) in H1. inversion H1; subst. apply post_same_abs; auto. lia.
    + destruct (N.le_gt_cases i (committed l)) as [Hle2|Hgt2];
        [|rewrite (Hc2 Hgt Hgt2) in H1; discriminate].
      destruct (N.le_gt_cases (u_offset (unst l)) i) as [Hle3|Hgt3];
        [rewrite (Hc3 Hgt Hle2 Hle3) in H1; discriminate|].
      destruct (maybe_persist_snap_ok false l i H Hgt Hle2 Hgt3 H0) as (Hm & Hr & Habs).
      rewrite H1 in Hm. inversion Hm; subst. apply post_same_abs; auto. cbn. lia.
  - (* compaction *)
    destruct (N.le_gt_cases ci (first_of (store l))) as [Hle|Hgt].
    + rewrite (store_compact_noop false l ci H Hle) in H4. inversion H4; subst st'.
      replace (set_store l (store l)) with l by (destruct l; reflexivity).
      apply post_same_abs; auto. lia.
    + destruct (store_compact_ok l ci H H0 Hgt H1 H2 H3) as (st2 & Hc2 & Hr & Habs & _).
      rewrite H4 in Hc2. inversion Hc2; subst st2. unfold step_post. splits; auto.
      * apply (committed_immutable_compact l ci st'); auto.
      * cbn. lia.
      * rewrite Habs. cbn [ll_base]. unfold abs. rewrite H0. cbn [ll_base]. lia.
Qed.

Definition history := clos_refl_trans_n1 raft_log cstep.

(* the invariants of the property, at every point of every history *)
Theorem history_inv : forall l0 l,
    RepInv false l0 -> history l0 l ->
    RepInv false l
    /\ applied l <= committed l /\ committed l <= last_index l
    /\ persisted l <= storage_last_index (store l)
    /\ committed l0 <= committed l
    /\ ll_base (abs l0) <= ll_base (abs l)
    /\ (* no entry at or below the commit index is ever altered *)
       preserves_upto (committed l0) (abs l0) (abs l).
Proof.
  intros l0 l H0 Hh. induction Hh as [|l1 l2 Hst Hh IH].
  - splits; auto.
    + exact (ri_applied false l0 H0 eq_refl).
    + rewrite (abs_last false l0 H0). exact (ri_commit false l0 H0).
    + apply (persisted_le_storage_last false); exact H0.
    + lia.
    + lia.
    + apply preserves_refl; reflexivity.
  - destruct IH as (Hr1 & _ & _ & _ & Hc1 & Hb1 & Hp1).
    destruct (cstep_inv l1 l2 Hr1 Hst) as (Hr2 & Hp2 & Hc2 & Hb2).
    splits; auto.
    + exact (ri_applied false l2 Hr2 eq_refl).
    + rewrite (abs_last false l2 Hr2). exact (ri_commit false l2 Hr2).
    + apply (persisted_le_storage_last false); exact Hr2.
    + lia.
    + lia.
    + intros i Hi Hbi. rewrite (Hp2 i ltac:(lia) Hbi). apply Hp1; lia.
Qed.

(* ================================================================== *)
(* remaining queries                                                   *)
(* ================================================================== *)
Theorem commit_info_abs : forall rw l,
    RepInv rw l ->
    commit_info l = match ll_term (abs l) (committed l) with
                    | SOk t => Ok (committed l, t)
                    | SErr _ => Panic site_l_commit_info
                    end.
Proof. intros rw l H. unfold commit_info. rewrite (term_abs rw l _ H). reflexivity. Qed.

(* upper bound of the apply window: min(committed, persisted.saturating_add(limit)) *)
Definition ll_apply_bound (l : raft_log) : N :=
  N.min (committed l) (N.min u64_max (persisted l + max_apply_unpersisted_log_limit l)).

Theorem has_next_entries_since_abs : forall rw l since,
    RepInv rw l -> since < u64_max ->
    has_next_entries_since l since
    = Ok (N.max (since + 1) (ll_first (abs l)) <? ll_apply_bound l + 1).
Proof.
  intros rw l since H Hs. unfold has_next_entries_since, applied_index_upper_bound, ll_apply_bound.
  destruct (since =? u64_max) eqn:E0; [lia|].
  rewrite (abs_base_first rw l H). cbn [bind].
  pose proof (ri_commit rw l H). pose proof (ri_bound rw l H).
  destruct (N.min (committed l) (N.min u64_max (persisted l + max_apply_unpersisted_log_limit l)) =? u64_max) eqn:E2; [lia|].
  reflexivity.
Qed.

(* F8 (fixed in /repo 63caa76): the sum persisted + limit saturates, so a limit of
   u64::MAX means "everything committed" instead of a panic *)
Theorem apply_bound_saturates : forall rw l since,
    RepInv rw l -> since < u64_max -> u64_max <= persisted l + max_apply_unpersisted_log_limit l ->
    has_next_entries_since l since
    = Ok (N.max (since + 1) (ll_first (abs l)) <? committed l + 1).
Proof.
  intros rw l since H Hs Hov. rewrite (has_next_entries_since_abs rw l since H Hs).
  unfold ll_apply_bound. pose proof (ri_commit rw l H). pose proof (ri_bound rw l H).
  replace (N.min (committed l) (N.min u64_max (persisted l + max_apply_unpersisted_log_limit l)))
    with (committed l) by lia.
  reflexivity.
Qed.

Theorem next_entries_since_abs : forall rw l since max,
    RepInv rw l -> since < u64_max ->
    let lo := N.max (since + 1) (ll_first (abs l)) in
    let hi := ll_apply_bound l + 1 in
    next_entries_since l since max
    = Ok (if lo <? hi then Some (ll_slice (abs l) lo hi max) else None).
Proof.
  intros rw l since max H Hs lo hi. subst lo hi.
  unfold next_entries_since, applied_index_upper_bound, ll_apply_bound.
  destruct (since =? u64_max) eqn:E0; [lia|].
  rewrite (abs_base_first rw l H). cbn [bind].
  pose proof (ri_commit rw l H). pose proof (ri_bound rw l H).
  destruct (N.min (committed l) (N.min u64_max (persisted l + max_apply_unpersisted_log_limit l)) =? u64_max) eqn:E2; [lia|].
  destruct (N.max (since + 1) (ll_first (abs l)) <? N.min (committed l) (N.min u64_max (persisted l + max_apply_unpersisted_log_limit l)) + 1) eqn:E3;
    [|reflexivity].
  rewrite (slice_abs rw l _ _ max H); [reflexivity|lia|lia|lia].
Qed.
