(* The application contract ("contract-abiding use" of property C20, "the Ready / advance
   contract" of C07) as ONE formal object, and the trace theorems of C14 / C07 / C20
   (node level) without per-step caller-side hypotheses.

   Part 1  [lrel]: what every library call does to the log as seen from outside
           (storage untouched, applied untouched, commit index monotone, a pending
           snapshot is not dropped and a new one comes from the stepped message, the
           unstable offset never falls to a committed index, the apply-unpersisted
           limit stays 0) - an unconditional frame pass over M/Raft.v and M/RawNode.v.
   Part 2  the application's ghost state [appstate], the contract [app_ok], the
           environment hypotheses [peer_msgs_ok] (messages from peers) and [idx_margin]
           (u64 head-room, plain arithmetic), the coupling invariant [Good].
   Part 3  [contract_step]: one contract-abiding call preserves Good and satisfies every
           side condition of C14's op_wf, C07's op_pre_node2 and C20's op_wf2.
   Part 4  traces from RawNode::new ([crun], [contract_trace]) and the corollaries pinned in
           Props/C14.v (section "application contract", which also holds the C20 corollaries:
           Props/C20.v is generated) and Props/C07.v.
   Samples the follower trace of RepInvSamples is contract-abiding.
   Part 5  site 1422 (commit_info): the term at the commit index stays known ([TK]).
   Witnesses for the compaction clause, the "no call between ready and advance" clause and
           the start condition. *)
From RV Require Import Base.Prelude Base.IdSet M.Util M.UtilProofs M.Proto M.MemStorage
  M.MemStorageProofs M.Inflights M.Progress M.RaftLog M.Quorum M.ConfChange M.Msg M.Raft
  M.RawNode M.RaftProofs M.RaftLogProofs M.RaftLogProofsOps M.RaftLogProofsStore
  M.RaftLogProofsSlice M.RaftLogProofsHistory
  M.RaftProofsC15 M.RaftProofsC09 M.RaftProofsC08 M.RaftProofsC13 M.RaftProofsC07
  M.RaftProofsRepInv
  M.RaftProofsC20 M.RaftProofsC20Sites M.RaftProofsC20Inv M.RaftProofsC20Safe M.RaftProofsC20Shape
  M.RaftProofsC20Shape2 M.RaftProofsC20Shape3.
From RecordUpdate Require Import RecordSet.
Import RecordSetNotations.

Local Open Scope N_scope.
Transparent log_append last_index stamp.

Ltac splits := repeat match goal with |- _ /\ _ => split end.

(* ================================================================== *)
(* Part 1. What a library call does to the log, seen from outside      *)
(* ================================================================== *)
Section Lrel.
Variable Q : snapshot -> Prop.

Definition lrel0 (l l' : raft_log) : Prop :=
  store l' = store l
  /\ committed l <= committed l'
  /\ (u_snapshot (unst l) <> None -> u_snapshot (unst l') <> None)
  /\ (forall s, u_snapshot (unst l') = Some s -> u_snapshot (unst l) = Some s \/ Q s)
  /\ (forall b, b <= committed l -> b < u_offset (unst l) -> b < u_offset (unst l'))
  /\ (max_apply_unpersisted_log_limit l = 0 -> max_apply_unpersisted_log_limit l' = 0).

Definition lrel (l l' : raft_log) : Prop := lrel0 l l' /\ applied l' = applied l.

Lemma lrel0_refl l : lrel0 l l.
Proof. unfold lrel0. splits; auto. lia. Qed.

Lemma lrel_refl l : lrel l l.
Proof. split; [apply lrel0_refl|reflexivity]. Qed.

Lemma lrel0_trans a b c : lrel0 a b -> lrel0 b c -> lrel0 a c.
Proof.
  intros (A1 & A2 & A3 & A4 & A5 & A6) (B1 & B2 & B3 & B4 & B5 & B6). unfold lrel0. splits.
  - congruence.
  - lia.
  - auto.
  - intros s Hs. destruct (B4 s Hs) as [H|H]; [apply A4; exact H|right; exact H].
  - intros x H1 H2. apply B5; [lia|]. apply A5; assumption.
  - auto.
Qed.

Lemma lrel_trans a b c : lrel a b -> lrel b c -> lrel a c.
Proof. intros [A1 A2] [B1 B2]. split; [eapply lrel0_trans; eassumption|congruence]. Qed.

(* same store, unstable part and limit; commit index not lower *)
Lemma lrel_same l l' :
  store l' = store l -> unst l' = unst l -> applied l' = applied l -> committed l <= committed l' ->
  (max_apply_unpersisted_log_limit l = 0 -> max_apply_unpersisted_log_limit l' = 0) -> lrel l l'.
Proof.
  intros A B C0 D E. split; [|exact C0]. unfold lrel0. rewrite B. splits; auto.
Qed.

Lemma lrel_commit_to l tc l' : commit_to l tc = Ok l' -> lrel l l'.
Proof.
  unfold commit_to. intros H. destruct (tc <=? committed l) eqn:E; [inversion H; apply lrel_refl|].
  destruct (last_index l <? tc); [discriminate|]. inversion H; subst.
  apply lrel_same; cbn; auto. lia.
Qed.

Lemma lrel_log_maybe_commit l i t l' b : RaftLog.maybe_commit l i t = Ok (l', b) -> lrel l l'.
Proof.
  unfold RaftLog.maybe_commit. intros H.
  destruct (committed l <? i); [|inversion H; apply lrel_refl].
  inv_bind H. destruct (term_ok_eq x t); [|inversion H; apply lrel_refl].
  inv_bind H. inversion H; subst. eapply lrel_commit_to; eassumption.
Qed.

Lemma lrel_set_limit l : lrel l (set_limit l 0).
Proof. apply lrel_same; cbn; auto. lia. Qed.

Lemma lrel_set_persisted l p : lrel l (set_persisted l p).
Proof. apply lrel_same; cbn; auto. lia. Qed.

Lemma trunc_append_facts u ents u' :
  u_truncate_and_append u ents = Ok u' ->
  exists e0 t, ents = e0 :: t /\ u_snapshot u' = u_snapshot u
    /\ (u_offset u' = u_offset u \/ u_offset u' = e_index e0).
Proof.
  unfold u_truncate_and_append. intros H. destruct ents as [|e0 t]; [discriminate|].
  exists e0, t. split; [reflexivity|].
  destruct (e_index e0 =? _).
  - cbn [bind] in H. inversion H; subst. cbn. auto.
  - destruct (e_index e0 <=? u_offset u).
    + cbn [bind] in H. inversion H; subst. cbn. auto.
    + destruct (u_must_check_outofbounds u (u_offset u) (e_index e0)); cbn [bind] in H; [|discriminate].
      inversion H; subst. cbn. auto.
Qed.

Lemma lrel_log_append l ents l' li : log_append l ents = Ok (l', li) -> lrel l l'.
Proof.
  unfold log_append. intros H. destruct ents as [|e0 t]; [inversion H; apply lrel_refl|].
  destruct (e_index e0 =? 0) eqn:E0; [discriminate|].
  destruct (e_index e0 - 1 <? committed l) eqn:E1; [discriminate|].
  inv_bind H. inversion H; subst. clear H.
  destruct (trunc_append_facts _ _ _ Hx) as (e & t' & He & Hs & Ho). inversion He; subst e t'.
  split; [|reflexivity]. unfold lrel0. cbn [set_unst store unst committed max_apply_unpersisted_log_limit].
  rewrite Hs. splits; auto; [lia|].
  intros b Hb Hlt. destruct Ho as [->| ->]; [exact Hlt|lia].
Qed.

Lemma lrel_maybe_append l i t cmt ents l' res : maybe_append l i t cmt ents = Ok (l', res) -> lrel l l'.
Proof.
  unfold maybe_append. intros H. inv_bind H. destruct (negb x); [inversion H; apply lrel_refl|].
  inv_bind H. inv_bind H.
  assert (H1 : lrel l x1).
  { clear H. destruct (x0 =? 0); [inversion Hx1; apply lrel_refl|].
    destruct (x0 <=? committed l); [discriminate|]. destruct (i =? u64_max); [discriminate|].
    destruct (x0 <? i + 1); [discriminate|]. destruct (_ <? _); [discriminate|].
    inv_bind Hx1. destruct x2 as [la lia]. apply lrel_log_append in Hx2. inversion Hx1; subst. cbn [fst].
    destruct (_ <? _); [eapply lrel_trans; [exact Hx2|apply lrel_set_persisted]|exact Hx2]. }
  destruct (u64_max <? _); [discriminate|]. inv_bind H. inversion H; subst.
  eapply lrel_trans; [exact H1|eapply lrel_commit_to; exact Hx2].
Qed.

Lemma lrel_maybe_persist l i t l' b : maybe_persist l i t = Ok (l', b) -> lrel l l'.
Proof.
  unfold maybe_persist. intros H.
  match type of H with (if ?c then _ else _) = _ => destruct c end; [|inversion H; apply lrel_refl].
  inv_bind H. destruct (term_ok_eq x t); inversion H; subst; [apply lrel_set_persisted|apply lrel_refl].
Qed.

Lemma lrel_maybe_persist_snap l i l' b : maybe_persist_snap l i = Ok (l', b) -> lrel l l'.
Proof.
  unfold maybe_persist_snap. intros H. destruct (persisted l <? i); [|inversion H; apply lrel_refl].
  destruct (committed l <? i); [discriminate|]. destruct (_ <=? i); [discriminate|].
  inversion H; subst. apply lrel_set_persisted.
Qed.

Lemma lrel_log_restore l s l' : Q s -> log_restore l s = Ok l' -> lrel l l'.
Proof.
  unfold log_restore. intros HQ H. destruct (s_index s <? committed l) eqn:E; [discriminate|].
  inversion H; subst. clear H. split.
  - unfold lrel0. cbn [set_unst set_committed store unst committed u_restore u_snapshot u_offset
                       max_apply_unpersisted_log_limit].
    destruct (committed l <? persisted l); cbn [set_persisted store committed max_apply_unpersisted_log_limit];
      (splits; auto; [lia|discriminate|intros s0 Hs0; inversion Hs0; subst; right; exact HQ|intros; lia]).
  - cbn. destruct (committed l <? persisted l); reflexivity.
Qed.
End Lrel.

Lemma lrel_weaken (Q Q' : snapshot -> Prop) l l' :
  (forall s, Q s -> Q' s) -> lrel Q l l' -> lrel Q' l l'.
Proof.
  intros HQ [(A1 & A2 & A3 & A4 & A5 & A6) B]. split; [|exact B]. unfold lrel0. splits; auto.
  intros s Hs. destruct (A4 s Hs); auto.
Qed.

(* ---- M/Raft.v ---- *)
Definition rrel (Q : snapshot -> Prop) (r r' : raft) : Prop := lrel Q (r_log r) (r_log r').

Lemma rrel_eq Q r r' : r_log r' = r_log r -> rrel Q r r'.
Proof. unfold rrel. intros ->. apply lrel_refl. Qed.

Lemma rrel_trans Q a b c : rrel Q a b -> rrel Q b c -> rrel Q a c.
Proof. apply lrel_trans. Qed.

Section RaftPass.
Variable Q : snapshot -> Prop.
Notation RR := (rrel Q).

Lemma become_follower_rrel r t l r' : become_follower r t l = Ok r' -> RR r r'.
Proof. intros H. apply become_follower_log in H. unfold rrel. rewrite H. apply lrel_set_limit. Qed.

Lemma maybe_commit_rrel r r' b : Raft.maybe_commit r = Ok (r', b) -> RR r r'.
Proof.
  unfold Raft.maybe_commit. intros H. inv_bind H. destruct x as [l' b'].
  apply (lrel_log_maybe_commit Q) in Hx.
  destruct b'; [destruct (get_pr r (r_id r))|]; inversion H; subst; exact Hx.
Qed.

Lemma append_entry_rrel r es r' ok : append_entry r es = Ok (r', ok) -> RR r r'.
Proof.
  intros H. destruct (append_entry_spec _ _ _ _ H) as (_ & _ & Hl). destruct ok.
  - destruct Hl as ([l' li] & Hx & Hl). unfold rrel. rewrite Hl. cbn [fst].
    eapply lrel_log_append; exact Hx.
  - apply rrel_eq. exact Hl.
Qed.

Lemma become_leader_rrel r r' : become_leader r = Ok r' -> RR r r'.
Proof.
  unfold become_leader. intros H.
  destruct (role_eqb (r_state r) Follower); [discriminate|].
  inv_bind H. apply reset_log in Hx.
  match type of H with (match ?g with _ => _ end) = _ => destruct g as [pr|] end; [|discriminate].
  inv_bind H. destruct x0 as [r6 ok]. destruct ok; [|discriminate]. inversion H; subst. clear H.
  apply append_entry_rrel in Hx0. unfold rrel in *. cbn in Hx0. rewrite Hx in Hx0. exact Hx0.
Qed.

Lemma poll_gen_rrel rc r from v r' res :
  (forall ra ra', rc ra = Ok ra' -> RR ra ra') ->
  poll_gen rc r from v = Ok (r', res) -> RR r r'.
Proof.
  unfold poll_gen. intros Hrc H.
  set (r0 := r <| r_prs := (r_prs r) <| t_votes := Quorum.record_vote (t_votes (r_prs r)) from v |> |>) in *.
  assert (H0 : RR r r0) by (apply rrel_eq; reflexivity).
  eapply rrel_trans; [exact H0|]. clearbody r0.
  destruct (Quorum.tracker_vote_result _ _ _).
  - inversion H; subst. apply rrel_eq; reflexivity.
  - inv_bind H. inversion H; subst. eapply become_follower_rrel; eassumption.
  - destruct (role_eqb (r_state r0) PreCandidate).
    + inv_bind H. inversion H; subst. eapply Hrc; eassumption.
    + inv_bind H. inv_bind H. inversion H; subst.
      eapply rrel_trans; [eapply become_leader_rrel; eassumption|].
      apply rrel_eq. eapply bcast_append_log; eassumption.
Qed.

Lemma campaign_real_rrel tr r r' : campaign_real tr r = Ok r' -> RR r r'.
Proof.
  unfold campaign_real. intros H. inv_bind H. apply become_candidate_log in Hx.
  inv_bind H. destruct x0 as [r2 res].
  assert (H2 : RR r r2).
  { eapply rrel_trans; [apply rrel_eq; exact Hx|].
    eapply poll_gen_rrel; [|exact Hx0]. intros ra ra' Hp; discriminate. }
  destruct res.
  - inv_bind H. apply send_vote_requests_log in H. eapply rrel_trans; [exact H2|apply rrel_eq; exact H].
  - inv_bind H. apply send_vote_requests_log in H. eapply rrel_trans; [exact H2|apply rrel_eq; exact H].
  - inversion H; subst. exact H2.
Qed.

Lemma poll_rrel r from v r' res : poll r from v = Ok (r', res) -> RR r r'.
Proof. unfold poll. apply poll_gen_rrel. intros ra ra'. apply campaign_real_rrel. Qed.

Lemma campaign_pre_rrel r r' : campaign_pre r = Ok r' -> RR r r'.
Proof.
  unfold campaign_pre. intros H. inv_bind H. apply become_pre_candidate_log in Hx.
  inv_bind H. destruct x0 as [r2 res].
  assert (H2 : RR r r2).
  { eapply rrel_trans; [apply rrel_eq; exact Hx|]. eapply poll_rrel; exact Hx0. }
  destruct res.
  - inv_bind H. apply send_vote_requests_log in H. eapply rrel_trans; [exact H2|apply rrel_eq; exact H].
  - inv_bind H. apply send_vote_requests_log in H. eapply rrel_trans; [exact H2|apply rrel_eq; exact H].
  - inversion H; subst. exact H2.
Qed.

Lemma hup_rrel r tl r' : hup r tl = Ok r' -> RR r r'.
Proof.
  intros H. apply hup_spec in H.
  destruct H as [[_ ->]|[(_ & _ & ->)|[(_ & _ & _ & ->)|(_ & _ & _ & Hc)]]];
    try (apply rrel_eq; reflexivity).
  unfold hup_campaign in Hc. destruct tl; [eapply campaign_real_rrel; eassumption|].
  destruct (r_pre_vote r); [eapply campaign_pre_rrel|eapply campaign_real_rrel]; eassumption.
Qed.

Lemma maybe_commit_by_vote_rrel r m r' : maybe_commit_by_vote r m = Ok r' -> RR r r'.
Proof.
  intros H. apply maybe_commit_by_vote_spec in H.
  destruct H as [-> |(l' & b & _ & _ & _ & _ & Hmc & [-> |(_ & _ & _ & Hbf)])];
    [apply rrel_eq; reflexivity| |].
  - exact (lrel_log_maybe_commit Q _ _ _ _ _ Hmc).
  - eapply rrel_trans; [|eapply become_follower_rrel; exact Hbf].
    exact (lrel_log_maybe_commit Q _ _ _ _ _ Hmc).
Qed.

Lemma handle_append_entries_rrel r m r' : handle_append_entries r m = Ok r' -> RR r r'.
Proof.
  unfold handle_append_entries. intros H.
  destruct (negb (r_pending_request_snapshot r =? INVALID_INDEX)).
  { apply rrel_eq. eapply send_request_snapshot_log; exact H. }
  destruct (m_index m <? committed (r_log r)).
  { apply rrel_eq. eapply send_log; exact H. }
  inv_bind H. destruct x as [l' res]. apply (lrel_maybe_append Q) in Hx.
  destruct res as [[a b]|].
  - apply send_log in H. unfold rrel. rewrite H. exact Hx.
  - inv_bind H. destruct x as [hi [ht|]]; [|discriminate].
    apply send_log in H. unfold rrel. rewrite H. exact Hx.
Qed.

Lemma handle_heartbeat_rrel r m r' : handle_heartbeat r m = Ok r' -> RR r r'.
Proof.
  unfold handle_heartbeat. intros H. inv_bind H. apply (lrel_commit_to Q) in Hx.
  match type of H with (if ?c then _ else _) = _ => destruct c end.
  - apply send_request_snapshot_log in H. unfold rrel. rewrite H. exact Hx.
  - apply send_log in H. unfold rrel. rewrite H. exact Hx.
Qed.

Lemma post_conf_change_rrel r r' cs : post_conf_change r = Ok (r', cs) -> RR r r'.
Proof.
  unfold post_conf_change.
  set (r0 := r <| r_promotable := voters_contains (conf_of r) (r_id r) |>).
  intros H.
  assert (E0 : r_log r0 = r_log r) by reflexivity. clearbody r0.
  match type of H with (if ?c then _ else _) = _ => destruct c end;
    [inversion H; subst; apply rrel_eq; exact E0|].
  match type of H with (if ?c then _ else _) = _ => destruct c end;
    [inversion H; subst; apply rrel_eq; exact E0|].
  inv_bind H. destruct x as [r1 b]. apply maybe_commit_rrel in Hx.
  inv_bind H.
  assert (E2 : r_log x = r_log r1).
  { destruct b; [eapply bcast_append_log; exact Hx0|].
    apply lf_log. revert Hx0. apply for_each_peer_lf. intros ra id ra' Hf.
    destruct (get_pr ra id); [|discriminate]. inv_bind Hf. destruct x0 as [[rb pb] bb].
    inversion Hf; subst. eapply lf_trans; [eapply maybe_send_append_lf; eassumption|apply put_pr_lf]. }
  inv_bind H.
  assert (E3 : r_log x0 = r_log x).
  { destruct (ro_last_pending_request_ctx (r_read_only x)); [|inversion Hx1; reflexivity].
    destruct (ro_recv_ack (r_read_only x) (r_id x) l) as [ro' acks].
    destruct acks as [a|]; [|inversion Hx1; reflexivity].
    match type of Hx1 with (if ?c then _ else _) = _ => destruct c end; [|inversion Hx1; reflexivity].
    inv_bind Hx1. destruct x1 as [ro2 rss]. apply respond_reads_log in Hx1. rewrite Hx1. reflexivity. }
  inversion H; subst.
  assert (E4 : r_log (match r_lead_transferee x0 with
                      | Some e => if negb (voters_contains (conf_of x0) e)
                                  then x0 <| r_lead_transferee := None |> else x0
                      | None => x0 end) = r_log x0).
  { destruct (r_lead_transferee x0); [|reflexivity].
    destruct (negb (voters_contains (conf_of x0) n)); reflexivity. }
  unfold rrel in *. rewrite E4, E3, E2. rewrite E0 in Hx. exact Hx.
Qed.
End RaftPass.

Section RaftPass2.
Variable Q : snapshot -> Prop.
Notation RR := (rrel Q).

Lemma restore_rrel r s r' b : Q s -> restore r s = Ok (r', b) -> RR r r'.
Proof.
  unfold restore. intros HQ H.
  destruct (s_index s <? committed (r_log r)); [inversion H; subst; apply rrel_eq; reflexivity|].
  destruct (negb (role_eqb (r_state r) Follower)).
  { inv_bind H. inversion H; subst. eapply become_follower_rrel; eassumption. }
  match type of H with (if ?c then _ else _) = _ => destruct c end;
    [inversion H; subst; apply rrel_eq; reflexivity|].
  inv_bind H.
  match type of H with (if ?c then _ else _) = _ => destruct c end.
  { inv_bind H. inversion H; subst. exact (lrel_commit_to Q _ _ _ Hx0). }
  inv_bind H. pose proof (lrel_log_restore Q _ _ _ HQ Hx0) as A.
  destruct (ConfChange.restore empty_tracker (s_cs s)) as [[c' ids']|e]; [|discriminate].
  inv_bind H. destruct x1 as [r1 new_cs]. apply (post_conf_change_rrel Q) in Hx1.
  match type of H with (if ?c then _ else _) = _ => destruct c end; [discriminate|].
  destruct (get_pr r1 (r_id r1)) as [pr|]; [|discriminate].
  destruct (next_idx pr =? 0); [discriminate|]. inversion H; subst.
  unfold rrel in *. cbn in *. eapply lrel_trans; [exact A|exact Hx1].
Qed.

Lemma handle_snapshot_rrel r m r' : Q (m_snapshot m) -> handle_snapshot r m = Ok r' -> RR r r'.
Proof.
  unfold handle_snapshot. intros HQ H. inv_bind H. destruct x as [r1 ok].
  apply (restore_rrel _ _ _ _ HQ) in Hx.
  destruct ok; apply send_log in H; unfold rrel in *; rewrite H; exact Hx.
Qed.

Lemma handle_append_response_rrel r m r' : handle_append_response r m = Ok r' -> RR r r'.
Proof.
  unfold handle_append_response. intros H. inv_bind H. clear Hx.
  destruct (get_pr r (m_from m)) as [pr|]; [|inversion H; subst; apply rrel_eq; reflexivity].
  destruct (m_reject m).
  { destruct (maybe_decr_to _ _ _ _) as [pr1 dec]. destruct dec.
    - apply send_append_to_log in H. apply rrel_eq. exact H.
    - inversion H; subst. apply rrel_eq; reflexivity. }
  destruct (maybe_update _ _) as [pr1 upd]. destruct upd; cbn [negb] in H.
  2:{ inversion H; subst. apply rrel_eq; reflexivity. }
  inv_bind H. clear Hx. inv_bind H. destruct x1 as [r1 cmt].
  apply (maybe_commit_rrel Q) in Hx. inv_bind H. inv_bind H.
  assert (E2 : r_log x1 = r_log r1).
  { destruct cmt.
    - destruct (should_bcast_commit r1); [eapply bcast_append_log; eassumption|].
      inversion Hx0; reflexivity.
    - destruct (is_paused _); [eapply send_append_to_log; eassumption|].
      inversion Hx0; reflexivity. }
  apply send_append_aggressively_log in Hx1.
  assert (E4 : r_log r' = r_log x2).
  { destruct (r_lead_transferee x2); [|inversion H; reflexivity].
    destruct (n =? m_from m); [|inversion H; reflexivity].
    destruct (get_pr x2 (m_from m)); [|discriminate].
    destruct (matched p =? last_index (r_log x2)); [eapply send_timeout_now_log; exact H|].
    inversion H; reflexivity. }
  unfold rrel in *. rewrite E4, Hx1, E2. exact Hx.
Qed.

Lemma step_leader_rrel r m r' c : step_leader r m = Ok (r', c) -> RR r r'.
Proof.
  unfold step_leader. intros H.
  destruct (m_type m =? MsgBeat).
  { inv_bind H. inversion H; subst. apply rrel_eq. eapply bcast_heartbeat_log; exact Hx. }
  destruct (m_type m =? MsgCheckQuorum).
  { destruct (quorum_recently_active (r_prs r) (r_id r)) as [prs' active] eqn:Eq.
    destruct active; cbn [negb] in H.
    - inversion H; subst. apply rrel_eq; reflexivity.
    - inv_bind H. inversion H; subst. eapply (become_follower_rrel Q) in Hx. exact Hx. }
  destruct (m_type m =? MsgPropose).
  { destruct (m_entries m) as [|e0 es] eqn:Ee; [discriminate|]. rewrite <- Ee in *.
    destruct (get_pr r (r_id r)); [|inversion H; subst; apply rrel_eq; reflexivity].
    destruct (r_lead_transferee r); [inversion H; subst; apply rrel_eq; reflexivity|].
    dfilter H. pose proof (filter_conf_changes_log _ _ _ _ _ _ _ F) as El.
    destruct c0; cbn [negb] in H; [|inversion H; subst; apply rrel_eq; exact El].
    inv_bind H. destruct x as [r2 appended]. apply (append_entry_rrel Q) in Hx.
    assert (H2 : RR r r2) by (unfold rrel in *; rewrite El in Hx; exact Hx).
    destruct appended; cbn [negb] in H.
    - inv_bind H. inversion H; subst. apply bcast_append_log in Hx0.
      unfold rrel in *. rewrite Hx0. exact H2.
    - inversion H; subst. exact H2. }
  destruct (m_type m =? MsgReadIndex).
  { inv_bind H. destruct (negb x); [inversion H; subst; apply rrel_eq; reflexivity|].
    assert (Hans : forall ra c',
      (x0 <- handle_ready_read_index r m (committed (r_log r)) ;;
       let '(r1, om) := x0 in
       r2 <- match om with Some mm => send r1 mm | None => Ok r1 end ;; Ok (r2, E_OK)) = Ok (ra, c') ->
      RR r ra).
    { intros ra c' Ha. inv_bind Ha. destruct x0 as [r1 om]. inv_bind Ha. inversion Ha; subst.
      apply handle_ready_read_index_log in Hx0. apply rrel_eq.
      destruct om; [apply send_log in Hx1|inversion Hx1; subst]; congruence. }
    match type of H with (if ?c then _ else _) = _ => destruct c end; [eapply Hans; exact H|].
    destruct (ro_option (r_read_only r) =? 0); [|eapply Hans; exact H].
    inv_bind H. inv_bind H. inv_bind H. inversion H; subst.
    apply bcast_heartbeat_with_ctx_log in Hx2. apply rrel_eq. exact Hx2. }
  destruct (m_type m =? MsgAppendResponse).
  { inv_bind H. inversion H; subst. eapply handle_append_response_rrel; eassumption. }
  destruct (m_type m =? MsgHeartbeatResponse).
  { inv_bind H. inversion H; subst. apply rrel_eq. eapply handle_heartbeat_response_log; eassumption. }
  destruct (m_type m =? MsgSnapStatus).
  { inv_bind H. inversion H; subst. apply rrel_eq. eapply handle_snapshot_status_log; eassumption. }
  destruct (m_type m =? MsgUnreachable).
  { inv_bind H. inversion H; subst. apply rrel_eq. eapply handle_unreachable_log; eassumption. }
  destruct (m_type m =? MsgTransferLeader).
  { inv_bind H. inversion H; subst. apply rrel_eq. eapply handle_transfer_leader_log; eassumption. }
  inversion H; subst. apply rrel_eq; reflexivity.
Qed.

(* the only new pending snapshot a stepped message can install is its own *)
Definition snap_of (m : msg) (s : snapshot) : Prop := m_type m = MsgSnapshot /\ s = m_snapshot m.

Lemma step_candidate_rrel r m r' c :
  (m_type m = MsgSnapshot -> Q (m_snapshot m)) -> step_candidate r m = Ok (r', c) -> RR r r'.
Proof.
  unfold step_candidate. intros HQ H.
  destruct (m_type m =? MsgPropose). { inversion H; subst. apply rrel_eq; reflexivity. }
  match type of H with (if ?c then _ else _) = _ => destruct c eqn:E1 end.
  { destruct (negb (r_term r =? m_term m)); [discriminate|].
    inv_bind H. apply (become_follower_rrel Q) in Hx. inv_bind H. inversion H; subst.
    eapply rrel_trans; [exact Hx|].
    destruct (m_type m =? MsgAppend) eqn:Ea; [eapply handle_append_entries_rrel; eassumption|].
    destruct (m_type m =? MsgHeartbeat) eqn:Eh; [eapply handle_heartbeat_rrel; eassumption|].
    cbn [orb] in E1. apply N.eqb_eq in E1. eapply handle_snapshot_rrel; [exact (HQ E1)|eassumption]. }
  match type of H with (if ?c then _ else _) = _ => destruct c end.
  2:{ inversion H; subst. apply rrel_eq; reflexivity. }
  match type of H with (if ?c then _ else _) = _ => destruct c end.
  { inversion H; subst. apply rrel_eq; reflexivity. }
  inv_bind H. destruct x as [r1 res]. inv_bind H. inversion H; subst. cbn [fst] in Hx0.
  eapply rrel_trans; [eapply poll_rrel; exact Hx|eapply maybe_commit_by_vote_rrel; exact Hx0].
Qed.

Lemma step_follower_rrel r m r' c :
  (m_type m = MsgSnapshot -> Q (m_snapshot m)) -> step_follower r m = Ok (r', c) -> RR r r'.
Proof.
  unfold step_follower. intros HQ H.
  destruct (m_type m =? MsgPropose).
  { destruct (r_leader_id r =? INVALID_ID); [inversion H; subst; apply rrel_eq; reflexivity|].
    destruct (r_disable_proposal_forwarding r); [inversion H; subst; apply rrel_eq; reflexivity|].
    inv_bind H. inversion H; subst. apply rrel_eq. eapply send_log; eassumption. }
  destruct (m_type m =? MsgAppend).
  { inv_bind H. inversion H; subst. apply (handle_append_entries_rrel Q) in Hx. exact Hx. }
  destruct (m_type m =? MsgHeartbeat).
  { inv_bind H. inversion H; subst. apply (handle_heartbeat_rrel Q) in Hx. exact Hx. }
  destruct (m_type m =? MsgSnapshot) eqn:Es.
  { apply N.eqb_eq in Es. inv_bind H. inversion H; subst.
    apply (handle_snapshot_rrel _ _ _ (HQ Es)) in Hx. exact Hx. }
  destruct (m_type m =? MsgTransferLeader).
  { destruct (r_leader_id r =? INVALID_ID); [inversion H; subst; apply rrel_eq; reflexivity|].
    inv_bind H. inversion H; subst. apply rrel_eq. eapply send_log; eassumption. }
  destruct (m_type m =? MsgTimeoutNow).
  { destruct (r_promotable r); [|inversion H; subst; apply rrel_eq; reflexivity].
    inv_bind H. inversion H; subst. eapply hup_rrel; eassumption. }
  destruct (m_type m =? MsgReadIndex).
  { destruct (r_leader_id r =? INVALID_ID); [inversion H; subst; apply rrel_eq; reflexivity|].
    inv_bind H. inversion H; subst. apply rrel_eq. eapply send_log; eassumption. }
  destruct (m_type m =? MsgReadIndexResp).
  { destruct (m_entries m) as [|e [|e2 es]]; try (inversion H; subst; apply rrel_eq; reflexivity).
    inv_bind H. inversion H; subst. destruct x as [l' b].
    exact (lrel_log_maybe_commit Q _ _ _ _ _ Hx). }
  inversion H; subst. apply rrel_eq; reflexivity.
Qed.

Lemma step_body_rrel r m r' c :
  (m_type m = MsgSnapshot -> Q (m_snapshot m)) -> step_body r m = Ok (r', c) -> RR r r'.
Proof.
  unfold step_body. intros HQ H.
  destruct (m_type m =? MsgHup).
  { inv_bind H. inversion H; subst. eapply hup_rrel; eassumption. }
  match type of H with (if ?c then _ else _) = _ => destruct c end.
  { inv_bind H. inv_bind H.
    match type of H with (if ?c then _ else _) = _ => destruct c end.
    - inv_bind H. apply send_log in Hx1.
      destruct (m_type m =? MsgRequestVote); inversion H; subst; apply rrel_eq; exact Hx1.
    - inv_bind H. inv_bind H. inv_bind H. inversion H; subst. apply send_log in Hx2.
      eapply rrel_trans; [apply rrel_eq; exact Hx2|eapply maybe_commit_by_vote_rrel; exact Hx3]. }
  unfold step_role in H. destruct (r_state r).
  - eapply step_follower_rrel; eassumption.
  - eapply step_candidate_rrel; eassumption.
  - eapply step_leader_rrel; eassumption.
  - eapply step_candidate_rrel; eassumption.
Qed.

Theorem step_rrel r m r' c :
  (m_type m = MsgSnapshot -> Q (m_snapshot m)) -> step r m = Ok (r', c) -> RR r r'.
Proof.
  intros HQ H. rewrite step_decompose in H. inv_bind H. apply step_prologue_spec in Hx.
  destruct x as [[r1 c1]|r1].
  - inversion H; subst. apply rrel_eq. apply lf_log. apply Hx.
  - destruct Hx as [-> |(_ & l & Hbf)]; [eapply step_body_rrel; eassumption|].
    eapply rrel_trans; [eapply become_follower_rrel; exact Hbf|eapply step_body_rrel; eassumption].
Qed.

Lemma step_plain_rrel r m r' c : m_type m <> MsgSnapshot -> step r m = Ok (r', c) -> RR r r'.
Proof. intros Hn. apply step_rrel. intros E. contradiction. Qed.

Theorem tick_rrel r r' b : tick r = Ok (r', b) -> RR r r'.
Proof.
  unfold tick. intros H.
  assert (Hel : forall ra b', tick_election r = Ok (ra, b') -> RR r ra).
  { unfold tick_election. intros ra b' He.
    match type of He with (if ?c then _ else _) = _ => destruct c end;
      [inversion He; subst; apply rrel_eq; reflexivity|].
    inv_bind He. inversion He; subst. destruct x as [r1 c]. cbn [fst].
    apply step_plain_rrel in Hx; [exact Hx|cbn; discriminate]. }
  assert (Hhb : forall ra b', tick_heartbeat r = Ok (ra, b') -> RR r ra).
  { unfold tick_heartbeat. intros ra b' He. inv_bind He. destruct x as [r1 hr].
    assert (H1 : RR r r1).
    { match type of Hx with (if ?c then _ else _) = _ => destruct c end;
        [|inversion Hx; subst; apply rrel_eq; reflexivity].
      inv_bind Hx. destruct x as [rb hb]. inversion Hx; subst.
      assert (Hb : RR r rb).
      { destruct (r_check_quorum _); [|inversion Hx0; subst; apply rrel_eq; reflexivity].
        inv_bind Hx0. inversion Hx0; subst. destruct x as [rc cc]. cbn [fst].
        apply step_plain_rrel in Hx1; [exact Hx1|cbn; discriminate]. }
      match goal with |- RR r (if ?c then _ else _) => destruct c end; exact Hb. }
    destruct (negb (is_leader r1)); [inversion He; subst; exact H1|].
    match type of He with (if ?c then _ else _) = _ => destruct c end; [|inversion He; subst; exact H1].
    inv_bind He. inversion He; subst. destruct x as [rb cb]. cbn [fst].
    eapply rrel_trans; [exact H1|]. apply step_plain_rrel in Hx0; [exact Hx0|cbn; discriminate]. }
  destruct (r_state r); first [eapply Hel; exact H|eapply Hhb; exact H].
Qed.

Theorem on_persist_entries_rrel r i t r' : on_persist_entries r i t = Ok r' -> RR r r'.
Proof.
  unfold on_persist_entries. intros H. inv_bind H. destruct x as [l' upd].
  apply (lrel_maybe_persist Q) in Hx.
  match type of H with (if ?c then _ else _) = _ => destruct c end; [|inversion H; subst; exact Hx].
  match type of H with (match ?g with _ => _ end) = _ => destruct g as [pr|] end;
    [|inversion H; subst; exact Hx].
  destruct (maybe_update pr i) as [pr' u]. destruct u; [|inversion H; subst; exact Hx].
  inv_bind H. destruct x as [r1 c]. apply (maybe_commit_rrel Q) in Hx0.
  assert (H1 : RR r r1) by (unfold rrel in *; cbn in Hx0; eapply lrel_trans; eassumption).
  match type of H with (if ?c then _ else _) = _ => destruct c end.
  - apply bcast_append_log in H. unfold rrel in *. rewrite H. exact H1.
  - inversion H; subst. exact H1.
Qed.

Theorem on_persist_snap_rrel r i r' : on_persist_snap r i = Ok r' -> RR r r'.
Proof.
  unfold on_persist_snap. intros H. inv_bind H. destruct x as [l' b]. inversion H; subst.
  exact (lrel_maybe_persist_snap Q _ _ _ _ Hx).
Qed.

Theorem raft_apply_conf_change_rrel r cc r' ocs : raft_apply_conf_change r cc = Ok (r', ocs) -> RR r r'.
Proof.
  unfold raft_apply_conf_change. intros H.
  match type of H with (match ?g with _ => _ end) = _ => destruct g as [[c' chs]|e] end.
  - inv_bind H. destruct x as [r1 cs]. inversion H; subst. cbn [fst].
    apply (post_conf_change_rrel Q) in Hx. exact Hx.
  - inversion H; subst. apply rrel_eq; reflexivity.
Qed.

(* commit_apply: the one call that moves applied *)
Theorem commit_apply_rel r a r' :
  commit_apply r a = Ok r' ->
  lrel0 Q (r_log r) (r_log r')
  /\ applied (r_log r') = (if a =? 0 then applied (r_log r) else a)
  /\ (a <> 0 -> applied (r_log r) <= a <= committed (r_log r)).
Proof.
  unfold commit_apply, commit_apply_internal. cbn [negb]. intros H. inv_bind H.
  assert (Ha : lrel0 Q (r_log r) x /\ applied x = (if a =? 0 then applied (r_log r) else a)
               /\ (a <> 0 -> applied (r_log r) <= a <= committed (r_log r))).
  { unfold applied_to in Hx. destruct (a =? 0) eqn:E0.
    - inversion Hx; subst. split; [apply lrel0_refl|]. split; [reflexivity|]. intros C. lia.
    - destruct (_ || _) eqn:E1; [discriminate|]. inversion Hx; subst.
      split; [|split; [reflexivity|intros _; lia]].
      unfold lrel0. cbn. splits; auto. lia. }
  destruct Ha as (A1 & A2 & A3).
  match type of H with (if ?c then _ else _) = _ => destruct c end;
    [|inversion H; subst; splits; assumption].
  inv_bind H. destruct x0 as [r1 ok]. destruct ok; cbn [negb] in H; [|discriminate].
  inversion H; subst. cbn. apply (append_entry_rrel Q) in Hx0. destruct Hx0 as [B1 B2]. cbn in B1, B2.
  splits; [eapply lrel0_trans; eassumption|congruence|exact A3].
Qed.
End RaftPass2.

(* ---- M/RawNode.v: the calls that neither produce nor consume a Ready ---- *)
Definition idle_op (o : op) : bool :=
  match o with
  | OStep _ | OTick | OCampaign | OPropose _ _ | OProposeCC _ _ _ _ | OApplyCC _ | OPing
  | OReportUnreachable _ | OReportSnapshot _ _ | ORequestSnapshot | OTransferLeader _
  | OReadIndex _ => true
  | _ => false
  end.

Definition op_snap (o : op) (s : snapshot) : Prop :=
  match o with OStep m => snap_of m s | _ => False end.

Lemma set_raft_frames (n : rawnode) r :
  rn_records (n <| rn_raft := r |>) = rn_records n
  /\ rn_max_number (n <| rn_raft := r |>) = rn_max_number n
  /\ rn_commit_since_index (n <| rn_raft := r |>) = rn_commit_since_index n.
Proof. repeat split. Qed.

Theorem idle_exec_rel n o n' ot :
  idle_op o = true -> exec n o = Ok (n', ot) ->
  lrel (op_snap o) (nlog n) (nlog n')
  /\ rn_records n' = rn_records n /\ rn_max_number n' = rn_max_number n
  /\ rn_commit_since_index n' = rn_commit_since_index n /\ ot = no_out.
Proof.
  intros Hi H. unfold nlog.
  assert (Hplain : forall m x, step (rn_raft n) m = Ok x -> m_type m <> MsgSnapshot ->
            lrel (op_snap o) (r_log (rn_raft n)) (r_log (fst x))).
  { intros m [r1 c1] Hs Hn. cbn [fst]. eapply step_plain_rrel; eassumption. }
  destruct o; try discriminate Hi; cbn [exec] in H; unfold quiet, quiet1 in H;
    inv_bind H; inversion H; subst; clear H; cbn [fst].
  - (* step *)
    unfold rn_step, lift2 in Hx. destruct (is_local_msg (m_type m)).
    { inversion Hx; subst. splits; auto. apply lrel_refl. }
    match type of Hx with (if ?c then _ else _) = _ => destruct c end.
    2:{ inversion Hx; subst. splits; auto. apply lrel_refl. }
    inv_bind Hx. destruct x0 as [r1 c1]. inversion Hx; subst. cbn [fst]. splits; auto. cbn.
    eapply (step_rrel (snap_of m)); [|exact Hx0]. intros E. split; [exact E|reflexivity].
  - unfold rn_tick in Hx. inv_bind Hx. destruct x0 as [r1 b1]. inversion Hx; subst. cbn [fst].
    splits; auto. cbn. eapply tick_rrel; exact Hx0.
  - unfold rn_campaign, lift2 in Hx. inv_bind Hx. inversion Hx; subst. cbn [fst]. splits; auto. cbn.
    eapply Hplain; [exact Hx0|cbn; discriminate].
  - unfold rn_propose, lift2 in Hx. inv_bind Hx. inversion Hx; subst. cbn [fst]. splits; auto. cbn.
    eapply Hplain; [exact Hx0|cbn; discriminate].
  - unfold rn_propose_conf_change, lift2 in Hx. inv_bind Hx. inversion Hx; subst. cbn [fst]. splits; auto. cbn.
    eapply Hplain; [exact Hx0|cbn; discriminate].
  - unfold rn_apply_conf_change in Hx. inv_bind Hx. destruct x0 as [r1 o1]. inversion Hx; subst. cbn [fst].
    splits; auto. cbn. eapply raft_apply_conf_change_rrel; exact Hx0.
  - unfold rn_ping, lift in Hx. inv_bind Hx. inversion Hx; subst. splits; auto. cbn.
    apply rrel_eq. eapply ping_log; exact Hx0.
  - unfold rn_report_unreachable in Hx. inv_bind Hx. inversion Hx; subst. splits; auto. cbn.
    eapply Hplain; [exact Hx0|cbn; discriminate].
  - unfold rn_report_snapshot in Hx. inv_bind Hx. inversion Hx; subst. splits; auto. cbn.
    eapply Hplain; [exact Hx0|cbn; discriminate].
  - unfold rn_request_snapshot, lift2 in Hx. inv_bind Hx. inversion Hx; subst. cbn [fst]. splits; auto. cbn.
    apply rrel_eq. destruct x0 as [ra ca]. eapply request_snapshot_log. exact Hx0.
  - unfold rn_transfer_leader in Hx. inv_bind Hx. inversion Hx; subst. splits; auto. cbn.
    eapply Hplain; [exact Hx0|cbn; discriminate].
  - unfold rn_read_index in Hx. inv_bind Hx. inversion Hx; subst. splits; auto. cbn.
    eapply Hplain; [exact Hx0|cbn; discriminate].
Qed.

(* ================================================================== *)
(* Part 2. The application: ghost state, contract, environment          *)
(* ================================================================== *)

(* where the application is in persisting the Ready it holds *)
Inductive wstage := WSnap | WEnts | WDone.
Inductive phase := Idle | Writing (rd : ready) (st : wstage).

Record appstate := mkApp {
  a_store : MemStorage.mem;   (* the application's Storage (the library only reads it) *)
  a_phase : phase;            (* the Ready being persisted, if any *)
  a_hist : hist;              (* C07's history variable: everything handed out for apply *)
  a_applied : N;              (* the applied index last reported to the library *)
  a_got : bool                (* some committed entry has been handed out *)
}.

(* the hand-out cursor as the application sees it (= commit_since_index) *)
Definition a_cursor (a : appstate) : N := fst (a_hist a) + N.of_nat (length (snd (a_hist a))).

(* after ready(): the snapshot first (when the Ready carries one), then the entries *)
Definition stage1 (rd : ready) : wstage := match rd_entries rd with [] => WDone | _ => WEnts end.
Definition stage0 (rd : ready) : wstage :=
  if s_index (rd_snapshot rd) =? 0 then stage1 rd else WSnap.

(* a write that leaves entries and snapshot point alone (hard state, conf state) *)
Definition meta_write (st m : MemStorage.mem) : Prop :=
  entries m = entries st /\ snap_index m = snap_index st /\ snap_term m = snap_term st
  /\ trig_log m = trig_log st.

(* THE CONTRACT: what a contract-abiding application may do in ghost state [a] *)
Definition app_ok (a : appstate) (o : op) : Prop :=
  match o with
  (* no library call between ready() and the advance call of that Ready *)
  | OStep _ | OTick | OCampaign | OPropose _ _ | OProposeCC _ _ _ _ | OPing
  | OReportUnreachable _ | OReportSnapshot _ _ | ORequestSnapshot | OTransferLeader _
  | OReadIndex _ | OReady | OOnPersistReady _ | OAdvanceApply => a_phase a = Idle
  (* a membership change is applied only for a committed entry that was handed out *)
  | OApplyCC _ => a_phase a = Idle /\ a_got a = true
  (* advance only with the Ready just received, after it has been written in full *)
  | OAdvance rd | OAdvanceAppend rd | OAdvanceAppendAsync rd => a_phase a = Writing rd WDone
  (* report applied only up to what was handed out *)
  | OAdvanceApplyTo x => a_phase a = Idle /\ x <= a_cursor a
  (* storage writes: exactly the Ready (snapshot, then entries); hard/conf state at any
     time; compaction only when no Ready is being persisted, at or below the applied index
     reported to the library, keeping the entry at the compaction index *)
  | OSetStore m =>
      meta_write (a_store a) m
      \/ match a_phase a with
         | Writing rd WSnap => apply_snapshot (a_store a) (rd_snapshot rd) = Ok (m, SOk tt)
         | Writing rd WEnts => append (a_store a) (rd_entries rd) = Ok m
         | Writing _ WDone => False
         | Idle => exists ci, compact (a_store a) ci = Ok m /\ ci <= a_applied a
                              /\ ci < next_of (a_store a)
         end
  end.

(* how the ghost state follows one call; [n] is the node the call is made on, used only
   for what the call RETURNS (the Ready of ready(); [ot] is exec's output) *)
Definition with_obs (a : appstate) (ot : out) (st : MemStorage.mem) (ph : phase) (ap : N) : appstate :=
  mkApp st ph (hist_step (a_hist a) ot) ap (a_got a || nonempty (snd ot)).

Inductive app_next (a : appstate) (n : rawnode) : op -> out -> appstate -> Prop :=
| AN_idle o ot : idle_op o = true -> app_ok a o ->
    app_next a n o ot (with_obs a ot (a_store a) Idle (a_applied a))
| AN_ready n1 rd ot : a_phase a = Idle -> rn_ready n = Ok (n1, rd) ->
    app_next a n OReady ot (with_obs a ot (a_store a) (Writing rd (stage0 rd)) (a_applied a))
| AN_meta m ot : meta_write (a_store a) m ->
    app_next a n (OSetStore m) ot (with_obs a ot m (a_phase a) (a_applied a))
| AN_snap rd m ot : a_phase a = Writing rd WSnap ->
    apply_snapshot (a_store a) (rd_snapshot rd) = Ok (m, SOk tt) ->
    app_next a n (OSetStore m) ot (with_obs a ot m (Writing rd (stage1 rd)) (a_applied a))
| AN_ents rd m ot : a_phase a = Writing rd WEnts ->
    append (a_store a) (rd_entries rd) = Ok m ->
    app_next a n (OSetStore m) ot (with_obs a ot m (Writing rd WDone) (a_applied a))
| AN_compact ci m ot : a_phase a = Idle ->
    compact (a_store a) ci = Ok m -> ci <= a_applied a -> ci < next_of (a_store a) ->
    app_next a n (OSetStore m) ot (with_obs a ot m Idle (a_applied a))
| AN_advance rd ot : a_phase a = Writing rd WDone ->
    app_next a n (OAdvance rd) ot
      (with_obs a ot (a_store a) Idle (if a_cursor a =? 0 then a_applied a else a_cursor a))
| AN_advance_append rd ot : a_phase a = Writing rd WDone ->
    app_next a n (OAdvanceAppend rd) ot (with_obs a ot (a_store a) Idle (a_applied a))
| AN_advance_async rd ot : a_phase a = Writing rd WDone ->
    app_next a n (OAdvanceAppendAsync rd) ot (with_obs a ot (a_store a) Idle (a_applied a))
| AN_persist k ot : a_phase a = Idle ->
    app_next a n (OOnPersistReady k) ot (with_obs a ot (a_store a) Idle (a_applied a))
| AN_apply ot : a_phase a = Idle ->
    app_next a n OAdvanceApply ot
      (with_obs a ot (a_store a) Idle (if a_cursor a =? 0 then a_applied a else a_cursor a))
| AN_apply_to x ot : a_phase a = Idle -> x <= a_cursor a ->
    app_next a n (OAdvanceApplyTo x) ot
      (with_obs a ot (a_store a) Idle (if x =? 0 then a_applied a else x)).

Lemma app_next_ok a n o ot a' : app_next a n o ot a' -> app_ok a o.
Proof.
  intros H. destruct H; cbn [app_ok]; auto.
  - right. rewrite H. exact H0.
  - right. rewrite H. exact H0.
  - right. rewrite H. eauto.
Qed.

(* the environment: messages as a library peer builds them *)
Definition peer_msgs_ok (m : msg) : Prop :=
  (m_type m = MsgAppend ->
     contiguous_from (m_index m + 1) (m_entries m) /\ nz_terms (m_entries m)
     /\ m_index m + N.of_nat (length (m_entries m)) < u64_max
     /\ (m_index m = 0 \/ m_log_term m <> 0))
  /\ (m_type m = MsgSnapshot -> 1 <= s_index (m_snapshot m) < u64_max).

Definition peer_ok (o : op) : Prop := match o with OStep m => peer_msgs_ok m | _ => True end.

(* u64 head-room, plain arithmetic on the last index: one more entry (a new leader's empty
   entry, an auto-leave entry) plus the entries of a stepped proposal must fit *)
Definition op_len (o : op) : N :=
  match o with OStep m => N.of_nat (length (m_entries m)) | _ => 0 end.
Definition idx_margin (n : rawnode) (o : op) : Prop := nlast n + 1 + op_len o < u64_max.

(* records whose snapshot the storage must already hold *)
Definition recs_done (a : appstate) (n : rawnode) : list ready_record :=
  match a_phase a with
  | Writing _ WSnap => removelast (rn_records n)
  | _ => rn_records n
  end.

Definition phase_ok (a : appstate) (n : rawnode) : Prop :=
  match a_phase a with
  | Idle => True
  | Writing rd st =>
      let l := nlog n in
      let rr := List.last (rn_records n) rr_default in
      rn_records n <> []
      /\ rd_entries rd = u_entries (unst l)
      /\ rd_snapshot rd = match u_snapshot (unst l) with Some s => s | None => snap_default end
      /\ rr_last_entry rr = rec_last_of (u_entries (unst l))
      /\ rr_snapshot rr = option_map (fun s => (s_index s, s_term s)) (u_snapshot (unst l))
      /\ (forall s, u_snapshot (unst l) = Some s -> rn_commit_since_index n = s_index s)
      /\ match st with
         | WSnap => u_snapshot (unst l) <> None
         | WEnts => snap_written l /\ u_entries (unst l) <> []
         | WDone => snap_written l /\ (u_entries (unst l) <> [] -> ents_written l)
         end
  end.

(* the coupling invariant between the application's view and the node *)
Record Good (a : appstate) (n : rawnode) : Prop := mkGood {
  g_good : NGood false n;
  g_store : a_store a = store (nlog n);
  g_hist : Hist n (a_hist a);
  g_applied : a_applied a = applied (nlog n);
  g_app_le : applied (nlog n) <= rn_commit_since_index n;
  g_csi_commit : rn_commit_since_index n <= committed (nlog n);
  g_csi_stable : rn_commit_since_index n < u_offset (unst (nlog n));
  g_limit : max_apply_unpersisted_log_limit (nlog n) = 0;
  g_first : first_of (store (nlog n)) <= rn_commit_since_index n + 1;
  g_snap_pos : forall s, u_snapshot (unst (nlog n)) = Some s -> 1 <= s_index s;
  g_got : a_got a = true -> 1 <= committed (nlog n);
  g_recs : forall rr i t, In rr (recs_done a n) -> rr_snapshot rr = Some (i, t) ->
                          i < first_of (store (nlog n));
  g_phase : phase_ok a n
}.

Lemma Good_cursor a n : Good a n -> a_cursor a = rn_commit_since_index n.
Proof. intros G. destruct (g_hist a n G) as [_ E]. unfold a_cursor. symmetry. exact E. Qed.

Lemma Good_NLI a n : Good a n -> NLI false n.
Proof. intros G. exact (proj1 (proj2 (g_good a n G))). Qed.

Lemma Good_CsiOK a n : Good a n -> CsiOK n.
Proof. intros G. exact (proj2 (proj2 (g_good a n G))). Qed.

(* ================================================================== *)
(* Part 3. One contract-abiding call                                    *)
(* ================================================================== *)

(* ---- the side conditions of C14 / C07 / C20 follow from the contract ---- *)
Lemma fold_records_snap recs : forall number i t si,
  snd (fold_records recs number i t si) = si
  \/ exists rr ti, In rr recs /\ rr_snapshot rr = Some (snd (fold_records recs number i t si), ti).
Proof.
  induction recs as [|rr rest IH]; intros number i t si; cbn [fold_records]; [left; reflexivity|].
  destruct (number <? rr_number rr); [left; reflexivity|].
  destruct (rr_snapshot rr) as [[si' ti']|] eqn:Es.
  - destruct (rr_last_entry rr) as [[a b]|];
      match goal with |- context [fold_records rest number ?x ?y ?z] =>
        destruct (IH number x y z) as [E|(r & ti & Hin & E)] end;
      try (right; exists r, ti; split; [right; exact Hin|exact E]);
      right; exists rr, ti'; (split; [left; reflexivity|]); rewrite E; exact Es.
  - destruct (rr_last_entry rr) as [[a b]|];
      match goal with |- context [fold_records rest number ?x ?y ?z] =>
        destruct (IH number x y z) as [E|(r & ti & Hin & E)] end;
      try (left; exact E); right; exists r, ti; (split; [right; exact Hin|exact E]).
Qed.

Lemma persist_pre_of_recs n number :
  (forall rr i t, In rr (rn_records n) -> rr_snapshot rr = Some (i, t) -> i < first_of (store (nlog n))) ->
  persist_pre n number.
Proof.
  intros Hr. unfold persist_pre.
  destruct (fold_records_snap (rn_records n) number 0 0 0) as [E|(rr & ti & Hin & E)].
  - rewrite E. intros C. lia.
  - intros _. pose proof (Hr rr _ ti Hin E). pose proof (first_le_next (store (nlog n))). lia.
Qed.

Lemma peer_msg_wf n m : peer_msgs_ok m -> idx_margin n (OStep m) -> msg_wf (nlast n) m.
Proof.
  intros [Pa Ps] Hm. unfold idx_margin, op_len in Hm. unfold msg_wf. splits.
  - intros _. lia.
  - intros _. lia.
  - intros E. destruct (Pa E) as (A & _ & B & _). split; assumption.
  - intros E. exact (proj2 (Ps E)).
Qed.

Lemma ll_first_abs rw l : RepInv rw l ->
  ll_first (abs l) = match u_snapshot (unst l) with
                     | Some s => s_index s + 1 | None => first_of (store l) end.
Proof.
  intros H. unfold ll_first, abs. destruct (u_snapshot (unst l)); cbn [ll_base]; [reflexivity|].
  pose proof (first_pos _ (ri_store rw l H)). lia.
Qed.

Lemma is_setstore_dec (o : op) : {m | o = OSetStore m} + {forall m, o <> OSetStore m}.
Proof. destruct o; try (right; intros m' E; discriminate). left. eauto. Qed.

Theorem side_ok a n o :
  Good a n -> app_ok a o -> peer_ok o -> idx_margin n o -> (forall m, o <> OSetStore m) ->
  op_wf2 n o /\ op_pre_node2 n o.
Proof.
  intros G Ha Hp Hm Hns.
  pose proof (Good_NLI a n G) as HI. pose proof (g_phase a n G) as Hph.
  assert (Hroom : nroom 1 n) by (unfold idx_margin in Hm; unfold nroom, room; fold (nlog n); fold (nlast n); lia).
  (* the advance calls: the Ready is in the storage *)
  assert (Hadv : forall rd, a_phase a = Writing rd WDone ->
            advance_pre n /\
            (forall n1 n2, commit_ready n rd = Ok n1 -> rn_on_persist_ready n1 (rn_max_number n1) = Ok n2 ->
               ll_first (abs (nlog n2)) <= rn_commit_since_index n2 + 1)).
  { intros rd Ep. unfold phase_ok in Hph. rewrite Ep in Hph.
    destruct Hph as (Hne & He & Hs & Hle & Hsn & Hcs & Hsw & Hew).
    assert (Hcp : commit_pre n).
    { unfold commit_pre. split; [intros _; exact Hsw|].
      intros Hl. apply Hew. rewrite Hle in Hl. unfold rec_last_of in Hl.
      destruct (u_entries (unst (nlog n))); [congruence|discriminate]. }
    assert (Hpp : forall k, persist_pre n k).
    { intros k. apply persist_pre_of_recs. intros rr i t Hin Hsn'.
      apply (g_recs a n G rr i t); [|exact Hsn']. unfold recs_done. rewrite Ep. exact Hin. }
    split; [split; [exact Hcp|apply Hpp]|].
    intros n1 n2 H1 H2.
    destruct (commit_ready_pres false _ _ _ H1 Hcp HI) as (A1 & B1 & C1 & (_ & D2 & _) & E1 & F1).
    assert (P2' : persist_pre n1 (rn_max_number n1)).
    { pose proof (Hpp (rn_max_number n)) as P2. unfold persist_pre in *. rewrite E1, F1, D2, C1. exact P2. }
    destruct (rn_on_persist_ready_pres false _ _ _ H2 P2' A1) as (_ & S2).
    rewrite (same_su_abs _ _ S2), B1, (on_persist_ready_csi _ _ _ H2), (commit_ready_csi _ _ _ H1).
    rewrite (ll_first_abs false (nlog n) HI).
    destruct (u_snapshot (unst (nlog n))) as [s|] eqn:Es.
    - rewrite (Hcs s eq_refl). lia.
    - exact (g_first a n G). }
  destruct o; cbn [app_ok peer_ok] in Ha, Hp; try (exfalso; eapply Hns; reflexivity).
  - (* step *)
    pose proof (peer_msg_wf n m Hp Hm) as W. destruct Hp as [Pa Ps].
    split; [split; [exact W|split]|split; [exact W|exact I]].
    + intros E. destruct (Pa E) as (A & B & C0 & D). split; [split; assumption|].
      split; [exact B|]. destruct D as [D|D]; [left; lia|right; exact D].
    + intros E. exact (proj1 (Ps E)).
  - split; [split; [exact Hroom|exact I]|split; [exact Hroom|exact I]].
  - split; [split; [exact Hroom|exact I]|split; [exact Hroom|exact I]].
  - split; [split; [exact Hroom|exact I]|split; [exact Hroom|exact I]].
  - split; [split; [exact Hroom|exact I]|split; [exact Hroom|exact I]].
  - (* apply_conf_change *)
    destruct Ha as [_ Hg]. split; [split; [exact I|]|split; exact I].
    pose proof (g_got a n G Hg). pose proof (proj1 (NLI_bounds false n HI)). unfold nlast. lia.
  - split; [split; exact I|split; exact I].
  - (* ready *)
    split; [split; exact I|split; [exact I|]].
    rewrite (ll_first_abs false (nlog n) HI). unfold ready_since. fold (nlog n).
    destruct (u_snapshot (unst (nlog n))); [lia|exact (g_first a n G)].
  - destruct (Hadv rd Ha) as [A B]. split; [split; [split; assumption|exact I]|split; [split; assumption|exact B]].
  - destruct (Hadv rd Ha) as [A B]. split; [split; [exact A|exact I]|split; [exact A|exact B]].
  - destruct (Hadv rd Ha) as [[A _] _]. split; [split; [exact A|exact I]|split; [exact A|exact I]].
  - (* on_persist_ready *)
    assert (P : persist_pre n number).
    { apply persist_pre_of_recs. intros rr i t Hin Hsn. apply (g_recs a n G rr i t); [|exact Hsn].
      unfold recs_done. rewrite Ha. exact Hin. }
    split; [split; [exact P|exact I]|split; [exact P|exact I]].
  - split; [split; [intros _; exact Hroom|exact I]|split; [intros _; exact Hroom|exact I]].
  - split; [split; [intros _; exact Hroom|exact I]|split; [intros _; exact Hroom|exact I]].
  - split; [split; exact I|split; exact I].
  - split; [split; exact I|split; exact I].
  - split; [split; exact I|split; exact I].
  - split; [split; exact I|split; exact I].
  - split; [split; exact I|split; exact I].
Qed.

(* ---- preservation of the coupling invariant ---- *)
Lemma idle_phase a o : idle_op o = true -> app_ok a o -> a_phase a = Idle.
Proof. destruct o; cbn; try discriminate; intros _ H; try exact H; exact (proj1 H). Qed.

Lemma hist_obs_got a ot st ph ap :
  a_got (with_obs a ot st ph ap) = true -> a_got a = true \/ snd ot <> [].
Proof.
  cbn. intros H. apply orb_true_iff in H. destruct H as [H|H]; [left; exact H|right].
  destruct (snd ot); [discriminate|discriminate].
Qed.

(* a light ready moves the cursor only over committed, persisted entries *)
Lemma glr_bounds rw n n' lr :
  gen_light_ready n = Ok (n', lr) -> NLI rw n -> CsiOK n ->
  max_apply_unpersisted_log_limit (nlog n) = 0 ->
  rn_commit_since_index n <= committed (nlog n) ->
  rn_commit_since_index n < u_offset (unst (nlog n)) ->
  nlog n' = nlog n
  /\ rn_commit_since_index n <= rn_commit_since_index n'
  /\ rn_commit_since_index n' <= committed (nlog n)
  /\ rn_commit_since_index n' < u_offset (unst (nlog n))
  /\ (lr_committed_entries lr <> [] -> 1 <= committed (nlog n)).
Proof.
  intros H HI Hc Hl H1 H2. unfold CsiOK in Hc.
  destruct (commit_since_monotone_light _ _ _ H) as (M & A & B).
  split; [eapply gen_light_ready_log; exact H|]. split; [exact M|].
  destruct (lr_committed_entries lr) as [|e t] eqn:E.
  { rewrite (A eq_refl). splits; auto. congruence. }
  destruct (B ltac:(discriminate)) as [B1 _]. rewrite B1.
  destruct (handout_bound rw n n' lr HI Hc H) as (_ & _ & Hin & _).
  destruct (Hin (List.last (lr_committed_entries lr) entry_default)) as (Hgt & Hle & Hp & _).
  { apply last_In. rewrite E. discriminate. }
  rewrite E in *. unfold nlog in *. rewrite Hl in Hp.
  pose proof (ri_persisted rw _ HI) as [Hpo _].
  splits; try lia.
Qed.

Lemma lrel_got Q l l' : lrel Q l l' -> 1 <= committed l -> 1 <= committed l'.
Proof. intros [(_ & A & _) _] H. lia. Qed.

(* (A) the calls that neither produce nor consume a Ready *)
Lemma good_idle a n o n' ot :
  Good a n -> idle_op o = true -> app_ok a o -> peer_ok o -> idx_margin n o ->
  exec n o = Ok (n', ot) -> Good (with_obs a ot (a_store a) Idle (a_applied a)) n'.
Proof.
  intros G Hi Ha Hp Hm E.
  assert (Hns : forall m, o <> OSetStore m) by (intros m ->; discriminate).
  destruct (side_ok a n o G Ha Hp Hm Hns) as [W2 W3].
  destruct (idle_exec_rel n o n' ot Hi E) as (R & Er & Emx & Ec & Eo).
  destruct R as [(R1 & R2 & R3 & R4 & R5 & R6) R7].
  pose proof (idle_phase a o Hi Ha) as Eph.
  pose proof (Good_NLI a n G) as HI. pose proof (Good_CsiOK a n G) as Hc.
  constructor; cbn [a_store a_phase a_hist a_applied a_got with_obs].
  - eapply exec_good; [exact E|exact W2|exact (g_good a n G)].
  - rewrite R1. exact (g_store a n G).
  - eapply handout_exec; [exact (g_hist a n G)| |exact E].
    eapply op_pre_node_op_pre; [exact HI|]. eapply op_pre_node2_node; eassumption.
  - rewrite R7. exact (g_applied a n G).
  - rewrite R7, Ec. exact (g_app_le a n G).
  - rewrite Ec. pose proof (g_csi_commit a n G). lia.
  - rewrite Ec. apply R5; [exact (g_csi_commit a n G)|exact (g_csi_stable a n G)].
  - apply R6. exact (g_limit a n G).
  - rewrite R1, Ec. exact (g_first a n G).
  - intros s Hs. destruct (R4 s Hs) as [Ho|Hq]; [exact (g_snap_pos a n G s Ho)|].
    destruct o; cbn [op_snap] in Hq; try contradiction. destruct Hq as [Ht ->].
    cbn [peer_ok] in Hp. exact (proj1 (proj2 Hp Ht)).
  - subst ot. cbn. rewrite orb_false_r. intros Hg. pose proof (g_got a n G Hg). lia.
  - unfold recs_done. cbn [a_phase with_obs]. rewrite Er, R1. intros rr i t Hin Hs.
    apply (g_recs a n G rr i t); [|exact Hs]. unfold recs_done. rewrite Eph. exact Hin.
  - exact I.
Qed.

Lemma removelast_snoc {A} (l : list A) x : removelast (l ++ [x]) = l.
Proof. apply removelast_last. Qed.

(* (B) ready() *)
Lemma good_ready a n n' rd ot :
  Good a n -> a_phase a = Idle -> idx_margin n OReady ->
  rn_ready n = Ok (n', rd) ->
  ot = (if s_index (rd_snapshot rd) =? 0 then None else Some (s_index (rd_snapshot rd)),
        lr_committed_entries (rd_light rd)) ->
  Good (with_obs a ot (a_store a) (Writing rd (stage0 rd)) (a_applied a)) n'.
Proof.
  intros G Eph Hm H Eot.
  assert (E : exec n OReady = Ok (n', ot)) by (cbn [exec]; rewrite H; cbn [bind fst snd]; rewrite Eot; reflexivity).
  assert (Ha : app_ok a OReady) by exact Eph.
  destruct (side_ok a n OReady G Ha I Hm ltac:(intros m C; discriminate)) as [W2 W3].
  pose proof (Good_NLI a n G) as HI. pose proof (Good_CsiOK a n G) as Hc.
  destruct (ready_entries_are_unstable _ _ _ H)
    as (Eents & _ & _ & Emax & _ & _ & _ & _ & Esnap & (recs & Hrecs & _ & Erec) & _ & _ & Elog & _).
  fold (nlog n') in Elog. fold (nlog n) in Elog, Eents, Esnap, Erec.
  (* the cursor *)
  destruct (rn_ready_inv _ _ _ H) as (recs0 & snap & csi & rec_snap & ms2 & n2 & light & _ & Hsnap & Hgl & Hn' & Hrd).
  assert (Hcsi : csi = ready_since n).
  { unfold ready_snap in Hsnap. unfold ready_since.
    destruct (u_snapshot (unst (r_log (rn_raft n)))); [|inversion Hsnap; reflexivity].
    destruct Hsnap as (_ & _ & E0). inversion E0; reflexivity. }
  subst csi.
  assert (Hrs1 : ready_since n <= committed (nlog n) /\ ready_since n < u_offset (unst (nlog n))
                 /\ rn_commit_since_index n <= ready_since n).
  { unfold ready_since. fold (nlog n). pose proof (ri_shape false _ HI) as Hsh. fold (nlog n) in Hsh.
    destruct (u_snapshot (unst (nlog n))) as [s|] eqn:Es.
    - destruct Hsh as [Ho Hs]. unfold ready_snap in Hsnap. fold (nlog n) in Hsnap. rewrite Es in Hsnap.
      destruct Hsnap as (Hle & _). lia.
    - splits; [exact (g_csi_commit a n G)|exact (g_csi_stable a n G)|lia]. }
  destruct Hrs1 as (Hr1 & Hr2 & Hr3).
  match type of Hgl with gen_light_ready ?nx = _ => set (na := nx) in * end.
  assert (Hna : NLI false na) by exact HI.
  assert (Hca : CsiOK na) by (unfold CsiOK; cbn; eapply ready_since_bound; eassumption).
  destruct (glr_bounds false na n2 light Hgl Hna Hca (g_limit a n G) Hr1 Hr2) as (_ & B1 & B2 & B3 & B4).
  change (nlog na) with (nlog n) in B2, B3, B4. change (rn_commit_since_index na) with (ready_since n) in B1.
  assert (Ecsi : rn_commit_since_index n' = rn_commit_since_index n2) by (subst n'; reflexivity).
  assert (Elight : rd_light rd = light) by (subst rd; reflexivity).
  destruct (rn_ready_light _ _ _ H) as (oe & k & _ & _ & Hl2 & Hcs2 & _ & Hsn2 & _).
  constructor; cbn [a_store a_phase a_hist a_applied a_got with_obs].
  - eapply exec_good; [exact E|exact W2|exact (g_good a n G)].
  - rewrite Elog. exact (g_store a n G).
  - eapply handout_exec; [exact (g_hist a n G)| |exact E].
    eapply op_pre_node_op_pre; [exact HI|]. eapply op_pre_node2_node; eassumption.
  - rewrite Elog. exact (g_applied a n G).
  - rewrite Elog, Ecsi. pose proof (g_app_le a n G). lia.
  - rewrite Elog, Ecsi. exact B2.
  - rewrite Elog, Ecsi. exact B3.
  - rewrite Elog. exact (g_limit a n G).
  - rewrite Elog, Ecsi. pose proof (g_first a n G). lia.
  - rewrite Elog. exact (g_snap_pos a n G).
  - rewrite Elog. intros Hg. apply orb_true_iff in Hg. destruct Hg as [Hg|Hg]; [exact (g_got a n G Hg)|].
    apply B4. rewrite Eot in Hg. cbn [snd] in Hg. rewrite Elight in Hg.
    destruct (lr_committed_entries light); discriminate.
  - (* records *)
    assert (Hsub : forall rr, In rr recs -> In rr (rn_records n)).
    { intros rr Hin. unfold ready_records in Hrecs. destruct (_ && _); [destruct Hrecs as [_ ->]; destruct Hin|].
      rewrite <- Hrecs. exact Hin. }
    assert (Hold : forall rr i t, In rr recs -> rr_snapshot rr = Some (i, t) -> i < first_of (store (nlog n))).
    { intros rr i t Hin Hs. apply (g_recs a n G rr i t); [|exact Hs]. unfold recs_done. rewrite Eph.
      apply Hsub. exact Hin. }
    rewrite Elog. unfold recs_done. cbn [a_phase with_obs]. rewrite Erec.
    intros rr i t Hin Hs.
    assert (Hcase : In rr recs \/ (stage0 rd <> WSnap /\ rr = List.last (recs ++ [mkRR (rn_max_number n + 1)
              (rec_last_of (u_entries (unst (nlog n))))
              (option_map (fun s => (s_index s, s_term s)) (u_snapshot (unst (nlog n))))
              (hs_changed n && tv_changed n)]) rr_default)).
    { destruct (stage0 rd) eqn:Est.
      - left. rewrite removelast_snoc in Hin. exact Hin.
      - apply in_app_or in Hin. destruct Hin as [Hin|[<-|[]]]; [left; exact Hin|right].
        split; [discriminate|]. rewrite last_snoc. reflexivity.
      - apply in_app_or in Hin. destruct Hin as [Hin|[<-|[]]]; [left; exact Hin|right].
        split; [discriminate|]. rewrite last_snoc. reflexivity. }
    destruct Hcase as [Hin'|[Hst ->]]; [eapply Hold; eassumption|].
    exfalso. rewrite last_snoc in Hs. cbn [rr_snapshot] in Hs.
    destruct (u_snapshot (unst (nlog n))) as [s|] eqn:Es; [|discriminate].
    unfold stage0 in Hst. rewrite Esnap in Hst. pose proof (g_snap_pos a n G s Es).
    destruct (s_index s =? 0) eqn:E0; [lia|congruence].
  - (* phase *)
    unfold phase_ok. cbn [a_phase with_obs]. rewrite Elog, Erec, last_snoc. cbn [rr_last_entry rr_snapshot].
    splits; auto.
    + destruct recs; discriminate.
    + intros s Es. rewrite Hcs2. rewrite (Hsn2 ltac:(eauto)). cbn [csi_after].
      unfold ready_since. fold (nlog n). rewrite Es. reflexivity.
    + unfold stage0, stage1. rewrite Esnap, Eents.
      destruct (u_snapshot (unst (nlog n))) as [s|] eqn:Es.
      * pose proof (g_snap_pos a n G s Es). destruct (s_index s =? 0) eqn:E0; [lia|discriminate].
      * cbn [snap_default s_index]. change (0 =? 0) with true. cbv iota.
        assert (Hsw : snap_written (nlog n)) by (unfold snap_written; rewrite Es; exact I).
        destruct (u_entries (unst (nlog n))) as [|e0 t0]; split; try exact Hsw; [congruence|discriminate].
Qed.

(* (C) storage writes *)
Lemma nlog_set_store n m : nlog (set_store_node n m) = set_store (nlog n) m.
Proof. reflexivity. Qed.

Lemma good_store a n m ph :
  Good a n ->
  RepInv false (set_store (nlog n) m) ->
  first_of m <= rn_commit_since_index n + 1 ->
  (forall rr i t, In rr (match ph with Writing _ WSnap => removelast (rn_records n) | _ => rn_records n end) ->
                  rr_snapshot rr = Some (i, t) -> i < first_of m) ->
  phase_ok (with_obs a no_out m ph (a_applied a)) (set_store_node n m) ->
  Good (with_obs a no_out m ph (a_applied a)) (set_store_node n m).
Proof.
  intros G HR Hf Hrec Hph. destruct (g_good a n G) as (A1 & A2 & A3).
  constructor; cbn [a_store a_phase a_hist a_applied a_got with_obs]; rewrite ?nlog_set_store;
    cbn [set_store store unst committed applied max_apply_unpersisted_log_limit].
  - split; [exact A1|]. split; [exact HR|exact A3].
  - reflexivity.
  - destruct (g_hist a n G) as [H1 H2]. unfold hist_step, no_out. cbn [fst snd]. rewrite app_nil_r.
    split; [exact H1|exact H2].
  - exact (g_applied a n G).
  - exact (g_app_le a n G).
  - exact (g_csi_commit a n G).
  - exact (g_csi_stable a n G).
  - exact (g_limit a n G).
  - exact Hf.
  - exact (g_snap_pos a n G).
  - rewrite orb_false_r. exact (g_got a n G).
  - exact Hrec.
  - exact Hph.
Qed.

Lemma snap_written_meta l m : meta_write (store l) m -> snap_written l -> snap_written (set_store l m).
Proof.
  intros (A & B & C0 & _). unfold snap_written. cbn [set_store store unst].
  assert (Hf : first_of m = first_of (store l)) by (unfold first_of; rewrite A, B; reflexivity).
  destruct (u_snapshot (unst l)); [|auto]. rewrite A, B, C0, Hf. auto.
Qed.

Lemma ents_written_meta l m : meta_write (store l) m -> ents_written l -> ents_written (set_store l m).
Proof.
  intros (A & B & _). unfold ents_written. cbn [set_store store unst].
  assert (Hf : first_of m = first_of (store l)) by (unfold first_of; rewrite A, B; reflexivity).
  rewrite A, Hf. auto.
Qed.

Lemma good_meta a n m :
  Good a n -> meta_write (a_store a) m ->
  Good (with_obs a no_out m (a_phase a) (a_applied a)) (set_store_node n m).
Proof.
  intros G Hmw. rewrite (g_store a n G) in Hmw. pose proof Hmw as (A & B & C0 & D).
  assert (Hf : first_of m = first_of (store (nlog n))) by (unfold first_of; rewrite A, B; reflexivity).
  apply good_store; [exact G| | | |].
  - exact (proj1 (write_meta_pres false _ _ A B C0 D (Good_NLI a n G))).
  - rewrite Hf. exact (g_first a n G).
  - rewrite Hf. intros rr i t Hin. apply (g_recs a n G rr i t). unfold recs_done.
    destruct (a_phase a) as [|rd [| |]]; exact Hin.
  - pose proof (g_phase a n G) as Hph. unfold phase_ok in *. cbn [a_phase with_obs].
    destruct (a_phase a) as [|rd st]; [exact I|]. rewrite nlog_set_store.
    cbn [set_store unst]. destruct Hph as (H1 & H2 & H3 & H4 & H5 & H6 & H7).
    splits; auto. destruct st.
    + exact H7.
    + destruct H7 as [H7 H8]. split; [apply snap_written_meta; assumption|exact H8].
    + destruct H7 as [H7 H8]. split; [apply snap_written_meta; assumption|].
      intros Hn. apply ents_written_meta; [exact Hmw|exact (H8 Hn)].
Qed.

Lemma good_snap a n rd m :
  Good a n -> a_phase a = Writing rd WSnap ->
  apply_snapshot (a_store a) (rd_snapshot rd) = Ok (m, SOk tt) ->
  Good (with_obs a no_out m (Writing rd (stage1 rd)) (a_applied a)) (set_store_node n m).
Proof.
  intros G Eph Ha. rewrite (g_store a n G) in Ha. pose proof (Good_NLI a n G) as HI.
  pose proof (g_phase a n G) as Hph. unfold phase_ok in Hph. rewrite Eph in Hph.
  destruct Hph as (H1 & H2 & H3 & H4 & H5 & H6 & H7).
  destruct (u_snapshot (unst (nlog n))) as [s|] eqn:Es; [|congruence]. rewrite H3 in Ha.
  destruct (write_snapshot_pres false (nlog n) _ _ HI Es Ha) as (A & _ & C0 & D).
  pose proof (apply_snapshot_ok_inv _ _ _ (ri_store false _ HI) Ha) as Hfo.
  pose proof C0 as C1. unfold snap_written in C1. cbn [set_store store unst] in C1. fold (nlog n) in C1. rewrite Es in C1.
  destruct C1 as (_ & _ & Hf & _).
  apply good_store; [exact G|exact A| | |].
  - rewrite Hf, (H6 s eq_refl). lia.
  - intros rr i t Hin Hs.
    assert (Hcase : In rr (removelast (rn_records n)) \/ rr = List.last (rn_records n) rr_default).
    { unfold stage1 in Hin. destruct (rd_entries rd);
        (destruct (exists_last H1) as (pre & x & Ex); rewrite Ex in *; rewrite removelast_snoc, last_snoc;
         apply in_app_or in Hin; destruct Hin as [Hin|[Hin|Hin]]; [left; exact Hin|right; symmetry; exact Hin|destruct Hin]). }
    destruct Hcase as [Hin' | ->].
    + pose proof (g_recs a n G rr i t) as Hr. unfold recs_done in Hr. rewrite Eph in Hr.
      specialize (Hr Hin' Hs). unfold nlog in *. lia.
    + rewrite H5 in Hs. cbn in Hs. inversion Hs; subst. lia.
  - unfold phase_ok. cbn [a_phase with_obs]. rewrite nlog_set_store. cbn [set_store unst].
    rewrite Es. splits; auto.
    unfold stage1. rewrite H2. destruct (u_entries (unst (nlog n))) as [|e0 t0] eqn:Eu.
    + split; [exact C0|congruence].
    + split; [exact C0|discriminate].
Qed.

Lemma good_ents a n rd m :
  Good a n -> a_phase a = Writing rd WEnts ->
  append (a_store a) (rd_entries rd) = Ok m ->
  Good (with_obs a no_out m (Writing rd WDone) (a_applied a)) (set_store_node n m).
Proof.
  intros G Eph Ha. rewrite (g_store a n G) in Ha. pose proof (Good_NLI a n G) as HI.
  pose proof (g_phase a n G) as Hph. unfold phase_ok in Hph. rewrite Eph in Hph.
  destruct Hph as (H1 & H2 & H3 & H4 & H5 & H6 & Hsw & Hne). rewrite H2 in Ha.
  assert (Hall : RepInv false (set_store (nlog n) m) /\ first_of m = first_of (store (nlog n))
                 /\ snap_written (set_store (nlog n) m) /\ ents_written (set_store (nlog n) m)).
  { destruct (u_snapshot (unst (nlog n))) as [s|] eqn:Es.
    - destruct (write_entries_after_snapshot_pres false (nlog n) _ _ HI Es Hsw Ha) as (A & _ & C0 & D).
      pose proof C0 as C1. unfold snap_written in C1. cbn [set_store store unst] in C1. fold (nlog n) in C1. rewrite Es in C1.
      destruct C1 as (_ & _ & Hf & _).
      unfold snap_written in Hsw. rewrite Es in Hsw. destruct Hsw as (_ & _ & Hf0 & _).
      splits; auto; [congruence|].
      unfold ents_written. cbn [set_store store unst].
      pose proof (ri_shape false _ HI) as Hsh. fold (nlog n) in Hsh. rewrite Es in Hsh. destruct Hsh as [Ho _].
      rewrite Hf, Ho. replace (N.to_nat (s_index s + 1 - (s_index s + 1))) with O by lia. exact D.
    - destruct (store_append_unstable_ok false (nlog n) HI Es) as (st2 & Ha2 & Hr & _ & Hf & Hsk & _).
      rewrite Ha in Ha2. inversion Ha2; subst st2.
      splits; auto. unfold snap_written. cbn [set_store unst]. rewrite Es. exact I. }
  destruct Hall as (A & Hf & C0 & D).
  apply good_store; [exact G|exact A| | |].
  - rewrite Hf. exact (g_first a n G).
  - rewrite Hf. intros rr i t Hin. apply (g_recs a n G rr i t). unfold recs_done. rewrite Eph. exact Hin.
  - unfold phase_ok. cbn [a_phase with_obs]. rewrite nlog_set_store. cbn [set_store unst].
    splits; auto.
Qed.

(* compaction while a snapshot is pending: the logical log does not depend on the storage *)
Lemma write_compact_pending_pres rw l s ci m :
  RepInv rw l -> u_snapshot (unst l) = Some s -> first_of (store l) < ci -> ci < next_of (store l) ->
  compact (store l) ci = Ok m ->
  RepInv rw (set_store l m) /\ first_of m = ci.
Proof.
  intros HI Es H1 H2 Hc. pose proof HI as HI0. destruct HI0 as [Hs Hq Hct Hsh Hp Hcm Hap Hb].
  destruct (compact_ok (store l) ci Hs H1 H2) as (Hc2 & Hs' & Hf').
  rewrite Hc in Hc2. injection Hc2 as E.
  assert (Hnx : next_of m = next_of (store l)).
  { unfold next_of at 1. rewrite E at 1. rewrite Hf'. rewrite E. cbn [entries set_entries]. rewrite skipn_length.
    unfold next_of in *. lia. }
  assert (Habs : abs (set_store l m) = abs l).
  { unfold abs. cbn [set_store unst]. rewrite Es. reflexivity. }
  split; [|rewrite E; exact Hf'].
  constructor; rewrite ?Habs; cbn [set_store store unst committed persisted applied]; rewrite ?Es; auto.
  - rewrite E. exact Hs'.
  - rewrite E. exact Hq.
  - rewrite Es in Hsh. exact Hsh.
  - rewrite Hnx. exact Hp.
Qed.

Lemma good_compact a n ci m :
  Good a n -> a_phase a = Idle ->
  compact (a_store a) ci = Ok m -> ci <= a_applied a -> ci < next_of (a_store a) ->
  Good (with_obs a no_out m Idle (a_applied a)) (set_store_node n m).
Proof.
  intros G Eph Hc Hca Hcn. rewrite (g_store a n G) in Hc, Hcn. rewrite (g_applied a n G) in Hca.
  pose proof (Good_NLI a n G) as HI.
  pose proof (g_app_le a n G) as H1. pose proof (g_csi_stable a n G) as H2.
  assert (Hall : RepInv false (set_store (nlog n) m)
                 /\ first_of (store (nlog n)) <= first_of m
                 /\ (first_of m = first_of (store (nlog n)) \/ first_of m = ci)).
  { destruct (N.le_gt_cases ci (first_of (store (nlog n)))) as [Hle|Hgt].
    - rewrite (store_compact_noop false (nlog n) ci HI Hle) in Hc. inversion Hc; subst m.
      replace (set_store (nlog n) (store (nlog n))) with (nlog n) by (destruct (nlog n); reflexivity).
      splits; auto. lia.
    - destruct (u_snapshot (unst (nlog n))) as [s|] eqn:Es.
      + destruct (write_compact_pending_pres false (nlog n) s ci m HI Es Hgt Hcn Hc) as [A B].
        splits; auto. lia.
      + destruct (store_compact_ok (nlog n) ci HI Es Hgt Hca ltac:(lia) Hcn) as (st2 & Hc2 & Hr & _ & Hf).
        rewrite Hc in Hc2. inversion Hc2; subst st2. splits; auto. lia. }
  destruct Hall as (A & B & C0).
  apply good_store; [exact G|exact A| | |].
  - pose proof (g_first a n G). destruct C0 as [-> | ->]; lia.
  - intros rr i t Hin Hs. pose proof (g_recs a n G rr i t) as Hr. unfold recs_done in Hr. rewrite Eph in Hr.
    specialize (Hr Hin Hs). lia.
  - exact I.
Qed.

(* (D)-(G) advance, persistence notices, apply *)
Lemma with_obs_quiet a st ph ap :
  with_obs a no_out st ph ap = mkApp st ph (a_hist a) ap (a_got a).
Proof.
  unfold with_obs, hist_step, no_out. cbn [fst snd]. rewrite app_nil_r, orb_false_r.
  destruct (a_hist a); reflexivity.
Qed.

Lemma drop_le_In recs k rr : In rr (drop_le recs k) -> In rr recs.
Proof.
  induction recs as [|r0 rest IH]; cbn [drop_le]; [auto|].
  destruct (k <? rr_number r0); [auto|]. intros H. right. apply IH. exact H.
Qed.

Lemma on_persist_ready_rel n k n' :
  rn_on_persist_ready n k = Ok n' ->
  lrel (fun _ => False) (nlog n) (nlog n')
  /\ (forall rr, In rr (rn_records n') -> In rr (rn_records n))
  /\ rn_commit_since_index n' = rn_commit_since_index n.
Proof.
  intros H. destruct (on_persist_ready_spec _ _ _ H) as (i & t & si & r1 & _ & Er & H1 & H2 & _ & _ & _ & Ec).
  splits; [|intros rr Hin; rewrite Er in Hin; eapply drop_le_In; exact Hin|exact Ec].
  unfold nlog.
  assert (A1 : rrel (fun _ => False) (rn_raft n) r1).
  { destruct (negb (si =? 0)); [eapply on_persist_snap_rrel; exact H1|inversion H1; apply rrel_eq; reflexivity]. }
  assert (A2 : rrel (fun _ => False) r1 (rn_raft n')).
  { destruct (negb (i =? 0)); [eapply on_persist_entries_rrel; exact H2|inversion H2; apply rrel_eq; reflexivity]. }
  exact (rrel_trans _ _ _ _ A1 A2).
Qed.

(* commit_ready of the Ready that has been written in full *)
Lemma commit_ready_done a n rd n1 :
  Good a n -> a_phase a = Writing rd WDone -> commit_ready n rd = Ok n1 ->
  NLI false n1 /\ store (nlog n1) = store (nlog n) /\ same_cpa (nlog n) (nlog n1)
  /\ max_apply_unpersisted_log_limit (nlog n1) = max_apply_unpersisted_log_limit (nlog n)
  /\ u_snapshot (unst (nlog n1)) = None
  /\ u_offset (unst (nlog n)) <= u_offset (unst (nlog n1))
  /\ rn_records n1 = rn_records n /\ rn_max_number n1 = rn_max_number n
  /\ rn_commit_since_index n1 = rn_commit_since_index n.
Proof.
  intros G Eph H. pose proof (Good_NLI a n G) as HI.
  pose proof (g_phase a n G) as Hph. unfold phase_ok in Hph. rewrite Eph in Hph.
  destruct Hph as (Hne & He & Hs & Hle & Hsn & Hcs & Hsw & Hew).
  assert (Hcp : commit_pre n).
  { unfold commit_pre. split; [intros _; exact Hsw|].
    intros Hl. apply Hew. rewrite Hle in Hl. unfold rec_last_of in Hl.
    destruct (u_entries (unst (nlog n))); [congruence|discriminate]. }
  destruct (commit_ready_pres false _ _ _ H Hcp HI) as (A1 & _ & C1 & D & E1 & F1).
  destruct (commit_ready_stabilises _ _ _ H) as (_ & _ & _ & En1).
  assert (Eu1 : unst (nlog n1) = stabilised (unst (nlog n)) (List.last (rn_records n) rr_default))
    by (rewrite En1; reflexivity).
  assert (El1 : max_apply_unpersisted_log_limit (nlog n1) = max_apply_unpersisted_log_limit (nlog n))
    by (rewrite En1; reflexivity).
  assert (Hst : u_snapshot (stabilised (unst (nlog n)) (List.last (rn_records n) rr_default)) = None
                /\ u_offset (unst (nlog n))
                   <= u_offset (stabilised (unst (nlog n)) (List.last (rn_records n) rr_default))).
  { unfold stabilised. rewrite Hle, Hsn.
    destruct (u_entries (unst (nlog n))) as [|e0 t0] eqn:Eu; cbn [rec_last_of].
    - destruct (u_snapshot (unst (nlog n))) eqn:Es; cbn [option_map u_snapshot u_offset]; split; auto; lia.
    - cbn [u_snapshot u_offset]. split; [reflexivity|].
      pose proof (ri_contig false _ HI) as Hc. fold (nlog n) in Hc. rewrite Eu in Hc.
      rewrite (last_contig_index _ _ entry_default Hc ltac:(discriminate)). cbn [length]. lia. }
  rewrite <- Eu1 in Hst. destruct Hst as [Hst1 Hst2].
  splits; auto. eapply commit_ready_csi; exact H.
Qed.

Lemma advance_mid a n rd n1 n2 :
  Good a n -> a_phase a = Writing rd WDone -> commit_ready n rd = Ok n1 ->
  rn_on_persist_ready n1 (rn_max_number n1) = Ok n2 ->
  NLI false n2 /\ store (nlog n2) = store (nlog n) /\ applied (nlog n2) = applied (nlog n)
  /\ committed (nlog n) <= committed (nlog n2)
  /\ max_apply_unpersisted_log_limit (nlog n2) = 0
  /\ u_snapshot (unst (nlog n2)) = None
  /\ u_offset (unst (nlog n)) <= u_offset (unst (nlog n2))
  /\ (forall rr, In rr (rn_records n2) -> In rr (rn_records n))
  /\ rn_commit_since_index n2 = rn_commit_since_index n.
Proof.
  intros G Eph H1 H2.
  destruct (commit_ready_done a n rd n1 G Eph H1) as (A1 & B1 & (C1 & C2 & C3) & D1 & E1 & F1 & R1 & M1 & S1).
  assert (P2 : persist_pre n1 (rn_max_number n1)).
  { apply persist_pre_of_recs. rewrite R1, B1. intros rr i t Hin Hs.
    apply (g_recs a n G rr i t); [|exact Hs]. unfold recs_done. rewrite Eph. exact Hin. }
  destruct (rn_on_persist_ready_pres false _ _ _ H2 P2 A1) as (A2 & (S2a & S2b & S2c)).
  destruct (on_persist_ready_rel _ _ _ H2) as (((L1 & L2 & L3 & L4 & L5 & L6) & L7) & Rr & Sc).
  splits; auto.
  - congruence.
  - congruence.
  - lia.
  - apply L6. rewrite D1. exact (g_limit a n G).
  - rewrite S2b. exact E1.
  - rewrite S2b. exact F1.
  - intros rr Hin. rewrite <- R1. apply Rr. exact Hin.
  - congruence.
Qed.

Lemma good_advance_append a n rd n' lr :
  Good a n -> a_phase a = Writing rd WDone -> idx_margin n (OAdvanceAppend rd) ->
  rn_advance_append n rd = Ok (n', lr) ->
  Good (with_obs a (None, lr_committed_entries lr) (a_store a) Idle (a_applied a)) n'.
Proof.
  intros G Eph Hm H.
  set (ot := (None, lr_committed_entries lr) : out).
  assert (E : exec n (OAdvanceAppend rd) = Ok (n', ot)) by (cbn [exec]; rewrite H; reflexivity).
  assert (Ha : app_ok a (OAdvanceAppend rd)) by exact Eph.
  destruct (side_ok a n _ G Ha I Hm ltac:(intros m C; discriminate)) as [W2 W3].
  pose proof (Good_NLI a n G) as HI. pose proof (Good_CsiOK a n G) as Hc.
  destruct (rn_advance_append_inv _ _ _ _ H) as (n1 & n2 & n3 & lr3 & H1 & H2 & H3 & _ & _ & _ & _ & Hn' & Hl).
  destruct (advance_mid a n rd n1 n2 G Eph H1 H2) as (A2 & B2 & C2 & D2 & E2 & F2 & O2 & R2 & S2).
  assert (Hc2 : CsiOK n2) by (unfold CsiOK; rewrite S2; exact Hc).
  destruct (glr_bounds false n2 n3 lr3 H3 A2 Hc2 E2) as (L3 & M3 & B3 & O3 & G3).
  { rewrite S2. pose proof (g_csi_commit a n G). lia. }
  { rewrite S2. pose proof (g_csi_stable a n G). lia. }
  assert (Elog : nlog n' = nlog n2) by (subst n'; exact L3).
  assert (Ecsi : rn_commit_since_index n' = rn_commit_since_index n3) by (subst n'; reflexivity).
  assert (Erec : rn_records n' = rn_records n2).
  { subst n'. destruct (gen_light_ready_spec _ _ _ H3) as (oe & k & _ & _ & -> & _). reflexivity. }
  assert (Ece : lr_committed_entries lr = lr_committed_entries lr3) by (subst lr; reflexivity).
  constructor; cbn [a_store a_phase a_hist a_applied a_got with_obs]; rewrite ?Elog, ?Ecsi.
  - eapply exec_good; [exact E|exact W2|exact (g_good a n G)].
  - rewrite B2. exact (g_store a n G).
  - eapply handout_exec; [exact (g_hist a n G)| |exact E].
    eapply op_pre_node_op_pre; [exact HI|]. eapply op_pre_node2_node; eassumption.
  - rewrite C2. exact (g_applied a n G).
  - rewrite C2. pose proof (g_app_le a n G). lia.
  - exact B3.
  - exact O3.
  - exact E2.
  - rewrite B2. pose proof (g_first a n G). lia.
  - rewrite F2. intros s C. discriminate.
  - intros Hg. apply orb_true_iff in Hg. destruct Hg as [Hg|Hg].
    + pose proof (g_got a n G Hg). lia.
    + apply G3. unfold ot in Hg. cbn [snd] in Hg. rewrite Ece in Hg.
      destruct (lr_committed_entries lr3); discriminate.
  - unfold recs_done. cbn [a_phase with_obs]. rewrite Erec, B2. intros rr i t Hin Hs.
    apply (g_recs a n G rr i t); [|exact Hs]. unfold recs_done. rewrite Eph. apply R2. exact Hin.
  - exact I.
Qed.

Lemma good_advance_async a n rd n' :
  Good a n -> a_phase a = Writing rd WDone -> idx_margin n (OAdvanceAppendAsync rd) ->
  rn_advance_append_async n rd = Ok n' ->
  Good (with_obs a no_out (a_store a) Idle (a_applied a)) n'.
Proof.
  intros G Eph Hm H.
  assert (E : exec n (OAdvanceAppendAsync rd) = Ok (n', no_out)) by (cbn [exec]; unfold quiet1; rewrite H; reflexivity).
  assert (Ha : app_ok a (OAdvanceAppendAsync rd)) by exact Eph.
  destruct (side_ok a n _ G Ha I Hm ltac:(intros m C; discriminate)) as [W2 W3].
  pose proof (Good_NLI a n G) as HI. pose proof (Good_CsiOK a n G) as Hc.
  unfold rn_advance_append_async in H.
  destruct (commit_ready_done a n rd n' G Eph H) as (A1 & B1 & (C1 & C2 & C3) & D1 & E1 & F1 & R1 & M1 & S1).
  constructor; cbn [a_store a_phase a_hist a_applied a_got with_obs]; rewrite ?S1.
  - eapply exec_good; [exact E|exact W2|exact (g_good a n G)].
  - rewrite B1. exact (g_store a n G).
  - eapply handout_exec; [exact (g_hist a n G)| |exact E].
    eapply op_pre_node_op_pre; [exact HI|]. eapply op_pre_node2_node; eassumption.
  - rewrite C3. exact (g_applied a n G).
  - rewrite C3. exact (g_app_le a n G).
  - rewrite C1. exact (g_csi_commit a n G).
  - pose proof (g_csi_stable a n G). lia.
  - rewrite D1. exact (g_limit a n G).
  - rewrite B1. exact (g_first a n G).
  - rewrite E1. intros s C. discriminate.
  - rewrite orb_false_r. rewrite C1. exact (g_got a n G).
  - unfold recs_done. cbn [a_phase with_obs]. rewrite R1, B1. intros rr i t Hin Hs.
    apply (g_recs a n G rr i t); [|exact Hs]. unfold recs_done. rewrite Eph. exact Hin.
  - exact I.
Qed.

Lemma good_persist a n k n' :
  Good a n -> a_phase a = Idle -> idx_margin n (OOnPersistReady k) ->
  rn_on_persist_ready n k = Ok n' ->
  Good (with_obs a no_out (a_store a) Idle (a_applied a)) n'.
Proof.
  intros G Eph Hm H.
  assert (E : exec n (OOnPersistReady k) = Ok (n', no_out)) by (cbn [exec]; unfold quiet1; rewrite H; reflexivity).
  assert (Ha : app_ok a (OOnPersistReady k)) by exact Eph.
  destruct (side_ok a n _ G Ha I Hm ltac:(intros m C; discriminate)) as [W2 W3].
  pose proof (Good_NLI a n G) as HI. pose proof (Good_CsiOK a n G) as Hc.
  destruct (on_persist_ready_rel _ _ _ H) as (((L1 & L2 & L3 & L4 & L5 & L6) & L7) & Rr & Sc).
  constructor; cbn [a_store a_phase a_hist a_applied a_got with_obs]; rewrite ?Sc.
  - eapply exec_good; [exact E|exact W2|exact (g_good a n G)].
  - rewrite L1. exact (g_store a n G).
  - eapply handout_exec; [exact (g_hist a n G)| |exact E].
    eapply op_pre_node_op_pre; [exact HI|]. eapply op_pre_node2_node; eassumption.
  - rewrite L7. exact (g_applied a n G).
  - rewrite L7. exact (g_app_le a n G).
  - pose proof (g_csi_commit a n G). lia.
  - apply L5; [exact (g_csi_commit a n G)|exact (g_csi_stable a n G)].
  - apply L6. exact (g_limit a n G).
  - rewrite L1. exact (g_first a n G).
  - intros s Hs. destruct (L4 s Hs) as [Ho|[]]. exact (g_snap_pos a n G s Ho).
  - rewrite orb_false_r. intros Hg. pose proof (g_got a n G Hg). lia.
  - unfold recs_done. cbn [a_phase with_obs]. rewrite L1. intros rr i t Hin Hs.
    apply (g_recs a n G rr i t); [|exact Hs]. unfold recs_done. rewrite Eph. apply Rr. exact Hin.
  - exact I.
Qed.

Lemma good_apply_to a n x n' :
  Good a n -> a_phase a = Idle -> x <= a_cursor a -> idx_margin n (OAdvanceApplyTo x) ->
  rn_advance_apply_to n x = Ok n' ->
  Good (mkApp (a_store a) Idle (a_hist a) (if x =? 0 then a_applied a else x) (a_got a)) n'.
Proof.
  intros G Eph Hx Hm H. rewrite (Good_cursor a n G) in Hx.
  assert (E : exec n (OAdvanceApplyTo x) = Ok (n', no_out)) by (cbn [exec]; unfold quiet1; rewrite H; reflexivity).
  assert (Ha : app_ok a (OAdvanceApplyTo x)).
  { split; [exact Eph|]. rewrite (Good_cursor a n G). exact Hx. }
  destruct (side_ok a n _ G Ha I Hm ltac:(intros m C; discriminate)) as [W2 W3].
  pose proof (Good_NLI a n G) as HI. pose proof (Good_CsiOK a n G) as Hc.
  unfold rn_advance_apply_to, lift in H. inv_bind H. inversion H; subst n'. clear H.
  destruct (commit_apply_rel (fun _ => False) _ _ _ Hx0) as ((L1 & L2 & L3 & L4 & L5 & L6) & L7 & L8).
  assert (G' : NGood false (n <| rn_raft := x0 |>)) by (eapply exec_good; [exact E|exact W2|exact (g_good a n G)]).
  assert (Hh : Hist (n <| rn_raft := x0 |>) (a_hist a)).
  { destruct (g_hist a n G) as [H1 H2]. split; [exact H1|exact H2]. }
  pose proof (g_store a n G) as P1. pose proof (g_applied a n G) as P2. pose proof (g_app_le a n G) as P3.
  pose proof (g_csi_commit a n G) as P4. pose proof (g_csi_stable a n G) as P5.
  pose proof (g_limit a n G) as P6. pose proof (g_first a n G) as P7. pose proof (g_snap_pos a n G) as P8.
  pose proof (g_got a n G) as P9. pose proof (g_recs a n G) as P10. unfold recs_done in P10. rewrite Eph in P10.
  unfold nlog in *.
  constructor; cbn [a_store a_phase a_hist a_applied a_got]; unfold nlog, recs_done; cbn [a_phase]; cbn.
  - exact G'.
  - rewrite L1. exact P1.
  - exact Hh.
  - rewrite L7, P2. reflexivity.
  - rewrite L7. destruct (x =? 0); lia.
  - lia.
  - apply L5; assumption.
  - apply L6. exact P6.
  - rewrite L1. exact P7.
  - intros s Hs. destruct (L4 s Hs) as [Ho|[]]. exact (P8 s Ho).
  - intros Hg. specialize (P9 Hg). lia.
  - rewrite L1. exact P10.
  - exact I.
Qed.

(* ---- one contract-abiding call ---- *)
Theorem contract_step a n o ot a' n' :
  Good a n -> app_next a n o ot a' -> peer_ok o -> idx_margin n o ->
  exec n o = Ok (n', ot) -> Good a' n'.
Proof.
  intros G Hn Hp Hm E. destruct Hn.
  - eapply good_idle; eassumption.
  - cbn [exec] in E. rewrite H0 in E. cbn [bind fst snd] in E. injection E as En Eo. subst n1.
    eapply good_ready; [exact G|exact H|exact Hm|exact H0|]. symmetry. exact Eo.
  - cbn [exec] in E. inversion E; subst n' ot. exact (good_meta a n m G H).
  - cbn [exec] in E. inversion E; subst n' ot. exact (good_snap a n rd m G H H0).
  - cbn [exec] in E. inversion E; subst n' ot. exact (good_ents a n rd m G H H0).
  - cbn [exec] in E. inversion E; subst n' ot. exact (good_compact a n ci m G H H0 H1 H2).
  - (* advance = advance_append, then apply up to the cursor held before *)
    cbn [exec] in E. inv_bind E. destruct x as [n2 lr2]. cbn [fst snd] in E. inversion E; subst n' ot. clear E.
    unfold rn_advance in Hx. inv_bind Hx. destruct x as [n1 lr1]. cbn [fst snd] in Hx.
    inv_bind Hx. inversion Hx; subst x lr2. clear Hx.
    assert (Hm1 : idx_margin n (OAdvanceAppend rd)) by exact Hm.
    pose proof (good_advance_append a n rd n1 lr1 G H Hm1 Hx0) as G1.
    set (a1 := with_obs a (None, lr_committed_entries lr1) (a_store a) Idle (a_applied a)) in *.
    assert (Hcur : rn_commit_since_index n <= a_cursor a1).
    { rewrite (Good_cursor a1 n1 G1).
      destruct (rn_advance_append_inv _ _ _ _ Hx0) as (m1 & m2 & m3 & lr3 & H1 & H2 & H3 & _ & _ & _ & _ & Hn' & _).
      destruct (commit_since_monotone_light _ _ _ H3) as (M & _).
      rewrite (on_persist_ready_csi _ _ _ H2), (commit_ready_csi _ _ _ H1) in M. subst n1. exact M. }
    assert (Hlast : nlast n1 = nlast n).
    { assert (Ha : app_ok a (OAdvanceAppend rd)) by exact H.
      destruct (side_ok a n _ G Ha I Hm1 ltac:(intros m C; discriminate)) as [[W _] _].
      destruct (rn_advance_append_pres false _ _ _ _ Hx0 W (Good_NLI a n G)) as (A1 & B1 & _).
      unfold nlast, nlog in *. rewrite (abs_last false _ A1), B1. symmetry. apply (abs_last false).
      exact (Good_NLI a n G). }
    assert (Hm2 : idx_margin n1 (OAdvanceApplyTo (rn_commit_since_index n))).
    { unfold idx_margin in *. rewrite Hlast. exact Hm. }
    pose proof (good_apply_to a1 n1 _ n2 G1 eq_refl Hcur Hm2 Hx1) as G2.
    rewrite <- (Good_cursor a n G) in G2. exact G2.
  - cbn [exec] in E. inv_bind E. destruct x as [n1 lr1]. cbn [fst snd] in E. inversion E; subst.
    eapply good_advance_append; eassumption.
  - cbn [exec] in E. unfold quiet1 in E. inv_bind E. inversion E; subst.
    eapply good_advance_async; eassumption.
  - cbn [exec] in E. unfold quiet1 in E. inv_bind E. inversion E; subst.
    eapply good_persist; eassumption.
  - cbn [exec] in E. unfold quiet1 in E. inv_bind E. inversion E; subst.
    rewrite with_obs_quiet. unfold rn_advance_apply in Hx.
    pose proof (good_apply_to a n (rn_commit_since_index n) n' G H) as G2.
    rewrite (Good_cursor a n G). apply G2; [rewrite (Good_cursor a n G); lia|exact Hm|exact Hx].
  - cbn [exec] in E. unfold quiet1 in E. inv_bind E. inversion E; subst.
    rewrite with_obs_quiet. eapply good_apply_to; eassumption.
Qed.

(* ================================================================== *)
(* Part 4. Traces from RawNode::new                                     *)
(* ================================================================== *)
Lemma raft_new_shape c st sa dr r :
  raft_new c st sa dr = Ok (inr r) -> SInv st ->
  unst (r_log r) = u_new (next_of st)
  /\ max_apply_unpersisted_log_limit (r_log r) = 0
  /\ applied (r_log r) = (if 0 <? c_applied c then c_applied c else first_of st - 1).
Proof.
  unfold raft_new. intros H Hs.
  destruct (negb (cfg_validate c)); [discriminate|].
  apply bind_ok in H. destruct H as (l & Hl & H).
  assert (Hl0 : unst l = u_new (next_of st) /\ applied l = first_of st - 1).
  { unfold log_new, storage_first_index in Hl. rewrite (first_index_ok _ Hs) in Hl. cbn [bind] in Hl.
    destruct (first_of st =? 0); [discriminate|]. inversion Hl; subst l. cbn [unst applied].
    rewrite (storage_last_next _ Hs). pose proof (first_pos _ Hs). pose proof (first_le_next st).
    split; [f_equal; lia|reflexivity]. }
  destruct Hl0 as [Hu Ha].
  destruct (ConfChange.restore empty_tracker (cs st)) as [[c' ids']|e]; [|discriminate].
  rewrite post_conf_change_nonleader in H by reflexivity. cbn [bind] in H.
  match type of H with (if ?c then _ else _) = _ => destruct c end; [discriminate|].
  apply bind_ok in H. destruct H as (r3 & H3 & H).
  apply bind_ok in H. destruct H as (r4 & H4 & H).
  apply bind_ok in H. destruct H as (r5 & H5 & H).
  apply bind_ok in H. destruct H as (lt & _ & H). inversion H; subst r. clear H.
  assert (E3 : unst (r_log r3) = u_new (next_of st) /\ applied (r_log r3) = first_of st - 1
               /\ is_leader r3 = false).
  { destruct (hs_eqb (hs st) hs_default); [inversion H3; subst r3; cbn; auto|].
    unfold load_state in H3.
    match type of H3 with (if ?c then _ else _) = _ => destruct c end; [discriminate|].
    inversion H3; subst r3. cbn. auto. }
  destruct E3 as (E3u & E3a & E3l).
  assert (E4 : unst (r_log r4) = u_new (next_of st)
               /\ applied (r_log r4) = (if 0 <? c_applied c then c_applied c else first_of st - 1)).
  { destruct (0 <? c_applied c); [|inversion H4; subst r4; auto].
    unfold commit_apply_internal in H4. cbn [negb] in H4.
    destruct (c_applied c =? 0); [discriminate|]. cbn [bind] in H4.
    change (is_leader (r3 <| r_log := applied_to_unchecked (r_log r3) (c_applied c) |>))
      with (is_leader r3) in H4.
    rewrite E3l, andb_false_r in H4. inversion H4; subst r4. cbn. auto. }
  destruct E4 as (E4u & E4a).
  rewrite (become_follower_log _ _ _ _ H5). cbn. auto.
Qed.

(* what the contract asks of the start: a well-formed store, Config.applied not below the
   store's snapshot point and not beyond the commit index the node starts with *)
Definition init_ok (c : config) (st : MemStorage.mem) (n0 : rawnode) : Prop :=
  SInv st /\ trig_log st = false
  /\ first_of st - 1 <= c_applied c
  /\ c_applied c <= committed (nlog n0).

Definition init_app (c : config) (st : MemStorage.mem) : appstate :=
  mkApp st Idle (c_applied c, []) (c_applied c) false.

Theorem init_good c st sa dr n0 :
  rn_new c st sa dr = Ok (inr n0) -> init_ok c st n0 -> Good (init_app c st) n0.
Proof.
  intros H (Hs & Hq & Hf & Hcm).
  destruct (rn_new_pres _ _ _ _ _ H Hs Hq) as (A & _ & Hst).
  pose proof (rn_new_RnInv _ _ _ _ _ H) as HR. pose proof (handout_init _ _ _ _ _ H) as HH.
  unfold rn_new in H. destruct (c_id c =? 0); [discriminate|].
  inv_bind H. destruct x as [e|r]; inversion H; subst n0. clear H.
  destruct (raft_new_shape _ _ _ _ _ Hx Hs) as (Eu & El & Ea).
  unfold nlog in *. cbn [rn_raft] in *.
  assert (Eap : applied (r_log r) = c_applied c).
  { rewrite Ea. destruct (0 <? c_applied c) eqn:E0; [reflexivity|]. pose proof (first_pos _ Hs). lia. }
  assert (HF : RepInv false (r_log r)).
  { apply RepInv_close_window; [exact A|]. lia. }
  pose proof (RepInv_committed_le_last false _ HF) as Hcl. pose proof (RepInv_last_bound false _ HF) as Hlb.
  assert (Hoff : c_applied c < u_offset (unst (r_log r))).
  { pose proof (ll_last_upper false _ HF) as Hup. rewrite <- (abs_last false _ HF) in Hup.
    rewrite Eu in *. cbn [u_new u_offset u_entries length] in *. lia. }
  constructor; cbn [init_app a_store a_phase a_hist a_applied a_got]; unfold nlog, recs_done; cbn.
  - split; [exact HR|]. split; [exact HF|]. unfold CsiOK. cbn. lia.
  - symmetry. exact Hst.
  - exact HH.
  - symmetry. exact Eap.
  - lia.
  - exact Hcm.
  - exact Hoff.
  - exact El.
  - rewrite Hst. lia.
  - rewrite Eu. cbn. intros s C. discriminate.
  - discriminate.
  - intros rr i t [].
  - exact I.
Qed.

(* contract-abiding traces: the application follows the contract w.r.t. its ghost state, the
   stepped messages are peer messages, the indexes keep their u64 head-room *)
Inductive crun : appstate -> rawnode -> appstate -> rawnode -> Prop :=
| crun_nil a n : crun a n a n
| crun_cons a n o n1 ot a1 a' n' :
    app_next a n o ot a1 -> peer_ok o -> idx_margin n o -> exec n o = Ok (n1, ot) ->
    crun a1 n1 a' n' -> crun a n a' n'.

Theorem crun_good a n a' n' : crun a n a' n' -> Good a n -> Good a' n'.
Proof.
  intros R. induction R as [|a n o n1 ot a1 a' n' Hn Hp Hm E R IH]; intros G; [exact G|].
  apply IH. eapply contract_step; eassumption.
Qed.

Theorem contract_trace c st sa dr n0 a n :
  rn_new c st sa dr = Ok (inr n0) -> init_ok c st n0 -> crun (init_app c st) n0 a n -> Good a n.
Proof. intros H Hi R. eapply crun_good; [exact R|]. eapply init_good; eassumption. Qed.

(* ---- (1) C14, node level: the log invariant and its bounds with no per-step side condition ---- *)
Theorem contract_log_ok c st sa dr n0 a n :
  rn_new c st sa dr = Ok (inr n0) -> init_ok c st n0 -> crun (init_app c st) n0 a n ->
  NLI false n
  /\ applied (nlog n) <= committed (nlog n) /\ committed (nlog n) <= last_index (nlog n)
  /\ last_index (nlog n) < u64_max
  /\ persisted (nlog n) <= storage_last_index (store (nlog n))
  /\ applied (nlog n) <= rn_commit_since_index n /\ rn_commit_since_index n <= committed (nlog n)
  /\ first_of (store (nlog n)) <= rn_commit_since_index n + 1
  /\ a_store a = store (nlog n) /\ a_applied a = applied (nlog n)
  /\ a_cursor a = rn_commit_since_index n.
Proof.
  intros H Hi R. pose proof (contract_trace _ _ _ _ _ _ _ H Hi R) as G.
  pose proof (Good_NLI a n G) as HI.
  destruct (NLI_bounds false n HI) as (B1 & B2 & B3 & _ & B5).
  splits; auto.
  - exact (g_app_le a n G).
  - exact (g_csi_commit a n G).
  - exact (g_first a n G).
  - exact (g_store a n G).
  - exact (g_applied a n G).
  - exact (Good_cursor a n G).
Qed.

(* every residual caller-side hypothesis of the earlier trace theorems holds at the next
   call of a contract-abiding application (storage writes are covered by contract_step) *)
Theorem contract_side_conditions c st sa dr n0 a n o :
  rn_new c st sa dr = Ok (inr n0) -> init_ok c st n0 -> crun (init_app c st) n0 a n ->
  app_ok a o -> peer_ok o -> idx_margin n o -> (forall m, o <> OSetStore m) ->
  op_wf n o /\ op_wf2 n o /\ op_pre_node2 n o /\ op_pre n o.
Proof.
  intros H Hi R Ha Hp Hm Hns. pose proof (contract_trace _ _ _ _ _ _ _ H Hi R) as G.
  destruct (side_ok a n o G Ha Hp Hm Hns) as [W2 W3].
  splits; [exact (proj1 W2)|exact W2|exact W3|].
  eapply op_pre_node_op_pre; [exact (Good_NLI a n G)|].
  eapply op_pre_node2_node; [exact (Good_NLI a n G)|exact (Good_CsiOK a n G)|exact W3].
Qed.

(* ---- (2) C07: the hand-out history along a contract-abiding trace ---- *)
Theorem handout_contiguous_from_contract c st sa dr n0 a n :
  rn_new c st sa dr = Ok (inr n0) -> init_ok c st n0 -> crun (init_app c st) n0 a n ->
  Hist n (a_hist a)
  /\ contiguous_from (fst (a_hist a) + 1) (snd (a_hist a))
  /\ rn_commit_since_index n = fst (a_hist a) + N.of_nat (length (snd (a_hist a))).
Proof.
  intros H Hi R. pose proof (contract_trace _ _ _ _ _ _ _ H Hi R) as G.
  pose proof (g_hist a n G) as HH. split; [exact HH|exact HH].
Qed.

(* each committed entry handed out is the log's entry at its index, at or below the commit
   index, when it is handed out *)
Theorem handed_entries_are_log_entries a n o n' ot :
  Good a n -> app_ok a o -> peer_ok o -> idx_margin n o -> exec n o = Ok (n', ot) ->
  forall e, In e (snd ot) ->
    match o with
    | OReady => ll_get (abs (nlog n)) (e_index e) = Some e /\ e_index e <= committed (nlog n)
    | OAdvanceAppend _ => ll_get (abs (nlog n')) (e_index e) = Some e /\ e_index e <= committed (nlog n')
    | OAdvance rd => exists n1 lr, rn_advance_append n rd = Ok (n1, lr)
                       /\ ll_get (abs (nlog n1)) (e_index e) = Some e /\ e_index e <= committed (nlog n1)
    | _ => False
    end.
Proof.
  intros G Ha Hp Hm E e Hin.
  destruct (is_setstore_dec o) as [[m ->]|Hns].
  { cbn [exec] in E. inversion E; subst. destruct Hin. }
  destruct (side_ok a n o G Ha Hp Hm Hns) as [W2 W3].
  pose proof (Good_NLI a n G) as HI. pose proof (Good_CsiOK a n G) as Hc.
  assert (Hpre : op_pre n o).
  { eapply op_pre_node_op_pre; [exact HI|]. eapply op_pre_node2_node; eassumption. }
  assert (Haa : forall rd n1 lr, op_pre n (OAdvanceAppend rd) -> rn_advance_append n rd = Ok (n1, lr) ->
            forall e, In e (lr_committed_entries lr) ->
              ll_get (abs (nlog n1)) (e_index e) = Some e /\ e_index e <= committed (nlog n1)).
  { intros rd n1 lr Hp' Hx e' Hin'.
    destruct (rn_advance_append_inv _ _ _ _ Hx) as (m1 & m2 & m3 & lr3 & H1 & H2 & H3 & _ & _ & _ & _ & Hn' & Hl).
    specialize (Hp' m1 m2 H1 H2).
    destruct (handout_step _ _ _ Hp' H3) as (_ & _ & Hall).
    assert (El : nlog n1 = nlog m2) by (subst n1; exact (gen_light_ready_log _ _ _ H3)).
    rewrite El. subst lr. cbn [lr_committed_entries] in Hin'. destruct (Hall e' Hin') as [A B].
    split; [exact A|]. pose proof (apply_bound_le (r_log (rn_raft m2))). unfold nlog. lia. }
  destruct o; try (match type of E with exec _ ?o = _ =>
                     destruct (quiet_ops_csi n o n' ot I E) as [-> _] end; cbn in Hin; destruct Hin).
  - (* ready *)
    cbn [exec] in E. inv_bind E. destruct x as [n1 rd]. cbn [fst snd] in E. inversion E; subst n' ot. clear E.
    cbn [snd] in Hin. cbn [op_pre] in Hpre.
    destruct (rn_ready_inv _ _ _ Hx) as (recs0 & snap & csi & rec_snap & ms2 & n2 & light & _ & Hsnap & Hgl & _ & Hrd).
    assert (Hcsi : csi = ready_since n).
    { unfold ready_snap in Hsnap. unfold ready_since.
      destruct (u_snapshot (unst (r_log (rn_raft n)))); [|inversion Hsnap; reflexivity].
      destruct Hsnap as (_ & _ & E0). inversion E0; reflexivity. }
    subst csi. assert (Elight : rd_light rd = light) by (subst rd; reflexivity). rewrite Elight in Hin.
    match type of Hgl with gen_light_ready ?nx = _ =>
      destruct (handout_step nx _ _ Hpre Hgl) as (_ & _ & Hall) end.
    destruct (Hall e Hin) as [A B].
    split; [exact A|]. pose proof (apply_bound_le (r_log (rn_raft n))). unfold nlog. cbn in B. lia.
  - (* advance *)
    cbn [exec] in E. inv_bind E. destruct x as [n2 lr2]. cbn [fst snd] in E. inversion E; subst n' ot. clear E.
    cbn [snd] in Hin. unfold rn_advance in Hx. inv_bind Hx. destruct x as [n1 lr1]. cbn [fst snd] in Hx.
    inv_bind Hx. inversion Hx; subst x lr2. exists n1, lr1. split; [exact Hx0|].
    eapply Haa; [exact Hpre|exact Hx0|exact Hin].
  - cbn [exec] in E. inv_bind E. destruct x as [n1 lr1]. cbn [fst snd] in E. inversion E; subst n' ot. clear E.
    cbn [snd] in Hin. eapply Haa; [exact Hpre|exact Hx|exact Hin].
Qed.

(* ---- (3) C20: no node-local or log/storage-shape panic along a contract-abiding trace ---- *)
Theorem contract_next_no_panic a n o s :
  Good a n -> app_ok a o -> peer_ok o -> idx_margin n o -> exec n o = Panic s -> ~ In s all_sites.
Proof.
  intros G Ha Hp Hm E.
  destruct (is_setstore_dec o) as [[m ->]|Hns]; [cbn [exec] in E; discriminate|].
  destruct (side_ok a n o G Ha Hp Hm Hns) as [W2 _].
  eapply (exec_no_panic false); [exact (g_good a n G)|exact W2|exact E].
Qed.

Theorem contract_no_local_or_shape_panic c st sa dr n0 a n o s :
  rn_new c st sa dr = Ok (inr n0) -> init_ok c st n0 -> crun (init_app c st) n0 a n ->
  app_ok a o -> peer_ok o -> idx_margin n o -> exec n o = Panic s -> ~ In s all_sites.
Proof.
  intros H Hi R. apply contract_next_no_panic. eapply contract_trace; eassumption.
Qed.

(* ================================================================== *)
(* Samples: the contract is satisfiable (the follower trace of          *)
(* RepInvSamples is contract-abiding)                                   *)
(* ================================================================== *)
Module ContractSamples.
  Import Samples RepInvSamples.

  Lemma f0_init_ok : init_ok cfg store3 f0.
  Proof. split; [exact store3_inv|]. split; [reflexivity|]. split; vm_compute; discriminate. Qed.

  Lemma app1_peer : peer_msgs_ok app1.
  Proof.
    split; intros E; [|vm_compute in E; discriminate E].
    split; [cbn; repeat split; reflexivity|]. split; [repeat constructor; discriminate|].
    split; [vm_compute; reflexivity|left; reflexivity].
  Qed.

  Lemma snapm_peer : peer_msgs_ok snapm.
  Proof. split; intros E; [vm_compute in E; discriminate E|]. split; vm_compute; [discriminate|reflexivity]. Qed.

  Example ex_contract_trace : exists a, crun (init_app cfg store3) f0 a f6.
  Proof.
    eexists.
    eapply (crun_cons _ f0 (OStep app1) f1 no_out).
    { apply AN_idle; reflexivity. } { exact app1_peer. } { vm_compute. reflexivity. } { vm_compute. reflexivity. }
    eapply (crun_cons _ f1 OReady (fst rd1)).
    { eapply AN_ready; [reflexivity|vm_compute; reflexivity]. } { exact I. } { vm_compute. reflexivity. }
    { vm_compute. reflexivity. }
    eapply (crun_cons _ (fst rd1) (OSetStore st1) f2 no_out).
    { eapply AN_ents; [reflexivity|vm_compute; reflexivity]. } { exact I. } { vm_compute. reflexivity. }
    { reflexivity. }
    eapply (crun_cons _ f2 (OAdvance (snd rd1)) f3).
    { apply AN_advance. reflexivity. } { exact I. } { vm_compute. reflexivity. } { vm_compute. reflexivity. }
    eapply (crun_cons _ f3 (OStep snapm) f4 no_out).
    { apply AN_idle; reflexivity. } { exact snapm_peer. } { vm_compute. reflexivity. } { vm_compute. reflexivity. }
    eapply (crun_cons _ f4 OReady (fst rd2)).
    { eapply AN_ready; [reflexivity|vm_compute; reflexivity]. } { exact I. } { vm_compute. reflexivity. }
    { vm_compute. reflexivity. }
    eapply (crun_cons _ (fst rd2) (OSetStore st2) f5 no_out).
    { eapply AN_snap; [reflexivity|vm_compute; reflexivity]. } { exact I. } { vm_compute. reflexivity. }
    { reflexivity. }
    eapply (crun_cons _ f5 (OAdvance (snd rd2)) f6).
    { apply AN_advance. reflexivity. } { exact I. } { vm_compute. reflexivity. } { vm_compute. reflexivity. }
    apply crun_nil.
  Qed.
End ContractSamples.

(* ================================================================== *)
(* The definitions used in the statements, spelled out (for Props/)      *)
(* ================================================================== *)
Lemma a_cursor_def a : a_cursor a = fst (a_hist a) + N.of_nat (length (snd (a_hist a))).
Proof. reflexivity. Qed.

Lemma stage_def rd :
  stage1 rd = (match rd_entries rd with [] => WDone | _ => WEnts end)
  /\ stage0 rd = (if s_index (rd_snapshot rd) =? 0 then stage1 rd else WSnap).
Proof. split; reflexivity. Qed.

Lemma meta_write_def st m :
  meta_write st m <->
  entries m = entries st /\ snap_index m = snap_index st /\ snap_term m = snap_term st
  /\ trig_log m = trig_log st.
Proof. reflexivity. Qed.

Lemma app_ok_def a o :
  app_ok a o <->
  match o with
  | OStep _ | OTick | OCampaign | OPropose _ _ | OProposeCC _ _ _ _ | OPing
  | OReportUnreachable _ | OReportSnapshot _ _ | ORequestSnapshot | OTransferLeader _
  | OReadIndex _ | OReady | OOnPersistReady _ | OAdvanceApply => a_phase a = Idle
  | OApplyCC _ => a_phase a = Idle /\ a_got a = true
  | OAdvance rd | OAdvanceAppend rd | OAdvanceAppendAsync rd => a_phase a = Writing rd WDone
  | OAdvanceApplyTo x => a_phase a = Idle /\ x <= a_cursor a
  | OSetStore m =>
      meta_write (a_store a) m
      \/ match a_phase a with
         | Writing rd WSnap => apply_snapshot (a_store a) (rd_snapshot rd) = Ok (m, SOk tt)
         | Writing rd WEnts => append (a_store a) (rd_entries rd) = Ok m
         | Writing _ WDone => False
         | Idle => exists ci, compact (a_store a) ci = Ok m /\ ci <= a_applied a
                              /\ ci < next_of (a_store a)
         end
  end.
Proof. reflexivity. Qed.

Lemma with_obs_def a ot st ph ap :
  with_obs a ot st ph ap = mkApp st ph (hist_step (a_hist a) ot) ap (a_got a || nonempty (snd ot)).
Proof. reflexivity. Qed.

Lemma app_next_iff a n o ot a' :
  app_next a n o ot a' <->
  (idle_op o = true /\ app_ok a o /\ a' = with_obs a ot (a_store a) Idle (a_applied a))
  \/ (exists n1 rd, o = OReady /\ a_phase a = Idle /\ rn_ready n = Ok (n1, rd)
        /\ a' = with_obs a ot (a_store a) (Writing rd (stage0 rd)) (a_applied a))
  \/ (exists m, o = OSetStore m /\
        ((meta_write (a_store a) m /\ a' = with_obs a ot m (a_phase a) (a_applied a))
         \/ (exists rd, a_phase a = Writing rd WSnap
               /\ apply_snapshot (a_store a) (rd_snapshot rd) = Ok (m, SOk tt)
               /\ a' = with_obs a ot m (Writing rd (stage1 rd)) (a_applied a))
         \/ (exists rd, a_phase a = Writing rd WEnts /\ append (a_store a) (rd_entries rd) = Ok m
               /\ a' = with_obs a ot m (Writing rd WDone) (a_applied a))
         \/ (exists ci, a_phase a = Idle /\ compact (a_store a) ci = Ok m /\ ci <= a_applied a
               /\ ci < next_of (a_store a) /\ a' = with_obs a ot m Idle (a_applied a))))
  \/ (exists rd, a_phase a = Writing rd WDone /\
        ((o = OAdvance rd /\ a' = with_obs a ot (a_store a) Idle
                                    (if a_cursor a =? 0 then a_applied a else a_cursor a))
         \/ ((o = OAdvanceAppend rd \/ o = OAdvanceAppendAsync rd)
             /\ a' = with_obs a ot (a_store a) Idle (a_applied a))))
  \/ (a_phase a = Idle /\
        ((exists k, o = OOnPersistReady k /\ a' = with_obs a ot (a_store a) Idle (a_applied a))
         \/ (o = OAdvanceApply /\ a' = with_obs a ot (a_store a) Idle
                                        (if a_cursor a =? 0 then a_applied a else a_cursor a))
         \/ (exists x, o = OAdvanceApplyTo x /\ x <= a_cursor a
               /\ a' = with_obs a ot (a_store a) Idle (if x =? 0 then a_applied a else x)))).
Proof.
  split.
  - intros H. destruct H.
    + left. auto.
    + right; left. eauto 10.
    + right; right; left. exists m. split; [reflexivity|]. left. auto.
    + right; right; left. exists m. split; [reflexivity|]. right; left. eauto.
    + right; right; left. exists m. split; [reflexivity|]. right; right; left. eauto.
    + right; right; left. exists m. split; [reflexivity|]. right; right; right. exists ci. auto 10.
    + right; right; right; left. exists rd. split; [assumption|]. left. auto.
    + right; right; right; left. exists rd. split; [assumption|]. right. auto.
    + right; right; right; left. exists rd. split; [assumption|]. right. auto.
    + right; right; right; right. split; [assumption|]. left. eauto.
    + right; right; right; right. split; [assumption|]. right; left. auto.
    + right; right; right; right. split; [assumption|]. right; right. eauto.
  - intros [(A & B & ->)|[(n1 & rd & -> & A & B & ->)|[(m & -> & H)|[(rd & A & H)|(A & H)]]]].
    + apply AN_idle; assumption.
    + eapply AN_ready; eassumption.
    + destruct H as [(B & ->)|[(rd & B & C0 & ->)|[(rd & B & C0 & ->)|(ci & B & C0 & D & E & ->)]]].
      * apply AN_meta; assumption.
      * apply AN_snap; assumption.
      * apply AN_ents; assumption.
      * eapply AN_compact; eassumption.
    + destruct H as [(-> & ->)|([-> | ->] & ->)].
      * apply AN_advance; assumption.
      * apply AN_advance_append; assumption.
      * apply AN_advance_async; assumption.
    + destruct H as [(k & -> & ->)|[(-> & ->)|(x & -> & B & ->)]].
      * apply AN_persist; assumption.
      * apply AN_apply; assumption.
      * apply AN_apply_to; assumption.
Qed.

Lemma idle_op_def o :
  idle_op o = match o with
              | OStep _ | OTick | OCampaign | OPropose _ _ | OProposeCC _ _ _ _ | OApplyCC _ | OPing
              | OReportUnreachable _ | OReportSnapshot _ _ | ORequestSnapshot | OTransferLeader _
              | OReadIndex _ => true
              | _ => false
              end.
Proof. reflexivity. Qed.

Lemma peer_msgs_ok_def m :
  peer_msgs_ok m <->
  (m_type m = MsgAppend ->
     contiguous_from (m_index m + 1) (m_entries m) /\ Forall (fun e => e_term e <> 0) (m_entries m)
     /\ m_index m + N.of_nat (length (m_entries m)) < u64_max
     /\ (m_index m = 0 \/ m_log_term m <> 0))
  /\ (m_type m = MsgSnapshot -> 1 <= s_index (m_snapshot m) < u64_max).
Proof. reflexivity. Qed.

Lemma peer_ok_def o : peer_ok o <-> match o with OStep m => peer_msgs_ok m | _ => True end.
Proof. reflexivity. Qed.

Lemma idx_margin_def n o :
  idx_margin n o <->
  last_index (r_log (rn_raft n)) + 1
  + match o with OStep m => N.of_nat (length (m_entries m)) | _ => 0 end < u64_max.
Proof. reflexivity. Qed.

Lemma init_ok_def c st n0 :
  init_ok c st n0 <->
  SInv st /\ trig_log st = false /\ first_of st - 1 <= c_applied c
  /\ c_applied c <= committed (r_log (rn_raft n0)).
Proof. reflexivity. Qed.

Lemma init_app_def c st : init_app c st = mkApp st Idle (c_applied c, []) (c_applied c) false.
Proof. reflexivity. Qed.

Lemma crun_iff a n a' n' :
  crun a n a' n' <->
  (a' = a /\ n' = n)
  \/ exists o n1 ot a1, app_next a n o ot a1 /\ peer_ok o /\ idx_margin n o
       /\ exec n o = Ok (n1, ot) /\ crun a1 n1 a' n'.
Proof.
  split.
  - intros R. destruct R; [left; split; reflexivity|right; eauto 12].
  - intros [[-> ->]|(o & n1 & ot & a1 & A & B & C0 & D & E)]; [constructor|econstructor; eassumption].
Qed.

Lemma recs_done_def a n :
  recs_done a n = match a_phase a with
                  | Writing _ WSnap => removelast (rn_records n)
                  | _ => rn_records n
                  end.
Proof. reflexivity. Qed.

Lemma phase_ok_def a n :
  phase_ok a n <->
  match a_phase a with
  | Idle => True
  | Writing rd st =>
      let l := r_log (rn_raft n) in
      let rr := List.last (rn_records n) (mkRR 0 None None false) in
      rn_records n <> []
      /\ rd_entries rd = u_entries (unst l)
      /\ rd_snapshot rd = match u_snapshot (unst l) with Some s => s | None => snap_default end
      /\ rr_last_entry rr = rec_last_of (u_entries (unst l))
      /\ rr_snapshot rr = option_map (fun s => (s_index s, s_term s)) (u_snapshot (unst l))
      /\ (forall s, u_snapshot (unst l) = Some s -> rn_commit_since_index n = s_index s)
      /\ match st with
         | WSnap => u_snapshot (unst l) <> None
         | WEnts => snap_written l /\ u_entries (unst l) <> []
         | WDone => snap_written l /\ (u_entries (unst l) <> [] -> ents_written l)
         end
  end.
Proof. reflexivity. Qed.

Lemma Good_iff a n :
  Good a n <->
  NGood false n
  /\ a_store a = store (r_log (rn_raft n))
  /\ Hist n (a_hist a)
  /\ a_applied a = applied (r_log (rn_raft n))
  /\ applied (r_log (rn_raft n)) <= rn_commit_since_index n
  /\ rn_commit_since_index n <= committed (r_log (rn_raft n))
  /\ rn_commit_since_index n < u_offset (unst (r_log (rn_raft n)))
  /\ max_apply_unpersisted_log_limit (r_log (rn_raft n)) = 0
  /\ first_of (store (r_log (rn_raft n))) <= rn_commit_since_index n + 1
  /\ (forall s, u_snapshot (unst (r_log (rn_raft n))) = Some s -> 1 <= s_index s)
  /\ (a_got a = true -> 1 <= committed (r_log (rn_raft n)))
  /\ (forall rr i t, In rr (recs_done a n) -> rr_snapshot rr = Some (i, t) ->
                     i < first_of (store (r_log (rn_raft n))))
  /\ phase_ok a n.
Proof.
  split.
  - intros G. destruct G. splits; assumption.
  - intros (A & B & C0 & D & E & F & G0 & H & I0 & J & K & L & M). constructor; assumption.
Qed.

Lemma lrel_def Q l l' :
  lrel Q l l' <->
  (store l' = store l
   /\ committed l <= committed l'
   /\ (u_snapshot (unst l) <> None -> u_snapshot (unst l') <> None)
   /\ (forall s, u_snapshot (unst l') = Some s -> u_snapshot (unst l) = Some s \/ Q s)
   /\ (forall b, b <= committed l -> b < u_offset (unst l) -> b < u_offset (unst l'))
   /\ (max_apply_unpersisted_log_limit l = 0 -> max_apply_unpersisted_log_limit l' = 0))
  /\ applied l' = applied l.
Proof. reflexivity. Qed.

Lemma snap_of_def m s : snap_of m s <-> m_type m = MsgSnapshot /\ s = m_snapshot m.
Proof. reflexivity. Qed.

Lemma op_snap_def o s : op_snap o s <-> match o with OStep m => snap_of m s | _ => False end.
Proof. reflexivity. Qed.

(* ================================================================== *)
(* Part 5. Site 1422 (commit_info: "last committed entry is missing")   *)
(* ================================================================== *)
(* the term at the commit index is known: either a snapshot is pending, or the storage
   still has its snapshot point as first index - 1, or the commit index is a held entry *)
Definition TK (l : raft_log) : Prop :=
  match u_snapshot (unst l) with
  | Some _ => True
  | None => first_of (store l) - 1 = snap_index (store l) \/ first_of (store l) <= committed l
  end.

Notation s1422 := site_l_commit_info.

Lemma tk_commit_info rw l : RepInv rw l -> TK l -> exists v, commit_info l = Ok v.
Proof.
  intros HI Ht. rewrite (commit_info_abs rw l HI).
  pose proof (base_le_committed rw l HI) as Hb. pose proof (ri_commit rw l HI) as Hc.
  unfold ll_term.
  destruct ((committed l <? ll_base (abs l)) || (ll_last (abs l) <? committed l)) eqn:E; [eauto|].
  destruct (committed l =? ll_base (abs l)) eqn:E2.
  - assert (Hbt : exists t, ll_bterm (abs l) = Some t).
    { unfold TK in Ht. unfold abs in *. destruct (u_snapshot (unst l)) as [s|]; cbn [ll_bterm ll_base] in *; [eauto|].
      unfold store_bterm. destruct Ht as [Ht|Ht].
      - rewrite Ht, N.eqb_refl. eauto.
      - pose proof (first_pos _ (ri_store rw l HI)). lia. }
    destruct Hbt as [t ->]. eauto.
  - destruct (ll_get (abs l) (committed l)); eauto.
Qed.

Lemma lrel0_TK Q l l' : lrel0 Q l l' -> TK l -> TK l'.
Proof.
  intros (A1 & A2 & A3 & _) Ht. unfold TK in *.
  destruct (u_snapshot (unst l')) eqn:E'; [exact I|].
  destruct (u_snapshot (unst l)) eqn:E; [exfalso; apply A3; [discriminate|reflexivity]|].
  rewrite A1. destruct Ht as [Ht|Ht]; [left; exact Ht|right; lia].
Qed.

Lemma TK_set_limit l k : TK l -> TK (set_limit l k).
Proof. exact (fun H => H). Qed.

Tactic Notation "no22" constr(lem) hyp(H) :=
  exfalso; eapply (notin_b s1422); [|eapply lem; exact H]; vm_compute; reflexivity.

Lemma commit_info_22 rw l : RepInv rw l -> TK l -> commit_info l = Panic s1422 -> False.
Proof. intros HI Ht H. destruct (tk_commit_info rw l HI Ht) as [v E]. congruence. Qed.

Lemma poll_gen_22 rc r from v :
  poll_gen rc r from v = Panic s1422 ->
  exists r0, r_log r0 = r_log r /\ rc r0 = Panic s1422.
Proof.
  unfold poll_gen. intros H.
  set (r0 := r <| r_prs := (r_prs r) <| t_votes := Quorum.record_vote (t_votes (r_prs r)) from v |> |>) in *.
  assert (E0 : r_log r0 = r_log r) by reflexivity. clearbody r0.
  destruct (Quorum.tracker_vote_result _ _ _).
  - discriminate.
  - apply bind_panic in H. destruct H as [H|(x & _ & H)]; [|discriminate].
    no22 become_follower_sites_explicit H.
  - destruct (role_eqb (r_state r0) PreCandidate).
    + apply bind_panic in H. destruct H as [H|(x & _ & H)]; [|discriminate]. eauto.
    + apply bind_panic in H. destruct H as [H|(x & _ & H)]; [no22 become_leader_sites_explicit H|].
      apply bind_panic in H. destruct H as [H|(y & _ & H)]; [|discriminate].
      no22 bcast_append_sites_explicit H.
Qed.

Lemma campaign_real_22 rw tr r :
  LI rw r -> room 1 r -> TK (r_log r) -> campaign_real tr r = Panic s1422 -> False.
Proof.
  unfold campaign_real. intros HI Hroom Ht H.
  apply bind_panic in H. destruct H as [H|(r1 & E1 & H)]; [no22 become_candidate_sites_explicit H|].
  pose proof (become_candidate_log _ _ E1) as El.
  apply bind_panic in H. destruct H as [H|([r2 res] & E2 & H)].
  { apply poll_gen_22 in H. destruct H as (r0 & _ & H). discriminate. }
  assert (H1 : LI rw r1) by (eapply LI_same; eassumption).
  assert (R1 : room 1 r1) by (eapply room_same; [|exact Hroom]; rewrite El; reflexivity).
  assert (H2 : LI rw r2).
  { eapply poll_gen_pres; [|exact E2|exact H1|exact R1]. intros ra ra' Hp; discriminate. }
  assert (T2 : TK (r_log r2)).
  { assert (RR : rrel (fun _ => False) r1 r2).
    { eapply poll_gen_rrel; [|exact E2]. intros ra ra' Hp; discriminate. }
    destruct RR as [RR _]. eapply lrel0_TK; [exact RR|]. rewrite El. exact Ht. }
  destruct res.
  - apply bind_panic in H. destruct H as [H|(ci & _ & H)]; [exact (commit_info_22 rw _ H2 T2 H)|].
    no22 send_vote_requests_sites_explicit H.
  - apply bind_panic in H. destruct H as [H|(ci & _ & H)]; [exact (commit_info_22 rw _ H2 T2 H)|].
    no22 send_vote_requests_sites_explicit H.
  - discriminate.
Qed.

Lemma poll_22 rw r from v :
  LI rw r -> room 1 r -> TK (r_log r) -> poll r from v = Panic s1422 -> False.
Proof.
  unfold poll. intros HI Hroom Ht H. apply poll_gen_22 in H. destruct H as (r0 & E0 & H).
  eapply (campaign_real_22 rw); [| | |exact H].
  - eapply LI_same; eassumption.
  - eapply room_same; [|exact Hroom]. rewrite E0. reflexivity.
  - rewrite E0. exact Ht.
Qed.

Lemma campaign_pre_22 rw r :
  LI rw r -> room 1 r -> TK (r_log r) -> campaign_pre r = Panic s1422 -> False.
Proof.
  unfold campaign_pre. intros HI Hroom Ht H.
  apply bind_panic in H. destruct H as [H|(r1 & E1 & H)]; [no22 become_pre_candidate_sites_explicit H|].
  pose proof (become_pre_candidate_log _ _ E1) as El.
  assert (H1 : LI rw r1) by (eapply LI_same; eassumption).
  assert (R1 : room 1 r1) by (eapply room_same; [|exact Hroom]; rewrite El; reflexivity).
  assert (T1 : TK (r_log r1)) by (rewrite El; exact Ht).
  apply bind_panic in H. destruct H as [H|([r2 res] & E2 & H)]; [exact (poll_22 rw _ _ _ H1 R1 T1 H)|].
  pose proof (poll_pres rw _ _ _ _ _ E2 H1 R1) as H2.
  assert (T2 : TK (r_log r2)).
  { destruct (poll_rrel (fun _ => False) _ _ _ _ _ E2) as [RR _]. eapply lrel0_TK; eassumption. }
  destruct res.
  - apply bind_panic in H. destruct H as [H|(ci & _ & H)]; [exact (commit_info_22 rw _ H2 T2 H)|].
    no22 send_vote_requests_sites_explicit H.
  - apply bind_panic in H. destruct H as [H|(ci & _ & H)]; [exact (commit_info_22 rw _ H2 T2 H)|].
    no22 send_vote_requests_sites_explicit H.
  - discriminate.
Qed.

Lemma hup_22 rw r tl :
  LI rw r -> room 1 r -> TK (r_log r) -> hup r tl = Panic s1422 -> False.
Proof.
  unfold hup. intros HI Hroom Ht H.
  destruct (is_leader r); [discriminate|]. destruct (negb (r_promotable r)); [discriminate|].
  apply bind_panic in H. destruct H as [H|(low & _ & H)].
  { destruct (u_maybe_first_index (unst (r_log r))); [discriminate|].
    apply bind_panic in H. destruct H as [H|(fi & _ & H)]; [|discriminate].
    no22 l_first_index_sites_explicit H. }
  apply bind_panic in H. destruct H as [H|(b & _ & H)]; [no22 has_unapplied_conf_changes_sites_explicit H|].
  destruct b; [discriminate|].
  destruct tl; [exact (campaign_real_22 rw _ _ HI Hroom Ht H)|].
  destruct (r_pre_vote r); [exact (campaign_pre_22 rw _ HI Hroom Ht H)|exact (campaign_real_22 rw _ _ HI Hroom Ht H)].
Qed.

Ltac br22 H :=
  first [ discriminate H
        | no22 send_sites_explicit H | no22 become_follower_sites_explicit H
        | no22 handle_append_entries_sites_explicit H | no22 handle_heartbeat_sites_explicit H
        | no22 handle_snapshot_sites_explicit H | no22 maybe_commit_by_vote_sites_explicit H
        | no22 l_maybe_commit_sites_explicit H | no22 is_up_to_date_sites_explicit H
        | no22 vote_resp_msg_type_sites_explicit H | no22 step_leader_sites_explicit H ].

Lemma step_candidate_22 rw r m :
  LI rw r -> msg_wf (last_index (r_log r)) m -> TK (r_log r) ->
  step_candidate r m = Panic s1422 -> False.
Proof.
  unfold step_candidate. intros HI (We & _) Ht H.
  destruct (m_type m =? MsgPropose); [discriminate|].
  match type of H with (if ?c then _ else _) = _ => destruct c end.
  { destruct (negb (r_term r =? m_term m)); [vm_compute in H; discriminate|].
    apply bind_panic in H. destruct H as [H|(r1 & _ & H)]; [br22 H|].
    apply bind_panic in H. destruct H as [H|(r2 & _ & H)]; [|discriminate].
    destruct (m_type m =? MsgAppend); [br22 H|]. destruct (m_type m =? MsgHeartbeat); br22 H. }
  match type of H with (if ?c then _ else _) = _ => destruct c eqn:E2 end; [|discriminate].
  match type of H with (if ?c then _ else _) = _ => destruct c end; [discriminate|].
  specialize (We (elect_type_vote_resp _ E2)).
  apply bind_panic in H. destruct H as [H|(x & _ & H)]; [exact (poll_22 rw _ _ _ HI We Ht H)|].
  apply bind_panic in H. destruct H as [H|(y & _ & H)]; [br22 H|discriminate].
Qed.

Lemma step_follower_22 rw r m :
  LI rw r -> msg_wf (last_index (r_log r)) m -> TK (r_log r) ->
  step_follower r m = Panic s1422 -> False.
Proof.
  unfold step_follower. intros HI (We & _) Ht H.
  destruct (m_type m =? MsgPropose).
  { destruct (r_leader_id r =? INVALID_ID); [discriminate|].
    destruct (r_disable_proposal_forwarding r); [discriminate|].
    apply bind_panic in H. destruct H as [H|(x & _ & H)]; [br22 H|discriminate]. }
  destruct (m_type m =? MsgAppend).
  { apply bind_panic in H. destruct H as [H|(x & _ & H)]; [br22 H|discriminate]. }
  destruct (m_type m =? MsgHeartbeat).
  { apply bind_panic in H. destruct H as [H|(x & _ & H)]; [br22 H|discriminate]. }
  destruct (m_type m =? MsgSnapshot).
  { apply bind_panic in H. destruct H as [H|(x & _ & H)]; [br22 H|discriminate]. }
  destruct (m_type m =? MsgTransferLeader).
  { destruct (r_leader_id r =? INVALID_ID); [discriminate|].
    apply bind_panic in H. destruct H as [H|(x & _ & H)]; [br22 H|discriminate]. }
  destruct (m_type m =? MsgTimeoutNow) eqn:Etn.
  { destruct (r_promotable r); [|discriminate].
    apply bind_panic in H. destruct H as [H|(x & _ & H)]; [|discriminate].
    eapply (hup_22 rw); [exact HI| |exact Ht|exact H].
    apply We. unfold elect_type. rewrite Etn. rewrite ?orb_true_r. reflexivity. }
  destruct (m_type m =? MsgReadIndex).
  { destruct (r_leader_id r =? INVALID_ID); [discriminate|].
    apply bind_panic in H. destruct H as [H|(x & _ & H)]; [br22 H|discriminate]. }
  destruct (m_type m =? MsgReadIndexResp); [|discriminate].
  destruct (m_entries m) as [|e [|e2 es]]; try discriminate.
  apply bind_panic in H. destruct H as [H|(x & _ & H)]; [br22 H|discriminate].
Qed.

Lemma step_body_22 rw r m :
  LI rw r -> msg_wf (last_index (r_log r)) m -> TK (r_log r) ->
  step_body r m = Panic s1422 -> False.
Proof.
  unfold step_body. intros HI W Ht H.
  destruct (m_type m =? MsgHup) eqn:Eh.
  { apply bind_panic in H. destruct H as [H|(x & _ & H)]; [|discriminate].
    eapply (hup_22 rw); [exact HI| |exact Ht|exact H].
    apply (proj1 W). unfold elect_type. rewrite Eh. reflexivity. }
  match type of H with (if ?c then _ else _) = _ => destruct c end.
  { apply bind_panic in H. destruct H as [H|(utd & _ & H)]; [br22 H|].
    apply bind_panic in H. destruct H as [H|(rt & _ & H)]; [br22 H|].
    match type of H with (if ?c then _ else _) = _ => destruct c end.
    - apply bind_panic in H. destruct H as [H|(r1 & _ & H)]; [br22 H|].
      destruct (m_type m =? MsgRequestVote); discriminate.
    - apply bind_panic in H. destruct H as [H|(ci & _ & H)]; [exact (commit_info_22 rw _ HI Ht H)|].
      apply bind_panic in H. destruct H as [H|(r1 & _ & H)]; [br22 H|].
      apply bind_panic in H. destruct H as [H|(r2 & _ & H)]; [br22 H|discriminate]. }
  unfold step_role in H. destruct (r_state r).
  - eapply step_follower_22; eassumption.
  - eapply step_candidate_22; eassumption.
  - br22 H.
  - eapply step_candidate_22; eassumption.
Qed.

Theorem step_22 rw r m :
  LI rw r -> msg_wf (last_index (r_log r)) m -> TK (r_log r) -> step r m = Panic s1422 -> False.
Proof.
  intros HI W Ht H. rewrite step_decompose in H.
  apply bind_panic in H. destruct H as [H|(pre & E & H)].
  { unfold step_prologue in H. destruct (m_term m =? 0); [discriminate|].
    destruct (r_term r <? m_term m).
    - match type of H with (if ?c then _ else _) = _ => destruct c end; [discriminate|].
      match type of H with (if ?c then _ else _) = _ => destruct c end; [discriminate|].
      match type of H with (if ?c then _ else _) = _ => destruct c end;
        (apply bind_panic in H; destruct H as [H|(x & _ & H)]; [br22 H|discriminate]).
    - destruct (m_term m <? r_term r); [|discriminate].
      match type of H with (if ?c then _ else _) = _ => destruct c end.
      + apply bind_panic in H. destruct H as [H|(x & _ & H)]; [br22 H|discriminate].
      + match type of H with (if ?c then _ else _) = _ => destruct c end; [|discriminate].
        apply bind_panic in H. destruct H as [H|(x & _ & H)]; [br22 H|discriminate]. }
  apply step_prologue_spec in E. destruct pre as [[r1 c1]|r1]; [discriminate|].
  destruct E as [-> |(_ & l & Hbf)]; [eapply step_body_22; eassumption|].
  destruct (become_follower_pres rw _ _ _ _ Hbf HI) as [H1 L1].
  eapply (step_body_22 rw); [exact H1| | |exact H].
  - rewrite L1. exact W.
  - rewrite (become_follower_log _ _ _ _ Hbf). apply TK_set_limit. exact Ht.
Qed.

Theorem tick_22 rw r : LI rw r -> room 1 r -> TK (r_log r) -> tick r = Panic s1422 -> False.
Proof.
  unfold tick. intros HI Hroom Ht H.
  assert (Hel : tick_election r = Panic s1422 -> False).
  { unfold tick_election. intros He.
    match type of He with (if ?c then _ else _) = _ => destruct c end; [discriminate|].
    apply bind_panic in He. destruct He as [He|(x & _ & He)]; [|discriminate].
    eapply (step_22 rw); [| | |exact He]; [exact HI| |exact Ht].
    unfold msg_wf. cbn. splits; try (intros E; discriminate). intros _. exact Hroom. }
  assert (Hhb : tick_heartbeat r = Panic s1422 -> False).
  { unfold tick_heartbeat. intros He.
    apply bind_panic in He. destruct He as [He|([r1 hr] & E1 & He)].
    - match type of He with (if ?c then _ else _) = _ => destruct c end; [|discriminate].
      apply bind_panic in He. destruct He as [He|([ry hy] & _ & He)]; [|discriminate].
      destruct (r_check_quorum _); [|discriminate].
      apply bind_panic in He. destruct He as [He|(z & _ & He)]; [|discriminate].
      eapply (step_22 rw); [| | |exact He]; [exact HI| |exact Ht].
      apply msg_wf_plain; cbn; [reflexivity|discriminate|discriminate|discriminate].
    - assert (H1 : LI rw r1 /\ TK (r_log r1)).
      { match type of E1 with (if ?c then _ else _) = _ => destruct c end;
          [|inversion E1; subst; split; assumption].
        inv_bind E1. destruct x as [rb hb]. inversion E1; subst.
        assert (Hb : LI rw rb /\ TK (r_log rb)).
        { destruct (r_check_quorum _); [|inversion Hx; subst; split; assumption].
          inv_bind Hx. inversion Hx; subst. destruct x as [rc cc]. cbn [fst].
          split.
          - eapply step_pres; [exact Hx0| |exact HI].
            apply msg_wf_plain; cbn; [reflexivity|discriminate|discriminate|discriminate].
          - apply (step_plain_rrel (fun _ => False)) in Hx0; [|cbn; discriminate].
            destruct Hx0 as [RR _]. eapply lrel0_TK; [exact RR|exact Ht]. }
        match goal with |- LI rw (if ?c then _ else _) /\ _ => destruct c end; exact Hb. }
      destruct H1 as [H1 T1].
      destruct (negb (is_leader r1)); [discriminate|].
      match type of He with (if ?c then _ else _) = _ => destruct c end; [|discriminate].
      apply bind_panic in He. destruct He as [He|(z & _ & He)]; [|discriminate].
      eapply (step_22 rw); [| | |exact He]; [exact H1| |exact T1].
      apply msg_wf_plain; cbn; [reflexivity|discriminate|discriminate|discriminate]. }
  destruct (r_state r); auto.
Qed.

(* the next call of a contract-abiding application cannot panic at 1422 *)
Theorem exec_22 a n o :
  Good a n -> TK (nlog n) -> app_ok a o -> peer_ok o -> idx_margin n o ->
  exec n o = Panic s1422 -> False.
Proof.
  intros G Ht Ha Hp Hm E.
  destruct (is_setstore_dec o) as [[m ->]|Hns]; [cbn [exec] in E; discriminate|].
  destruct (side_ok a n o G Ha Hp Hm Hns) as [[W _] _].
  pose proof (Good_NLI a n G) as HI. unfold NLI in HI. unfold nlog in Ht.
  assert (Hstep : forall m, msg_wf (nlast n) m -> step (rn_raft n) m = Panic s1422 -> False).
  { intros m Wm Hs. exact (step_22 false _ _ HI Wm Ht Hs). }
  assert (Hplain : forall m, elect_type (m_type m) = false -> m_type m <> MsgPropose ->
            m_type m <> MsgAppend -> m_type m <> MsgSnapshot -> step (rn_raft n) m = Panic s1422 -> False).
  { intros m A B C0 D. apply Hstep. apply msg_wf_plain; assumption. }
  destruct o; try (exfalso; eapply Hns; reflexivity); cbn [exec op_wf] in E, W; unfold quiet, quiet1 in E;
    apply bind_panic in E; destruct E as [E|(x & _ & E)]; try discriminate E.
  - unfold rn_step, lift2 in E. destruct (is_local_msg _); [discriminate|].
    match type of E with (if ?c then _ else _) = _ => destruct c end; [|discriminate].
    apply bind_panic in E. destruct E as [E|(y & _ & E)]; [|discriminate]. exact (Hstep m W E).
  - unfold rn_tick in E. apply bind_panic in E. destruct E as [E|(y & _ & E)]; [|discriminate].
    exact (tick_22 false _ HI W Ht E).
  - unfold rn_campaign, lift2 in E. apply bind_panic in E. destruct E as [E|(y & _ & E)]; [|discriminate].
    eapply Hstep; [|exact E]. unfold msg_wf. cbn. splits; try (intros C; discriminate). intros _. exact W.
  - unfold rn_propose, lift2 in E. apply bind_panic in E. destruct E as [E|(y & _ & E)]; [|discriminate].
    eapply Hstep; [|exact E]. unfold msg_wf. cbn. splits; try (intros C; discriminate). intros _. exact W.
  - unfold rn_propose_conf_change, lift2 in E. apply bind_panic in E. destruct E as [E|(y & _ & E)]; [|discriminate].
    eapply Hstep; [|exact E]. unfold msg_wf. cbn. splits; try (intros C; discriminate). intros _. exact W.
  - no22 rn_apply_conf_change_sites_explicit E.
  - no22 rn_ping_sites_explicit E.
  - no22 rn_ready_sites_explicit E.
  - no22 rn_advance_sites_explicit E.
  - no22 rn_advance_append_sites_explicit E.
  - no22 rn_advance_append_async_sites_explicit E.
  - no22 rn_on_persist_ready_sites_explicit E.
  - no22 rn_advance_apply_sites_explicit E.
  - no22 rn_advance_apply_to_sites_explicit E.
  - unfold rn_report_unreachable in E. apply bind_panic in E. destruct E as [E|(y & _ & E)]; [|discriminate].
    eapply Hplain; [| | | |exact E]; cbn; (reflexivity || discriminate).
  - unfold rn_report_snapshot in E. apply bind_panic in E. destruct E as [E|(y & _ & E)]; [|discriminate].
    eapply Hplain; [| | | |exact E]; cbn; (reflexivity || discriminate).
  - no22 rn_request_snapshot_sites_explicit E.
  - unfold rn_transfer_leader in E. apply bind_panic in E. destruct E as [E|(y & _ & E)]; [|discriminate].
    eapply Hplain; [| | | |exact E]; cbn; (reflexivity || discriminate).
  - unfold rn_read_index in E. apply bind_panic in E. destruct E as [E|(y & _ & E)]; [|discriminate].
    eapply Hplain; [| | | |exact E]; cbn; (reflexivity || discriminate).
Qed.

(* the term at the commit index stays known along a contract-abiding trace *)
Lemma append_snap_index m ents m' : append m ents = Ok m' -> snap_index m' = snap_index m.
Proof.
  unfold append. intros H. destruct ents as [|n0 t]; [inversion H; reflexivity|].
  inv_bind H. destruct (_ <? _); [discriminate|]. destruct (_ =? _); [discriminate|].
  destruct (_ <? _); [discriminate|]. destruct (_ <? _)%nat; [discriminate|]. inversion H; reflexivity.
Qed.

Lemma TK_store l m :
  (u_snapshot (unst l) = None ->
   first_of m - 1 = snap_index m \/ first_of m <= committed l) -> TK (set_store l m).
Proof.
  intros H. unfold TK. cbn [set_store store unst committed].
  destruct (u_snapshot (unst l)); [exact I|]. apply H. reflexivity.
Qed.

Theorem contract_step_tk a n o ot a' n' :
  Good a n -> TK (nlog n) -> app_next a n o ot a' -> peer_ok o -> idx_margin n o ->
  exec n o = Ok (n', ot) -> TK (nlog n').
Proof.
  intros G Ht Hn Hp Hm E.
  pose proof (Good_NLI a n G) as HI.
  assert (Hadv : forall rd n1 n2, a_phase a = Writing rd WDone -> commit_ready n rd = Ok n1 ->
            (TK (nlog n1)) /\
            (rn_on_persist_ready n1 (rn_max_number n1) = Ok n2 -> TK (nlog n2))).
  { intros rd n1 n2 Eph H1.
    destruct (commit_ready_done a n rd n1 G Eph H1) as (A1 & B1 & (C1 & C2 & C3) & D1 & E1 & F1 & R1 & M1 & S1).
    assert (T1 : TK (nlog n1)).
    { unfold TK. rewrite E1, B1, C1.
      pose proof (g_phase a n G) as Hph. unfold phase_ok in Hph. rewrite Eph in Hph.
      destruct Hph as (_ & _ & _ & _ & _ & _ & Hsw & _).
      unfold TK in Ht. unfold snap_written in Hsw.
      destruct (u_snapshot (unst (nlog n))) as [s|]; [|exact Ht].
      destruct Hsw as (W1 & _ & W3 & _). left. lia. }
    split; [exact T1|]. intros H2.
    destruct (on_persist_ready_rel _ _ _ H2) as ((L & _) & _). eapply lrel0_TK; eassumption. }
  destruct Hn.
  - destruct (idle_exec_rel n o n' ot H E) as ((L & _) & _). eapply lrel0_TK; eassumption.
  - cbn [exec] in E. rewrite H0 in E. cbn [bind fst snd] in E. injection E as En Eo. subst n1.
    rewrite (rn_ready_log _ _ _ H0). exact Ht.
  - cbn [exec] in E. inversion E; subst n' ot. change (TK (set_store (nlog n) m)). apply TK_store. intros Es.
    rewrite (g_store a n G) in H. destruct H as (A & B & _).
    assert (Hf : first_of m = first_of (store (nlog n))) by (unfold first_of; rewrite A, B; reflexivity).
    unfold TK in Ht. rewrite Es in Ht. rewrite Hf, B. exact Ht.
  - cbn [exec] in E. inversion E; subst n' ot. change (TK (set_store (nlog n) m)). apply TK_store. intros Es.
    pose proof (g_phase a n G) as Hph. unfold phase_ok in Hph. rewrite H in Hph.
    destruct Hph as (_ & _ & _ & _ & _ & _ & Hne). congruence.
  - cbn [exec] in E. inversion E; subst n' ot. change (TK (set_store (nlog n) m)). apply TK_store. intros Es.
    rewrite (g_store a n G) in H0.
    pose proof (g_phase a n G) as Hph. unfold phase_ok in Hph. rewrite H in Hph.
    destruct Hph as (_ & H2 & _). rewrite H2 in H0.
    destruct (store_append_unstable_ok false (nlog n) HI Es) as (st2 & Ha2 & _ & _ & Hf & _).
    rewrite H0 in Ha2. inversion Ha2; subst st2.
    rewrite Hf, (append_snap_index _ _ _ H0). unfold TK in Ht. rewrite Es in Ht. exact Ht.
  - cbn [exec] in E. inversion E; subst n' ot. change (TK (set_store (nlog n) m)). apply TK_store. intros Es.
    rewrite (g_store a n G) in H0, H2. rewrite (g_applied a n G) in H1.
    destruct (N.le_gt_cases ci (first_of (store (nlog n)))) as [Hle|Hgt].
    + rewrite (store_compact_noop false (nlog n) ci HI Hle) in H0. inversion H0; subst m.
      unfold TK in Ht. rewrite Es in Ht. exact Ht.
    + pose proof (g_app_le a n G). pose proof (g_csi_stable a n G).
      destruct (store_compact_ok (nlog n) ci HI Es Hgt H1 ltac:(lia) H2) as (st2 & Hc2 & _ & _ & Hf).
      rewrite H0 in Hc2. inversion Hc2; subst st2. right. rewrite Hf.
      pose proof (ri_applied false _ HI eq_refl). unfold nlog in *. lia.
  - (* advance *)
    cbn [exec] in E. inv_bind E. destruct x as [n2 lr2]. cbn [fst snd] in E. inversion E; subst n' ot. clear E.
    unfold rn_advance in Hx. inv_bind Hx. destruct x as [n1 lr1]. cbn [fst snd] in Hx.
    inv_bind Hx. inversion Hx; subst x lr2. clear Hx.
    destruct (rn_advance_append_inv _ _ _ _ Hx0) as (m1 & m2 & m3 & lr3 & H1 & H2 & H3 & _ & _ & _ & _ & Hn' & _).
    destruct (Hadv rd m1 m2 H H1) as [_ T2]. specialize (T2 H2).
    assert (T1 : TK (nlog n1)).
    { subst n1. change (TK (nlog m3)). rewrite (gen_light_ready_log _ _ _ H3). exact T2. }
    unfold rn_advance_apply_to, lift in Hx1. inv_bind Hx1. inversion Hx1; subst n2.
    destruct (commit_apply_rel (fun _ => False) _ _ _ Hx) as (L & _). unfold nlog. cbn.
    eapply lrel0_TK; [exact L|exact T1].
  - cbn [exec] in E. inv_bind E. destruct x as [n1 lr1]. cbn [fst snd] in E. inversion E; subst n' ot. clear E.
    destruct (rn_advance_append_inv _ _ _ _ Hx) as (m1 & m2 & m3 & lr3 & H1 & H2 & H3 & _ & _ & _ & _ & Hn' & _).
    destruct (Hadv rd m1 m2 H H1) as [_ T2]. specialize (T2 H2).
    subst n1. change (TK (nlog m3)). rewrite (gen_light_ready_log _ _ _ H3). exact T2.
  - cbn [exec] in E. unfold quiet1 in E. inv_bind E. inversion E; subst.
    unfold rn_advance_append_async in Hx. exact (proj1 (Hadv rd n' n' H Hx)).
  - cbn [exec] in E. unfold quiet1 in E. inv_bind E. inversion E; subst.
    destruct (on_persist_ready_rel _ _ _ Hx) as ((L & _) & _). eapply lrel0_TK; eassumption.
  - cbn [exec] in E. unfold quiet1 in E. inv_bind E. inversion E; subst.
    unfold rn_advance_apply, rn_advance_apply_to, lift in Hx. inv_bind Hx. inversion Hx; subst.
    destruct (commit_apply_rel (fun _ => False) _ _ _ Hx0) as (L & _). unfold nlog in *. cbn.
    eapply lrel0_TK; eassumption.
  - cbn [exec] in E. unfold quiet1 in E. inv_bind E. inversion E; subst.
    unfold rn_advance_apply_to, lift in Hx. inv_bind Hx. inversion Hx; subst.
    destruct (commit_apply_rel (fun _ => False) _ _ _ Hx0) as (L & _). unfold nlog in *. cbn.
    eapply lrel0_TK; eassumption.
Qed.

Theorem crun_tk a n a' n' : crun a n a' n' -> Good a n -> TK (nlog n) -> Good a' n' /\ TK (nlog n').
Proof.
  intros R. induction R as [|a n o n1 ot a1 a' n' Hn Hp Hm E R IH]; intros G Ht; [split; assumption|].
  apply IH; [eapply contract_step; eassumption|eapply contract_step_tk; eassumption].
Qed.

(* the start: the term at the initial commit index is known *)
Definition init_tk (st : MemStorage.mem) (n0 : rawnode) : Prop :=
  first_of st - 1 = snap_index st \/ first_of st <= committed (nlog n0).

Lemma init_TK c st sa dr n0 :
  rn_new c st sa dr = Ok (inr n0) -> init_ok c st n0 -> init_tk st n0 -> TK (nlog n0).
Proof.
  intros H Hi Ht. pose proof (init_good _ _ _ _ _ H Hi) as G. destruct Hi as (Hs & Hq & _).
  destruct (rn_new_pres _ _ _ _ _ H Hs Hq) as (_ & _ & Hst).
  unfold rn_new in H. destruct (c_id c =? 0); [discriminate|].
  inv_bind H. destruct x as [e|r]; inversion H; subst n0. clear H.
  destruct (raft_new_shape _ _ _ _ _ Hx Hs) as (Eu & _).
  unfold TK, nlog in *. cbn [rn_raft] in *. rewrite Eu. cbn [u_new u_snapshot]. rewrite Hst. exact Ht.
Qed.

(* (3') along a contract-abiding trace no call panics at a node-local site, a log/storage
   shape site, or at 1422 *)
Theorem contract_no_panic_sites c st sa dr n0 a n o s :
  rn_new c st sa dr = Ok (inr n0) -> init_ok c st n0 -> init_tk st n0 ->
  crun (init_app c st) n0 a n ->
  app_ok a o -> peer_ok o -> idx_margin n o -> exec n o = Panic s ->
  ~ In s (site_l_commit_info :: all_sites).
Proof.
  intros H Hi Htk R Ha Hp Hm E Hin.
  destruct (crun_tk _ _ _ _ R (init_good _ _ _ _ _ H Hi) (init_TK _ _ _ _ _ H Hi Htk)) as [G Ht].
  destruct Hin as [<-|Hin].
  - exact (exec_22 a n o G Ht Ha Hp Hm E).
  - exact (contract_next_no_panic a n o s G Ha Hp Hm E Hin).
Qed.

Lemma TK_def l :
  TK l <-> match u_snapshot (unst l) with
           | Some _ => True
           | None => first_of (store l) - 1 = snap_index (store l) \/ first_of (store l) <= committed l
           end.
Proof. reflexivity. Qed.

Lemma init_tk_def st n0 :
  init_tk st n0 <-> first_of st - 1 = snap_index st \/ first_of st <= committed (r_log (rn_raft n0)).
Proof. reflexivity. Qed.

(* ================================================================== *)
(* Witnesses: clauses of the contract that are needed                   *)
(* ================================================================== *)
Module ContractWitnesses.
  Import Samples RepInvSamples ContractSamples.

  (* the contract-abiding prefix up to f3 (MsgAppend, ready, write, advance) *)
  Lemma crun_to_f3 : exists a, crun (init_app cfg store3) f0 a f3
                               /\ a_applied a = 0 /\ a_phase a = Idle /\ a_store a = store (nlog f3).
  Proof.
    eexists. split.
    - eapply (crun_cons _ f0 (OStep app1) f1 no_out).
      { apply AN_idle; reflexivity. } { exact app1_peer. } { vm_compute. reflexivity. } { vm_compute. reflexivity. }
      eapply (crun_cons _ f1 OReady (fst rd1)).
      { eapply AN_ready; [reflexivity|vm_compute; reflexivity]. } { exact I. } { vm_compute. reflexivity. }
      { vm_compute. reflexivity. }
      eapply (crun_cons _ (fst rd1) (OSetStore st1) f2 no_out).
      { eapply AN_ents; [reflexivity|vm_compute; reflexivity]. } { exact I. } { vm_compute. reflexivity. }
      { reflexivity. }
      eapply (crun_cons _ f2 (OAdvance (snd rd1)) f3).
      { apply AN_advance. reflexivity. } { exact I. } { vm_compute. reflexivity. } { vm_compute. reflexivity. }
      apply crun_nil.
    - vm_compute. repeat split.
  Qed.

  (* compaction above the applied index (here 2 > applied = 0; the entry at 2 is kept, so the
     storage accepts it): the term at the commit index is gone and the next campaign panics
     at 1422 *)
  Definition mc : MemStorage.mem.
  Proof. let x := eval vm_compute in (compact (store (nlog f3)) 2) in match x with Ok ?m => exact m end. Defined.

  Theorem compact_above_applied_refuted :
    exists a, crun (init_app cfg store3) f0 a f3 /\ a_phase a = Idle /\ a_applied a = 0
      /\ compact (a_store a) 2 = Ok mc /\ 2 < next_of (a_store a)
      /\ rn_campaign (set_store_node f3 mc) = Panic site_l_commit_info.
  Proof.
    destruct crun_to_f3 as (a & R & A1 & A2 & A3). exists a. split; [exact R|]. split; [exact A2|].
    split; [exact A1|]. rewrite A3. split; [vm_compute; reflexivity|]. split; vm_compute; reflexivity.
  Qed.

  (* a library call between ready() and the advance of that Ready (here a further MsgAppend):
     the Ready is then written exactly, but advance panics (unstable.slice has a different
     last entry) *)
  Definition app3 : msg :=
    msg_default <| m_type := MsgAppend |> <| m_from := 2 |> <| m_to := 1 |> <| m_term := 1 |>
      <| m_index := 2 |> <| m_log_term := 1 |> <| m_entries := [mkEntry 0 1 3 [] []] |> <| m_commit := 1 |>.
  Definition w2a : rawnode. Proof. from_ok (x <- exec (fst rd1) (OStep app3) ;; Ok (fst x)). Defined.

  Theorem step_between_ready_and_advance_refuted :
    peer_msgs_ok app3
    /\ exec (fst rd1) (OStep app3) = Ok (w2a, no_out)
    /\ append (store (nlog w2a)) (rd_entries (snd rd1)) = Ok st1
    /\ exec (set_store_node w2a st1) (OAdvance (snd rd1)) = Panic site_u_stable_entries_mismatch.
  Proof.
    split.
    { split; intros E; [|vm_compute in E; discriminate E].
      split; [cbn; repeat split; reflexivity|]. split; [repeat constructor; discriminate|].
      split; [vm_compute; reflexivity|right; discriminate]. }
    split; [vm_compute; reflexivity|]. split; vm_compute; reflexivity.
  Qed.

  (* Config.applied below the store's snapshot point (init_ok's third clause): hand-out starts
     at the first index of the log, not at Config.applied + 1 *)
  Definition st57 : MemStorage.mem :=
    mkMem (mkHS 1 0 7) (cs_from [1] []) [mkEntry 0 1 6 [] []; mkEntry 0 1 7 [] []] 5 1 false false None.
  Definition n57 : rawnode.
  Proof.
    let x := eval vm_compute in (rn_new cfg st57 None [15; 15; 15; 15]) in
    match x with Ok (inr ?n) => exact n end.
  Defined.

  Theorem applied_below_snapshot_refuted :
    rn_new cfg st57 None [15; 15; 15; 15] = Ok (inr n57) /\ SInv st57
    /\ c_applied cfg = 0 /\ first_of st57 - 1 = 5 /\ committed (nlog n57) = 7
    /\ exists n1 rd, rn_ready n57 = Ok (n1, rd)
         /\ map e_index (lr_committed_entries (rd_light rd)) = [6; 7]
         /\ ~ Hist n1 (hist_step (c_applied cfg, []) (None, lr_committed_entries (rd_light rd))).
  Proof.
    split; [vm_compute; reflexivity|].
    split; [unfold MemStorageProofs.RepInv, next_of, first_of, st57, u64_max; cbn; repeat split; lia|].
    split; [reflexivity|]. split; [reflexivity|]. split; [reflexivity|].
    eexists. eexists. split; [vm_compute; reflexivity|]. split; [reflexivity|].
    intros [Hc _]. vm_compute in Hc. destruct Hc as [Hc _]. discriminate Hc.
  Qed.
End ContractWitnesses.
