(* Cross-node clauses of C09 and C15: a node's configuration is a function of the initial
   ConfState and the membership changes it has applied (or received by snapshot), so nodes
   that applied the same changes have identical configurations, also after a restart and
   after a snapshot install.  Statements are pinned in Props/C09.v and Props/C15.v. *)
From RV Require Import Base.Prelude Base.IdSet Base.IdSetProofs M.Util M.Proto M.MemStorage
  M.Inflights M.Progress M.RaftLog M.Quorum M.ConfChange M.ConfChangeSpec M.ConfChangeRestore
  M.ConfChangeProofs M.Msg M.Raft M.RawNode M.RaftProofs M.RaftProofsC17 M.RaftProofsC15
  M.RaftProofsC09.
From RecordUpdate Require Import RecordSet.
Import RecordSetNotations.

Local Open Scope N_scope.

(* ================================================================== *)
(* 1. the abstract function *)

(* apply every change in order; None as soon as one is rejected *)
Fixpoint apply_all (t : ConfChange.tracker) (ccs : list ccv2) : option ConfChange.tracker :=
  match ccs with
  | [] => Some t
  | cc :: rest =>
      match ConfChange.apply_conf_change t cc with
      | ROk t' => apply_all t' rest
      | RErr _ => None
      end
  end.

(* the configuration (and the set of tracked ids) as a function of the initial ConfState
   and the list of applied membership changes *)
Definition conf_after (cs0 : conf_state) (ccs : list ccv2) : option (conf * idset) :=
  match ConfChange.restore empty_tracker cs0 with
  | ROk t => apply_all t ccs
  | RErr _ => None
  end.

Lemma apply_all_snoc ccs : forall t t' cc t'',
  apply_all t ccs = Some t' -> ConfChange.apply_conf_change t' cc = ROk t'' ->
  apply_all t (ccs ++ [cc]) = Some t''.
Proof.
  induction ccs as [|c0 rest IH]; intros t t' cc t'' H H1; cbn [apply_all app] in *.
  - inversion H; subst. rewrite H1. reflexivity.
  - destruct (ConfChange.apply_conf_change t c0) as [t1|e]; [|discriminate].
    eapply IH; eassumption.
Qed.

Lemma conf_after_snoc cs0 ccs t cc t' :
  conf_after cs0 ccs = Some t -> ConfChange.apply_conf_change t cc = ROk t' ->
  conf_after cs0 (ccs ++ [cc]) = Some t'.
Proof.
  unfold conf_after. destruct (ConfChange.restore empty_tracker cs0) as [t0|e]; [|discriminate].
  apply apply_all_snoc.
Qed.

Lemma apply_all_reachable ccs : forall t t',
  reachable t -> apply_all t ccs = Some t' -> reachable t'.
Proof.
  induction ccs as [|c0 rest IH]; intros t t' R H; cbn [apply_all] in H.
  - inversion H; subst. exact R.
  - destruct (ConfChange.apply_conf_change t c0) as [t1|e] eqn:E; [|discriminate].
    eapply IH; [|exact H]. eapply reach_v2; eassumption.
Qed.

Theorem conf_after_reachable cs0 ccs t : conf_after cs0 ccs = Some t -> reachable t.
Proof.
  unfold conf_after. destruct (ConfChange.restore empty_tracker cs0) as [t0|e] eqn:E; [|discriminate].
  apply apply_all_reachable. eapply reach_restore; exact E.
Qed.

Lemma reachable_sorted c p : reachable (c, p) -> sorted p = true.
Proof. intros R. destruct (reachable_good _ R) as [V _]. apply V. Qed.

(* ================================================================== *)
(* 2. the node's tracker skeleton and its frame *)

Definition ids_of (r : raft) : idset := pids (t_progress (r_prs r)).
Definition sk (r : raft) : ConfChange.tracker := (conf_of r, ids_of r).

(* the skeleton is unchanged, provided the progress map was sorted (needed because pput
   re-inserts; it holds whenever the skeleton is a reachable tracker) *)
Definition SK (r r' : raft) : Prop := sorted (ids_of r) = true -> sk r' = sk r.

Lemma SK_refl r : SK r r. Proof. intros _. reflexivity. Qed.
Lemma SK_trans a b c : SK a b -> SK b c -> SK a c.
Proof.
  intros H1 H2 S. specialize (H1 S). rewrite <- H1. apply H2.
  unfold sk in H1. inversion H1 as [[A B]]. rewrite B. exact S.
Qed.
Lemma SK_eq r r' : sk r' = sk r -> SK r r'.
Proof. intros H _. exact H. Qed.
Lemma SK_same r r1 r2 : sk r2 = sk r1 -> SK r r1 -> SK r r2.
Proof. intros A B S. rewrite A. apply B, S. Qed.
Lemma cf_conf ty r r' : cf ty r r' -> conf_of r' = conf_of r.
Proof. intros [_ H]. apply ctl_fields in H. apply H. Qed.

Lemma get_pr_mem r id p : get_pr r id = Some p -> IdSet.mem id (ids_of r) = true.
Proof.
  unfold get_pr, ids_of, pids.
  induction (t_progress (r_prs r)) as [|[k q] t IH]; cbn [pget map fst IdSet.mem]; [discriminate|].
  destruct (k =? id) eqn:E.
  - intros _. apply N.eqb_eq in E. subst. rewrite N.eqb_refl. reflexivity.
  - intros H. rewrite (IH H). apply orb_true_r.
Qed.

Lemma ids_of_put_pr r id p : ids_of (put_pr r id p) = IdSet.insert id (ids_of r).
Proof. unfold ids_of, put_pr. cbn. apply pids_pput. Qed.

Lemma SK_put r r1 id p r0 q :
  get_pr r0 id = Some q -> SK r r0 -> SK r r1 -> SK r (put_pr r1 id p).
Proof.
  intros Hg H0 H1 S. specialize (H0 S). specialize (H1 S).
  pose proof (f_equal snd H0) as B0. pose proof (f_equal fst H1) as A1.
  pose proof (f_equal snd H1) as B1. cbn [sk fst snd] in B0, A1, B1.
  apply get_pr_mem in Hg. rewrite B0 in Hg.
  unfold sk. rewrite ids_of_put_pr. change (conf_of (put_pr r1 id p)) with (conf_of r1).
  rewrite B1, A1. rewrite (insert_in _ _ S Hg). reflexivity.
Qed.

(* a progress map rewritten entry by entry keeps its keys *)
Lemma pids_map_snd (g : N * progress -> progress) m :
  pids (map (fun kp => (fst kp, g kp)) m) = pids m.
Proof. unfold pids. rewrite map_map. reflexivity. Qed.

Ltac sk_chain :=
  lazymatch goal with
  | |- SK ?a ?a => apply SK_refl
  | |- SK ?r (put_pr ?r1 ?id _) =>
      eapply (SK_put r r1 id);
        [first [match goal with H : get_pr r id = Some _ |- _ => exact H end | eassumption]
        |sk_chain|sk_chain]
  | |- SK _ (set _ _ ?r1) => apply (SK_same _ r1); [solve_upd r1|sk_chain]
  | |- SK _ ?b =>
      first [ assumption
            | match goal with
              | H : SK ?a b |- _ => eapply SK_trans; [|exact H]; sk_chain
              end ]
  end.

Lemma send_SK r m r' : send r m = Ok r' -> SK r r'.
Proof. intros H. apply send_spec in H. destruct H as (x & -> & _). sk_chain. Qed.

Lemma maybe_send_append_SK r to pr ae r' pr' b :
  maybe_send_append r to pr ae = Ok (r', pr', b) -> SK r r'.
Proof.
  intros H. unfold maybe_send_append in H.
  destruct (is_paused pr); [inversion H; apply SK_refl|].
  assert (Hsnap : forall r' pr' b,
    (x <- prepare_send_snapshot r (msg_default <| m_to := to |>) pr to ;;
     match x with
     | None => Ok (r, pr, false)
     | Some (m', pr') => r' <- send r m' ;; Ok (r', pr', true)
     end) = Ok (r', pr', b) -> SK r r').
  { clear H. intros r1 pr1 b1 H. inv_bind H. destruct x as [[m1 p1]|].
    - inv_bind H. inversion H; subst; clear H. eapply send_SK; eassumption.
    - inversion H; apply SK_refl. }
  destruct (negb (pending_request_snapshot pr =? INVALID_INDEX)); [eapply Hsnap; exact H|].
  inv_bind H.
  match type of H with (if ?c then _ else _) = _ => destruct c end; [inversion H; apply SK_refl|].
  destruct (next_idx pr =? 0); [discriminate|].
  inv_bind H.
  destruct x0 as [t|e0]; destruct x as [ents|e1];
    try (eapply Hsnap; exact H);
    try (destruct e1; first [eapply Hsnap; exact H | inversion H; apply SK_refl]).
  inv_bind H. destruct x as [[msgs' pr1] batched].
  destruct batched.
  - inversion H; subst; clear H. sk_chain.
  - inv_bind H. destruct x as [m1 p1]. inv_bind H. inversion H; subst; clear H.
    eapply send_SK; eassumption.
Qed.

Lemma send_append_to_SK r to r' : send_append_to r to = Ok r' -> SK r r'.
Proof.
  unfold send_append_to. intros H. destruct (get_pr r to) eqn:Eg; [|discriminate].
  inv_bind H. destruct x as [[r1 p1] b]. inversion H; subst; clear H.
  apply maybe_send_append_SK in Hx.
  eapply (SK_put _ r1); [exact Eg|apply SK_refl|exact Hx].
Qed.

Lemma send_append_aggressively_loop_SK fuel : forall r to pr r' pr',
  send_append_aggressively_loop fuel r to pr = Ok (r', pr') -> SK r r'.
Proof.
  induction fuel as [|f IH]; intros r to pr r' pr' H; cbn [send_append_aggressively_loop] in H;
    [discriminate|].
  inv_bind H. destruct x as [[r1 p1] b]. apply maybe_send_append_SK in Hx.
  destruct b.
  - apply IH in H. eapply SK_trans; eassumption.
  - inversion H; subst. exact Hx.
Qed.

Lemma send_append_aggressively_SK r to r' : send_append_aggressively r to = Ok r' -> SK r r'.
Proof.
  unfold send_append_aggressively. intros H. destruct (get_pr r to) eqn:Eg; [|discriminate].
  inv_bind H. destruct x as [r1 p1]. inversion H; subst; clear H.
  apply send_append_aggressively_loop_SK in Hx.
  eapply (SK_put _ r1); [exact Eg|apply SK_refl|exact Hx].
Qed.

Lemma for_each_peer_SK (f : raft -> N -> Res raft) :
  (forall r id r', f r id = Ok r' -> SK r r') ->
  forall ids self r r', for_each_peer ids self f r = Ok r' -> SK r r'.
Proof.
  intros Hf. induction ids as [|id rest IH]; intros self r r' H; cbn [for_each_peer] in H.
  - inversion H; apply SK_refl.
  - destruct (id =? self); [eapply IH; exact H|].
    inv_bind H. apply Hf in Hx. apply IH in H. eapply SK_trans; eassumption.
Qed.

Lemma bcast_append_SK r r' : bcast_append r = Ok r' -> SK r r'.
Proof. unfold bcast_append. apply for_each_peer_SK. intros. eapply send_append_to_SK; eassumption. Qed.

Lemma bcast_heartbeat_with_ctx_SK r ctx r' : bcast_heartbeat_with_ctx r ctx = Ok r' -> SK r r'.
Proof.
  unfold bcast_heartbeat_with_ctx. apply for_each_peer_SK. intros r0 id r1 H.
  destruct (get_pr r0 id); [|discriminate]. unfold send_heartbeat in H. eapply send_SK; exact H.
Qed.

Lemma bcast_heartbeat_SK r r' : bcast_heartbeat r = Ok r' -> SK r r'.
Proof. apply bcast_heartbeat_with_ctx_SK. Qed.

Lemma maybe_commit_SK r r' b : Raft.maybe_commit r = Ok (r', b) -> SK r r'.
Proof.
  unfold Raft.maybe_commit. intros H. inv_bind H. destruct x as [l' b1]. destruct b1.
  - destruct (get_pr r (r_id r)) eqn:Eg; inversion H; subst; clear H; [|sk_chain].
    eapply (SK_put _ (r <| r_log := l' |>)); [exact Eg|apply SK_refl|sk_chain].
  - inversion H; subst; clear H. sk_chain.
Qed.

Lemma append_entry_SK r es r' b : append_entry r es = Ok (r', b) -> SK r r'.
Proof.
  unfold append_entry. intros H.
  destruct (maybe_increase_uncommitted_size r es) as [r1 ok] eqn:Em.
  assert (K : SK r r1).
  { unfold maybe_increase_uncommitted_size in Em.
    repeat match type of Em with (if ?c then _ else _) = _ => destruct c end;
      inversion Em; subst; sk_chain. }
  destruct (negb ok); [inversion H; subst; exact K|].
  inv_bind H. inversion H; subst; clear H. sk_chain.
Qed.

Lemma respond_reads_SK rss : forall r r', respond_reads r rss = Ok r' -> SK r r'.
Proof.
  induction rss as [|rs rest IH]; intros r r' H; cbn [respond_reads] in H.
  - inversion H; apply SK_refl.
  - apply bind_ok in H. destruct H as ([r1 om] & Hx & H).
    apply bind_ok in H. destruct H as (x0 & Hx0 & H). apply IH in H.
    assert (A : SK r r1).
    { unfold handle_ready_read_index in Hx.
      destruct ((m_from (ris_req rs) =? INVALID_ID) || (m_from (ris_req rs) =? r_id r)).
      - inv_bind Hx. inversion Hx; subst. sk_chain.
      - inversion Hx; subst. apply SK_refl. }
    assert (B : SK r1 x0).
    { destruct om; [eapply send_SK; exact Hx0|inversion Hx0; apply SK_refl]. }
    eapply SK_trans; [exact A|]. eapply SK_trans; eassumption.
Qed.

Ltac sk_fwd :=
  repeat match goal with
  | H : Raft.maybe_commit _ = Ok (_, _) |- _ => apply maybe_commit_SK in H
  | H : bcast_append _ = Ok _ |- _ => apply bcast_append_SK in H
  | H : bcast_heartbeat _ = Ok _ |- _ => apply bcast_heartbeat_SK in H
  | H : bcast_heartbeat_with_ctx _ _ = Ok _ |- _ => apply bcast_heartbeat_with_ctx_SK in H
  | H : send_append_to _ _ = Ok _ |- _ => apply send_append_to_SK in H
  | H : send_append_aggressively _ _ = Ok _ |- _ => apply send_append_aggressively_SK in H
  | H : maybe_send_append _ _ _ _ = Ok (_, _, _) |- _ => apply maybe_send_append_SK in H
  | H : append_entry _ _ = Ok (_, _) |- _ => apply append_entry_SK in H
  | H : respond_reads _ _ = Ok _ |- _ => apply respond_reads_SK in H
  | H : send _ _ = Ok _ |- _ => apply send_SK in H
  | H : send_timeout_now _ _ = Ok _ |- _ => unfold send_timeout_now in H; apply send_SK in H
  end.

(* --- leader handlers --- *)
Lemma handle_append_response_SK r m r' : handle_append_response r m = Ok r' -> SK r r'.
Proof.
  intros H. unfold handle_append_response in H.
  inv_bind H. clear Hx. destruct (get_pr r (m_from m)) as [pr|] eqn:Eg; [|inversion H; apply SK_refl].
  inv_ok H; sk_fwd; sk_chain.
Qed.

Lemma handle_heartbeat_response_SK r m r' : handle_heartbeat_response r m = Ok r' -> SK r r'.
Proof.
  intros H. unfold handle_heartbeat_response in H.
  destruct (get_pr r (m_from m)) as [pr|] eqn:Eg; [|inversion H; apply SK_refl].
  inv_ok H; sk_fwd; sk_chain.
Qed.

Lemma handle_transfer_leader_SK r m r' : handle_transfer_leader r m = Ok r' -> SK r r'.
Proof.
  intros H. apply handle_transfer_leader_shape in H.
  destruct H as [[-> _]|[(_ & _ & ->)|(_ & _ & _ & pr & Hpr & [[_ H]|[_ (r1 & pr1 & b & H & ->)]])]].
  - apply SK_refl.
  - sk_chain.
  - sk_fwd. unfold tl_start in H. sk_chain.
  - sk_fwd. unfold tl_start in H.
    eapply (SK_put _ r1); [exact Hpr|apply SK_refl|sk_chain].
Qed.

Lemma handle_snapshot_status_SK r m r' : handle_snapshot_status r m = Ok r' -> SK r r'.
Proof.
  intros H. unfold handle_snapshot_status in H.
  destruct (get_pr r (m_from m)) as [pr|] eqn:Eg; [|inversion H; apply SK_refl].
  inv_ok H; sk_chain.
Qed.

Lemma handle_unreachable_SK r m r' : handle_unreachable r m = Ok r' -> SK r r'.
Proof.
  intros H. unfold handle_unreachable in H.
  destruct (get_pr r (m_from m)) as [pr|] eqn:Eg; [|inversion H; apply SK_refl].
  inversion H; subst; clear H. destruct (pstate_eqb (pr_state pr) Replicate); sk_chain.
Qed.

Lemma filter_conf_changes_SK ents : forall r info i r' ents' ok,
  filter_conf_changes r ents info i = (r', ents', ok) -> SK r r'.
Proof.
  induction ents as [|e rest IH]; intros r info i r' ents' ok H; cbn [filter_conf_changes] in H.
  - inversion H; apply SK_refl.
  - destruct (negb (is_conf_entry e)).
    { destruct (filter_conf_changes r rest _ (i + 1)) as [[ra ea] oa] eqn:Ea.
      inversion H; subst. eapply IH; eassumption. }
    match type of H with (if ?c then _ else _) = _ => destruct c end;
      [inversion H; apply SK_refl|].
    match type of H with (if ?c then _ else _) = _ => destruct c end.
    + destruct (filter_conf_changes r rest _ (i + 1)) as [[ra ea] oa] eqn:Ea.
      inversion H; subst. eapply IH; eassumption.
    + match type of H with (let '(_, _) := ?e in _) = _ => destruct e as [[ra ea] oa] eqn:Ea end.
      inversion H; subst. apply IH in Ea. eapply SK_trans; [|exact Ea]. sk_chain.
Qed.

(* --- reset and the role changes --- *)
Lemma reset_sk r t r' : reset r t = Ok r' -> sk r' = sk r.
Proof.
  unfold reset. intros H.
  destruct (negb (r_term r =? t)); cbn in H;
  match type of H with match ?d with _ => _ end = _ => destruct d end;
    try discriminate; inversion H; subst; unfold sk, ids_of, conf_of; cbn;
    rewrite pids_map_snd; reflexivity.
Qed.

Lemma reset_SK r t r' : reset r t = Ok r' -> SK r r'.
Proof. intros H. apply SK_eq. eapply reset_sk; exact H. Qed.

Lemma become_follower_SK r t l r' : become_follower r t l = Ok r' -> SK r r'.
Proof.
  unfold become_follower. intros H. inv_bind H. inversion H; subst; clear H.
  apply reset_SK in Hx. sk_chain.
Qed.

Lemma become_candidate_SK r r' : become_candidate r = Ok r' -> SK r r'.
Proof.
  unfold become_candidate. intros H. destruct (is_leader r); [discriminate|].
  inv_bind H. inversion H; subst; clear H. apply reset_SK in Hx. sk_chain.
Qed.

Lemma become_pre_candidate_SK r r' : become_pre_candidate r = Ok r' -> SK r r'.
Proof.
  unfold become_pre_candidate. intros H. destruct (is_leader r); [discriminate|].
  inversion H; subst; clear H. apply SK_eq. reflexivity.
Qed.

Lemma become_leader_SK r r' : become_leader r = Ok r' -> SK r r'.
Proof.
  unfold become_leader. intros H. destruct (role_eqb (r_state r) Follower); [discriminate|].
  inv_bind H. apply reset_SK in Hx.
  match type of H with match ?d with _ => _ end = _ => destruct d eqn:Eg end; [|discriminate].
  inv_bind H. destruct x0 as [r6 ok]. destruct ok; [|discriminate]. inversion H; subst; clear H.
  apply append_entry_SK in Hx0.
  eapply SK_trans; [|exact Hx0]. eapply SK_trans; [exact Hx|]. sk_chain.
Qed.

Ltac sk_fwd2 :=
  sk_fwd;
  repeat match goal with
  | H : reset _ _ = Ok _ |- _ => apply reset_SK in H
  | H : become_follower _ _ _ = Ok _ |- _ => apply become_follower_SK in H
  | H : become_candidate _ = Ok _ |- _ => apply become_candidate_SK in H
  | H : become_pre_candidate _ = Ok _ |- _ => apply become_pre_candidate_SK in H
  | H : become_leader _ = Ok _ |- _ => apply become_leader_SK in H
  end.

Lemma poll_gen_SK rc r from v r' res :
  (forall a b, rc a = Ok b -> SK a b) ->
  poll_gen rc r from v = Ok (r', res) -> SK r r'.
Proof.
  intros Hrc H. unfold poll_gen in H. cbn zeta in H.
  match type of H with match ?d with _ => _ end = _ => destruct d end.
  - inversion H; subst; clear H. sk_chain.
  - inv_bind H. inversion H; subst; clear H. sk_fwd2. sk_chain.
  - match type of H with (if ?c then _ else _) = _ => destruct c end.
    + inv_bind H. inversion H; subst; clear H. apply Hrc in Hx. sk_chain.
    + inv_bind H. inv_bind H. inversion H; subst; clear H. sk_fwd2. sk_chain.
Qed.

Lemma send_vote_requests_SK vote_msg t cmt cmt_term tl :
  forall ids r r', send_vote_requests ids r vote_msg t cmt cmt_term tl = Ok r' -> SK r r'.
Proof.
  induction ids as [|id rest IH]; intros r r' H; cbn [send_vote_requests] in H.
  - inversion H; apply SK_refl.
  - destruct (id =? r_id r); [eapply IH; exact H|].
    inv_bind H. inv_bind H. apply IH in H. apply send_SK in Hx0. eapply SK_trans; eassumption.
Qed.

Lemma campaign_real_SK tl r r' : campaign_real tl r = Ok r' -> SK r r'.
Proof.
  unfold campaign_real. intros H. inv_bind H. inv_bind H. destruct x0 as [r2 res].
  apply poll_gen_SK in Hx0; [|intros a b K; discriminate K]. sk_fwd2.
  destruct res.
  - inv_bind H. apply send_vote_requests_SK in H. sk_chain.
  - inv_bind H. apply send_vote_requests_SK in H. sk_chain.
  - inversion H; subst. sk_chain.
Qed.

Lemma poll_SK r from v r' res : poll r from v = Ok (r', res) -> SK r r'.
Proof. unfold poll. apply poll_gen_SK. intros a b. apply campaign_real_SK. Qed.

Lemma campaign_pre_SK r r' : campaign_pre r = Ok r' -> SK r r'.
Proof.
  unfold campaign_pre. intros H. inv_bind H. inv_bind H. destruct x0 as [r2 res].
  apply poll_SK in Hx0. sk_fwd2.
  destruct res.
  - inv_bind H. apply send_vote_requests_SK in H. sk_chain.
  - inv_bind H. apply send_vote_requests_SK in H. sk_chain.
  - inversion H; subst. sk_chain.
Qed.

Lemma hup_SK r tl r' : hup r tl = Ok r' -> SK r r'.
Proof.
  intros H. apply hup_spec in H.
  destruct H as [[_ ->]|[(_ & _ & ->)|[(_ & _ & _ & ->)|(_ & _ & _ & Hc)]]]; try apply SK_refl.
  unfold hup_campaign in Hc. destruct tl; [eapply campaign_real_SK; exact Hc|].
  destruct (r_pre_vote r); [eapply campaign_pre_SK|eapply campaign_real_SK]; exact Hc.
Qed.

Lemma maybe_commit_by_vote_SK r m r' : maybe_commit_by_vote r m = Ok r' -> SK r r'.
Proof.
  intros H. unfold maybe_commit_by_vote in H.
  destruct ((m_commit m =? 0) || (m_commit_term m =? 0)); [inversion H; apply SK_refl|].
  destruct ((m_commit m <=? committed (r_log r)) || is_leader r); [inversion H; apply SK_refl|].
  inv_bind H. destruct x as [l' b].
  destruct (negb b); [inversion H; subst; sk_chain|].
  match type of H with (if ?c then _ else _) = _ => destruct c end; [inversion H; subst; sk_chain|].
  inv_bind H. destruct x; [|inversion H; subst; sk_chain].
  sk_fwd2. sk_chain.
Qed.

Lemma send_request_snapshot_SK r r' : send_request_snapshot r = Ok r' -> SK r r'.
Proof.
  unfold send_request_snapshot. intros H. inv_bind H. destruct x; [|discriminate].
  eapply send_SK; exact H.
Qed.

Lemma handle_append_entries_SK r m r' : handle_append_entries r m = Ok r' -> SK r r'.
Proof.
  intros H. unfold handle_append_entries in H.
  destruct (negb (r_pending_request_snapshot r =? INVALID_INDEX));
    [eapply send_request_snapshot_SK; exact H|].
  destruct (m_index m <? committed (r_log r)); [eapply send_SK; exact H|].
  inv_bind H. destruct x as [l' res]. destruct res as [[c0 last_idx]|].
  - apply send_SK in H. sk_chain.
  - inv_bind H. destruct x as [hi [ht|]]; [|discriminate]. apply send_SK in H. sk_chain.
Qed.

Lemma handle_heartbeat_SK r m r' : handle_heartbeat r m = Ok r' -> SK r r'.
Proof.
  intros H. unfold handle_heartbeat in H. inv_bind H.
  match type of H with (if ?c then _ else _) = _ => destruct c end.
  - apply send_request_snapshot_SK in H. sk_chain.
  - apply send_SK in H. sk_chain.
Qed.

Definition pcc_check_SK r3 : SK r3 (pcc_check r3).
Proof.
  unfold pcc_check. destruct (r_lead_transferee r3); [|apply SK_refl].
  destruct (negb _); [sk_chain|apply SK_refl].
Qed.

Lemma post_conf_change_SK r r' cs : post_conf_change r = Ok (r', cs) -> SK r r'.
Proof.
  intros H. unfold post_conf_change in H.
  set (r0 := r <| r_promotable := voters_contains (conf_of r) (r_id r) |>) in *.
  assert (H0 : SK r r0) by (subst r0; sk_chain).
  match type of H with (if ?c then _ else _) = _ => destruct c end; [inversion H; subst; exact H0|].
  match type of H with (if ?c then _ else _) = _ => destruct c end; [inversion H; subst; exact H0|].
  apply bind_ok in H. destruct H as ([r1 b] & H1 & H).
  apply bind_ok in H. destruct H as (r2 & H2 & H).
  apply bind_ok in H. destruct H as (r3 & H3 & H). inversion H; subst; clear H.
  apply maybe_commit_SK in H1.
  assert (H12 : SK r1 r2).
  { destruct b; [apply bcast_append_SK; exact H2|].
    revert H2. apply for_each_peer_SK. intros ra id rb K.
    destruct (get_pr ra id) eqn:Eg; [|discriminate]. inv_bind K. destruct x as [[rc pc] bc].
    inversion K; subst. apply maybe_send_append_SK in Hx.
    eapply (SK_put _ rc); [exact Eg|apply SK_refl|exact Hx]. }
  assert (H23 : SK r2 r3).
  { destruct (ro_last_pending_request_ctx (r_read_only r2)) as [ctx|];
      [|inversion H3; apply SK_refl].
    destruct (ro_recv_ack (r_read_only r2) (r_id r2) ctx) as [ro' acks].
    destruct acks as [a|]; [|inversion H3; subst; sk_chain].
    match type of H3 with (if ?c then _ else _) = _ => destruct c end;
      [|inversion H3; subst; sk_chain].
    inv_bind H3. destruct x as [ro2 rss]. apply respond_reads_SK in H3. sk_chain. }
  eapply SK_trans; [exact H0|]. eapply SK_trans; [exact H1|]. eapply SK_trans; [exact H12|].
  eapply SK_trans; [exact H23|]. apply pcc_check_SK.
Qed.

(* --- snapshot restore --- *)
Lemma restore_false_SK r s r' : restore r s = Ok (r', false) -> SK r r'.
Proof.
  intros H. unfold restore in H.
  destruct (s_index s <? committed (r_log r)); [inversion H; apply SK_refl|].
  destruct (negb (role_eqb (r_state r) Follower)).
  { inv_bind H. inversion H; subst. eapply become_follower_SK; eassumption. }
  match type of H with (if ?c then _ else _) = _ => destruct c end; [inversion H; apply SK_refl|].
  inv_bind H.
  match type of H with (if ?c then _ else _) = _ => destruct c end.
  { inv_bind H. inversion H; subst. sk_chain. }
  inv_bind H.
  match type of H with match ?d with _ => _ end = _ => destruct d as [[c' ids']|] end; [|discriminate].
  inv_bind H. destruct x1 as [r1 new_cs].
  match type of H with (if ?c then _ else _) = _ => destruct c end; [discriminate|].
  match type of H with match ?d with _ => _ end = _ => destruct d end; [|discriminate].
  destruct (next_idx p =? 0); [discriminate|]. inversion H.
Qed.

(* an installed snapshot: the skeleton becomes exactly ConfChange.restore of its ConfState *)
Theorem restore_true_sk r s r' :
  restore r s = Ok (r', true) ->
  exists t, ConfChange.restore empty_tracker (s_cs s) = ROk t /\ sk r' = t.
Proof.
  intros H. pose proof (restore_effect _ _ _ H) as K. cbv zeta in K.
  destruct K as (c' & ids' & Hr & _ & Hr' & _ & _ & _ & _ & _ & _ & _ & _ & Hc & _ & _ & _ & Hm & _).
  exists (c', ids'). split; [exact Hr|].
  destruct (restore_valid _ _ Hr) as [V _]. cbn [fst snd] in V.
  unfold sk. rewrite Hc. f_equal.
  rewrite Hr'. unfold ids_of. cbn. rewrite pids_pput, pids_fresh.
  apply insert_in; [apply V|exact Hm].
Qed.

(* between r and r' a snapshot s was installed (by restore, on a state r0 with r's skeleton) *)
Definition installs (r : raft) (s : snapshot) (r' : raft) : Prop :=
  exists r0 r1, SK r r0 /\ restore r0 s = Ok (r1, true) /\ SK r1 r'.

(* skeleton unchanged, or m is a MsgSnapshot whose snapshot was installed *)
Definition SKI (r : raft) (m : msg) (r' : raft) : Prop :=
  SK r r' \/ (m_type m = MsgSnapshot /\ installs r (m_snapshot m) r').

Lemma SKI_pre a b s c : SK a b -> SKI b s c -> SKI a s c.
Proof.
  intros H [K|(T & r0 & r1 & A & B & C0)]; [left; eapply SK_trans; eassumption|right].
  split; [exact T|]. exists r0, r1. split; [eapply SK_trans; eassumption|auto].
Qed.
Lemma SKI_post a s b c : SKI a s b -> SK b c -> SKI a s c.
Proof.
  intros [K|(T & r0 & r1 & A & B & C0)] H; [left; eapply SK_trans; eassumption|right].
  split; [exact T|]. exists r0, r1. split; [exact A|]. split; [exact B|eapply SK_trans; eassumption].
Qed.

Lemma handle_snapshot_SKI r m r' :
  m_type m = MsgSnapshot -> handle_snapshot r m = Ok r' -> SKI r m r'.
Proof.
  intros T H. unfold handle_snapshot in H. inv_bind H. destruct x as [r1 ok].
  destruct ok; apply send_SK in H.
  - right. split; [exact T|]. exists r, r1. split; [apply SK_refl|]. split; assumption.
  - left. apply restore_false_SK in Hx. eapply SK_trans; eassumption.
Qed.

Lemma step_candidate_SKI r m r' c : step_candidate r m = Ok (r', c) -> SKI r m r'.
Proof.
  intros H. unfold step_candidate in H.
  destruct (m_type m =? MsgPropose); [inversion H; left; apply SK_refl|].
  match type of H with (if ?c then _ else _) = _ => destruct c eqn:Ec end.
  { destruct (negb (r_term r =? m_term m)); [discriminate|].
    inv_bind H. inv_bind H. inversion H; subst; clear H. apply become_follower_SK in Hx.
    eapply SKI_pre; [exact Hx|].
    destruct (m_type m =? MsgAppend); [left; eapply handle_append_entries_SK; exact Hx0|].
    destruct (m_type m =? MsgHeartbeat); [left; eapply handle_heartbeat_SK; exact Hx0|].
    cbn [orb] in Ec. apply N.eqb_eq in Ec. eapply handle_snapshot_SKI; [exact Ec|exact Hx0]. }
  left.
  match type of H with (if ?c then _ else _) = _ => destruct c end;
    [|inversion H; apply SK_refl].
  match type of H with (if ?c then _ else _) = _ => destruct c end;
    [inversion H; apply SK_refl|].
  inv_bind H. inv_bind H. inversion H; subst; clear H. destruct x as [r1 res].
  apply poll_SK in Hx. apply maybe_commit_by_vote_SK in Hx0. cbn [fst] in Hx0.
  eapply SK_trans; eassumption.
Qed.

Lemma step_follower_SKI r m r' c : step_follower r m = Ok (r', c) -> SKI r m r'.
Proof.
  intros H. unfold step_follower in H.
  destruct (m_type m =? MsgPropose).
  { left. destruct (r_leader_id r =? INVALID_ID); [inversion H; apply SK_refl|].
    destruct (r_disable_proposal_forwarding r); [inversion H; apply SK_refl|].
    inv_bind H. inversion H; subst; clear H. eapply send_SK; exact Hx. }
  destruct (m_type m =? MsgAppend).
  { left. inv_bind H. inversion H; subst; clear H. apply handle_append_entries_SK in Hx. sk_chain. }
  destruct (m_type m =? MsgHeartbeat).
  { left. inv_bind H. inversion H; subst; clear H. apply handle_heartbeat_SK in Hx. sk_chain. }
  destruct (m_type m =? MsgSnapshot) eqn:Es.
  { apply N.eqb_eq in Es. inv_bind H. inversion H; subst; clear H.
    apply handle_snapshot_SKI in Hx; [|exact Es].
    eapply SKI_pre; [|exact Hx]. sk_chain. }
  left.
  destruct (m_type m =? MsgTransferLeader).
  { destruct (r_leader_id r =? INVALID_ID); [inversion H; apply SK_refl|].
    inv_bind H. inversion H; subst; clear H. eapply send_SK; exact Hx. }
  destruct (m_type m =? MsgTimeoutNow).
  { destruct (r_promotable r); [|inversion H; apply SK_refl].
    inv_bind H. inversion H; subst; clear H. eapply hup_SK; exact Hx. }
  destruct (m_type m =? MsgReadIndex).
  { destruct (r_leader_id r =? INVALID_ID); [inversion H; apply SK_refl|].
    inv_bind H. inversion H; subst; clear H. eapply send_SK; exact Hx. }
  destruct (m_type m =? MsgReadIndexResp); [|inversion H; apply SK_refl].
  destruct (m_entries m) as [|e [|e2 es]]; try (inversion H; apply SK_refl).
  inv_bind H. inversion H; subst; clear H. sk_chain.
Qed.

Lemma quorum_recently_active_ids t p t' a :
  quorum_recently_active t p = (t', a) -> pids (t_progress t') = pids (t_progress t) /\ t_conf t' = t_conf t.
Proof.
  unfold quorum_recently_active. intros H. inversion H; subst. cbn. split; [|reflexivity].
  apply pids_map_snd.
Qed.

Lemma step_leader_SK r m r' c : step_leader r m = Ok (r', c) -> SK r r'.
Proof.
  intros H. unfold step_leader in H.
  destruct (m_type m =? MsgBeat).
  { inv_bind H. inversion H; subst. sk_fwd. assumption. }
  destruct (m_type m =? MsgCheckQuorum).
  { destruct (quorum_recently_active (r_prs r) (r_id r)) as [prs' active] eqn:Eq.
    apply quorum_recently_active_ids in Eq. destruct Eq as [Ei Ec].
    assert (Hr0 : SK r (r <| r_prs := prs' |>)).
    { apply SK_eq. unfold sk, ids_of, conf_of. cbn. rewrite Ei, Ec. reflexivity. }
    destruct (negb active).
    - inv_bind H. inversion H; subst; clear H. apply become_follower_SK in Hx.
      eapply SK_trans; eassumption.
    - inversion H; subst. exact Hr0. }
  destruct (m_type m =? MsgPropose).
  { destruct (m_entries m); [discriminate|].
    destruct (get_pr r (r_id r)); [|inversion H; apply SK_refl].
    destruct (r_lead_transferee r); [inversion H; apply SK_refl|].
    destruct (filter_conf_changes r (e :: l) (m_ccinfo m) 0) as [[r1 ents] ok] eqn:Ef.
    apply filter_conf_changes_SK in Ef.
    destruct (negb ok); [inversion H; subst; exact Ef|].
    inv_bind H. destruct x as [r2 appended]. sk_fwd.
    destruct (negb appended).
    - inversion H; subst. eapply SK_trans; eassumption.
    - inv_bind H. inversion H; subst. sk_fwd.
      eapply SK_trans; [exact Ef|]. eapply SK_trans; eassumption. }
  destruct (m_type m =? MsgReadIndex).
  { inv_bind H. destruct (negb x); [inversion H; apply SK_refl|].
    assert (Hans : forall r' c,
      (x <- handle_ready_read_index r m (committed (r_log r)) ;;
       (let '(r1, om) := x in
        r2 <- match om with Some mm => send r1 mm | None => Ok r1 end ;; Ok (r2, E_OK)))
      = Ok (r', c) -> SK r r').
    { clear. intros r' c H. apply bind_ok in H. destruct H as ([r1 om] & Hx & H).
      assert (A : SK r r1).
      { unfold handle_ready_read_index in Hx.
        destruct ((m_from m =? INVALID_ID) || (m_from m =? r_id r)).
        - inv_bind Hx. inversion Hx; subst. sk_chain.
        - inversion Hx; subst. apply SK_refl. }
      apply bind_ok in H. destruct H as (r2 & Hs & H). inversion H; subst; clear H.
      destruct om as [mm|]; [|inversion Hs; subst; exact A].
      apply send_SK in Hs. eapply SK_trans; eassumption. }
    match type of H with (if ?c then _ else _) = _ => destruct c end; [eapply Hans; exact H|].
    destruct (ro_option (r_read_only r) =? 0); [|eapply Hans; exact H].
    inv_bind H. inv_bind H. inv_bind H. inversion H; subst. sk_fwd. sk_chain. }
  destruct (m_type m =? MsgAppendResponse).
  { inv_bind H. inversion H; subst. eapply handle_append_response_SK; exact Hx. }
  destruct (m_type m =? MsgHeartbeatResponse).
  { inv_bind H. inversion H; subst. eapply handle_heartbeat_response_SK; exact Hx. }
  destruct (m_type m =? MsgSnapStatus).
  { inv_bind H. inversion H; subst. eapply handle_snapshot_status_SK; exact Hx. }
  destruct (m_type m =? MsgUnreachable).
  { inv_bind H. inversion H; subst. eapply handle_unreachable_SK; exact Hx. }
  destruct (m_type m =? MsgTransferLeader).
  { inv_bind H. inversion H; subst. eapply handle_transfer_leader_SK; exact Hx. }
  inversion H; subst. apply SK_refl.
Qed.

Lemma step_main_SKI r m r' c : step_main r m = Ok (r', c) -> SKI r m r'.
Proof.
  intros H. unfold step_main in H.
  destruct (m_type m =? MsgHup).
  { left. inv_bind H. inversion H; subst; clear H. eapply hup_SK; exact Hx. }
  match type of H with (if ?c then _ else _) = _ => destruct c end.
  { left. inv_bind H. inv_bind H.
    match type of H with (if ?c then _ else _) = _ => destruct c end.
    - inv_bind H. apply send_SK in Hx1.
      destruct (m_type m =? MsgRequestVote); inversion H; subst; clear H; sk_chain.
    - inv_bind H. inv_bind H. inv_bind H. inversion H; subst; clear H.
      apply send_SK in Hx2. apply maybe_commit_by_vote_SK in Hx3. eapply SK_trans; eassumption. }
  destruct (r_state r).
  - eapply step_follower_SKI; exact H.
  - eapply step_candidate_SKI; exact H.
  - left. eapply step_leader_SK; exact H.
  - eapply step_candidate_SKI; exact H.
Qed.

Lemma step_pre_SK r m x : step_pre r m = Ok x ->
  match x with inl (r1, _) => SK r r1 | inr r0 => SK r r0 end.
Proof.
  intros H. unfold step_pre in H. cbn zeta in H.
  destruct (m_term m =? 0); [inversion H; apply SK_refl|].
  destruct (r_term r <? m_term m).
  - match type of H with (if ?c then _ else _) = _ => destruct c end; [inversion H; apply SK_refl|].
    match type of H with (if ?c then _ else _) = _ => destruct c end; [inversion H; apply SK_refl|].
    match type of H with (if ?c then _ else _) = _ => destruct c end;
      inv_bind H; inversion H; subst; eapply become_follower_SK; eassumption.
  - destruct (m_term m <? r_term r); [|inversion H; apply SK_refl].
    match type of H with (if ?c then _ else _) = _ => destruct c end.
    { inv_bind H. inversion H; subst. eapply send_SK; eassumption. }
    destruct (m_type m =? MsgRequestPreVote).
    { inv_bind H. inversion H; subst. eapply send_SK; eassumption. }
    inversion H. apply SK_refl.
Qed.

(* every message: the skeleton is unchanged unless the message's snapshot was installed *)
Theorem step_SKI r m r' c : step r m = Ok (r', c) -> SKI r m r'.
Proof.
  intros H. rewrite step_eq in H. inv_bind H. apply step_pre_SK in Hx.
  destruct x as [[r1 c1]|r0].
  - inversion H; subst. left. exact Hx.
  - eapply SKI_pre; [exact Hx|]. eapply step_main_SKI; exact H.
Qed.

Theorem step_SK r m r' c : step r m = Ok (r', c) -> m_type m <> MsgSnapshot -> SK r r'.
Proof. intros H Hty. destruct (step_SKI _ _ _ _ H) as [K|[K _]]; [exact K|contradiction]. Qed.

(* --- tick and the remaining Raft entry points --- *)
Theorem tick_SK r r' b : tick r = Ok (r', b) -> SK r r'.
Proof.
  intros H. unfold tick in H.
  assert (Hel : tick_election r = Ok (r', b) -> SK r r').
  { clear H. unfold tick_election. intros H.
    match type of H with (if ?c then _ else _) = _ => destruct c end;
      [inversion H; subst; sk_chain|].
    apply bind_ok in H. destruct H as ([r1 c] & Hs & H). inversion H; subst; clear H. cbn [fst].
    apply step_SK in Hs; [|discriminate]. sk_chain. }
  destruct (r_state r); try (apply Hel; exact H). clear Hel.
  unfold tick_heartbeat in H.
  apply bind_ok in H. destruct H as ([ra hr] & HA & H).
  assert (Ha : SK r ra).
  { match type of HA with (if ?c then _ else _) = _ => destruct c end;
      [|inversion HA; subst; sk_chain].
    apply bind_ok in HA. destruct HA as ([r3 hr3] & HB & HA). inversion HA; subst; clear HA.
    assert (H3 : SK r r3).
    { match type of HB with (if ?c then _ else _) = _ => destruct c end;
        [|inversion HB; subst; sk_chain].
      apply bind_ok in HB. destruct HB as ([rz cz] & HC & HB). inversion HB; subst; clear HB.
      cbn [fst]. apply step_SK in HC; [|discriminate]. sk_chain. }
    match goal with |- SK _ (if ?c then _ else _) => destruct c end; sk_chain. }
  destruct (negb (is_leader ra)); [inversion H; subst; exact Ha|].
  match type of H with (if ?c then _ else _) = _ => destruct c end;
    [|inversion H; subst; exact Ha].
  apply bind_ok in H. destruct H as ([rz cz] & HD & H). inversion H; subst; clear H. cbn [fst].
  apply step_SK in HD; [|discriminate]. sk_chain.
Qed.

Lemma on_persist_entries_SK r i t r' : on_persist_entries r i t = Ok r' -> SK r r'.
Proof.
  intros H. unfold on_persist_entries in H. inv_bind H. destruct x as [l' upd].
  match type of H with (if ?c then _ else _) = _ => destruct c end;
    [|inversion H; subst; sk_chain].
  match type of H with match ?d with _ => _ end = _ => destruct d eqn:Eg end;
    [|inversion H; subst; sk_chain].
  destruct (maybe_update p i) as [pr' u].
  assert (K : SK r (put_pr (r <| r_log := l' |>) (r_id (r <| r_log := l' |>)) pr')).
  { eapply (SK_put _ (r <| r_log := l' |>)); [exact Eg|sk_chain|sk_chain]. }
  destruct u; [|inversion H; subst; exact K].
  inv_bind H. destruct x as [r1 c]. sk_fwd.
  match type of H with (if ?c then _ else _) = _ => destruct c end;
    [sk_fwd|inversion H; subst]; eapply SK_trans; [exact K| |exact K|]; try eassumption.
  eapply SK_trans; eassumption.
Qed.

Lemma on_persist_snap_SK r i r' : on_persist_snap r i = Ok r' -> SK r r'.
Proof. intros H. unfold on_persist_snap in H. inv_bind H. inversion H; subst. sk_chain. Qed.

Lemma commit_apply_internal_SK r a s r' : commit_apply_internal r a s = Ok r' -> SK r r'.
Proof.
  intros H. unfold commit_apply_internal in H. inv_bind H.
  match type of H with (if ?c then _ else _) = _ => destruct c end;
    [|inversion H; subst; sk_chain].
  inv_bind H. destruct x0 as [r1 ok]. destruct (negb ok); [discriminate|].
  inversion H; subst; clear H. sk_fwd. sk_chain.
Qed.

Lemma ping_SK r r' : ping r = Ok r' -> SK r r'.
Proof.
  unfold ping. intros H. destruct (is_leader r); [sk_fwd; assumption|inversion H; apply SK_refl].
Qed.

Lemma request_snapshot_SK r r' c : request_snapshot r = Ok (r', c) -> SK r r'.
Proof.
  intros H. unfold request_snapshot in H.
  destruct (is_leader r); [inversion H; apply SK_refl|].
  destruct (r_leader_id r =? INVALID_ID); [inversion H; apply SK_refl|].
  match type of H with (if ?c then _ else _) = _ => destruct c end; [inversion H; apply SK_refl|].
  match type of H with (if ?c then _ else _) = _ => destruct c end; [inversion H; apply SK_refl|].
  inv_bind H. destruct x; [|discriminate].
  destruct (r_term r =? a); [|inversion H; apply SK_refl].
  inv_bind H. inversion H; subst; clear H. apply send_request_snapshot_SK in Hx0. sk_chain.
Qed.

Lemma reduce_uncommitted_size_SK r ents : SK r (reduce_uncommitted_size r ents).
Proof.
  unfold reduce_uncommitted_size. destruct (negb (is_leader r)); [apply SK_refl|].
  match goal with |- SK _ (if ?c then _ else _) => destruct c end; [apply SK_refl|].
  match goal with |- SK _ (if ?c then _ else _) => destruct c end; sk_chain.
Qed.

Lemma load_state_SK r hs r' : load_state r hs = Ok r' -> SK r r'.
Proof.
  unfold load_state. intros H. match type of H with (if ?c then _ else _) = _ => destruct c end;
    [discriminate|]. inversion H; subst. sk_chain.
Qed.

(* --- RawNode --- *)
Lemma gen_light_ready_SK n n' l : gen_light_ready n = Ok (n', l) -> SK (rn_raft n) (rn_raft n').
Proof.
  intros H. unfold gen_light_ready in H. inv_bind H. inv_bind H. inversion H; subst; clear H.
  match goal with |- SK _ ?t =>
    change t with
      ((reduce_uncommitted_size (rn_raft n) match x with Some v => v | None => [] end)
         <| r_msgs := [] |>) end.
  lazymatch goal with
  | |- SK _ (set _ _ ?r1) => apply (SK_same _ r1); [solve_upd r1|apply reduce_uncommitted_size_SK]
  end.
Qed.

Lemma rn_ready_SK n n' rd : rn_ready n = Ok (n', rd) -> SK (rn_raft n) (rn_raft n').
Proof.
  intros H. unfold rn_ready in H. cbn zeta in H. inv_bind H. inv_bind H.
  destruct x0 as [[[snap csi] rec_snap] ms2]. inv_bind H. destruct x0 as [n2 light].
  inversion H; subst; clear H. apply gen_light_ready_SK in Hx1.
  cbn [rn_raft set] in Hx1 |- *.
  eapply SK_trans; [|exact Hx1]. sk_chain.
Qed.

Lemma commit_ready_SK n rd n' : commit_ready n rd = Ok n' -> SK (rn_raft n) (rn_raft n').
Proof.
  intros H. unfold commit_ready in H. cbn zeta in H.
  match type of H with match ?d with _ => _ end = _ => destruct d eqn:Er end; [discriminate|].
  match type of H with (if ?c then _ else _) = _ => destruct c end; [discriminate|].
  inv_bind H. inv_bind H. inversion H; subst; clear H. cbn [rn_raft set].
  destruct (rd_ss rd); destruct (rd_hs rd); cbn; sk_chain.
Qed.

Lemma rn_on_persist_ready_SK n num n' :
  rn_on_persist_ready n num = Ok n' -> SK (rn_raft n) (rn_raft n').
Proof.
  intros H. unfold rn_on_persist_ready in H.
  destruct (fold_records (rn_records n) num 0 0 0) as [[[recs index] t] snap_index].
  inv_bind H. inv_bind H. inversion H; subst; clear H. cbn [rn_raft set] in *.
  assert (A : SK (rn_raft n) x).
  { destruct (negb (snap_index =? 0)); [|inversion Hx; apply SK_refl].
    eapply on_persist_snap_SK. exact Hx. }
  assert (B : SK x x0).
  { destruct (negb (index =? 0)); [|inversion Hx0; apply SK_refl].
    eapply on_persist_entries_SK. exact Hx0. }
  eapply SK_trans; eassumption.
Qed.

Lemma rn_advance_append_SK n rd n' l :
  rn_advance_append n rd = Ok (n', l) -> SK (rn_raft n) (rn_raft n').
Proof.
  intros H. unfold rn_advance_append in H. inv_bind H. inv_bind H. inv_bind H.
  destruct x1 as [n3 light].
  apply commit_ready_SK in Hx. apply rn_on_persist_ready_SK in Hx0.
  apply gen_light_ready_SK in Hx1.
  assert (E : rn_raft n' = rn_raft n3).
  { match type of H with (if ?c then _ else _) = _ => destruct c end; [discriminate|].
    inv_bind H. destruct x1 as [n4 ci].
    match type of H with (if ?c then _ else _) = _ => destruct c end; [discriminate|].
    inversion H; subst; clear H.
    match type of Hx2 with (if ?c then _ else _) = _ => destruct c end;
      [inversion Hx2; reflexivity|].
    match type of Hx2 with (if ?c then _ else _) = _ => destruct c end; [discriminate|].
    inversion Hx2; reflexivity. }
  rewrite E. eapply SK_trans; [exact Hx|]. eapply SK_trans; eassumption.
Qed.

Lemma rn_advance_apply_to_SK n a n' :
  rn_advance_apply_to n a = Ok n' -> SK (rn_raft n) (rn_raft n').
Proof.
  intros H. unfold rn_advance_apply_to, lift, commit_apply in H. inv_bind H.
  inversion H; subst; clear H. cbn [rn_raft set].
  eapply commit_apply_internal_SK. exact Hx.
Qed.

(* every RawNode entry point other than apply_conf_change, stepping any message other than
   a MsgSnapshot, leaves the skeleton as it is *)
Theorem rn_apply_SK n i n' :
  rn_apply n i = Ok n' ->
  (forall cc, i <> RnApplyConfChange cc) ->
  (forall m, i = RnStep m -> m_type m <> MsgSnapshot) ->
  SK (rn_raft n) (rn_raft n').
Proof.
  intros H Hcc Hsn.
  assert (Hstep : forall m x, step (rn_raft n) m = Ok x -> m_type m <> MsgSnapshot ->
                     SK (rn_raft n) (fst x)).
  { intros m [r1 c] K T. eapply step_SK; eassumption. }
  destruct i; cbn [rn_apply] in H.
  - inv_bind H. inversion H; subst; clear H. unfold rn_step in Hx.
    destruct (is_local_msg (m_type m)); [inversion Hx; apply SK_refl|].
    match type of Hx with (if ?c then _ else _) = _ => destruct c end;
      [|inversion Hx; apply SK_refl].
    unfold lift2 in Hx. inv_bind Hx. inversion Hx; subst; clear Hx. cbn [fst rn_raft set].
    eapply Hstep; [exact Hx0|]. apply Hsn. reflexivity.
  - inv_bind H. inversion H; subst; clear H. unfold rn_tick in Hx. inv_bind Hx.
    inversion Hx; subst; clear Hx. destruct x0 as [r1 b]. cbn [fst rn_raft set].
    eapply tick_SK; exact Hx0.
  - inv_bind H. inversion H; subst; clear H. unfold rn_campaign, lift2 in Hx. inv_bind Hx.
    inversion Hx; subst; clear Hx. cbn [fst rn_raft set]. eapply Hstep; [exact Hx0|discriminate].
  - inv_bind H. inversion H; subst; clear H. unfold rn_propose, lift2 in Hx. inv_bind Hx.
    inversion Hx; subst; clear Hx. cbn [fst rn_raft set]. eapply Hstep; [exact Hx0|discriminate].
  - inv_bind H. inversion H; subst; clear H. unfold rn_propose_conf_change, lift2 in Hx. inv_bind Hx.
    inversion Hx; subst; clear Hx. cbn [fst rn_raft set]. eapply Hstep; [exact Hx0|discriminate].
  - exfalso. eapply Hcc. reflexivity.
  - unfold rn_ping, lift in H. inv_bind H. inversion H; subst; clear H. cbn [rn_raft set].
    eapply ping_SK; exact Hx.
  - inv_bind H. inversion H; subst; clear H. destruct x as [n1 rd]. eapply rn_ready_SK; exact Hx.
  - inv_bind H. inversion H; subst; clear H. unfold rn_advance in Hx. inv_bind Hx. inv_bind Hx.
    inversion Hx; subst; clear Hx. destruct x0 as [n1 l]. cbn [fst snd] in *.
    apply rn_advance_append_SK in Hx0. apply rn_advance_apply_to_SK in Hx1.
    eapply SK_trans; eassumption.
  - inv_bind H. inversion H; subst; clear H. destruct x as [n1 l].
    eapply rn_advance_append_SK; exact Hx.
  - eapply commit_ready_SK; exact H.
  - eapply rn_advance_apply_to_SK; exact H.
  - eapply rn_advance_apply_to_SK; exact H.
  - eapply rn_on_persist_ready_SK; exact H.
  - unfold rn_report_unreachable in H. inv_bind H. inversion H; subst; clear H. cbn [rn_raft set].
    eapply Hstep; [exact Hx|discriminate].
  - unfold rn_report_snapshot in H. inv_bind H. inversion H; subst; clear H. cbn [rn_raft set].
    eapply Hstep; [exact Hx|discriminate].
  - inv_bind H. inversion H; subst; clear H. unfold rn_request_snapshot, lift2 in Hx. inv_bind Hx.
    inversion Hx; subst; clear Hx. destruct x0 as [r1 c]. cbn [fst rn_raft set].
    eapply request_snapshot_SK; exact Hx0.
  - unfold rn_transfer_leader in H. inv_bind H. inversion H; subst; clear H. cbn [rn_raft set].
    eapply Hstep; [exact Hx|discriminate].
  - unfold rn_read_index in H. inv_bind H. inversion H; subst; clear H. cbn [rn_raft set].
    eapply Hstep; [exact Hx|discriminate].
Qed.

(* ================================================================== *)
(* 3. the node's configuration is conf_after of what it applied *)

Definition ConfIs (r : raft) (cs0 : conf_state) (ccs : list ccv2) : Prop :=
  conf_after cs0 ccs = Some (sk r).

Lemma ConfIs_sorted r cs0 ccs : ConfIs r cs0 ccs -> sorted (ids_of r) = true.
Proof. intros H. apply conf_after_reachable in H. eapply reachable_sorted. exact H. Qed.

Lemma ConfIs_SK r cs0 ccs r' : ConfIs r cs0 ccs -> SK r r' -> ConfIs r' cs0 ccs.
Proof. intros H K. unfold ConfIs. rewrite (K (ConfIs_sorted _ _ _ H)). exact H. Qed.

(* (2) applying a membership change extends the list; a rejected change changes nothing *)
Theorem apply_ConfIs r cs0 ccs cc r' ocs :
  ConfIs r cs0 ccs -> raft_apply_conf_change r cc = Ok (r', ocs) ->
  match ocs with
  | Some cs' => ConfIs r' cs0 (ccs ++ [cc]) /\ cs' = to_conf_state (conf_of r') /\
                ConfChange.apply_conf_change (sk r) cc = ROk (sk r')
  | None => r' = r /\ exists e, ConfChange.apply_conf_change (sk r) cc = RErr e
  end.
Proof.
  intros Hc H. pose proof (raft_apply_conf_change_spec _ _ _ _ H) as Hs.
  fold (ids_of r) in Hs. fold (sk r) in Hs.
  destruct (ConfChange.apply_conf_change (sk r) cc) as [[c' ids']|e] eqn:Ea.
  - destruct Hs as (Hconf & -> & _ & _ & chs & Hch & Hids).
    (* the post-state's ids: post_conf_change keeps the skeleton of set_conf_prs r c' m' *)
    unfold raft_apply_conf_change in H. fold (changer_result r cc) in H. rewrite Hch in H.
    set (m' := Raft.apply_changes (t_progress (r_prs r)) chs (last_index (r_log r))
                                  (t_max_inflight (r_prs r))) in *.
    apply bind_ok in H. destruct H as ([r1 cs1] & Hp & H). inversion H; subst r1; clear H.
    apply post_conf_change_SK in Hp.
    assert (Ht : reachable (c', ids')).
    { eapply reach_v2; [eapply conf_after_reachable; exact Hc|exact Ea]. }
    assert (E0 : sk (set_conf_prs r c' m') = (c', ids')) by (rewrite Hids; reflexivity).
    assert (Hsk : sk r' = (c', ids')).
    { rewrite Hp; [exact E0|].
      change (ids_of (set_conf_prs r c' m')) with (snd (sk (set_conf_prs r c' m'))).
      rewrite E0. eapply reachable_sorted; exact Ht. }
    rewrite Hsk. split; [|split; [rewrite Hconf; reflexivity|reflexivity]].
    unfold ConfIs. rewrite Hsk. eapply conf_after_snoc; eassumption.
  - destruct Hs as [-> ->]. split; [reflexivity|]. exists e. reflexivity.
Qed.

(* (2') every other entry point keeps it (RawNode form; the Raft-level facts are the SK
   lemmas above: step on anything but MsgSnapshot, tick, on_persist_*, commit_apply, ...) *)
Theorem rn_apply_ConfIs n i n' cs0 ccs :
  ConfIs (rn_raft n) cs0 ccs -> rn_apply n i = Ok n' ->
  (forall cc, i <> RnApplyConfChange cc) ->
  (forall m, i = RnStep m -> m_type m <> MsgSnapshot) ->
  ConfIs (rn_raft n') cs0 ccs.
Proof. intros Hc H A B. eapply ConfIs_SK; [exact Hc|]. eapply rn_apply_SK; eassumption. Qed.

Theorem step_ConfIs r m r' c cs0 ccs :
  ConfIs r cs0 ccs -> step r m = Ok (r', c) -> m_type m <> MsgSnapshot -> ConfIs r' cs0 ccs.
Proof. intros Hc H T. eapply ConfIs_SK; [exact Hc|]. eapply step_SK; eassumption. Qed.

Theorem tick_ConfIs r r' b cs0 ccs : ConfIs r cs0 ccs -> tick r = Ok (r', b) -> ConfIs r' cs0 ccs.
Proof. intros Hc H. eapply ConfIs_SK; [exact Hc|]. eapply tick_SK; exact H. Qed.

(* a tracker that a ConfState describes *)
Definition describes (cs : conf_state) (c : conf) : Prop :=
  same_set (cs_voters cs) (incoming c) /\ same_set (cs_learners cs) (learners c) /\
  same_set (cs_voters_outgoing cs) (outgoing c) /\ same_set (cs_learners_next cs) (learners_next c) /\
  cs_auto_leave cs = auto_leave c.

Lemma describes_to_conf_state c : describes (to_conf_state c) c.
Proof. repeat split; intros x; reflexivity. Qed.

Lemma restore_of_reachable cs c p :
  reachable (c, p) -> incoming c <> [] -> describes cs c ->
  ConfChange.restore empty_tracker cs = ROk (c, p).
Proof.
  intros R Hne (A & B & C0 & D & E). destruct (reachable_good _ R) as [V _]. cbn [fst snd] in V.
  apply restore_roundtrip; try assumption. split; assumption.
Qed.

(* (4) snapshot install: a snapshot whose ConfState describes the configuration c0 reached
   by applying ccs installs exactly (c0, its tracked ids) *)
Theorem restore_ConfIs r s r' cs0 ccs c0 p0 :
  restore r s = Ok (r', true) ->
  conf_after cs0 ccs = Some (c0, p0) -> incoming c0 <> [] -> describes (s_cs s) c0 ->
  ConfIs r' cs0 ccs /\ sk r' = (c0, p0).
Proof.
  intros H Hc Hne Hd. apply restore_true_sk in H. destruct H as (t & Hr & Hsk).
  rewrite (restore_of_reachable _ _ _ (conf_after_reachable _ _ _ Hc) Hne Hd) in Hr.
  assert (E : t = (c0, p0)) by congruence. rewrite E in Hsk.
  split; [|exact Hsk]. unfold ConfIs. rewrite Hsk. exact Hc.
Qed.

(* through Raft::step: a MsgSnapshot either leaves the configuration alone or installs *)
Theorem step_snapshot_ConfIs r m r' c cs0 ccs ccs' c0 p0 :
  ConfIs r cs0 ccs -> step r m = Ok (r', c) ->
  conf_after cs0 ccs' = Some (c0, p0) -> incoming c0 <> [] -> describes (s_cs (m_snapshot m)) c0 ->
  ConfIs r' cs0 ccs \/ (m_type m = MsgSnapshot /\ ConfIs r' cs0 ccs' /\ sk r' = (c0, p0)).
Proof.
  intros Hc H Hc0 Hne Hd. destruct (step_SKI _ _ _ _ H) as [K|(T & r0 & r1 & A & B & C0)].
  - left. eapply ConfIs_SK; eassumption.
  - right. split; [exact T|].
    destruct (restore_ConfIs _ _ _ _ _ _ _ B Hc0 Hne Hd) as [E F].
    pose proof (ConfIs_SK _ _ _ _ E C0) as G. split; [exact G|].
    unfold ConfIs in G. rewrite Hc0 in G. inversion G. reflexivity.
Qed.

(* (3) restart: Raft::new on a store whose ConfState describes c0 = conf_after cs0 ccs *)
Theorem raft_new_sk c st sa d r :
  raft_new c st sa d = Ok (inr r) ->
  ConfChange.restore empty_tracker (MemStorage.cs st) = ROk (sk r).
Proof.
  intros H. unfold raft_new in H. destruct (negb (cfg_validate c)); [discriminate|].
  cbn zeta in H. inv_bind H.
  match type of H with match ?d with _ => _ end = _ => destruct d as [[c' ids']|] eqn:Er end;
    [|discriminate].
  apply bind_ok in H. destruct H as ([r2 new_cs] & H1 & H).
  match type of H with (if ?c then _ else _) = _ => destruct c end; [discriminate|].
  apply bind_ok in H. destruct H as (r3 & H2 & H). apply bind_ok in H. destruct H as (r4 & H3 & H).
  apply bind_ok in H. destruct H as (r5 & H4 & H). inv_bind H. inversion H; subst r5; clear H.
  apply post_conf_change_SK in H1. apply become_follower_SK in H4.
  assert (K2 : SK r2 r3).
  { match type of H2 with (if ?c then _ else _) = _ => destruct c end;
      [inversion H2; apply SK_refl|eapply load_state_SK; exact H2]. }
  assert (K3 : SK r3 r4).
  { match type of H3 with (if ?c then _ else _) = _ => destruct c end;
      [eapply commit_apply_internal_SK; exact H3|inversion H3; apply SK_refl]. }
  pose proof (SK_trans _ _ _ H1 (SK_trans _ _ _ K2 (SK_trans _ _ _ K3 H4))) as K.
  destruct (restore_valid _ _ Er) as [V _]. cbn [fst snd] in V.
  rewrite K.
  - unfold sk, ids_of, set_conf_prs. cbn. rewrite pids_fresh. reflexivity.
  - unfold ids_of, set_conf_prs. cbn. rewrite pids_fresh. apply V.
Qed.

Theorem raft_new_ConfIs_initial c st sa d r :
  raft_new c st sa d = Ok (inr r) -> ConfIs r (MemStorage.cs st) [].
Proof. intros H. apply raft_new_sk in H. unfold ConfIs, conf_after. rewrite H. reflexivity. Qed.

Theorem raft_new_ConfIs c st sa d r cs0 ccs c0 p0 :
  raft_new c st sa d = Ok (inr r) ->
  conf_after cs0 ccs = Some (c0, p0) -> incoming c0 <> [] -> describes (MemStorage.cs st) c0 ->
  ConfIs r cs0 ccs /\ sk r = (c0, p0).
Proof.
  intros H Hc Hne Hd. apply raft_new_sk in H.
  rewrite (restore_of_reachable _ _ _ (conf_after_reachable _ _ _ Hc) Hne Hd) in H.
  assert (E : sk r = (c0, p0)) by congruence. split; [|exact E]. unfold ConfIs. rewrite E. exact Hc.
Qed.

(* ================================================================== *)
(* 4. the cross-node corollaries *)

(* two node states that applied the same changes on the same initial ConfState have the
   same configuration and track the same ids *)
Theorem same_changes_same_conf r1 r2 cs0 ccs :
  ConfIs r1 cs0 ccs -> ConfIs r2 cs0 ccs ->
  conf_of r1 = conf_of r2 /\ ids_of r1 = ids_of r2 /\
  to_conf_state (conf_of r1) = to_conf_state (conf_of r2).
Proof.
  unfold ConfIs. intros H1 H2. rewrite H1 in H2. inversion H2 as [[A B]].
  rewrite A. auto.
Qed.

(* a node restarted from a store holding the ConfState its last apply returned (or any
   ConfState describing its configuration) has the configuration it had *)
Theorem restart_same_conf r cs0 ccs c st sa d r2 :
  ConfIs r cs0 ccs -> incoming (conf_of r) <> [] ->
  describes (MemStorage.cs st) (conf_of r) ->
  raft_new c st sa d = Ok (inr r2) ->
  ConfIs r2 cs0 ccs /\ conf_of r2 = conf_of r /\ ids_of r2 = ids_of r.
Proof.
  intros Hc Hne Hd H.
  destruct (raft_new_ConfIs _ _ _ _ _ _ _ _ _ H Hc Hne Hd) as [A B].
  split; [exact A|]. unfold sk in B. inversion B. auto.
Qed.

(* a node that installs a snapshot carrying the ConfState of a node that applied ccs has
   that node's configuration *)
Theorem install_same_conf sender r s r' cs0 ccs :
  ConfIs sender cs0 ccs -> incoming (conf_of sender) <> [] ->
  describes (s_cs s) (conf_of sender) ->
  restore r s = Ok (r', true) ->
  ConfIs r' cs0 ccs /\ conf_of r' = conf_of sender /\ ids_of r' = ids_of sender.
Proof.
  intros Hc Hne Hd H.
  destruct (restore_ConfIs _ _ _ _ _ _ _ H Hc Hne Hd) as [A B].
  split; [exact A|]. unfold sk in B. inversion B. auto.
Qed.

(* ================================================================== *)
(* 5. along a whole RawNode run: the configuration is conf_after of the changes that
      apply_conf_change accepted, in order *)
Fixpoint rn_run_confs (n : rawnode) (is : list rn_input) (acc : list ccv2)
  : Res (rawnode * list ccv2) :=
  match is with
  | [] => Ok (n, acc)
  | RnApplyConfChange cc :: rest =>
      x <- rn_apply_conf_change n cc ;;
      rn_run_confs (fst x) rest (match snd x with Some _ => acc ++ [cc] | None => acc end)
  | i :: rest => n1 <- rn_apply n i ;; rn_run_confs n1 rest acc
  end.

Definition no_snapshot_msg (i : rn_input) : Prop :=
  match i with RnStep m => m_type m <> MsgSnapshot | _ => True end.

Theorem run_ConfIs cs0 : forall is n acc n' acc',
  Forall no_snapshot_msg is ->
  ConfIs (rn_raft n) cs0 acc -> rn_run_confs n is acc = Ok (n', acc') ->
  ConfIs (rn_raft n') cs0 acc'.
Proof.
  induction is as [|i rest IH]; intros n acc n' acc' Hf Hc H.
  - cbn in H. inversion H; subst. exact Hc.
  - inversion Hf as [|? ? Hi Hr]; subst.
    assert (Hother : (forall cc, i <> RnApplyConfChange cc) ->
              (n1 <- rn_apply n i ;; rn_run_confs n1 rest acc) = Ok (n', acc') ->
              ConfIs (rn_raft n') cs0 acc').
    { intros Hn K. inv_bind K. eapply IH; [exact Hr| |exact K].
      eapply rn_apply_ConfIs; [exact Hc|exact Hx|exact Hn|].
      intros m ->. exact Hi. }
    destruct i; try (apply Hother; [intros cc0; discriminate|exact H]).
    cbn [rn_run_confs] in H. inv_bind H. destruct x as [n1 ocs]. cbn [fst snd] in H.
    unfold rn_apply_conf_change in Hx. inv_bind Hx. inversion Hx; subst; clear Hx.
    destruct x as [r1 o1]. cbn [fst snd] in *.
    pose proof (apply_ConfIs _ _ _ _ _ _ Hc Hx0) as K.
    eapply IH; [exact Hr| |exact H]. cbn [rn_raft set].
    destruct o1 as [cs'|]; [apply K|]. destruct K as [-> _]. exact Hc.
Qed.

(* two nodes started on the same initial ConfState whose runs accepted the same changes *)
Theorem runs_same_changes_same_conf cs0 is1 is2 n1 n2 n1' n2' ccs :
  ConfIs (rn_raft n1) cs0 [] -> ConfIs (rn_raft n2) cs0 [] ->
  Forall no_snapshot_msg is1 -> Forall no_snapshot_msg is2 ->
  rn_run_confs n1 is1 [] = Ok (n1', ccs) -> rn_run_confs n2 is2 [] = Ok (n2', ccs) ->
  conf_of (rn_raft n1') = conf_of (rn_raft n2') /\ ids_of (rn_raft n1') = ids_of (rn_raft n2').
Proof.
  intros A1 A2 F1 F2 R1 R2.
  pose proof (run_ConfIs _ _ _ _ _ _ F1 A1 R1) as B1.
  pose proof (run_ConfIs _ _ _ _ _ _ F2 A2 R2) as B2.
  destruct (same_changes_same_conf _ _ _ _ B1 B2) as (X & Y & _). auto.
Qed.

(* RawNode::new starts the list empty on the store's ConfState *)
Theorem rn_new_ConfIs c st sa d n :
  rn_new c st sa d = Ok (inr n) -> ConfIs (rn_raft n) (MemStorage.cs st) [].
Proof.
  intros H. unfold rn_new in H. destruct (c_id c =? 0); [discriminate|].
  inv_bind H. destruct x as [e|r]; [discriminate|]. inversion H; subst. cbn [rn_raft].
  eapply raft_new_ConfIs_initial; exact Hx.
Qed.

(* ================================================================== *)
(* definitions unfolded, for the pinned statements *)
Lemma conf_after_def cs0 ccs :
  conf_after cs0 ccs =
  match ConfChange.restore empty_tracker cs0 with
  | ROk t => apply_all t ccs
  | RErr _ => None
  end.
Proof. reflexivity. Qed.

Lemma apply_all_def t :
  apply_all t [] = Some t /\
  forall cc rest, apply_all t (cc :: rest) =
    match ConfChange.apply_conf_change t cc with
    | ROk t' => apply_all t' rest
    | RErr _ => None
    end.
Proof. split; reflexivity. Qed.

Lemma ConfIs_def r cs0 ccs :
  ConfIs r cs0 ccs <-> conf_after cs0 ccs = Some (conf_of r, pids (t_progress (r_prs r))).
Proof. split; intros H; exact H. Qed.

Lemma describes_def cs c :
  describes cs c <->
  ((forall x, IdSet.mem x (cs_voters cs) = IdSet.mem x (incoming c)) /\
   (forall x, IdSet.mem x (cs_learners cs) = IdSet.mem x (learners c)) /\
   (forall x, IdSet.mem x (cs_voters_outgoing cs) = IdSet.mem x (outgoing c)) /\
   (forall x, IdSet.mem x (cs_learners_next cs) = IdSet.mem x (learners_next c)) /\
   cs_auto_leave cs = auto_leave c).
Proof. split; intros H; exact H. Qed.

Module XnodeSamples.
Definition cs3 : conf_state := mkCS [1; 2; 3] [] [] [] false.
Definition cc_add4 : ccv2 := mkV2 Auto [(AddNode, 4)].
Definition cc_demote1 : ccv2 := mkV2 Auto [(AddLearnerNode, 1)].
End XnodeSamples.
