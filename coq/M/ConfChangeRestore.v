(* C12, part 4: restore round trip.  For every valid configuration [c] (with at
   least one voter) and every ConfState whose vectors list the members of [c]
   in ANY order (duplicates allowed), confchange::restore from the empty
   tracker succeeds and rebuilds exactly [c] and a Progress for exactly its
   members; Raft::new's conf_state_eq check then passes. *)
From RV Require Import Base.Prelude Base.IdSet Base.IdSetProofs M.ConfChange
  M.ConfChangeSpec M.ConfChangeOps.
From Coq Require Import Permutation.

Local Open Scope N_scope.

Ltac splits := repeat match goal with |- _ /\ _ => split end.

(* a vector lists exactly the elements of a set *)
Definition same_set (l : list N) (s : idset) : Prop := forall x, mem x l = mem x s.

(* ---------- small set facts ---------- *)

Lemma mem_all_false_nil : forall l, (forall x, mem x l = false) -> l = [].
Proof.
  intros [|z l] H; [reflexivity|]. specialize (H z). cbn [mem] in H.
  rewrite N.eqb_refl in H. discriminate.
Qed.

Lemma same_set_nil : forall l, same_set l [] -> l = [].
Proof. intros l H. apply mem_all_false_nil. exact H. Qed.

Lemma ext_notnil : forall (l s : list N), (forall x, mem x l = mem x s) -> s <> [] -> l <> [].
Proof.
  intros l s H Hs E. subst l. apply Hs. apply mem_all_false_nil. intros x. rewrite <- H. reflexivity.
Qed.

Lemma insert_notnil : forall x s, insert x s <> [].
Proof.
  intros x s E. assert (H : mem x (insert x s) = true) by (rewrite mem_insert, N.eqb_refl; reflexivity).
  rewrite E in H. discriminate.
Qed.

Lemma filter_none : forall (f : N -> bool) l, (forall x, In x l -> f x = false) -> filter f l = [].
Proof.
  induction l as [|z l IH]; intros H; cbn [filter]; [reflexivity|].
  rewrite (H z (or_introl eq_refl)). apply IH. intros x Hx. apply H. right. exact Hx.
Qed.

Lemma length_filter_insert : forall (f : N -> bool) v s,
  (length (filter f (insert v s)) <= S (length (filter f s)))%nat.
Proof.
  induction s as [|z s IH]; cbn [insert filter].
  - destruct (f v); cbn [length]; lia.
  - destruct (v <? z).
    + cbn [filter]. destruct (f v), (f z); cbn [length]; lia.
    + destruct (v =? z).
      * cbn [filter]. destruct (f z); cbn [length]; lia.
      * cbn [filter]. destruct (f z); cbn [length]; lia.
Qed.

Lemma symdiff_insert : forall v s, (symdiff_count (insert v s) s <= 1)%nat.
Proof.
  intros v s. unfold symdiff_count, diff.
  pose proof (length_filter_insert (fun x => negb (mem x s)) v s) as H.
  fold (diff s s) in H. rewrite diff_self in H. cbn [length] in H.
  rewrite (filter_none (fun x => negb (mem x (insert v s))) s).
  - cbn [length]. lia.
  - intros x Hx. rewrite mem_insert. apply mem_In in Hx. rewrite Hx. rewrite orb_true_r. reflexivity.
Qed.

Lemma symdiff_self : forall s, symdiff_count s s = 0%nat.
Proof. intros s. unfold symdiff_count. rewrite diff_self. reflexivity. Qed.

Lemma mem_zero_cons : forall v vs, mem 0 (v :: vs) = false -> v <> 0 /\ mem 0 vs = false.
Proof.
  intros v vs H. cbn [mem] in H. apply orb_false_iff in H. destruct H as [H1 H2].
  split; [|assumption]. intros E. subst. discriminate.
Qed.

Lemma neq_eqb_false : forall v, v <> 0 -> (v =? 0) = false.
Proof. intros v H. apply N.eqb_neq. exact H. Qed.

(* ---------- simple_each ---------- *)

Lemma simple_each_app : forall a b t,
  simple_each t (a ++ b) = (t' <-r simple_each t a ;; simple_each t' b).
Proof.
  induction a as [|cc a IH]; intros b t; cbn [app simple_each].
  - reflexivity.
  - destruct (do_simple t [cc]) as [t1|e]; cbn [rbind]; [apply IH|reflexivity].
Qed.

Lemma nonjoint : forall c, outgoing c = [] -> joint c = false.
Proof. intros c H. unfold joint. rewrite H. reflexivity. Qed.

(* one voter added to a non-joint configuration *)
Lemma do_simple_add_voter : forall c p v,
  ValidB c p -> outgoing c = [] -> v <> 0 ->
  do_simple (c, p) (@cons ccsingle (AddNode, v) nil) = ROk (spec_one (c, p) (AddNode, v)).
Proof.
  intros c p v V Ho Hv. rewrite (do_simple_spec c p _ V). unfold spec_simple.
  rewrite (nonjoint c Ho). cbn [spec_loop fold_left].
  cbn [spec_one]. rewrite (neq_eqb_false v Hv). cbn [fst snd incoming].
  destruct (is_empty (insert v (incoming c))) eqn:E.
  { apply is_empty_nil in E. destruct (insert_notnil _ _ E). }
  pose proof (symdiff_insert v (incoming c)) as Hs.
  destruct (1 <? symdiff_count (insert v (incoming c)) (incoming c))%nat eqn:E2.
  { apply Nat.ltb_lt in E2. lia. }
  reflexivity.
Qed.

(* one learner added to a non-joint configuration with voters *)
Lemma do_simple_add_learner : forall c p l,
  ValidB c p -> outgoing c = [] -> l <> 0 -> incoming c <> [] -> mem l (incoming c) = false ->
  do_simple (c, p) (@cons ccsingle (AddLearnerNode, l) nil) = ROk (spec_one (c, p) (AddLearnerNode, l)).
Proof.
  intros c p l V Ho Hl Hne Hm. rewrite (do_simple_spec c p _ V). unfold spec_simple.
  rewrite (nonjoint c Ho). cbn [spec_loop fold_left].
  cbn [spec_one]. rewrite (neq_eqb_false l Hl). rewrite Ho. cbn [mem fst snd incoming].
  rewrite (remove_notin _ _ Hm).
  destruct (is_empty (incoming c)) eqn:E.
  { apply is_empty_nil in E. contradiction. }
  rewrite symdiff_self. reflexivity.
Qed.

Lemma simple_each_add_voters : forall vs c p,
  ValidB c p -> outgoing c = [] -> learners c = [] -> mem 0 vs = false ->
  exists c' p',
    simple_each (c, p) (map (fun id => (AddNode, id)) vs) = ROk (c', p') /\
    ValidB c' p' /\ outgoing c' = [] /\ learners c' = [] /\
    (forall x, mem x (incoming c') = mem x (incoming c) || mem x vs).
Proof.
  induction vs as [|v vs IH]; intros c p V Ho Hl Hz; cbn [map simple_each].
  - exists c, p. splits; auto. intros x. rewrite orb_false_r. reflexivity.
  - destruct (mem_zero_cons _ _ Hz) as [Hv Hz'].
    rewrite (do_simple_add_voter c p v V Ho Hv). cbn [rbind].
    pose proof (spec_one_valid c p (AddNode, v) V) as V1.
    pose proof (spec_one_outgoing c p (AddNode, v)) as Ho1.
    assert (Hl1 : learners (fst (spec_one (c, p) (AddNode, v))) = []).
    { cbn [spec_one]. rewrite (neq_eqb_false v Hv). cbn [fst learners]. rewrite Hl. reflexivity. }
    assert (Hi1 : forall x, mem x (incoming (fst (spec_one (c, p) (AddNode, v))))
                            = (x =? v) || mem x (incoming c)).
    { intros x. cbn [spec_one]. rewrite (neq_eqb_false v Hv). cbn [fst incoming].
      apply mem_insert. }
    destruct (spec_one (c, p) (AddNode, v)) as [c1 p1]. cbn [fst snd] in *.
    rewrite Ho in Ho1.
    destruct (IH c1 p1 V1 Ho1 Hl1 Hz') as [c' [p' [E [V' [Ho' [Hl' Hi']]]]]].
    exists c', p'. splits; auto.
    intros x. rewrite Hi', Hi1. cbn [mem]. destruct (x =? v), (mem x (incoming c)); reflexivity.
Qed.

Lemma simple_each_add_learners : forall ls c p,
  ValidB c p -> outgoing c = [] -> incoming c <> [] -> mem 0 ls = false ->
  (forall x, mem x ls = true -> mem x (incoming c) = false) ->
  exists c' p',
    simple_each (c, p) (map (fun id => (AddLearnerNode, id)) ls) = ROk (c', p') /\
    ValidB c' p' /\ outgoing c' = [] /\ incoming c' = incoming c /\
    (forall x, mem x (learners c') = mem x (learners c) || mem x ls).
Proof.
  induction ls as [|l ls IH]; intros c p V Ho Hne Hz Hd; cbn [map simple_each].
  - exists c, p. splits; auto. intros x. rewrite orb_false_r. reflexivity.
  - destruct (mem_zero_cons _ _ Hz) as [Hl Hz'].
    assert (Hm : mem l (incoming c) = false).
    { apply Hd. cbn [mem]. rewrite N.eqb_refl. reflexivity. }
    rewrite (do_simple_add_learner c p l V Ho Hl Hne Hm). cbn [rbind].
    pose proof (spec_one_valid c p (AddLearnerNode, l) V) as V1.
    pose proof (spec_one_outgoing c p (AddLearnerNode, l)) as Ho1.
    assert (Hi1 : incoming (fst (spec_one (c, p) (AddLearnerNode, l))) = incoming c).
    { cbn [spec_one]. rewrite (neq_eqb_false l Hl). rewrite Ho. cbn [mem fst incoming].
      apply remove_notin. exact Hm. }
    assert (Hl1 : forall x, mem x (learners (fst (spec_one (c, p) (AddLearnerNode, l))))
                            = (x =? l) || mem x (learners c)).
    { intros x. cbn [spec_one]. rewrite (neq_eqb_false l Hl). rewrite Ho. cbn [mem fst learners].
      apply mem_insert. }
    destruct (spec_one (c, p) (AddLearnerNode, l)) as [c1 p1]. cbn [fst snd] in *.
    rewrite Ho in Ho1.
    destruct (IH c1 p1 V1 Ho1) as [c' [p' [E [V' [Ho' [Hi' Hl']]]]]].
    + rewrite Hi1. exact Hne.
    + exact Hz'.
    + intros x Hx. rewrite Hi1. apply Hd. cbn [mem]. rewrite Hx. apply orb_true_r.
    + exists c', p'. splits; auto.
      * rewrite Hi'. exact Hi1.
      * intros x. rewrite Hl', Hl1. cbn [mem]. destruct (x =? l), (mem x (learners c)); reflexivity.
Qed.

(* ---------- the four phases of the incoming list inside enter_joint ---------- *)

Ltac pointwise :=
  let x := fresh "x" in
  intros x;
  repeat match goal with H : forall y : N, mem y _ = _ |- _ => rewrite H; clear H end;
  cbn [mem incoming outgoing learners learners_next auto_leave]; mem_norm; bb.

Lemma loop_removes : forall rs c p,
  mem 0 rs = false ->
  (forall x, mem x rs = true -> mem x (outgoing c) = true) ->
  forall c' p', spec_loop (c, p) (map (fun id => (RemoveNode, id)) rs) = (c', p') ->
  p' = p /\ outgoing c' = outgoing c /\ auto_leave c' = auto_leave c /\
  (forall x, mem x (incoming c') = mem x (incoming c) && negb (mem x rs)) /\
  (forall x, mem x (learners c') = mem x (learners c) && negb (mem x rs)) /\
  (forall x, mem x (learners_next c') = mem x (learners_next c) && negb (mem x rs)).
Proof.
  induction rs as [|r rs IH]; intros c p Hz Ho c' p' E; cbn [map spec_loop fold_left] in E.
  - inversion E; subst. splits; try reflexivity; intros x; cbn [mem negb]; rewrite andb_true_r; reflexivity.
  - destruct (mem_zero_cons _ _ Hz) as [Hr0 Hz'].
    assert (Hr : mem r (outgoing c) = true).
    { apply Ho. cbn [mem]. rewrite N.eqb_refl. reflexivity. }
    cbn [spec_one] in E. rewrite (neq_eqb_false r Hr0), Hr in E.
    apply IH in E; [|exact Hz'|].
    + cbn [incoming outgoing learners learners_next auto_leave] in E.
      destruct E as [Ep [Eo [Ea [Ei [El En]]]]].
      splits; auto; pointwise.
    + cbn [outgoing]. intros x Hx. apply Ho. cbn [mem]. rewrite Hx. apply orb_true_r.
Qed.

Lemma loop_add_voters : forall vs c p,
  mem 0 vs = false ->
  forall c' p', spec_loop (c, p) (map (fun id => (AddNode, id)) vs) = (c', p') ->
  outgoing c' = outgoing c /\ auto_leave c' = auto_leave c /\
  (forall x, mem x (incoming c') = mem x (incoming c) || mem x vs) /\
  (forall x, mem x (learners c') = mem x (learners c) && negb (mem x vs)) /\
  (forall x, mem x (learners_next c') = mem x (learners_next c) && negb (mem x vs)) /\
  (forall x, mem x p' = mem x p || mem x vs).
Proof.
  induction vs as [|v vs IH]; intros c p Hz c' p' E; cbn [map spec_loop fold_left] in E.
  - inversion E; subst. splits; try reflexivity; intros x; cbn [mem negb];
      rewrite ?andb_true_r, ?orb_false_r; reflexivity.
  - destruct (mem_zero_cons _ _ Hz) as [Hv0 Hz'].
    cbn [spec_one] in E. rewrite (neq_eqb_false v Hv0) in E.
    apply IH in E; [|exact Hz'].
    cbn [incoming outgoing learners learners_next auto_leave] in E.
    destruct E as [Eo [Ea [Ei [El [En Ep]]]]].
    splits; auto; pointwise.
Qed.

(* learners that are not outgoing voters are added directly *)
Lemma loop_add_learners : forall ls c p,
  mem 0 ls = false ->
  (forall x, mem x ls = true -> mem x (outgoing c) = false) ->
  forall c' p', spec_loop (c, p) (map (fun id => (AddLearnerNode, id)) ls) = (c', p') ->
  outgoing c' = outgoing c /\ auto_leave c' = auto_leave c /\
  (forall x, mem x (incoming c') = mem x (incoming c) && negb (mem x ls)) /\
  (forall x, mem x (learners c') = mem x (learners c) || mem x ls) /\
  learners_next c' = learners_next c /\
  (forall x, mem x p' = mem x p || mem x ls).
Proof.
  induction ls as [|l ls IH]; intros c p Hz Ho c' p' E; cbn [map spec_loop fold_left] in E.
  - inversion E; subst. splits; try reflexivity; intros x; cbn [mem negb];
      rewrite ?andb_true_r, ?orb_false_r; reflexivity.
  - destruct (mem_zero_cons _ _ Hz) as [Hl0 Hz'].
    assert (Hl : mem l (outgoing c) = false).
    { apply Ho. cbn [mem]. rewrite N.eqb_refl. reflexivity. }
    cbn [spec_one] in E. rewrite (neq_eqb_false l Hl0), Hl in E.
    apply IH in E; [|exact Hz'|].
    + cbn [incoming outgoing learners learners_next auto_leave] in E.
      destruct E as [Eo [Ea [Ei [El [En Ep]]]]].
      splits; auto; pointwise.
    + cbn [outgoing]. intros x Hx. apply Ho. cbn [mem]. rewrite Hx. apply orb_true_r.
Qed.

(* learners that are still outgoing voters are staged in learners_next *)
Lemma loop_stage_learners : forall ns c p,
  mem 0 ns = false ->
  (forall x, mem x ns = true -> mem x (outgoing c) = true) ->
  forall c' p', spec_loop (c, p) (map (fun id => (AddLearnerNode, id)) ns) = (c', p') ->
  outgoing c' = outgoing c /\ auto_leave c' = auto_leave c /\
  (forall x, mem x (incoming c') = mem x (incoming c) && negb (mem x ns)) /\
  learners c' = learners c /\
  (forall x, mem x (learners_next c') = mem x (learners_next c) || mem x ns) /\
  (forall x, mem x p' = mem x p || mem x ns).
Proof.
  induction ns as [|n ns IH]; intros c p Hz Ho c' p' E; cbn [map spec_loop fold_left] in E.
  - inversion E; subst. splits; try reflexivity; intros x; cbn [mem negb];
      rewrite ?andb_true_r, ?orb_false_r; reflexivity.
  - destruct (mem_zero_cons _ _ Hz) as [Hn0 Hz'].
    assert (Hn : mem n (outgoing c) = true).
    { apply Ho. cbn [mem]. rewrite N.eqb_refl. reflexivity. }
    cbn [spec_one] in E. rewrite (neq_eqb_false n Hn0), Hn in E.
    apply IH in E; [|exact Hz'|].
    + cbn [incoming outgoing learners learners_next auto_leave] in E.
      destruct E as [Eo [Ea [Ei [El [En Ep]]]]].
      splits; auto; pointwise.
    + cbn [outgoing]. intros x Hx. apply Ho. cbn [mem]. rewrite Hx. apply orb_true_r.
Qed.

(* ---------- equality of valid trackers from pointwise equality ---------- *)

Lemma tracker_ext : forall c1 p1 c2 p2,
  ValidB c1 p1 -> ValidB c2 p2 ->
  (forall x, mem x (incoming c1) = mem x (incoming c2)) ->
  (forall x, mem x (learners c1) = mem x (learners c2)) ->
  (forall x, mem x (learners_next c1) = mem x (learners_next c2)) ->
  outgoing c1 = outgoing c2 -> auto_leave c1 = auto_leave c2 ->
  (c1, p1) = (c2, p2).
Proof.
  intros c1 p1 c2 p2 V1 V2 Hi Hl Hn Ho Ha.
  assert (Ec : c1 = c2).
  { pose proof (vb_si _ _ V1). pose proof (vb_sl _ _ V1). pose proof (vb_sn _ _ V1).
    pose proof (vb_si _ _ V2). pose proof (vb_sl _ _ V2). pose proof (vb_sn _ _ V2).
    destruct c1 as [i1 o1 l1 n1 a1], c2 as [i2 o2 l2 n2 a2].
    cbn [incoming outgoing learners learners_next auto_leave] in *.
    f_equal; auto using sorted_ext. }
  subst c2. f_equal. apply sorted_ext; eauto with srt.
  intros x. rewrite (vb_prs _ _ V1), (vb_prs _ _ V2). reflexivity.
Qed.

Lemma valid_zero : forall c p, ValidB c p ->
  mem 0 (incoming c) = false /\ mem 0 (outgoing c) = false /\
  mem 0 (learners c) = false /\ mem 0 (learners_next c) = false.
Proof.
  intros c p V. pose proof (vb_zero _ _ V) as Hz. rewrite (vb_prs _ _ V) in Hz.
  unfold is_member in Hz.
  destruct (mem 0 (incoming c)), (mem 0 (outgoing c)), (mem 0 (learners c)),
    (mem 0 (learners_next c)); cbn in Hz; try discriminate; auto.
Qed.

(* ---------- non-joint configurations ---------- *)

Lemma restore_nonjoint : forall c p cs,
  Valid c p -> outgoing c = [] ->
  same_set (cs_voters cs) (incoming c) -> same_set (cs_learners cs) (learners c) ->
  same_set (cs_voters_outgoing cs) (outgoing c) ->
  same_set (cs_learners_next cs) (learners_next c) ->
  restore empty_tracker cs = ROk (c, p).
Proof.
  intros c p cs [V Hne] Ho Sv Sl So Sn.
  destruct (vb_nj _ _ V Ho) as [Hn Ha].
  destruct (valid_zero c p V) as [Zi [Zo [Zl Zn]]].
  rewrite Ho in So. rewrite Hn in Sn.
  apply same_set_nil in So. apply same_set_nil in Sn.
  unfold restore, to_conf_change_single. rewrite So, Sn. cbn [map app].
  rewrite app_nil_r, simple_each_app.
  assert (Zv : mem 0 (cs_voters cs) = false) by (rewrite Sv; exact Zi).
  assert (Zls : mem 0 (cs_learners cs) = false) by (rewrite Sl; exact Zl).
  destruct (simple_each_add_voters (cs_voters cs) empty_conf [] ValidB_empty eq_refl eq_refl Zv)
    as [c1 [p1 [E1 [V1 [Ho1 [Hl1 Hi1]]]]]].
  change empty_tracker with (@pair conf idset empty_conf (@nil N)). rewrite E1. cbn [rbind].
  assert (Hi1' : forall x, mem x (incoming c1) = mem x (incoming c)).
  { intros x. rewrite Hi1, Sv. reflexivity. }
  destruct (simple_each_add_learners (cs_learners cs) c1 p1 V1 Ho1)
    as [c2 [p2 [E2 [V2 [Ho2 [Hi2 Hl2]]]]]].
  - apply (ext_notnil _ _ Hi1' Hne).
  - exact Zls.
  - intros x Hx. rewrite Hi1'. rewrite Sl in Hx. pose proof (vb_il _ _ V x) as H.
    rewrite Hx in H. destruct (mem x (incoming c)); [discriminate|reflexivity].
  - rewrite E2. f_equal.
    destruct (vb_nj _ _ V2 Ho2) as [Hn2 Ha2].
    apply tracker_ext; auto.
    + intros x. rewrite Hi2. apply Hi1'.
    + intros x. rewrite Hl2, Hl1, Sl. reflexivity.
    + intros x. rewrite Hn2, Hn. reflexivity.
    + congruence.
    + congruence.
Qed.

(* ---------- joint configurations ---------- *)

Lemma restore_joint : forall c p cs,
  Valid c p -> outgoing c <> [] ->
  same_set (cs_voters cs) (incoming c) -> same_set (cs_learners cs) (learners c) ->
  same_set (cs_voters_outgoing cs) (outgoing c) ->
  same_set (cs_learners_next cs) (learners_next c) ->
  cs_auto_leave cs = auto_leave c ->
  restore empty_tracker cs = ROk (c, p).
Proof.
  intros c p cs [V Hne] Ho Sv Sl So Sn Sa.
  destruct (valid_zero c p V) as [Zi [Zo [Zl Zn]]].
  assert (Zv : mem 0 (cs_voters cs) = false) by (rewrite Sv; exact Zi).
  assert (Zls : mem 0 (cs_learners cs) = false) by (rewrite Sl; exact Zl).
  assert (Zos : mem 0 (cs_voters_outgoing cs) = false) by (rewrite So; exact Zo).
  assert (Zns : mem 0 (cs_learners_next cs) = false) by (rewrite Sn; exact Zn).
  unfold restore, to_conf_change_single.
  set (os := cs_voters_outgoing cs) in *. set (vs := cs_voters cs) in *.
  set (ls := cs_learners cs) in *. set (ns := cs_learners_next cs) in *.
  destruct (map (fun id => (AddNode, id)) os) as [|cc0 rest] eqn:Em.
  { apply map_eq_nil in Em. exfalso. apply (ext_notnil _ _ So Ho). exact Em. }
  rewrite <- Em. clear Em cc0 rest.
  (* phase 1: the outgoing voters, one simple change each *)
  destruct (simple_each_add_voters os empty_conf [] ValidB_empty eq_refl eq_refl Zos)
    as [c1 [p1 [E1 [V1 [Ho1 [Hl1 Hi1]]]]]].
  change empty_tracker with (@pair conf idset empty_conf (@nil N)). rewrite E1. cbn [rbind].
  destruct (vb_nj _ _ V1 Ho1) as [Hn1 Ha1].
  assert (Hi1' : incoming c1 = outgoing c).
  { apply sorted_ext; eauto with srt. intros x. rewrite Hi1, So. reflexivity. }
  (* phase 2: enter_joint with the incoming list *)
  rewrite (do_enter_joint_spec _ c1 p1 _ V1).
  match goal with |- ?lhs = _ => destruct lhs as [[c4 p4]|e] eqn:Es end.
  - destruct (spec_enter_valid _ _ _ _ _ _ V1 Es) as [V4 Hne4].
    f_equal.
    unfold spec_enter in Es. rewrite (nonjoint c1 Ho1) in Es.
    destruct (is_empty (incoming c1)); [discriminate|].
    unfold spec_loop in Es. rewrite !fold_left_app in Es.
    repeat match type of Es with context [fold_left spec_one ?l ?st] =>
      change (fold_left spec_one l st) with (spec_loop st l) in Es end.
    destruct (spec_loop (set_outgoing c1 (incoming c1), p1)
                (map (fun id => (RemoveNode, id)) os)) as [ca pa] eqn:Ea.
    destruct (spec_loop (ca, pa) (map (fun id => (AddNode, id)) vs)) as [cb pb] eqn:Eb.
    destruct (spec_loop (cb, pb) (map (fun id => (AddLearnerNode, id)) ls)) as [cd pd] eqn:Ed.
    destruct (spec_loop (cd, pd) (map (fun id => (AddLearnerNode, id)) ns)) as [ce pe] eqn:Ee.
    cbn [fst snd] in Es.
    destruct (is_empty (incoming ce)); [discriminate|]. inversion Es; subst c4 p4. clear Es.
    apply loop_removes in Ea; [|exact Zos|].
    2:{ cbn [set_outgoing outgoing]. intros x Hx. rewrite Hi1'. rewrite <- So. exact Hx. }
    destruct Ea as [Pa [Oa [Aa [Ia [La Na]]]]].
    apply loop_add_voters in Eb; [|exact Zv].
    destruct Eb as [Ob [Ab [Ib [Lb [Nb Pb]]]]].
    apply loop_add_learners in Ed; [|exact Zls|].
    2:{ intros x Hx. rewrite Ob, Oa. cbn [set_outgoing outgoing]. rewrite Hi1'.
        unfold ls in Hx. rewrite Sl in Hx. pose proof (vb_ol _ _ V x) as H. rewrite Hx in H.
        destruct (mem x (outgoing c)); [discriminate|reflexivity]. }
    destruct Ed as [Od [Ad [Id [Ld [Nd Pd]]]]].
    apply loop_stage_learners in Ee; [|exact Zns|].
    2:{ intros x Hx. rewrite Od, Ob, Oa. cbn [set_outgoing outgoing]. rewrite Hi1'.
        unfold ns in Hx. rewrite Sn in Hx. pose proof (vb_no _ _ V x) as H. rewrite Hx in H.
        destruct (mem x (outgoing c)); [reflexivity|discriminate]. }
    destruct Ee as [Oe [Ae [Ie [Le [Ne Pe]]]]].
    cbn [set_outgoing incoming outgoing learners learners_next auto_leave] in *.
    apply tracker_ext; auto; cbn [set_auto_leave incoming outgoing learners learners_next auto_leave].
    + intros x. rewrite Ie, Id, Ib, Ia, Hi1'. unfold os, vs, ls, ns. rewrite So, Sv, Sl, Sn.
      inst V x. bb.
    + intros x. rewrite Le, Ld, Lb, La, Hl1. unfold os, vs, ls, ns. rewrite So, Sv, Sl.
      inst V x. mem_norm. bb.
    + intros x. rewrite Ne, Nd, Nb, Na, Hn1. unfold os, vs, ls, ns. rewrite So, Sv, Sn.
      inst V x. mem_norm. bb.
    + rewrite Oe, Od, Ob, Oa. exact Hi1'.
  - (* the specification cannot fail *)
    exfalso. unfold spec_enter in Es. rewrite (nonjoint c1 Ho1) in Es.
    destruct (is_empty (incoming c1)) eqn:E0.
    { apply is_empty_nil in E0. rewrite Hi1' in E0. contradiction. }
    unfold spec_loop in Es. rewrite !fold_left_app in Es.
    repeat match type of Es with context [fold_left spec_one ?l ?st] =>
      change (fold_left spec_one l st) with (spec_loop st l) in Es end.
    destruct (spec_loop (set_outgoing c1 (incoming c1), p1)
                (map (fun id => (RemoveNode, id)) os)) as [ca pa] eqn:Ea.
    destruct (spec_loop (ca, pa) (map (fun id => (AddNode, id)) vs)) as [cb pb] eqn:Eb.
    destruct (spec_loop (cb, pb) (map (fun id => (AddLearnerNode, id)) ls)) as [cd pd] eqn:Ed.
    destruct (spec_loop (cd, pd) (map (fun id => (AddLearnerNode, id)) ns)) as [ce pe] eqn:Ee.
    cbn [fst snd] in Es.
    destruct (is_empty (incoming ce)) eqn:E5; [|discriminate].
    apply loop_removes in Ea; [|exact Zos|].
    2:{ cbn [set_outgoing outgoing]. intros x Hx. rewrite Hi1'. rewrite <- So. exact Hx. }
    destruct Ea as [Pa [Oa [Aa [Ia [La Na]]]]].
    apply loop_add_voters in Eb; [|exact Zv].
    destruct Eb as [Ob [Ab [Ib [Lb [Nb Pb]]]]].
    apply loop_add_learners in Ed; [|exact Zls|].
    2:{ intros x Hx. rewrite Ob, Oa. cbn [set_outgoing outgoing]. rewrite Hi1'.
        unfold ls in Hx. rewrite Sl in Hx. pose proof (vb_ol _ _ V x) as H. rewrite Hx in H.
        destruct (mem x (outgoing c)); [discriminate|reflexivity]. }
    destruct Ed as [Od [Ad [Id [Ld [Nd Pd]]]]].
    apply loop_stage_learners in Ee; [|exact Zns|].
    2:{ intros x Hx. rewrite Od, Ob, Oa. cbn [set_outgoing outgoing]. rewrite Hi1'.
        unfold ns in Hx. rewrite Sn in Hx. pose proof (vb_no _ _ V x) as H. rewrite Hx in H.
        destruct (mem x (outgoing c)); [reflexivity|discriminate]. }
    destruct Ee as [Oe [Ae [Ie [Le [Ne Pe]]]]].
    cbn [set_outgoing incoming outgoing learners learners_next auto_leave] in *.
    apply is_empty_nil in E5. apply Hne. apply mem_all_false_nil. intros x.
    assert (Hx : mem x (incoming ce) = mem x (incoming c)).
    { rewrite Ie, Id, Ib, Ia, Hi1'. unfold os, vs, ls, ns. rewrite So, Sv, Sl, Sn.
      inst V x. bb. }
    rewrite <- Hx, E5. reflexivity.
Qed.

(* ---------- the theorem ---------- *)

Theorem restore_roundtrip : forall c p cs,
  Valid c p ->
  same_set (cs_voters cs) (incoming c) -> same_set (cs_learners cs) (learners c) ->
  same_set (cs_voters_outgoing cs) (outgoing c) ->
  same_set (cs_learners_next cs) (learners_next c) ->
  cs_auto_leave cs = auto_leave c ->
  restore empty_tracker cs = ROk (c, p).
Proof.
  intros c p cs V Sv Sl So Sn Sa.
  destruct (outgoing c) eqn:Eo.
  - apply restore_nonjoint; auto. rewrite Eo. exact So.
  - apply restore_joint; auto; rewrite Eo; [discriminate|exact So].
Qed.

Lemma same_set_refl : forall s, same_set s s.
Proof. intros s x. reflexivity. Qed.

Corollary restore_to_conf_state : forall c p,
  Valid c p -> restore empty_tracker (to_conf_state c) = ROk (c, p).
Proof.
  intros c p V. apply restore_roundtrip; auto; apply same_set_refl.
Qed.

(* any permutation of the vectors *)
Corollary restore_roundtrip_perm : forall c p cs,
  Valid c p ->
  Permutation (cs_voters cs) (incoming c) -> Permutation (cs_learners cs) (learners c) ->
  Permutation (cs_voters_outgoing cs) (outgoing c) ->
  Permutation (cs_learners_next cs) (learners_next c) ->
  cs_auto_leave cs = auto_leave c ->
  restore empty_tracker cs = ROk (c, p).
Proof.
  assert (P : forall l s, Permutation l s -> same_set l s).
  { intros l s H x. destruct (mem x s) eqn:E.
    - apply mem_In. apply mem_In in E. eapply Permutation_in; [apply Permutation_sym; exact H|exact E].
    - apply mem_false_In. apply mem_false_In in E. intros Hin. apply E.
      eapply Permutation_in; [exact H|exact Hin]. }
  intros. apply restore_roundtrip; auto.
Qed.

(* Raft::new: restore succeeds and the conf_state_eq check passes (no fatal) *)
Lemma eq_without_order_same : forall s r,
  same_set r s -> eq_without_order s r = true.
Proof.
  intros s r H. unfold eq_without_order. apply andb_true_iff. split; apply forallb_mem; intros x Hx.
  - rewrite H. exact Hx.
  - rewrite <- H. exact Hx.
Qed.

Theorem raft_new_roundtrip : forall c p cs,
  Valid c p ->
  same_set (cs_voters cs) (incoming c) -> same_set (cs_learners cs) (learners c) ->
  same_set (cs_voters_outgoing cs) (outgoing c) ->
  same_set (cs_learners_next cs) (learners_next c) ->
  cs_auto_leave cs = auto_leave c ->
  raft_new_restore cs = Ok (ROk (c, p)).
Proof.
  intros c p cs V Sv Sl So Sn Sa. unfold raft_new_restore.
  rewrite (restore_roundtrip c p cs V Sv Sl So Sn Sa). cbn [fst].
  assert (E : conf_state_eq (to_conf_state c) cs = true).
  { unfold conf_state_eq. apply orb_true_iff. right. cbn [to_conf_state cs_voters cs_learners
      cs_voters_outgoing cs_learners_next cs_auto_leave].
    rewrite !eq_without_order_same by assumption. rewrite Sa.
    destruct (auto_leave c); reflexivity. }
  rewrite E. reflexivity.
Qed.
