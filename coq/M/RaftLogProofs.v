(* Theorems about M/RaftLog.v (property C14): the raft log - stable storage,
   unstable suffix and pending snapshot together - is one logical log.

   [LL]      the logical log: base index, base term (None when the storage was
             compacted past its snapshot point: term(base) answers Compacted),
             entries contiguous from base+1.
   [abs]     raft_log -> LL: storage entries below unstable.offset, then the
             unstable entries; base from the pending snapshot if any, else from
             the storage.
   [RepInv]  representation invariant; its flag [rw] is the documented restart
             window in which applied <= committed is not required.
   Part 1: definitions, RepInv after [log_new], the queries first_index,
   last_index, term, match_term, last_term, is_up_to_date, find_conflict,
   find_conflict_by_term (with the fuel/termination argument). *)
From RV Require Import Base.Prelude M.Util M.UtilProofs M.MemStorage M.MemStorageProofs M.RaftLog.

Local Open Scope N_scope.

Notation SInv := MemStorageProofs.RepInv.

(* ================================================================== *)
(* The logical log                                                     *)
(* ================================================================== *)
Record LL := mkLL { ll_base : N; ll_bterm : option N; ll_ents : list entry }.

Definition ll_first (L : LL) : N := ll_base L + 1.
Definition ll_last (L : LL) : N := ll_base L + N.of_nat (length (ll_ents L)).

Definition ll_get (L : LL) (i : N) : option entry :=
  if i <=? ll_base L then None
  else nth_error (ll_ents L) (N.to_nat (i - ll_base L - 1)).

(* term query of the plain sequence model: 0 outside [base, last] (the
   documented "valid term range is [index of dummy entry, last index]") *)
Definition ll_term (L : LL) (i : N) : sres N :=
  if (i <? ll_base L) || (ll_last L <? i) then SOk 0
  else if i =? ll_base L then
         match ll_bterm L with Some t => SOk t | None => SErr Compacted end
  else match ll_get L i with Some e => SOk (e_term e) | None => SOk 0 end.

Definition ll_match (L : LL) (i t : N) : bool := term_ok_eq (ll_term L i) t.

Fixpoint ll_find_conflict (L : LL) (ents : list entry) : N :=
  match ents with
  | [] => 0
  | e :: rest => if ll_match L (e_index e) (e_term e) then ll_find_conflict L rest
                 else e_index e
  end.

Definition ll_wf (L : LL) : Prop := contiguous_from (ll_base L + 1) (ll_ents L).

(* the entries with indexes lo .. hi-1 *)
Definition ll_range (L : LL) (lo hi : N) : list entry :=
  firstn (N.to_nat (hi - lo)) (skipn (N.to_nat (lo - ll_base L - 1)) (ll_ents L)).

(* append = truncate at the first new index, then append *)
Definition ll_append (L : LL) (ents : list entry) : LL :=
  match ents with
  | [] => L
  | e0 :: _ => mkLL (ll_base L) (ll_bterm L)
                    (firstn (N.to_nat (e_index e0 - ll_base L - 1)) (ll_ents L) ++ ents)
  end.

(* ================================================================== *)
(* Abstraction and representation invariant                            *)
(* ================================================================== *)
Definition stable_part (l : raft_log) : list entry :=
  firstn (N.to_nat (u_offset (unst l) - first_of (store l))) (entries (store l)).

Definition store_bterm (m : mem) : option N :=
  if first_of m - 1 =? snap_index m then Some (snap_term m) else None.

Definition abs (l : raft_log) : LL :=
  match u_snapshot (unst l) with
  | Some s => mkLL (s_index s) (Some (s_term s)) (u_entries (unst l))
  | None => mkLL (first_of (store l) - 1) (store_bterm (store l))
                 (stable_part l ++ u_entries (unst l))
  end.

Record RepInv (rw : bool) (l : raft_log) : Prop := mkRepInv {
  ri_store : SInv (store l);
  ri_quiet : trig_log (store l) = false;
  ri_contig : contiguous_from (u_offset (unst l)) (u_entries (unst l));
  ri_shape :
    match u_snapshot (unst l) with
    | Some s => u_offset (unst l) = s_index s + 1 /\ s_index s <= committed l
    | None => first_of (store l) <= u_offset (unst l) <= next_of (store l)
              /\ (u_entries (unst l) = [] -> u_offset (unst l) = next_of (store l))
              /\ first_of (store l) - 1 <= committed l
    end;
  ri_persisted : persisted l < u_offset (unst l) /\ persisted l < next_of (store l);
  ri_commit : committed l <= ll_last (abs l);
  ri_applied : rw = false -> applied l <= committed l;
  ri_bound : ll_last (abs l) < u64_max
}.

(* ================================================================== *)
(* Small list facts                                                    *)
(* ================================================================== *)
Lemma stable_part_length : forall l,
    first_of (store l) <= u_offset (unst l) <= next_of (store l) ->
    length (stable_part l) = N.to_nat (u_offset (unst l) - first_of (store l)).
Proof.
  intros l [H1 H2]. unfold stable_part. rewrite firstn_length. unfold next_of in H2. lia.
Qed.

Lemma abs_wf : forall rw l, RepInv rw l -> ll_wf (abs l).
Proof.
  intros rw l H. destruct H as [Hs _ Hc Hsh _ _ _ _]. unfold ll_wf, abs.
  destruct (u_snapshot (unst l)) as [s|]; cbn [ll_base ll_ents].
  - destruct Hsh as [Ho _]. rewrite <- Ho. exact Hc.
  - destruct Hsh as (Hr & _ & _). pose proof (first_pos _ Hs) as Hp.
    apply contig_app.
    + replace (first_of (store l) - 1 + 1) with (first_of (store l)) by lia.
      unfold stable_part. apply contig_firstn. destruct Hs as (Hcs & _). exact Hcs.
    + rewrite (stable_part_length l Hr).
      replace (first_of (store l) - 1 + 1 + N.of_nat (N.to_nat (u_offset (unst l) - first_of (store l))))
        with (u_offset (unst l)) by lia.
      exact Hc.
Qed.

Lemma ll_get_index : forall L i e, ll_wf L -> ll_get L i = Some e -> e_index e = i.
Proof.
  intros L i e Hw H. unfold ll_get in H. destruct (i <=? ll_base L) eqn:E; [discriminate|].
  rewrite (contig_nth _ _ _ _ Hw H). lia.
Qed.

Lemma ll_get_some_iff : forall L i,
    (exists e, ll_get L i = Some e) <-> ll_base L < i <= ll_last L.
Proof.
  intros L i. unfold ll_get, ll_last. split.
  - intros [e H]. destruct (i <=? ll_base L) eqn:E; [discriminate|].
    assert (Hlt : (N.to_nat (i - ll_base L - 1) < length (ll_ents L))%nat).
    { apply nth_error_Some. congruence. }
    lia.
  - intros [H1 H2]. destruct (i <=? ll_base L) eqn:E; [lia|].
    destruct (nth_error (ll_ents L) (N.to_nat (i - ll_base L - 1))) eqn:En; [eauto|].
    apply nth_error_None in En. lia.
Qed.

(* ================================================================== *)
(* first_index / last_index                                            *)
(* ================================================================== *)
Lemma abs_base_first : forall rw l, RepInv rw l -> first_index l = Ok (ll_first (abs l)).
Proof.
  intros rw l H. destruct H as [Hs _ _ Hsh _ _ _ _]. unfold first_index, u_maybe_first_index, abs, ll_first.
  destruct (u_snapshot (unst l)) as [s|]; cbn [option_map ll_base].
  - reflexivity.
  - unfold storage_first_index. rewrite (first_index_ok _ Hs). pose proof (first_pos _ Hs).
    f_equal. lia.
Qed.

Lemma storage_last_next : forall m, SInv m -> storage_last_index m = next_of m - 1.
Proof. intros m H. unfold storage_last_index. pose proof (last_index_next m H). lia. Qed.

Lemma abs_last : forall rw l, RepInv rw l -> last_index l = ll_last (abs l).
Proof.
  intros rw l H. destruct H as [Hs _ _ Hsh _ _ _ _].
  unfold last_index, u_maybe_last_index, abs, ll_last.
  destruct (u_snapshot (unst l)) as [s|]; cbn [option_map ll_base ll_ents].
  - destruct Hsh as [Ho _]. destruct (u_entries (unst l)) as [|e t] eqn:Eu.
    + cbn [length]. lia.
    + rewrite Ho. cbn [length]. lia.
  - destruct Hsh as (Hr & He & _). pose proof (first_pos _ Hs) as Hp.
    rewrite app_length, (stable_part_length l Hr).
    destruct (u_entries (unst l)) as [|e t] eqn:Eu.
    + rewrite (storage_last_next _ Hs). rewrite (He eq_refl). cbn [length]. lia.
    + cbn [length]. lia.
Qed.

(* ================================================================== *)
(* log_new                                                             *)
(* ================================================================== *)
Theorem log_new_ok : forall st lim,
    SInv st -> trig_log st = false ->
    exists l, log_new st lim = Ok l /\ RepInv false l
      /\ abs l = mkLL (first_of st - 1) (store_bterm st) (entries st)
      /\ committed l = first_of st - 1 /\ applied l = first_of st - 1
      /\ persisted l = next_of st - 1.
Proof.
  intros st lim Hs Hq. pose proof (first_pos _ Hs) as Hp.
  pose proof (first_le_next st) as Hfn.
  assert (Hb : next_of st <= u64_max) by (destruct Hs as (_ & _ & Hb); exact Hb).
  unfold log_new, storage_first_index. rewrite (first_index_ok _ Hs). cbn [bind].
  destruct (first_of st =? 0) eqn:E0; [lia|].
  rewrite (storage_last_next _ Hs).
  replace (next_of st - 1 + 1) with (next_of st) by lia.
  eexists. split; [reflexivity|].
  assert (Habs : abs (mkLog st (u_new (next_of st)) (first_of st - 1) (next_of st - 1) (first_of st - 1) lim)
                 = mkLL (first_of st - 1) (store_bterm st) (entries st)).
  { unfold abs, stable_part. cbn [unst u_new u_snapshot u_entries u_offset store].
    rewrite app_nil_r. f_equal. apply firstn_all2. unfold next_of. lia. }
  split; [|split; [exact Habs|cbn; auto]].
  constructor; cbn [store unst u_new u_snapshot u_entries u_offset committed persisted applied].
  - exact Hs.
  - exact Hq.
  - exact I.
  - split; [lia|]. split; [reflexivity|lia].
  - lia.
  - rewrite Habs. unfold ll_last. cbn [ll_base ll_ents]. unfold next_of in *. lia.
  - intros _. lia.
  - rewrite Habs. unfold ll_last. cbn [ll_base ll_ents]. unfold next_of in *. lia.
Qed.

(* ================================================================== *)
(* term                                                                *)
(* ================================================================== *)
Lemma nth_error_app_l : forall {A} (a b : list A) k,
    (k < length a)%nat -> nth_error (a ++ b) k = nth_error a k.
Proof. intros. apply nth_error_app1. assumption. Qed.

(* entries of the logical log, by position: below the offset they are the
   storage's, from the offset on the unstable ones *)
Lemma abs_get_stable : forall rw l i,
    RepInv rw l -> u_snapshot (unst l) = None ->
    first_of (store l) <= i < u_offset (unst l) ->
    ll_get (abs l) i = entry_at (store l) i.
Proof.
  intros rw l i H Hn Hi. destruct H as [Hs _ _ Hsh _ _ _ _]. rewrite Hn in Hsh.
  destruct Hsh as (Hr & _ & _). pose proof (first_pos _ Hs) as Hp.
  unfold abs, ll_get, entry_at. rewrite Hn. cbn [ll_base ll_ents].
  destruct (i <=? first_of (store l) - 1) eqn:E1; [lia|].
  destruct (i <? first_of (store l)) eqn:E2; [lia|].
  rewrite nth_error_app1 by (rewrite (stable_part_length l Hr); lia).
  unfold stable_part. rewrite nth_error_firstn_lt by lia. f_equal. lia.
Qed.

Lemma abs_get_unstable : forall rw l i,
    RepInv rw l -> u_offset (unst l) <= i ->
    ll_get (abs l) i = nth_error (u_entries (unst l)) (N.to_nat (i - u_offset (unst l))).
Proof.
  intros rw l i H Hi. destruct H as [Hs _ _ Hsh _ _ _ _].
  unfold abs, ll_get. destruct (u_snapshot (unst l)) as [s|]; cbn [ll_base ll_ents].
  - destruct Hsh as [Ho _]. destruct (i <=? s_index s) eqn:E; [lia|]. f_equal. lia.
  - destruct Hsh as (Hr & _ & _). pose proof (first_pos _ Hs) as Hp.
    destruct (i <=? first_of (store l) - 1) eqn:E; [lia|].
    rewrite nth_error_app2 by (rewrite (stable_part_length l Hr); lia).
    rewrite (stable_part_length l Hr). f_equal. lia.
Qed.

Lemma u_last_some : forall rw l,
    RepInv rw l -> u_entries (unst l) <> [] ->
    u_maybe_last_index (unst l) = Some (ll_last (abs l)).
Proof.
  intros rw l H Hne. pose proof (abs_last rw l H) as Hl. unfold last_index in Hl.
  unfold u_maybe_last_index in *. destruct (u_entries (unst l)); [congruence|].
  f_equal. exact Hl.
Qed.

Theorem term_abs : forall rw l i, RepInv rw l -> term l i = Ok (ll_term (abs l) i).
Proof.
  intros rw l i H. pose proof (abs_last rw l H) as Hl. pose proof (abs_base_first rw l H) as Hf.
  pose proof H as H'. destruct H' as [Hs _ Hc Hsh _ _ _ _].
  unfold term. rewrite Hf. cbn [bind]. unfold ll_first.
  destruct (ll_base (abs l) + 1 =? 0) eqn:E0; [lia|].
  replace (ll_base (abs l) + 1 - 1) with (ll_base (abs l)) by lia.
  rewrite Hl. unfold ll_term.
  destruct ((i <? ll_base (abs l)) || (ll_last (abs l) <? i)) eqn:Er; [reflexivity|].
  apply Bool.orb_false_iff in Er. destruct Er as [Er1 Er2].
  unfold u_maybe_term.
  destruct (i <? u_offset (unst l)) eqn:Eo.
  - (* below the offset *)
    destruct (u_snapshot (unst l)) as [s|] eqn:Es.
    + destruct Hsh as [Ho _]. cbn [bind].
      assert (Hb : ll_base (abs l) = s_index s) by (unfold abs; rewrite Es; reflexivity).
      rewrite Hb in *. destruct (i =? s_index s) eqn:Ei; [|lia].
      unfold abs. rewrite Es. reflexivity.
    + cbn [bind]. destruct Hsh as (Hr & _ & _). pose proof (first_pos _ Hs) as Hp.
      assert (Hb : ll_base (abs l) = first_of (store l) - 1) by (unfold abs; rewrite Es; reflexivity).
      rewrite (term_spec _ i Hs).
      destruct (i =? ll_base (abs l)) eqn:Ei.
      * assert (Hbt : ll_bterm (abs l) = store_bterm (store l)) by (unfold abs; rewrite Es; reflexivity).
        rewrite Hbt. unfold store_bterm.
        destruct (i =? snap_index (store l)) eqn:E1.
        { destruct (first_of (store l) - 1 =? snap_index (store l)) eqn:E2; [reflexivity|lia]. }
        destruct (first_of (store l) - 1 =? snap_index (store l)) eqn:E2; [lia|].
        destruct (i <? first_of (store l)) eqn:E3; [reflexivity|lia].
      * destruct Hs as (_ & Hsn & _).
        destruct (i =? snap_index (store l)) eqn:E1; [lia|].
        destruct (i <? first_of (store l)) eqn:E3; [lia|].
        rewrite (abs_get_stable rw l i H Es) by lia.
        destruct (entry_at (store l) i) eqn:Ea; [reflexivity|].
        exfalso. assert (Hx : exists e, entry_at (store l) i = Some e).
        { apply entry_at_some_iff. lia. }
        destruct Hx as [e He]. congruence.
  - (* at or above the offset: an unstable entry *)
    assert (Hne : u_entries (unst l) <> []).
    { intros Hnil. destruct (u_snapshot (unst l)) as [s|] eqn:Es.
      - destruct Hsh as [Ho _]. unfold abs, ll_last in Er2. rewrite Es, Hnil in Er2. cbn in Er2. lia.
      - destruct Hsh as (Hr & He & _). specialize (He Hnil).
        unfold abs, ll_last in Er2. rewrite Es, Hnil, app_nil_r in Er2. cbn [ll_base ll_ents] in Er2.
        rewrite (stable_part_length l Hr) in Er2. pose proof (first_pos _ Hs). lia. }
    rewrite (u_last_some rw l H Hne). rewrite Er2.
    assert (Hib : (i =? ll_base (abs l)) = false).
    { destruct (u_snapshot (unst l)) as [s|] eqn:Es; unfold abs; rewrite Es; cbn [ll_base].
      - destruct Hsh as [Ho _]. lia.
      - destruct Hsh as (Hr & _ & _). pose proof (first_pos _ Hs). lia. }
    rewrite Hib. rewrite (abs_get_unstable rw l i H) by lia.
    destruct (nth_error (u_entries (unst l)) (N.to_nat (i - u_offset (unst l)))) eqn:En.
    + unfold idx. rewrite En. reflexivity.
    + exfalso. apply nth_error_None in En.
      assert (Hll : ll_last (abs l) = u_offset (unst l) + N.of_nat (length (u_entries (unst l))) - 1).
      { pose proof (u_last_some rw l H Hne) as Hu. unfold u_maybe_last_index in Hu.
        destruct (u_entries (unst l)); [congruence|]. inversion Hu. reflexivity. }
      lia.
Qed.

Theorem match_term_abs : forall rw l i t,
    RepInv rw l -> match_term l i t = Ok (ll_match (abs l) i t).
Proof. intros. unfold match_term. rewrite (term_abs rw l i H). reflexivity. Qed.

Theorem find_conflict_abs : forall rw l ents,
    RepInv rw l -> find_conflict l ents = Ok (ll_find_conflict (abs l) ents).
Proof.
  intros rw l ents H. induction ents as [|e rest IH]; cbn [find_conflict ll_find_conflict].
  - reflexivity.
  - rewrite (match_term_abs rw l _ _ H). cbn [bind].
    destruct (ll_match (abs l) (e_index e) (e_term e)); [exact IH|reflexivity].
Qed.

Theorem last_term_abs : forall rw l,
    RepInv rw l ->
    last_term l = match ll_term (abs l) (ll_last (abs l)) with
                  | SOk t => Ok t
                  | SErr _ => Panic site_l_last_term
                  end.
Proof.
  intros rw l H. unfold last_term. rewrite (abs_last rw l H), (term_abs rw l _ H). reflexivity.
Qed.

Theorem is_up_to_date_abs : forall rw l i t lt,
    RepInv rw l -> ll_term (abs l) (ll_last (abs l)) = SOk lt ->
    is_up_to_date l i t = Ok ((lt <? t) || ((t =? lt) && (ll_last (abs l) <=? i))).
Proof.
  intros rw l i t lt H Hlt. unfold is_up_to_date. rewrite (last_term_abs rw l H), Hlt.
  cbn [bind]. rewrite (abs_last rw l H). reflexivity.
Qed.

(* the last term is always defined when the log holds an entry or its base term is known *)
Lemma last_term_defined : forall L,
    ll_ents L <> [] \/ ll_bterm L <> None -> exists t, ll_term L (ll_last L) = SOk t.
Proof.
  intros L Hd. unfold ll_term.
  destruct ((ll_last L <? ll_base L) || (ll_last L <? ll_last L)) eqn:E; [eauto|].
  destruct (ll_last L =? ll_base L) eqn:E2.
  - destruct (ll_bterm L) as [t|] eqn:Eb; [eauto|]. exfalso.
    destruct Hd as [Hd|Hd]; [|congruence]. unfold ll_last in E2.
    destruct (ll_ents L); [congruence|]. cbn [length] in E2. lia.
  - destruct (ll_get L (ll_last L)); eauto.
Qed.

(* ================================================================== *)
(* find_conflict_by_term: specification and sufficiency of the fuel     *)
(* ================================================================== *)
Definition above_term (L : LL) (t j : N) : Prop :=
  exists t', ll_term L j = SOk t' /\ t < t'.

Lemma fcbt_loop_spec : forall rw l t, RepInv rw l ->
  forall fuel ci,
    ci + 3 <= N.of_nat fuel + ll_first (abs l) -> (1 <= fuel)%nat ->
    (fcbt_loop l fuel ci t = Panic site_l_underflow
     /\ (forall j, j <= ci -> above_term (abs l) t j))
    \/ exists ci' ot,
        fcbt_loop l fuel ci t = Ok (ci', ot) /\ ci' <= ci
        /\ (forall j, ci' < j <= ci -> above_term (abs l) t j)
        /\ match ll_term (abs l) ci' with
           | SOk t' => t' <= t /\ ot = Some t'
           | SErr _ => ot = None
           end.
Proof.
  intros rw l t H. induction fuel as [|fuel IH]; intros ci Hf H1; [lia|].
  cbn [fcbt_loop]. rewrite (term_abs rw l ci H). cbn [bind].
  destruct (ll_term (abs l) ci) as [t'|e] eqn:Et.
  - destruct (t <? t') eqn:Elt.
    + destruct (ci =? 0) eqn:E0.
      * left. split; [reflexivity|]. intros j Hj. assert (j = ci) by lia. subst j.
        exists t'. split; [exact Et|lia].
      * (* the term at ci is above t, so ci is inside [base, last]: fuel remains *)
        assert (Hin : ll_base (abs l) <= ci).
        { unfold ll_term in Et. destruct (ci <? ll_base (abs l)) eqn:E; [|lia].
          cbn [orb] in Et. inversion Et. lia. }
        unfold ll_first in *.
        destruct (IH (ci - 1)) as [[Hp Ha]|(ci' & ot & Hr & Hle & Ha & Hm)]; [lia|lia| |].
        -- left. split; [exact Hp|]. intros j Hj.
           destruct (N.eq_dec j ci) as [->|Hne]; [exists t'; split; [exact Et|lia]|].
           apply Ha. lia.
        -- right. exists ci', ot. split; [exact Hr|]. split; [lia|]. split; [|exact Hm].
           intros j Hj. destruct (N.eq_dec j ci) as [->|Hne]; [exists t'; split; [exact Et|lia]|].
           apply Ha. lia.
    + right. exists ci, (Some t'). split; [reflexivity|]. split; [lia|]. split; [intros j Hj; lia|].
      rewrite Et. split; [lia|reflexivity].
  - right. exists ci, None. split; [reflexivity|]. split; [lia|]. split; [intros j Hj; lia|].
    rewrite Et. reflexivity.
Qed.

(* The Rust [loop] terminates: below the dummy index term() answers Ok(0), which
   is never above [t]; the model's fuel index+3-min(index,first) covers the
   distance, so the fuel site is never reached.  The only panic is the u64
   underflow [conflict_index -= 1] at index 0, which needs every term down to
   index 0 to be above [t] (only possible with base index 0 and base term > t). *)
Theorem find_conflict_by_term_spec : forall rw l index t,
    RepInv rw l ->
    if ll_last (abs l) <? index then find_conflict_by_term l index t = Ok (index, None)
    else
      (find_conflict_by_term l index t = Panic site_l_underflow
       /\ (forall j, j <= index -> above_term (abs l) t j))
      \/ exists ci ot,
          find_conflict_by_term l index t = Ok (ci, ot) /\ ci <= index
          /\ (forall j, ci < j <= index -> above_term (abs l) t j)
          /\ match ll_term (abs l) ci with
             | SOk t' => t' <= t /\ ot = Some t'
             | SErr _ => ot = None
             end.
Proof.
  intros rw l index t H. unfold find_conflict_by_term. rewrite (abs_last rw l H).
  destruct (ll_last (abs l) <? index) eqn:E; [reflexivity|].
  rewrite (abs_base_first rw l H). cbn [bind].
  apply (fcbt_loop_spec rw l t H); lia.
Qed.

Corollary find_conflict_by_term_fuel_sufficient : forall rw l index t,
    RepInv rw l -> find_conflict_by_term l index t <> Panic site_l_fuel.
Proof.
  intros rw l index t H. pose proof (find_conflict_by_term_spec rw l index t H) as S.
  destruct (ll_last (abs l) <? index).
  - rewrite S. discriminate.
  - destruct S as [[Hp _]|(ci & ot & Hr & _)]; rewrite ?Hp, ?Hr; discriminate.
Qed.

(* no underflow when the log does not start at index 0 with a positive base term *)
Corollary find_conflict_by_term_no_panic : forall rw l index t,
    RepInv rw l -> (0 < ll_base (abs l) \/ ll_bterm (abs l) = Some 0 \/ ll_bterm (abs l) = None) ->
    exists r, find_conflict_by_term l index t = Ok r.
Proof.
  intros rw l index t H Hb. pose proof (find_conflict_by_term_spec rw l index t H) as S.
  destruct (ll_last (abs l) <? index) eqn:E; [eauto|].
  destruct S as [[Hp Ha]|(ci & ot & Hr & _)]; [|eauto].
  exfalso. destruct (Ha 0 ltac:(lia)) as (t' & Ht & Hlt).
  unfold ll_term in Ht. destruct Hb as [Hb|[Hb|Hb]].
  - destruct (0 <? ll_base (abs l)) eqn:E1; [|lia]. cbn [orb] in Ht. inversion Ht. lia.
  - destruct ((0 <? ll_base (abs l)) || (ll_last (abs l) <? 0)) eqn:E1; [inversion Ht; lia|].
    destruct (0 =? ll_base (abs l)) eqn:E2; [rewrite Hb in Ht; inversion Ht; lia|].
    apply Bool.orb_false_iff in E1. lia.
  - destruct ((0 <? ll_base (abs l)) || (ll_last (abs l) <? 0)) eqn:E1; [inversion Ht; lia|].
    destruct (0 =? ll_base (abs l)) eqn:E2; [rewrite Hb in Ht; discriminate|].
    apply Bool.orb_false_iff in E1. lia.
Qed.
