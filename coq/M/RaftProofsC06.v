(* C06 at node level: the per-step facts about M/Raft.v and M/RawNode.v that justify the
   rules of the abstract protocol P/Election.v.
   1. the term never decreases (every Raft API function, every RawNode entry point, traces);
   2. a vote, once cast in a term, is not changed within that term;
   3. a granted MsgRequestVoteResponse goes to the node recorded in r_vote;
   4. rn_ready hands out a changed (term, vote) with must_sync and records it;
   5. raft_new / rn_new resume exactly the stored term and vote. *)
From RV Require Import Base.Prelude Base.IdSet M.Util M.Proto M.MemStorage M.Inflights
  M.Progress M.RaftLog M.Quorum M.ConfChange M.Msg M.Raft M.RawNode M.RaftProofs
  M.RaftProofsC17 M.RaftProofsC07 M.RaftProofsC16.
From RecordUpdate Require Import RecordSet.
Import RecordSetNotations.

Local Open Scope N_scope.

Ltac dtop H :=
  match type of H with
  | (if ?c then _ else _) = _ => destruct c eqn:?
  | (match ?c with _ => _ end) = _ => destruct c eqn:?
  end.
Ltac ib H x Hx := apply bind_ok in H; destruct H as (x & Hx & H).

(* ------------------------------------------------------------------ *)
(* 1/2. term and vote over one call *)

(* [vote_step m r r']: the id is kept and the term does not decrease; within the term the
   vote is kept, or cast for the first time by granting the MsgRequestVote [m]; when the
   term grows the vote is cleared, or it is the node's own (campaign), or the grant of
   the MsgRequestVote [m] that carried the new term *)
Definition vote_step (m : msg) (r r' : raft) : Prop :=
  r_id r' = r_id r /\ r_term r <= r_term r' /\
  (r_term r' = r_term r ->
   r_vote r' = r_vote r \/
   (r_vote r = INVALID_ID /\ m_type m = MsgRequestVote /\ r_vote r' = m_from m)) /\
  (r_term r < r_term r' ->
   r_vote r' = INVALID_ID \/ r_vote r' = r_id r \/
   (m_type m = MsgRequestVote /\ m_term m = r_term r' /\ r_vote r' = m_from m)).

(* without a vote request: *)
Definition tv_plain (r r' : raft) : Prop :=
  r_id r' = r_id r /\ r_term r <= r_term r' /\
  (r_term r' = r_term r -> r_vote r' = r_vote r) /\
  (r_term r < r_term r' -> r_vote r' = INVALID_ID \/ r_vote r' = r_id r).

(* the weakest form, transitive, for traces *)
Definition tv_le (r r' : raft) : Prop :=
  r_term r <= r_term r' /\
  (r_term r' = r_term r -> r_vote r = INVALID_ID \/ r_vote r' = r_vote r).

Lemma tv_plain_refl r : tv_plain r r.
Proof. repeat split; try lia; auto. Qed.

Lemma tv_plain_same r r' :
  r_id r' = r_id r -> r_term r' = r_term r -> r_vote r' = r_vote r -> tv_plain r r'.
Proof. intros A B C. split; [exact A|]. split; [lia|]. split; [intros _; exact C|lia]. Qed.

Ltac tvs := apply tv_plain_same; reflexivity.

Lemma tv_plain_trans a b c : tv_plain a b -> tv_plain b c -> tv_plain a c.
Proof.
  intros (A1 & A2 & A3 & A4) (B1 & B2 & B3 & B4). split; [congruence|]. split; [lia|]. split.
  - intros E. assert (E1 : r_term b = r_term a) by lia. rewrite B3, A3; [reflexivity|exact E1|lia].
  - intros L. destruct (N.eq_dec (r_term c) (r_term b)) as [E|E].
    + rewrite (B3 E). apply A4. lia.
    + rewrite <- A1. apply B4. lia.
Qed.

Lemma keeps_tv_plain r r' : keeps r r' -> tv_plain r r'.
Proof.
  intros K. apply keeps_fields in K. destruct K as (A & B & _ & _ & C). apply cfg_fields in C.
  destruct C as (I & _). split; [exact I|]. split; [lia|]. split; [intros _; exact B|lia].
Qed.

Lemma tv_plain_vote_step m r r' : tv_plain r r' -> vote_step m r r'.
Proof.
  intros (A1 & A2 & A3 & A4). split; [exact A1|]. split; [exact A2|]. split.
  - intros E. left. apply A3, E.
  - intros L. destruct (A4 L) as [X|X]; auto.
Qed.

Lemma vote_step_tv_plain m r r' : m_type m <> MsgRequestVote -> vote_step m r r' -> tv_plain r r'.
Proof.
  intros Hn (A1 & A2 & A3 & A4). split; [exact A1|]. split; [exact A2|]. split.
  - intros E. destruct (A3 E) as [X|(_ & X & _)]; [exact X|contradiction].
  - intros L. destruct (A4 L) as [X|[X|(X & _)]]; auto. contradiction.
Qed.

Lemma vote_step_tv_le m r r' : vote_step m r r' -> tv_le r r'.
Proof.
  intros (A1 & A2 & A3 & A4). split; [exact A2|]. intros E.
  destruct (A3 E) as [X|(X & _)]; auto.
Qed.

Lemma tv_le_refl r : tv_le r r.
Proof. split; [lia|auto]. Qed.

Lemma tv_le_trans a b c : tv_le a b -> tv_le b c -> tv_le a c.
Proof.
  intros (A1 & A2) (B1 & B2). split; [lia|]. intros E.
  assert (E1 : r_term b = r_term a) by lia. assert (E2 : r_term c = r_term b) by lia.
  destruct (A2 E1) as [X|X]; [left; exact X|]. destruct (B2 E2) as [Y|Y]; [left|right]; congruence.
Qed.

(* campaigns *)
Lemma campaign_real_tv tr r r' : campaign_real tr r = Ok r' -> tv_plain r r'.
Proof.
  intros H. apply campaign_real_facts in H. destruct H as (A1 & A2 & A3 & _).
  apply cfg_fields in A2. destruct A2 as (I & _).
  split; [exact I|]. split; [lia|]. split; [lia|]. intros _. right. exact A3.
Qed.

Lemma campaign_pre_tv r r' : campaign_pre r = Ok r' -> tv_plain r r'.
Proof.
  intros H. apply campaign_pre_spec in H. destruct H as [_ [[_ H]|[_ H]]].
  - apply campaign_real_tv in H. exact H.
  - destruct H as (ci & new & _ & -> & _). repeat split; try reflexivity; cbn; lia.
Qed.

Lemma hup_tv r tl r' : hup r tl = Ok r' -> tv_plain r r'.
Proof.
  intros H. apply hup_cases in H. destruct H as [->|(_ & _ & H)]; [apply tv_plain_refl|].
  destruct tl; [eapply campaign_real_tv; exact H|].
  destruct (r_pre_vote r); [eapply campaign_pre_tv|eapply campaign_real_tv]; exact H.
Qed.

Lemma become_follower_same_tv_plain r ld r' :
  become_follower r (r_term r) ld = Ok r' -> tv_plain r r'.
Proof.
  intros H. pose proof (become_follower_facts _ _ _ _ H) as (A1 & A2 & _ & _ & A5 & _).
  rewrite N.eqb_refl in A5. apply cfg_fields in A2. destruct A2 as (I & _).
  split; [exact I|]. split; [lia|]. split; [intros _; exact A5|lia].
Qed.

Lemma maybe_commit_by_vote_tv r m r' : maybe_commit_by_vote r m = Ok r' -> tv_plain r r'.
Proof.
  intros H. apply maybe_commit_by_vote_cases in H. destruct H as [E|(_ & l' & Hf)].
  - rewrite E. tvs.
  - change (r_term r) with (r_term (r <| r_log := l' |>)) in Hf.
    apply become_follower_same_tv_plain in Hf. exact Hf.
Qed.

Lemma poll_tv r from v rp res : poll r from v = Ok (rp, res) -> tv_plain r rp.
Proof.
  unfold poll. intros H. apply poll_gen_cases in H. cbn zeta in H. destruct H as [_ H].
  set (rv := with_votes r (Quorum.record_vote (t_votes (r_prs r)) from v)) in *.
  assert (Hrv : tv_plain r rv) by tvs.
  destruct res.
  - rewrite H. exact Hrv.
  - change (r_term r) with (r_term rv) in H. apply become_follower_same_tv_plain in H. exact H.
  - change (r_state rv) with (r_state r) in H. destruct (role_eqb (r_state r) PreCandidate).
    + apply campaign_real_tv in H. exact H.
    + destruct H as (r1 & Hl & Hb). apply become_leader_keeps_t in Hl.
      destruct Hl as ((T & C) & V & _). apply bcast_append_keeps, keeps_tv_plain in Hb.
      eapply tv_plain_trans; [|exact Hb]. apply cfg_fields in C. destruct C as (I & _).
      split; [exact I|]. split; [change (r_term rv) with (r_term r) in T; lia|].
      split; [intros _; exact V|change (r_term rv) with (r_term r) in T; lia].
Qed.

(* the body of step *)
Lemma step_body_vote_step r m r' c : step_body r m = Ok (r', c) -> vote_step m r r'.
Proof.
  intros H. unfold step_body in H.
  destruct (m_type m =? MsgHup) eqn:Ehup.
  { ib H y Hy. injection H as <- _. apply tv_plain_vote_step. eapply hup_tv; exact Hy. }
  destruct ((m_type m =? MsgRequestVote) || (m_type m =? MsgRequestPreVote)) eqn:Ev.
  { assert (Hq : m_type m = MsgRequestVote \/ m_type m = MsgRequestPreVote)
      by (apply orb_prop in Ev; destruct Ev as [X|X]; apply N.eqb_eq in X; auto).
    assert (Hb : step_body r m = Ok (r', c)) by (unfold step_body; rewrite Ehup, Ev; exact H).
    apply step_body_vote in Hb; [|exact Hq].
    destruct Hb as [_ [(G & _ & ->)|(_ & _ & ci & _ & Hm)]].
    - destruct (m_type m =? MsgRequestVote) eqn:Erv; [|apply tv_plain_vote_step; tvs].
      apply N.eqb_eq in Erv. unfold grants in G. ib G utd Hu. injection G as G.
      apply andb_prop in G. destruct G as [G _]. apply andb_prop in G. destruct G as [Hcv _].
      split; [reflexivity|]. split; [cbn; lia|]. split; [|cbn; lia]. intros _. cbn.
      apply orb_prop in Hcv. destruct Hcv as [Hcv|Hcv].
      + apply orb_prop in Hcv. destruct Hcv as [Hcv|Hcv].
        * apply N.eqb_eq in Hcv. left. congruence.
        * apply andb_prop in Hcv. destruct Hcv as [Hcv _]. apply N.eqb_eq in Hcv. right. auto.
      + apply andb_prop in Hcv. destruct Hcv as [Hcv _]. apply N.eqb_eq in Hcv.
        rewrite Erv in Hcv. discriminate.
    - apply tv_plain_vote_step. apply maybe_commit_by_vote_tv in Hm. exact Hm. }
  apply tv_plain_vote_step.
  destruct (r_state r) eqn:Es.
  - apply step_follower_cases in H; [|exact Es].
    destruct H as [(_ & _ & Hh)|(A1 & A2 & _ & A4 & _)]; [eapply hup_tv; exact Hh|].
    apply cfg_fields in A4. destruct A4 as (I & _).
    split; [exact I|]. split; [lia|]. split; [intros _; exact A2|lia].
  - apply step_candidate_cases in H; [|left; exact Es].
    destruct H as [K|[(_ & Et & r1 & Hf & K)|(_ & rp & res & Hp & Hc)]].
    + apply keeps_tv_plain, K.
    + rewrite <- Et in Hf. apply become_follower_same_tv_plain in Hf.
      eapply tv_plain_trans; [exact Hf|apply keeps_tv_plain, K].
    + apply poll_tv in Hp. apply maybe_commit_by_vote_tv in Hc. eapply tv_plain_trans; eassumption.
  - apply step_leader_cases in H. destruct H as [K|(_ & _ & Hf)]; [apply keeps_tv_plain, K|].
    change (r_term r) with (r_term (r <| r_prs := fst (quorum_recently_active (r_prs r) (r_id r)) |>)) in Hf.
    apply become_follower_same_tv_plain in Hf. exact Hf.
  - apply step_candidate_cases in H; [|right; exact Es].
    destruct H as [K|[(_ & Et & r1 & Hf & K)|(_ & rp & res & Hp & Hc)]].
    + apply keeps_tv_plain, K.
    + rewrite <- Et in Hf. apply become_follower_same_tv_plain in Hf.
      eapply tv_plain_trans; [exact Hf|apply keeps_tv_plain, K].
    + apply poll_tv in Hp. apply maybe_commit_by_vote_tv in Hc. eapply tv_plain_trans; eassumption.
Qed.

(* (1)+(2) for step *)
Theorem step_vote_step r m r' c : step r m = Ok (r', c) -> vote_step m r r'.
Proof.
  rewrite step_eq. intros H. ib H pre Hpre. apply step_pre_cases in Hpre.
  destruct pre as [[r1 c1]|r1].
  - injection H as <- _. apply tv_plain_vote_step.
    destruct Hpre as (_ & _ & [(_ & _ & ->)|(_ & Hl)]); [apply tv_plain_refl|].
    apply keeps_tv_plain, msgs_only_keeps, low_term_reply_msgs_only with (m := m). exact Hl.
  - destruct Hpre as [[-> _]|(L & _ & _ & Hf)]; [eapply step_body_vote_step; exact H|].
    apply step_body_vote_step in H. apply become_follower_facts in Hf.
    destruct Hf as (F1 & F2 & _ & _ & F5 & _). apply cfg_fields in F2. destruct F2 as (I & _).
    assert (Hne : (r_term r =? m_term m) = false) by (apply N.eqb_neq; lia). rewrite Hne in F5.
    destruct H as (B1 & B2 & B3 & B4).
    split; [congruence|]. split; [lia|]. split; [lia|]. intros _.
    destruct (N.eq_dec (r_term r') (r_term r1)) as [E|E].
    + destruct (B3 E) as [X|(_ & X1 & X2)]; [left; congruence|].
      right. right. split; [exact X1|]. split; [congruence|exact X2].
    + destruct (B4 ltac:(lia)) as [X|[X|(X1 & X2 & X3)]]; [auto|right; left; congruence|auto].
Qed.

Corollary step_term_monotone r m r' c : step r m = Ok (r', c) -> r_term r <= r_term r'.
Proof. intros H. apply step_vote_step in H. apply H. Qed.

Corollary step_vote_kept r m r' c :
  step r m = Ok (r', c) -> r_term r' = r_term r -> r_vote r = INVALID_ID \/ r_vote r' = r_vote r.
Proof. intros H. apply step_vote_step, vote_step_tv_le in H. apply H. Qed.

(* a step on a message that is not a vote request *)
Lemma step_tv_plain r m r' c :
  m_type m <> MsgRequestVote -> step r m = Ok (r', c) -> tv_plain r r'.
Proof. intros Hn H. eapply vote_step_tv_plain; [exact Hn|]. eapply step_vote_step; exact H. Qed.

(* (1)+(2) for tick *)
Theorem tick_tv_plain r r' b : tick r = Ok (r', b) -> tv_plain r r'.
Proof.
  unfold tick. intros H.
  assert (Hel : tick_election r = Ok (r', b) -> tv_plain r r').
  { clear H. unfold tick_election. intros H.
    dtop H; [injection H as <- _; tvs|].
    ib H y Hy. injection H as <- _. destruct y as [r1 c1]. cbn [fst].
    apply step_tv_plain in Hy; [|discriminate].
    eapply tv_plain_trans; [|exact Hy]. tvs. }
  destruct (r_state r); try (apply Hel; exact H). clear Hel.
  unfold tick_heartbeat in H. ib H y Hy. destruct y as [r1 hr].
  assert (K1 : tv_plain r r1).
  { clear H. dtop Hy; [|injection Hy as <- _; tvs].
    ib Hy z Hz. destruct z as [ra ha]. injection Hy as <- _.
    assert (tv_plain r ra).
    { dtop Hz; [|injection Hz as <- _; tvs].
      ib Hz w Hw. injection Hz as <- _. destruct w as [rb cb]. cbn [fst].
      apply step_tv_plain in Hw; [|discriminate]. eapply tv_plain_trans; [|exact Hw]. tvs. }
    destruct (is_leader ra && _); [|assumption].
    eapply tv_plain_trans; [eassumption|tvs]. }
  dtop H; [injection H as <- _; exact K1|].
  dtop H; [|injection H as <- _; exact K1].
  ib H z Hz. injection H as <- _. destruct z as [rb cb]. cbn [fst].
  apply step_tv_plain in Hz; [|discriminate]. eapply tv_plain_trans; [exact K1|].
  eapply tv_plain_trans; [|exact Hz]. tvs.
Qed.

(* the rest of the Raft API keeps term and vote *)
Lemma raft_apply_conf_change_keeps r cc r' ocs :
  raft_apply_conf_change r cc = Ok (r', ocs) -> keeps r r'.
Proof.
  unfold raft_apply_conf_change. intros H.
  match type of H with match ?x with _ => _ end = _ => destruct x as [[c' chs]|e] end.
  - ib H y Hy. injection H as <- _. destruct y as [r1 cs]. cbn [fst].
    apply post_conf_change_keeps in Hy. eapply keeps_trans; [|exact Hy]. reflexivity.
  - injection H as <- _. apply keeps_refl.
Qed.

Lemma on_persist_entries_keeps r i t r' : on_persist_entries r i t = Ok r' -> keeps r r'.
Proof.
  unfold on_persist_entries. intros H. ib H y Hy. destruct y as [l' upd].
  dtop H; [|injection H as <-; reflexivity].
  destruct (get_pr _ _) as [pr|]; [|injection H as <-; reflexivity].
  destruct (maybe_update pr i) as [pr' u]. destruct u; [|injection H as <-; reflexivity].
  ib H z Hz. destruct z as [r1 c]. apply maybe_commit_keeps in Hz.
  assert (K : keeps r r1) by (eapply keeps_trans; [|exact Hz]; reflexivity).
  dtop H; [apply bcast_append_keeps in H; eapply keeps_trans; eassumption|].
  injection H as <-. exact K.
Qed.

Lemma on_persist_snap_keeps r i r' : on_persist_snap r i = Ok r' -> keeps r r'.
Proof. unfold on_persist_snap. intros H. ib H y Hy. injection H as <-. reflexivity. Qed.

Lemma commit_apply_internal_keeps r a s r' : commit_apply_internal r a s = Ok r' -> keeps r r'.
Proof.
  unfold commit_apply_internal. intros H. ib H l' Hl.
  dtop H; [|injection H as <-; reflexivity].
  ib H y Hy. destruct y as [r1 ok]. apply append_entry_keeps in Hy.
  destruct ok; cbn [negb] in H; [|discriminate]. injection H as <-.
  eapply keeps_trans; [|eapply keeps_trans; [exact Hy|reflexivity]]. reflexivity.
Qed.

Lemma ping_keeps r r' : ping r = Ok r' -> keeps r r'.
Proof.
  unfold ping. intros H. destruct (is_leader r); [apply bcast_heartbeat_keeps in H; exact H|].
  injection H as <-. apply keeps_refl.
Qed.

Lemma request_snapshot_keeps r r' c : request_snapshot r = Ok (r', c) -> keeps r r'.
Proof.
  unfold request_snapshot. intros H.
  repeat (dtop H; [injection H as <- _; apply keeps_refl|]).
  ib H t Ht. destruct t as [rt|e]; [|discriminate].
  dtop H; [|injection H as <- _; apply keeps_refl].
  ib H y Hy. injection H as <- _. apply send_request_snapshot_keeps in Hy.
  eapply keeps_trans; [|exact Hy]. reflexivity.
Qed.

Lemma reduce_uncommitted_size_keeps r ents : keeps r (reduce_uncommitted_size r ents).
Proof.
  unfold reduce_uncommitted_size. destruct (negb (is_leader r)); [apply keeps_refl|].
  destruct (_ || _); [apply keeps_refl|]. destruct (_ <? _); reflexivity.
Qed.

(* ------------------------------------------------------------------ *)
(* RawNode entry points *)

Lemma lift2_step_tv n m n' c :
  lift2 n (step (rn_raft n) m) = Ok (n', c) -> vote_step m (rn_raft n) (rn_raft n').
Proof.
  unfold lift2. intros H. ib H y Hy. injection H as <- _. destruct y as [r1 c1]. cbn.
  eapply step_vote_step; exact Hy.
Qed.

Theorem rn_step_vote_step n m n' c :
  rn_step n m = Ok (n', c) -> vote_step m (rn_raft n) (rn_raft n').
Proof.
  unfold rn_step. intros H.
  dtop H; [injection H as <- _; apply tv_plain_vote_step, tv_plain_refl|].
  dtop H; [eapply lift2_step_tv; exact H|injection H as <- _; apply tv_plain_vote_step, tv_plain_refl].
Qed.

Theorem rn_tick_tv n n' b : rn_tick n = Ok (n', b) -> tv_plain (rn_raft n) (rn_raft n').
Proof.
  unfold rn_tick. intros H. ib H y Hy. injection H as <- _. destruct y as [r1 b1]. cbn.
  eapply tick_tv_plain; exact Hy.
Qed.

Lemma lift2_step_plain n m n' c :
  m_type m <> MsgRequestVote -> lift2 n (step (rn_raft n) m) = Ok (n', c) ->
  tv_plain (rn_raft n) (rn_raft n').
Proof. intros Hn H. eapply vote_step_tv_plain; [exact Hn|]. eapply lift2_step_tv; exact H. Qed.

Theorem rn_campaign_tv n n' c : rn_campaign n = Ok (n', c) -> tv_plain (rn_raft n) (rn_raft n').
Proof. apply lift2_step_plain. discriminate. Qed.

Theorem rn_propose_tv n ctx d n' c :
  rn_propose n ctx d = Ok (n', c) -> tv_plain (rn_raft n) (rn_raft n').
Proof. apply lift2_step_plain. discriminate. Qed.

Theorem rn_propose_conf_change_tv n ctx d ty ci n' c :
  rn_propose_conf_change n ctx d ty ci = Ok (n', c) -> tv_plain (rn_raft n) (rn_raft n').
Proof. apply lift2_step_plain. discriminate. Qed.

Theorem rn_apply_conf_change_tv n cc n' ocs :
  rn_apply_conf_change n cc = Ok (n', ocs) -> tv_plain (rn_raft n) (rn_raft n').
Proof.
  unfold rn_apply_conf_change. intros H. ib H y Hy. injection H as <- _. destruct y as [r1 o1]. cbn.
  apply keeps_tv_plain. eapply raft_apply_conf_change_keeps; exact Hy.
Qed.

Theorem rn_ping_tv n n' : rn_ping n = Ok n' -> tv_plain (rn_raft n) (rn_raft n').
Proof.
  unfold rn_ping, lift. intros H. ib H y Hy. injection H as <-. cbn.
  apply keeps_tv_plain. eapply ping_keeps; exact Hy.
Qed.

Lemma gen_light_ready_keeps n n' lr :
  gen_light_ready n = Ok (n', lr) -> keeps (rn_raft n) (rn_raft n').
Proof.
  unfold gen_light_ready. intros H. ib H oe Hoe. ib H csi Hcsi. injection H as <- _. cbn.
  eapply keeps_trans; [apply reduce_uncommitted_size_keeps|reflexivity].
Qed.

Lemma gen_light_ready_tv n n' lr :
  gen_light_ready n = Ok (n', lr) -> tv_plain (rn_raft n) (rn_raft n').
Proof. intros H. apply keeps_tv_plain. eapply gen_light_ready_keeps; exact H. Qed.

Lemma rn_ready_keeps n n' rd : rn_ready n = Ok (n', rd) -> keeps (rn_raft n) (rn_raft n').
Proof.
  unfold rn_ready. intros H. ib H recs Hrecs. ib H x Hx. destruct x as [[[snap csi] rec_snap] ms2].
  ib H y Hy. destruct y as [n2 light]. injection H as <- _. cbn.
  apply gen_light_ready_keeps in Hy. cbn in Hy. eapply keeps_trans; [|exact Hy]. reflexivity.
Qed.

Theorem rn_ready_tv n n' rd : rn_ready n = Ok (n', rd) -> tv_plain (rn_raft n) (rn_raft n').
Proof. intros H. apply keeps_tv_plain. eapply rn_ready_keeps; exact H. Qed.

Lemma commit_ready_tv n rd n' : commit_ready n rd = Ok n' -> tv_plain (rn_raft n) (rn_raft n').
Proof.
  unfold commit_ready. intros H.
  set (n1 := match rd_ss rd with Some ss => n <| rn_prev_ss := ss |> | None => n end) in *.
  set (n2 := match rd_hs rd with Some hs => n1 <| rn_prev_hs := hs |> | None => n1 end) in *.
  assert (E : rn_raft n2 = rn_raft n) by (unfold n2, n1; destruct (rd_hs rd), (rd_ss rd); reflexivity).
  destruct (rn_records n2); [discriminate|].
  dtop H; [discriminate|]. ib H l1 H1. ib H l2 H2. injection H as <-. cbn. rewrite E. tvs.
Qed.

Theorem rn_on_persist_ready_tv n k n' :
  rn_on_persist_ready n k = Ok n' -> tv_plain (rn_raft n) (rn_raft n').
Proof.
  unfold rn_on_persist_ready. intros H.
  destruct (fold_records (rn_records n) k 0 0 0) as [[[recs index] t] snap_index].
  ib H r1 H1. ib H r2 H2. injection H as <-. cbn in *.
  assert (K1 : keeps (rn_raft n) r1).
  { destruct (negb (snap_index =? 0)); [eapply on_persist_snap_keeps; exact H1|].
    injection H1 as <-. apply keeps_refl. }
  assert (K2 : keeps r1 r2).
  { destruct (negb (index =? 0)); [eapply on_persist_entries_keeps; exact H2|].
    injection H2 as <-. apply keeps_refl. }
  apply keeps_tv_plain. eapply keeps_trans; eassumption.
Qed.

Theorem rn_advance_append_tv n rd n' lr :
  rn_advance_append n rd = Ok (n', lr) -> tv_plain (rn_raft n) (rn_raft n').
Proof.
  unfold rn_advance_append. intros H. ib H n1 H1. ib H n2 H2. ib H x Hx. destruct x as [n3 light].
  dtop H; [discriminate|]. ib H y Hy. destruct y as [n4 ci].
  dtop H; [discriminate|]. injection H as <- _.
  apply commit_ready_tv in H1. apply rn_on_persist_ready_tv in H2. apply gen_light_ready_tv in Hx.
  assert (E : rn_raft n4 = rn_raft n3).
  { dtop Hy; [injection Hy as <- _; reflexivity|]. dtop Hy; [discriminate|].
    injection Hy as <- _. reflexivity. }
  rewrite E. eapply tv_plain_trans; [exact H1|]. eapply tv_plain_trans; eassumption.
Qed.

Theorem rn_advance_apply_to_tv n a n' :
  rn_advance_apply_to n a = Ok n' -> tv_plain (rn_raft n) (rn_raft n').
Proof.
  unfold rn_advance_apply_to, lift, commit_apply. intros H. ib H y Hy. injection H as <-. cbn.
  apply keeps_tv_plain. eapply commit_apply_internal_keeps; exact Hy.
Qed.

Theorem rn_advance_tv n rd n' lr :
  rn_advance n rd = Ok (n', lr) -> tv_plain (rn_raft n) (rn_raft n').
Proof.
  unfold rn_advance. intros H. ib H x Hx. destruct x as [n1 l1]. ib H n2 H2. injection H as <- _.
  apply rn_advance_append_tv in Hx. apply rn_advance_apply_to_tv in H2. cbn [fst] in H2.
  eapply tv_plain_trans; eassumption.
Qed.

Lemma step_fst_plain n m n' :
  m_type m <> MsgRequestVote ->
  (x <- step (rn_raft n) m ;; Ok (n <| rn_raft := fst x |>)) = Ok n' ->
  tv_plain (rn_raft n) (rn_raft n').
Proof.
  intros Hn H. ib H y Hy. injection H as <-. destruct y as [r1 c1]. cbn.
  eapply step_tv_plain; eassumption.
Qed.

Theorem rn_request_snapshot_tv n n' c :
  rn_request_snapshot n = Ok (n', c) -> tv_plain (rn_raft n) (rn_raft n').
Proof.
  unfold rn_request_snapshot, lift2. intros H. ib H y Hy. injection H as <- _. destruct y as [r1 c1]. cbn.
  apply keeps_tv_plain. eapply request_snapshot_keeps; exact Hy.
Qed.

(* every call of the C07 alphabet *)
Theorem exec_tv n o n' ot :
  exec n o = Ok (n', ot) ->
  match o with
  | OStep m => vote_step m (rn_raft n) (rn_raft n')
  | _ => tv_plain (rn_raft n) (rn_raft n')
  end.
Proof.
  intros H. destruct o; cbn [exec] in H; unfold RaftProofsC07.quiet, quiet1 in H.
  - ib H y Hy. injection H as <- _. destruct y. eapply rn_step_vote_step; exact Hy.
  - ib H y Hy. injection H as <- _. destruct y. eapply rn_tick_tv; exact Hy.
  - ib H y Hy. injection H as <- _. destruct y. eapply rn_campaign_tv; exact Hy.
  - ib H y Hy. injection H as <- _. destruct y. eapply rn_propose_tv; exact Hy.
  - ib H y Hy. injection H as <- _. destruct y. eapply rn_propose_conf_change_tv; exact Hy.
  - ib H y Hy. injection H as <- _. destruct y. eapply rn_apply_conf_change_tv; exact Hy.
  - ib H y Hy. injection H as <- _. eapply rn_ping_tv; exact Hy.
  - ib H y Hy. injection H as <- _. destruct y. eapply rn_ready_tv; exact Hy.
  - ib H y Hy. injection H as <- _. destruct y. eapply rn_advance_tv; exact Hy.
  - ib H y Hy. injection H as <- _. destruct y. eapply rn_advance_append_tv; exact Hy.
  - ib H y Hy. injection H as <- _. eapply commit_ready_tv; exact Hy.
  - ib H y Hy. injection H as <- _. eapply rn_on_persist_ready_tv; exact Hy.
  - ib H y Hy. injection H as <- _. eapply rn_advance_apply_to_tv; exact Hy.
  - ib H y Hy. injection H as <- _. eapply rn_advance_apply_to_tv; exact Hy.
  - ib H y Hy. injection H as <- _. eapply step_fst_plain; [|exact Hy]. discriminate.
  - ib H y Hy. injection H as <- _. eapply step_fst_plain; [|exact Hy]. discriminate.
  - ib H y Hy. injection H as <- _. destruct y. eapply rn_request_snapshot_tv; exact Hy.
  - ib H y Hy. injection H as <- _. eapply step_fst_plain; [|exact Hy]. discriminate.
  - ib H y Hy. injection H as <- _. eapply step_fst_plain; [|exact Hy]. discriminate.
  - injection H as <- _. cbn. tvs.
Qed.

Corollary exec_tv_le n o n' ot : exec n o = Ok (n', ot) -> tv_le (rn_raft n) (rn_raft n').
Proof.
  intros H. apply exec_tv in H. destruct o;
    first [eapply vote_step_tv_le; exact H
          |eapply (vote_step_tv_le msg_default); apply tv_plain_vote_step; exact H].
Qed.

(* traces: any sequence of calls of the C07 alphabet that does not panic *)
Inductive ntrace : rawnode -> rawnode -> Prop :=
| ntrace_nil n : ntrace n n
| ntrace_cons n o n1 ot n' : exec n o = Ok (n1, ot) -> ntrace n1 n' -> ntrace n n'.

Theorem ntrace_tv_le n n' : ntrace n n' -> tv_le (rn_raft n) (rn_raft n').
Proof.
  induction 1 as [|n o n1 ot n' He R IH]; [apply tv_le_refl|].
  eapply tv_le_trans; [eapply exec_tv_le; exact He|exact IH].
Qed.

Theorem ntrace_term_monotone n n' : ntrace n n' -> r_term (rn_raft n) <= r_term (rn_raft n').
Proof. intros H. apply ntrace_tv_le in H. apply H. Qed.

(* from construction on: along any trace the term never decreases, and two states of the
   same term with non-zero votes have the same vote *)
Theorem ntrace_one_vote_per_term n1 n2 :
  ntrace n1 n2 -> r_term (rn_raft n2) = r_term (rn_raft n1) ->
  r_vote (rn_raft n1) <> INVALID_ID -> r_vote (rn_raft n2) = r_vote (rn_raft n1).
Proof.
  intros H E Hv. apply ntrace_tv_le in H. destruct H as [_ H]. destruct (H E); [contradiction|assumption].
Qed.

Theorem ntrace_from_new c st sa dr n0 n1 n2 :
  rn_new c st sa dr = Ok (inr n0) -> ntrace n0 n1 -> ntrace n1 n2 ->
  r_term (rn_raft n0) <= r_term (rn_raft n1) /\ r_term (rn_raft n1) <= r_term (rn_raft n2) /\
  (r_term (rn_raft n2) = r_term (rn_raft n1) -> r_vote (rn_raft n1) <> INVALID_ID ->
   r_vote (rn_raft n2) = r_vote (rn_raft n1)).
Proof.
  intros _ H1 H2. split; [apply ntrace_term_monotone, H1|]. split; [apply ntrace_term_monotone, H2|].
  apply ntrace_one_vote_per_term, H2.
Qed.

(* ------------------------------------------------------------------ *)
(* 3. grants match the vote *)

Definition VR : N := MsgRequestVoteResponse.

(* the queued vote responses are untouched *)
Definition vs (r r' : raft) : Prop := sel VR (r_msgs r') = sel VR (r_msgs r).

Lemma vs_refl r : vs r r. Proof. reflexivity. Qed.
Lemma vs_trans a b c : vs a b -> vs b c -> vs a c.
Proof. unfold vs. congruence. Qed.
Lemma cf_vs r r' : cf VR r r' -> vs r r'.
Proof. apply cf_sel. Qed.
Lemma wf_vs r r' : wf VR r r' -> vs r r'.
Proof. apply wf_sel. Qed.
Lemma vs_same r r' : r_msgs r' = r_msgs r -> vs r r'.
Proof. unfold vs. intros ->. reflexivity. Qed.

Lemma send_vs r m r' : send r m = Ok r' -> (m_type m =? VR) = false -> vs r r'.
Proof. intros H E. apply cf_vs. eapply send_cf; eassumption. Qed.

Lemma send_timeout_now_vs r to r' : send_timeout_now r to = Ok r' -> vs r r'.
Proof. unfold send_timeout_now. intros H. eapply send_vs; [exact H|reflexivity]. Qed.

Lemma step_leader_vs r m r' c : step_leader r m = Ok (r', c) -> vs r r'.
Proof.
  unfold step_leader. intros H.
  dtop H; [ib H y Hy; injection H as <- _; apply cf_vs;
           eapply (bcast_heartbeat_cf VR eq_refl); exact Hy|].
  dtop H.
  { destruct (quorum_recently_active (r_prs r) (r_id r)) as [prs' active].
    destruct (negb active); [|injection H as <- _; apply vs_same; reflexivity].
    ib H y Hy. injection H as <- _. apply become_follower_msgs_log in Hy. destruct Hy as [M _].
    apply vs_same. rewrite M. reflexivity. }
  dtop H.
  { destruct (m_entries m); [discriminate|].
    destruct (get_pr r (r_id r)); [|injection H as <- _; apply vs_refl].
    destruct (r_lead_transferee r); [injection H as <- _; apply vs_refl|].
    destruct (filter_conf_changes r _ _ 0) as [[r1 ents] ok] eqn:E.
    apply (filter_conf_changes_cf VR), cf_vs in E.
    destruct ok; cbn [negb] in H; [|injection H as <- _; exact E].
    ib H y Hy. destruct y as [r2 appended]. apply (append_entry_cf VR), cf_vs in Hy.
    destruct appended; cbn [negb] in H; [|injection H as <- _; eapply vs_trans; eassumption].
    ib H z Hz. injection H as <- _. apply (bcast_append_cf VR eq_refl eq_refl), cf_vs in Hz.
    eapply vs_trans; [exact E|]. eapply vs_trans; eassumption. }
  dtop H.
  { ib H y Hy. destruct y; cbn [negb] in H; [|injection H as <- _; apply vs_refl].
    assert (Hnow : forall r' c,
      (x <- handle_ready_read_index r m (committed (r_log r)) ;;
       let '(r1, om) := x in
       r2 <- match om with Some mm => send r1 mm | None => Ok r1 end ;; Ok (r2, E_OK)) = Ok (r', c) ->
      vs r r').
    { intros ra ca Ha. ib Ha z Hz. destruct z as [r1 om].
      apply (handle_ready_read_index_cf VR) in Hz. destruct Hz as [A B]. apply cf_vs in A.
      ib Ha w Hw. injection Ha as <- _.
      destruct om as [x|]; [|injection Hw as <-; exact A].
      eapply vs_trans; [exact A|]. eapply send_vs; [exact Hw|rewrite B; reflexivity]. }
    dtop H; [eapply Hnow; exact H|].
    dtop H; [|eapply Hnow; exact H].
    ib H ctx Hctx. ib H ro' Hro. ib H z Hz. injection H as <- _.
    apply (bcast_heartbeat_with_ctx_cf VR eq_refl), cf_vs in Hz.
    eapply vs_trans; [|exact Hz]. apply vs_same. reflexivity. }
  dtop H.
  { ib H y Hy. injection H as <- _.
    apply (handle_append_response_shape VR eq_refl eq_refl) in Hy.
    destruct Hy as [A|(r3 & p & A & _ & _ & _ & S)]; [apply cf_vs, A|].
    eapply vs_trans; [apply cf_vs, A|eapply send_timeout_now_vs; exact S]. }
  dtop H; [ib H y Hy; injection H as <- _; apply cf_vs;
           eapply (handle_heartbeat_response_cf VR eq_refl eq_refl eq_refl); exact Hy|].
  dtop H; [ib H y Hy; injection H as <- _; apply cf_vs;
           eapply (handle_snapshot_status_cf VR); exact Hy|].
  dtop H; [ib H y Hy; injection H as <- _; apply cf_vs;
           eapply (handle_unreachable_cf VR); exact Hy|].
  dtop H; [|injection H as <- _; apply vs_refl].
  ib H y Hy. injection H as <- _.
  apply handle_transfer_leader_shape in Hy.
  destruct Hy as [[-> _]|[(_ & _ & ->)|(_ & _ & _ & pr & _ & [(_ & S)|(_ & r1 & pr1 & b & S & ->)])]].
  - apply vs_refl.
  - apply vs_same. reflexivity.
  - apply send_timeout_now_vs in S. eapply vs_trans; [|exact S]. apply vs_same. reflexivity.
  - apply (maybe_send_append_cf VR eq_refl eq_refl), cf_vs in S.
    eapply vs_trans; [|eapply vs_trans; [exact S|apply vs_same; reflexivity]].
    apply vs_same. reflexivity.
Qed.

(* (3) every MsgRequestVoteResponse a step queues comes from the vote branch; a granting one
   answers a MsgRequestVote, goes to its sender, which is the node recorded in r_vote
   afterwards, and carries the node's (new) term *)
Theorem grant_matches_vote r m r' c :
  step r m = Ok (r', c) ->
  exists new, sel VR (r_msgs r') = sel VR (r_msgs r) ++ new /\
    forall x, In x new -> m_reject x = false ->
      m_type m = MsgRequestVote /\ m_to x = m_from m /\ r_vote r' = m_from m /\
      m_term x = r_term r' /\ m_term x = m_term m /\ m_from x = r_id r'.
Proof.
  assert (Hnone : forall r', vs r r' -> exists new, sel VR (r_msgs r') = sel VR (r_msgs r) ++ new /\
     forall x, In x new -> m_reject x = false ->
       m_type m = MsgRequestVote /\ m_to x = m_from m /\ r_vote r' = m_from m /\
       m_term x = r_term r' /\ m_term x = m_term m /\ m_from x = r_id r').
  { intros ra V. exists []. rewrite app_nil_r. split; [exact V|]. intros x []. }
  rewrite step_eq. intros H. ib H pre Hpre. apply step_pre_cases in Hpre.
  destruct pre as [[r1 c1]|r1].
  - injection H as <- _. apply Hnone.
    destruct Hpre as (_ & _ & [(_ & _ & ->)|(_ & Hl)]); [apply vs_refl|].
    unfold low_term_reply in Hl. dtop Hl; [eapply send_vs; [exact Hl|reflexivity]|].
    dtop Hl; [eapply send_vs; [exact Hl|reflexivity]|injection Hl as <-; apply vs_refl].
  - assert (H1 : vs r r1 /\ (r1 = r \/ (r_term r1 = m_term m /\ r_id r1 = r_id r))).
    { destruct Hpre as [[-> _]|(_ & _ & _ & Hf)]; [split; [apply vs_refl|left; reflexivity]|].
      apply become_follower_facts in Hf. destruct Hf as (F1 & F2 & _ & _ & _ & F6 & _).
      apply cfg_fields in F2. destruct F2 as (I & _).
      split; [apply vs_same; exact F6|right; split; assumption]. }
    destruct H1 as [V1 Hr1].
    assert (Hnone1 : forall r', vs r1 r' -> exists new, sel VR (r_msgs r') = sel VR (r_msgs r) ++ new /\
       forall x, In x new -> m_reject x = false ->
         m_type m = MsgRequestVote /\ m_to x = m_from m /\ r_vote r' = m_from m /\
         m_term x = r_term r' /\ m_term x = m_term m /\ m_from x = r_id r')
      by (intros ra V; apply Hnone; eapply vs_trans; eassumption).
    unfold step_body in H.
    destruct (m_type m =? MsgHup) eqn:Ehup.
    { ib H y Hy. injection H as <- _. apply Hnone1, wf_vs.
      eapply (hup_wf VR eq_refl eq_refl eq_refl); [right; reflexivity|exact Hy]. }
    destruct ((m_type m =? MsgRequestVote) || (m_type m =? MsgRequestPreVote)) eqn:Ev.
    { assert (Hq : m_type m = MsgRequestVote \/ m_type m = MsgRequestPreVote)
        by (apply orb_prop in Ev; destruct Ev as [X|X]; apply N.eqb_eq in X; auto).
      assert (Hb : step_body r1 m = Ok (r', c)) by (unfold step_body; rewrite Ehup, Ev; exact H).
      pose proof (step_pre_cases r m (inr r1)) as _.
      apply step_body_vote in Hb; [|exact Hq].
      destruct (m_type m =? MsgRequestVote) eqn:Erv.
      - apply N.eqb_eq in Erv.
        assert (Hrt : resp_type m = VR) by (unfold resp_type; rewrite Erv; reflexivity).
        destruct Hb as [_ [(G & Z & ->)|(_ & _ & ci & _ & Hm)]].
        + exists [vote_resp r1 m (resp_type m) false (m_term m) (0, 0)]. split.
          * transitivity (sel VR (r_msgs r1 ++ [vote_resp r1 m (resp_type m) false (m_term m) (0, 0)]));
              [reflexivity|].
            unfold vs in V1. rewrite <- V1. rewrite sel_app. f_equal.
            apply sel_one_same. cbn. rewrite Hrt. reflexivity.
          * intros x [<-|[]] _. cbn. repeat split; try assumption; try reflexivity.
            (* the term: the request's term is the node's term after the prologue *)
            destruct Hr1 as [->|[T _]]; [|congruence].
            (* same state: m_term = r_term or 0 (excluded) or higher & exempt (not a vote) *)
            clear -Hpre Z Erv.
            destruct Hpre as [[_ [Z0|[Z1|(_ & _ & E)]]]|(L & _ & _ & Hf)].
            -- contradiction.
            -- first [exact Z1|symmetry; exact Z1].
            -- unfold exempt in E. rewrite Erv in E. discriminate.
            -- apply become_follower_facts in Hf. destruct Hf as (F1 & _). lia.
        + apply maybe_commit_by_vote_msgs in Hm.
          exists [vote_resp r1 m (resp_type m) true (r_term r1) ci]. split.
          * rewrite Hm.
            transitivity (sel VR (r_msgs r1 ++ [vote_resp r1 m (resp_type m) true (r_term r1) ci]));
              [reflexivity|].
            unfold vs in V1. rewrite <- V1. rewrite sel_app. f_equal.
            apply sel_one_same. cbn. rewrite Hrt. reflexivity.
          * intros x [<-|[]] C. discriminate C.
      - apply Hnone1.
        assert (Hrt : (resp_type m =? VR) = false) by (unfold resp_type; rewrite Erv; reflexivity).
        destruct Hb as [_ [(_ & _ & ->)|(_ & _ & ci & _ & Hm)]].
        + unfold vs.
          transitivity (sel VR (r_msgs r1 ++ [vote_resp r1 m (resp_type m) false (m_term m) (0, 0)]));
            [reflexivity|].
          rewrite sel_app, sel_one_other, app_nil_r; [reflexivity|exact Hrt].
        + apply maybe_commit_by_vote_msgs in Hm. unfold vs. rewrite Hm.
          transitivity (sel VR (r_msgs r1 ++ [vote_resp r1 m (resp_type m) true (r_term r1) ci]));
            [reflexivity|].
          rewrite sel_app, sel_one_other, app_nil_r; [reflexivity|exact Hrt]. }
    apply Hnone1.
    destruct (r_state r1).
    + apply wf_vs. eapply (step_follower_wf VR eq_refl eq_refl eq_refl eq_refl eq_refl eq_refl eq_refl eq_refl eq_refl); exact H.
    + apply wf_vs. eapply (step_candidate_wf VR eq_refl eq_refl eq_refl eq_refl eq_refl eq_refl); exact H.
    + eapply step_leader_vs; exact H.
    + apply wf_vs. eapply (step_candidate_wf VR eq_refl eq_refl eq_refl eq_refl eq_refl eq_refl); exact H.
Qed.

(* ------------------------------------------------------------------ *)
(* 4. the hard state hand-out *)

(* if the node's (term, vote) differ from what the application was last handed, the Ready
   carries the current hard state, demands a synchronous write, holds its messages back
   until the application reports it persisted, and the record kept for it says so *)
Theorem ready_hands_out_hard_state n n' rd :
  rn_ready n = Ok (n', rd) ->
  (r_term (rn_raft n) <> hs_term (rn_prev_hs n) \/ r_vote (rn_raft n) <> hs_vote (rn_prev_hs n)) ->
  rd_hs rd = Some (Raft.hard_state_of (rn_raft n)) /\
  rd_must_sync rd = true /\ rd_is_persisted_msg rd = true /\
  (exists recs rr, rn_records n' = recs ++ [rr] /\ rr_number rr = rd_number rd /\
                   rr_hs_changed rr = true) /\
  r_term (rn_raft n') = r_term (rn_raft n) /\ r_vote (rn_raft n') = r_vote (rn_raft n).
Proof.
  intros H Hd.
  pose proof (keeps_fields _ _ (rn_ready_keeps _ _ _ H)) as (T1 & T2 & _).
  pose proof (must_sync_spec _ _ _ H) as Hms.
  pose proof (ready_entries_are_unstable _ _ _ H)
    as (_ & _ & Hnum & _ & Hhs & _ & _ & _ & _ & (recs & _ & Hpm & Hrec) & _).
  assert (Hne : Raft.hard_state_of (rn_raft n) <> rn_prev_hs n).
  { intros E. rewrite <- E in Hd. cbn in Hd. destruct Hd as [C|C]; apply C; reflexivity. }
  assert (Hc : hs_changed n && tv_changed n = true).
  { unfold hs_changed, tv_changed. apply andb_true_intro. split.
    - apply negb_true_iff. destruct (hs_eqb _ _) eqn:E; [|reflexivity].
      apply hs_eqb_eq in E. contradiction.
    - cbn. destruct Hd as [C|C].
      + apply orb_true_intro. right. apply negb_true_iff, N.eqb_neq. exact C.
      + apply orb_true_intro. left. apply negb_true_iff, N.eqb_neq. exact C. }
  split; [apply Hhs; split; [exact Hne|reflexivity]|].
  split; [apply Hms; destruct Hd as [C|C]; [right; right; left|right; right; right]; exact C|].
  split; [rewrite Hpm, Hc; rewrite orb_true_r; reflexivity|].
  split.
  - eexists _, _. split; [exact Hrec|]. cbn. split; [symmetry; exact Hnum|exact Hc].
  - split; assumption.
Qed.

(* ------------------------------------------------------------------ *)
(* 5. a restart resumes exactly the stored term and vote *)

Theorem raft_new_resumes c st sa dr r :
  raft_new c st sa dr = Ok (inr r) ->
  r_term r = hs_term (MemStorage.hs st) /\ r_vote r = hs_vote (MemStorage.hs st) /\
  r_id r = c_id c /\ r_state r = Follower /\ r_leader_id r = INVALID_ID.
Proof.
  unfold raft_new. intros H. dtop H; [discriminate|]. ib H l Hl.
  destruct (ConfChange.restore empty_tracker (MemStorage.cs st)) as [[c' ids']|e]; [|discriminate].
  ib H x Hx. destruct x as [r2 new_cs]. dtop H; [discriminate|].
  ib H r3 H3. ib H r4 H4. ib H r5 H5. ib H lt0 Hlt. injection H as <-.
  apply post_conf_change_keeps, keeps_fields in Hx. destruct Hx as (A1 & A2 & _ & _ & A5).
  apply cfg_fields in A5. destruct A5 as (AI & _). cbn in A1, A2, AI.
  assert (E3 : r_term r3 = hs_term (MemStorage.hs st) /\ r_vote r3 = hs_vote (MemStorage.hs st) /\
               r_id r3 = c_id c).
  { dtop H3.
    - injection H3 as <-. apply hs_eqb_eq in Heqb1. rewrite Heqb1. cbn. auto.
    - unfold load_state in H3. dtop H3; [discriminate|]. injection H3 as <-. cbn. auto. }
  destruct E3 as (B1 & B2 & B3).
  assert (K4 : keeps r3 r4).
  { dtop H4; [eapply commit_apply_internal_keeps; exact H4|injection H4 as <-; apply keeps_refl]. }
  apply keeps_fields in K4. destruct K4 as (C1 & C2 & _ & _ & C5). apply cfg_fields in C5.
  destruct C5 as (CI & _).
  apply become_follower_facts in H5. destruct H5 as (F1 & F2 & F3 & F4 & F5 & _).
  rewrite N.eqb_refl in F5. apply cfg_fields in F2. destruct F2 as (FI & _).
  repeat split; congruence.
Qed.

Theorem rn_new_resumes c st sa dr n :
  rn_new c st sa dr = Ok (inr n) ->
  r_term (rn_raft n) = hs_term (MemStorage.hs st) /\
  r_vote (rn_raft n) = hs_vote (MemStorage.hs st) /\
  hs_term (rn_prev_hs n) = hs_term (MemStorage.hs st) /\
  hs_vote (rn_prev_hs n) = hs_vote (MemStorage.hs st) /\
  r_id (rn_raft n) = c_id c /\ r_state (rn_raft n) = Follower /\ rn_records n = [].
Proof.
  unfold rn_new. intros H. dtop H; [discriminate|]. ib H x Hx. destruct x as [e|r]; [discriminate|].
  injection H as <-. apply raft_new_resumes in Hx. destruct Hx as (A & B & C0 & D & _). cbn.
  repeat split; assumption.
Qed.

(* ------------------------------------------------------------------ *)
(* definitions used in the pinned statements, unfolded *)

Lemma def_vote_step m r r' :
  vote_step m r r' <->
  r_id r' = r_id r /\ r_term r <= r_term r' /\
  (r_term r' = r_term r ->
   r_vote r' = r_vote r \/
   (r_vote r = INVALID_ID /\ m_type m = MsgRequestVote /\ r_vote r' = m_from m)) /\
  (r_term r < r_term r' ->
   r_vote r' = INVALID_ID \/ r_vote r' = r_id r \/
   (m_type m = MsgRequestVote /\ m_term m = r_term r' /\ r_vote r' = m_from m)).
Proof. reflexivity. Qed.

Lemma def_tv_plain r r' :
  tv_plain r r' <->
  r_id r' = r_id r /\ r_term r <= r_term r' /\
  (r_term r' = r_term r -> r_vote r' = r_vote r) /\
  (r_term r < r_term r' -> r_vote r' = INVALID_ID \/ r_vote r' = r_id r).
Proof. reflexivity. Qed.

Lemma def_sel ty l : sel ty l = filter (fun x => m_type x =? ty) l.
Proof. reflexivity. Qed.

(* the remaining Raft API keeps term and vote (and role, leader, id) *)
Theorem raft_api_keeps_term_vote :
  (forall r cc r' ocs, raft_apply_conf_change r cc = Ok (r', ocs) ->
     r_term r' = r_term r /\ r_vote r' = r_vote r) /\
  (forall r i t r', on_persist_entries r i t = Ok r' -> r_term r' = r_term r /\ r_vote r' = r_vote r) /\
  (forall r i r', on_persist_snap r i = Ok r' -> r_term r' = r_term r /\ r_vote r' = r_vote r) /\
  (forall r a r', commit_apply r a = Ok r' -> r_term r' = r_term r /\ r_vote r' = r_vote r) /\
  (forall r r', ping r = Ok r' -> r_term r' = r_term r /\ r_vote r' = r_vote r) /\
  (forall r r' c, request_snapshot r = Ok (r', c) -> r_term r' = r_term r /\ r_vote r' = r_vote r).
Proof.
  assert (K : forall r r', keeps r r' -> r_term r' = r_term r /\ r_vote r' = r_vote r)
    by (intros r r' H; apply keeps_fields in H; destruct H as (A & B & _); auto).
  repeat split; intros; apply K.
  - eapply raft_apply_conf_change_keeps; eassumption.
  - eapply raft_apply_conf_change_keeps; eassumption.
  - eapply on_persist_entries_keeps; eassumption.
  - eapply on_persist_entries_keeps; eassumption.
  - eapply on_persist_snap_keeps; eassumption.
  - eapply on_persist_snap_keeps; eassumption.
  - eapply commit_apply_internal_keeps; eassumption.
  - eapply commit_apply_internal_keeps; eassumption.
  - eapply ping_keeps; eassumption.
  - eapply ping_keeps; eassumption.
  - eapply request_snapshot_keeps; eassumption.
  - eapply request_snapshot_keeps; eassumption.
Qed.

(* ------------------------------------------------------------------ *)
(* example: node 3 (term 2, no vote, no leader known) grants node 2 its vote for term 3
   and then refuses node 1 in the same term *)
Definition x6_r0 : raft := xs_follower <| r_leader_id := 0 |>.
Definition x6_req (from : N) : msg :=
  msg_default <| m_type := MsgRequestVote |> <| m_from := from |> <| m_to := 3 |> <| m_term := 3 |>
              <| m_index := 3 |> <| m_log_term := 1 |>.

Lemma x6_one_vote : exists r1 c1 r2 c2 g rj,
  step x6_r0 (x6_req 2) = Ok (r1, c1) /\ r_term r1 = 3 /\ r_vote r1 = 2 /\
  r_msgs r1 = [g] /\ m_type g = MsgRequestVoteResponse /\ m_reject g = false /\ m_to g = 2 /\ m_term g = 3 /\
  step r1 (x6_req 1) = Ok (r2, c2) /\ r_term r2 = 3 /\ r_vote r2 = 2 /\
  r_msgs r2 = [g; rj] /\ m_reject rj = true /\ m_to rj = 1.
Proof. vm_compute. do 6 eexists. repeat split; reflexivity. Qed.
