(* eraftpb::Message and helpers shared by the node models. *)
From RV Require Import Base.Prelude Base.IdSet M.Util M.Proto.
From RecordUpdate Require Import RecordSet.
Import RecordSetNotations.

Local Open Scope N_scope.

(* MessageType wire values *)
Definition MsgHup : N := 0.
Definition MsgBeat : N := 1.
Definition MsgPropose : N := 2.
Definition MsgAppend : N := 3.
Definition MsgAppendResponse : N := 4.
Definition MsgRequestVote : N := 5.
Definition MsgRequestVoteResponse : N := 6.
Definition MsgSnapshot : N := 7.
Definition MsgHeartbeat : N := 8.
Definition MsgHeartbeatResponse : N := 9.
Definition MsgUnreachable : N := 10.
Definition MsgSnapStatus : N := 11.
Definition MsgCheckQuorum : N := 12.
Definition MsgTransferLeader : N := 13.
Definition MsgTimeoutNow : N := 14.
Definition MsgReadIndex : N := 15.
Definition MsgReadIndexResp : N := 16.
Definition MsgRequestPreVote : N := 17.
Definition MsgRequestPreVoteResponse : N := 18.

(* EntryType wire values *)
Definition EntryNormal : N := 0.
Definition EntryConfChange : N := 1.
Definition EntryConfChangeV2 : N := 2.

Record msg := mkMsg {
  m_type : N;
  m_to : N;
  m_from : N;
  m_term : N;
  m_log_term : N;
  m_index : N;
  m_entries : list entry;
  m_commit : N;
  m_commit_term : N;
  m_snapshot : snapshot;       (* default = (0, 0, empty ConfState) *)
  m_request_snapshot : N;
  m_reject : bool;
  m_reject_hint : N;
  m_context : list N;
  m_deprecated_priority : N;
  m_priority : Z;
  (* model-only oracle, parallel to m_entries, meaningful for MsgPropose only:
     what the real protobuf decoder says about a conf-change entry's data:
     0 = not a conf-change entry, 1 = decode error, 2 = decoded with an empty
     change list, 3 = decoded with a non-empty change list *)
  m_ccinfo : list N
}.

#[export] Instance eta_msg : Settable _ :=
  settable! mkMsg <m_type; m_to; m_from; m_term; m_log_term; m_index; m_entries; m_commit;
                   m_commit_term; m_snapshot; m_request_snapshot; m_reject; m_reject_hint;
                   m_context; m_deprecated_priority; m_priority; m_ccinfo>.

Definition msg_default : msg :=
  mkMsg 0 0 0 0 0 0 [] 0 0 snap_default 0 false 0 [] 0 0%Z [].

(* fn new_message(to, type, from) *)
Definition new_message (to ty : N) (from : option N) : msg :=
  msg_default <| m_to := to |> <| m_type := ty |>
              <| m_from := match from with Some i => i | None => 0 end |>.

Definition CAMPAIGN_PRE_ELECTION : list N :=
  [67;97;109;112;97;105;103;110;80;114;101;69;108;101;99;116;105;111;110].
Definition CAMPAIGN_ELECTION : list N :=
  [67;97;109;112;97;105;103;110;69;108;101;99;116;105;111;110].
Definition CAMPAIGN_TRANSFER : list N :=
  [67;97;109;112;97;105;103;110;84;114;97;110;115;102;101;114].

Definition i64_max : Z := 9223372036854775807%Z.

(* fn get_priority(m) *)
Definition get_priority (m : msg) : Z :=
  if (m_priority m =? 0)%Z then
    (if (Z.of_N (m_deprecated_priority m) <=? i64_max)%Z
     then Z.of_N (m_deprecated_priority m) else i64_max)
  else m_priority m.

Definition entry_default : entry := mkEntry 0 0 0 [] [].
