(* Model of /repo/src/storage.rs: [MemStorageCore] and [impl Storage for
   MemStorage], debug-build semantics.  Every panic!/assert!/slice-index/
   arithmetic-overflow failure is a [Panic site] value; storage errors are
   values of [serr].  Indexes/terms are [u64] in the Rust; the model uses [N]
   and makes the two [+ 1] that can overflow (snapshot index + 1, last index + 1)
   explicit panic sites.  [usize] is 64 bit, so [as usize] is the identity.

   Fields of MemStorageCore and how they are modelled:
     raft_state.hard_state   -> [hs]        raft_state.conf_state -> [cs]
     entries                 -> [entries]
     snapshot_metadata       -> [snap_index], [snap_term]; its [conf_state] copy
                                is never read by any method, so it is dropped
     trigger_snap_unavailable-> [trig_snap]  trigger_log_unavailable -> [trig_log]
     get_entries_context     -> [ge_ctx]
   A panic inside a [wl()]/[rl()] guard poisons the RwLock, so nothing is
   observable after a panic: [Panic] carries no state.  No proofs here. *)
From RV Require Import Base.Prelude Base.IdSet M.Util.
From RV Require Export M.Proto.

Local Open Scope N_scope.

(* eraftpb records (HardState, ConfState, Snapshot) are in M/Proto.v *)

(* GetEntriesContext(GetEntriesFor) *)
Inductive gectx :=
| CtxSendAppend (to term : N) (aggressively : bool)
| CtxGenReady
| CtxTransferLeader
| CtxCommitByVote
| CtxEmpty (can_async : bool).

Definition can_async (c : gectx) : bool :=
  match c with
  | CtxSendAppend _ _ _ => true
  | CtxEmpty b => b
  | _ => false
  end.

(* StorageError *)
Inductive serr :=
| Compacted | Unavailable | SnapshotOutOfDate
| SnapshotTemporarilyUnavailable | LogTemporarilyUnavailable.

Definition serr_code (e : serr) : N :=
  match e with
  | Compacted => 1 | Unavailable => 2 | SnapshotOutOfDate => 3
  | SnapshotTemporarilyUnavailable => 4 | LogTemporarilyUnavailable => 5
  end.

Inductive sres (A : Type) : Type := SOk (a : A) | SErr (e : serr).
Arguments SOk {A} a.
Arguments SErr {A} e.

(* ---------- state ---------- *)
Record mem := mkMem {
  hs : hard_state;
  cs : conf_state;
  entries : list entry;
  snap_index : N;
  snap_term : N;
  trig_snap : bool;
  trig_log : bool;
  ge_ctx : option gectx
}.

Definition set_hs (m : mem) (h : hard_state) : mem :=
  mkMem h (cs m) (entries m) (snap_index m) (snap_term m) (trig_snap m) (trig_log m) (ge_ctx m).
Definition set_cs (m : mem) (c : conf_state) : mem :=
  mkMem (hs m) c (entries m) (snap_index m) (snap_term m) (trig_snap m) (trig_log m) (ge_ctx m).
Definition set_entries (m : mem) (l : list entry) : mem :=
  mkMem (hs m) (cs m) l (snap_index m) (snap_term m) (trig_snap m) (trig_log m) (ge_ctx m).
Definition set_trig_snap (m : mem) (b : bool) : mem :=
  mkMem (hs m) (cs m) (entries m) (snap_index m) (snap_term m) b (trig_log m) (ge_ctx m).
Definition set_trig_log (m : mem) (b : bool) : mem :=
  mkMem (hs m) (cs m) (entries m) (snap_index m) (snap_term m) (trig_snap m) b (ge_ctx m).
Definition set_ge_ctx (m : mem) (c : option gectx) : mem :=
  mkMem (hs m) (cs m) (entries m) (snap_index m) (snap_term m) (trig_snap m) (trig_log m) c.

(* ---------- panic sites ---------- *)
Definition site_first_overflow : site := 1901.        (* snapshot_metadata.index + 1 overflows (first_index) *)
Definition site_commit_to_assert : site := 1902.      (* assert!(self.has_entry_at(index)) *)
Definition site_commit_to_index : site := 1903.       (* self.entries[diff] in commit_to *)
Definition site_snapshot_entries0 : site := 1904.     (* self.entries[0] in snapshot(), entries empty *)
Definition site_snapshot_underflow : site := 1905.    (* meta.index - offset underflows in snapshot() *)
Definition site_snapshot_index : site := 1906.        (* self.entries[meta.index - offset] in snapshot() *)
Definition site_snapshot_commit_lt : site := 1907.    (* panic!("commit {} < snapshot_metadata.index {}") *)
Definition site_compact_last_overflow : site := 1908. (* last_index() + 1 overflows in compact *)
Definition site_compact_oob : site := 1909.           (* panic!("compact not received raft logs") *)
Definition site_compact_drain : site := 1910.         (* self.entries.drain(..offset), offset > len *)
Definition site_append_compacted : site := 1911.      (* panic!("overwrite compacted raft logs") *)
Definition site_append_last_overflow : site := 1912.  (* last_index() + 1 overflows in append *)
Definition site_append_gap : site := 1913.            (* panic!("raft logs should be continuous") *)
Definition site_append_drain : site := 1914.          (* self.entries.drain(diff..), diff > len *)
Definition site_entries_last_overflow : site := 1915. (* last_index() + 1 overflows in entries *)
Definition site_entries_oob : site := 1916.           (* panic!("index out of bound (last: {}, high: {})") *)
Definition site_entries_entries0 : site := 1917.      (* RETIRED: core.entries[0] in entries on an empty vector; /repo 9c2e6d6 reads first_index() instead. Never produced by the model; the harness still maps the old message to it so a regression shows up *)
Definition site_entries_hi_underflow : site := 1918.  (* high - offset underflows *)
Definition site_entries_slice_order : site := 1919.   (* core.entries[lo..hi], lo > hi *)
Definition site_entries_slice_end : site := 1920.     (* core.entries[lo..hi], hi > len *)
Definition site_term_index : site := 1921.            (* core.entries[idx - offset] in term *)
Definition site_init_assert : site := 1922.           (* assert!(!self.initial_state().unwrap().initialized()) *)

(* ---------- constructors ---------- *)
Definition new : mem := mkMem hs_default cs_default [] 0 0 false false None.

(* RaftState::initialized *)
Definition initialized (m : mem) : bool := negb (cs_eqb (cs m) cs_default).

(* ConfState::from((voters, learners)) *)
Definition cs_from (voters learners : list N) : conf_state :=
  mkCS voters learners [] [] false.

Definition initialize_with_conf_state (m : mem) (c : conf_state) : Res mem :=
  if initialized m then Panic site_init_assert else Ok (set_cs m c).

Definition new_with_conf_state (c : conf_state) : Res mem :=
  initialize_with_conf_state new c.

(* ---------- MemStorageCore ---------- *)
Definition set_hardstate (m : mem) (h : hard_state) : mem := set_hs m h.
Definition hard_state_of (m : mem) : hard_state := hs m.
(* mut_hard_state().set_commit(c) *)
Definition set_commit (m : mem) (c : N) : mem :=
  set_hs m (mkHS (hs_term (hs m)) (hs_vote (hs m)) c).
Definition set_conf_state (m : mem) (c : conf_state) : mem := set_cs m c.

Definition first_index (m : mem) : Res N :=
  match entries m with
  | e :: _ => Ok (e_index e)
  | [] => if snap_index m =? u64_max then Panic site_first_overflow
          else Ok (snap_index m + 1)
  end.

Definition last_index (m : mem) : N :=
  List.last (map e_index (entries m)) (snap_index m).

(* [!self.entries.is_empty() && ..]: first_index() is only evaluated on a
   non-empty vector, where it cannot overflow *)
Definition has_entry_at (m : mem) (i : N) : bool :=
  match entries m with
  | [] => false
  | e0 :: _ => (e_index e0 <=? i) && (i <=? last_index m)
  end.

Definition commit_to (m : mem) (i : N) : Res mem :=
  if negb (has_entry_at m i) then Panic site_commit_to_assert else
  match entries m with
  | [] => Panic site_commit_to_assert
  | e0 :: _ =>
      e <- idx (entries m) (N.to_nat (i - e_index e0)) site_commit_to_index ;;
      Ok (set_hs m (mkHS (e_term e) (hs_vote (hs m)) i))
  end.

Definition apply_snapshot (m : mem) (s : snapshot) : Res (mem * sres unit) :=
  f <- first_index m ;;
  if s_index s <? f then Ok (m, SErr SnapshotOutOfDate) else
  Ok (mkMem (mkHS (N.max (hs_term (hs m)) (s_term s)) (hs_vote (hs m)) (s_index s))
            (s_cs s) [] (s_index s) (s_term s)
            (trig_snap m) (trig_log m) (ge_ctx m),
      SOk tt).

(* private fn snapshot(&self) *)
Definition make_snapshot (m : mem) : Res snapshot :=
  let c := hs_commit (hs m) in
  t <- (match c ?= snap_index m with
        | Eq => Ok (snap_term m)
        | Gt =>
            match entries m with
            | [] => Panic site_snapshot_entries0
            | e0 :: _ =>
                if c <? e_index e0 then Panic site_snapshot_underflow else
                e <- idx (entries m) (N.to_nat (c - e_index e0)) site_snapshot_index ;;
                Ok (e_term e)
            end
        | Lt => Panic site_snapshot_commit_lt
        end) ;;
  Ok (mkSnap c t (cs m)).

Definition compact (m : mem) (ci : N) : Res mem :=
  f <- first_index m ;;
  if ci <=? f then Ok m else
  if last_index m =? u64_max then Panic site_compact_last_overflow else
  if last_index m + 1 <? ci then Panic site_compact_oob else
  match entries m with
  | [] => Ok m
  | e0 :: _ =>
      let offset := N.to_nat (ci - e_index e0) in
      if (length (entries m) <? offset)%nat then Panic site_compact_drain
      else Ok (set_entries m (skipn offset (entries m)))
  end.

Definition append (m : mem) (ents : list entry) : Res mem :=
  match ents with
  | [] => Ok m
  | n0 :: _ =>
      f <- first_index m ;;
      if e_index n0 <? f then Panic site_append_compacted else
      if last_index m =? u64_max then Panic site_append_last_overflow else
      if last_index m + 1 <? e_index n0 then Panic site_append_gap else
      let diff := N.to_nat (e_index n0 - f) in
      if (length (entries m) <? diff)%nat then Panic site_append_drain
      else Ok (set_entries m (firstn diff (entries m) ++ ents))
  end.

Definition commit_to_and_set_conf_states (m : mem) (i : N) (c : option conf_state) : Res mem :=
  m1 <- commit_to m i ;;
  match c with Some c => Ok (set_cs m1 c) | None => Ok m1 end.

Definition trigger_snap_unavailable (m : mem) : mem := set_trig_snap m true.
Definition trigger_log_unavailable (m : mem) (v : bool) : mem := set_trig_log m v.
Definition take_get_entries_context (m : mem) : mem * option gectx :=
  (set_ge_ctx m None, ge_ctx m).

(* ---------- impl Storage for MemStorage ---------- *)
Definition initial_state (m : mem) : hard_state * conf_state := (hs m, cs m).

Definition storage_entries (m : mem) (low high : N) (max : option N) (ctx : gectx)
  : Res (mem * sres (list entry)) :=
  f <- first_index m ;;
  if low <? f then Ok (m, SErr Compacted) else
  if last_index m =? u64_max then Panic site_entries_last_overflow else
  if last_index m + 1 <? high then Panic site_entries_oob else
  if trig_log m && can_async ctx then
    Ok (set_ge_ctx m (Some ctx), SErr LogTemporarilyUnavailable)
  else
  (* let offset = core.first_index();  (evaluated again; same value as above) *)
  offset <- first_index m ;;
  if high <? offset then Panic site_entries_hi_underflow else
  let lo := N.to_nat (low - offset) in
  let hi := N.to_nat (high - offset) in
  if (hi <? lo)%nat then Panic site_entries_slice_order else
  if (length (entries m) <? hi)%nat then Panic site_entries_slice_end else
  Ok (m, SOk (limit_size (firstn (hi - lo) (skipn lo (entries m))) max)).

Definition storage_term (m : mem) (i : N) : Res (sres N) :=
  if i =? snap_index m then Ok (SOk (snap_term m)) else
  f <- first_index m ;;
  if i <? f then Ok (SErr Compacted) else
  if last_index m <? i then Ok (SErr Unavailable) else
  e <- idx (entries m) (N.to_nat (i - f)) site_term_index ;;
  Ok (SOk (e_term e)).

Definition storage_first_index (m : mem) : Res N := first_index m.
Definition storage_last_index (m : mem) : N := last_index m.

Definition storage_snapshot (m : mem) (request_index to : N) : Res (mem * sres snapshot) :=
  if trig_snap m then Ok (set_trig_snap m false, SErr SnapshotTemporarilyUnavailable)
  else
    s <- make_snapshot m ;;
    Ok (m, SOk (if s_index s <? request_index
                then mkSnap request_index (s_term s) (s_cs s) else s)).

(* ---------- operations as data, for histories ---------- *)
Inductive op :=
| OSetHardState (h : hard_state)
| OSetCommit (c : N)
| OCommitTo (i : N)
| OSetConfState (c : conf_state)
| OApplySnapshot (s : snapshot)
| OCompact (i : N)
| OAppend (ents : list entry)
| OCommitToConf (i : N) (c : option conf_state)
| OTrigSnap
| OTrigLog (v : bool)
| OTakeCtx
| OInitConf (c : conf_state)
| QInitialState
| QEntries (low high : N) (max : option N) (ctx : gectx)
| QTerm (i : N)
| QFirstIndex
| QLastIndex
| QSnapshot (request_index to : N)
| QHardState.

Inductive ret :=
| RUnit
| RNum (n : N)
| REntries (l : list entry)
| RSnap (s : snapshot)
| RState (h : hard_state) (c : conf_state)
| RHard (h : hard_state)
| RCtx (c : option gectx).

Definition ok_unit (r : Res mem) : Res (mem * sres ret) :=
  m <- r ;; Ok (m, SOk RUnit).

Definition map_sres {A B} (f : A -> B) (r : sres A) : sres B :=
  match r with SOk a => SOk (f a) | SErr e => SErr e end.

Definition step (m : mem) (o : op) : Res (mem * sres ret) :=
  match o with
  | OSetHardState h => Ok (set_hardstate m h, SOk RUnit)
  | OSetCommit c => Ok (set_commit m c, SOk RUnit)
  | OCommitTo i => ok_unit (commit_to m i)
  | OSetConfState c => Ok (set_conf_state m c, SOk RUnit)
  | OApplySnapshot s =>
      r <- apply_snapshot m s ;; Ok (fst r, map_sres (fun _ => RUnit) (snd r))
  | OCompact i => ok_unit (compact m i)
  | OAppend ents => ok_unit (append m ents)
  | OCommitToConf i c => ok_unit (commit_to_and_set_conf_states m i c)
  | OTrigSnap => Ok (trigger_snap_unavailable m, SOk RUnit)
  | OTrigLog v => Ok (trigger_log_unavailable m v, SOk RUnit)
  | OTakeCtx => let r := take_get_entries_context m in Ok (fst r, SOk (RCtx (snd r)))
  | OInitConf c => ok_unit (initialize_with_conf_state m c)
  | QInitialState => Ok (m, SOk (RState (fst (initial_state m)) (snd (initial_state m))))
  | QEntries lo hi mx ctx =>
      r <- storage_entries m lo hi mx ctx ;; Ok (fst r, map_sres REntries (snd r))
  | QTerm i => r <- storage_term m i ;; Ok (m, map_sres RNum r)
  | QFirstIndex => f <- storage_first_index m ;; Ok (m, SOk (RNum f))
  | QLastIndex => Ok (m, SOk (RNum (storage_last_index m)))
  | QSnapshot ri to =>
      r <- storage_snapshot m ri to ;; Ok (fst r, map_sres RSnap (snd r))
  | QHardState => Ok (m, SOk (RHard (hard_state_of m)))
  end.

(* run a history; stops at the first panic *)
Fixpoint run (m : mem) (ops : list op) : Res mem :=
  match ops with
  | [] => Ok m
  | o :: rest => r <- step m o ;; run (fst r) rest
  end.
