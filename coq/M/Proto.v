(* eraftpb records shared by the models: HardState, ConfState, Snapshot
   (metadata only: snapshot data never influences the library). *)
From RV Require Import Base.Prelude Base.IdSet.

Local Open Scope N_scope.

Record hard_state := mkHS { hs_term : N; hs_vote : N; hs_commit : N }.

(* eraftpb::ConfState (vectors: arbitrary order, duplicates possible) *)
Record conf_state := mkCS {
  cs_voters : list N;
  cs_learners : list N;
  cs_voters_outgoing : list N;
  cs_learners_next : list N;
  cs_auto_leave : bool
}.

Definition hs_default : hard_state := mkHS 0 0 0.
Definition cs_default : conf_state := mkCS [] [] [] [] false.

Definition hs_eqb (a b : hard_state) : bool :=
  (hs_term a =? hs_term b) && (hs_vote a =? hs_vote b) && (hs_commit a =? hs_commit b).

(* derived PartialEq of ConfState (unknown_fields empty, cached_size ignored) *)
Definition cs_eqb (a b : conf_state) : bool :=
  list_eqb (cs_voters a) (cs_voters b)
  && list_eqb (cs_learners a) (cs_learners b)
  && list_eqb (cs_voters_outgoing a) (cs_voters_outgoing b)
  && list_eqb (cs_learners_next a) (cs_learners_next b)
  && Bool.eqb (cs_auto_leave a) (cs_auto_leave b).

(* Snapshot as produced/consumed by the storage: data is always empty *)
Record snapshot := mkSnap { s_index : N; s_term : N; s_cs : conf_state }.
Definition snap_default : snapshot := mkSnap 0 0 cs_default.
