(* C14, part 3: stabilisation, persistence notices and the storage-side writes
   of the Ready contract (append the unstable entries, apply the pending
   snapshot, compact up to applied) are the identity / a prefix drop on the
   logical log; persisted stays within the storage; no operation alters an
   entry at or below the commit index; refuted variants with witnesses. *)
From RV Require Import Base.Prelude M.Util M.UtilProofs M.MemStorage M.MemStorageProofs
  M.RaftLog M.RaftLogProofs M.RaftLogProofsOps.

Local Open Scope N_scope.

Ltac splits := repeat match goal with |- _ /\ _ => split end.

(* ================================================================== *)
(* store.append(unstable entries)                                      *)
(* ================================================================== *)
Lemma contig_head : forall f e t, contiguous_from f (e :: t) -> e_index e = f.
Proof. intros f e t [H _]. exact H. Qed.

Theorem store_append_unstable_ok : forall rw l,
    RepInv rw l -> u_snapshot (unst l) = None ->
    exists st', append (store l) (u_entries (unst l)) = Ok st'
      /\ RepInv rw (set_store l st') /\ abs (set_store l st') = abs l
      /\ first_of st' = first_of (store l)
      /\ skipn (N.to_nat (u_offset (unst l) - first_of st')) (entries st') = u_entries (unst l)
      /\ next_of st' = u_offset (unst l) + N.of_nat (length (u_entries (unst l))).
Proof.
  intros rw l H Hn. pose proof (ll_last_upper rw l H) as Hup.
  pose proof H as H0. destruct H0 as [Hs Hq Hct Hsh Hp Hcm Hap Hb]. rewrite Hn in Hsh.
  destruct Hsh as (Hr & He & Hfc). pose proof (first_pos _ Hs) as Hfp.
  pose proof (stable_part_length l Hr) as Hlen. unfold stable_part in Hlen.
  destruct (u_entries (unst l)) as [|e0 t] eqn:Eu.
  - exists (store l). specialize (He eq_refl).
    replace (set_store l (store l)) with l by (destruct l; reflexivity).
    splits; auto.
    + apply skipn_all2. unfold next_of in He. lia.
    + cbn [length]. lia.
  - pose proof (contig_head _ _ _ Hct) as Hi0.
    destruct (append_ok (store l) e0 t Hs ltac:(rewrite Hi0; exact Hct) ltac:(lia)
                ltac:(cbn [length] in *; lia)) as (Ha & Hs' & Hf').
    rewrite Hi0 in *.
    set (st' := set_entries (store l)
                  (firstn (N.to_nat (u_offset (unst l) - first_of (store l))) (entries (store l)) ++ e0 :: t)) in *.
    exists st'. split; [exact Ha|].
    assert (Hnext : next_of st' = u_offset (unst l) + N.of_nat (length (e0 :: t))).
    { unfold next_of. rewrite Hf'. subst st'. cbn [entries set_entries]. rewrite app_length, Hlen. lia. }
    assert (Habs : abs (set_store l st') = abs l).
    { unfold abs, stable_part. cbn [set_store store unst]. rewrite Hn, Hf', Eu.
      f_equal.
      - unfold store_bterm. rewrite Hf'. reflexivity.
      - f_equal. subst st'. cbn [entries set_entries].
        rewrite firstn_app, Hlen, Nat.sub_diag. cbn [firstn]. rewrite app_nil_r.
        rewrite firstn_firstn. f_equal. lia. }
    splits; auto.
    + constructor; rewrite ?Habs; cbn [set_store store unst committed persisted applied]; rewrite ?Eu; auto.
      * rewrite Hn, Hf', Hnext. splits; auto; [lia|lia|]. intros Hnil. discriminate.
      * rewrite Hnext. cbn [length]. lia.
    + rewrite Hf'. subst st'. cbn [entries set_entries].
      rewrite skipn_app, Hlen, Nat.sub_diag. cbn [skipn].
      rewrite skipn_all2 by lia. reflexivity.
Qed.

(* ================================================================== *)
(* stable_entries                                                      *)
(* ================================================================== *)
Lemma last_contig_index : forall l f d, contiguous_from f l -> l <> [] ->
    e_index (List.last l d) = f + N.of_nat (length l) - 1.
Proof.
  induction l as [|a t IH]; intros f d Hc Hne; [congruence|].
  destruct Hc as [Ha Ht]. destruct t as [|b t'].
  - cbn. lia.
  - change (List.last (a :: b :: t') d) with (List.last (b :: t') d).
    rewrite (IH (f + 1) d Ht ltac:(discriminate)). cbn [length]. lia.
Qed.

Theorem stable_entries_ok : forall rw l,
    RepInv rw l -> u_snapshot (unst l) = None -> u_entries (unst l) <> [] ->
    (* the application has written the unstable entries to the storage *)
    skipn (N.to_nat (u_offset (unst l) - first_of (store l))) (entries (store l)) = u_entries (unst l) ->
    let e := List.last (u_entries (unst l)) (mkEntry 0 0 0 [] []) in
    e_index e = ll_last (abs l)
    /\ exists l', stable_entries l (e_index e) (e_term e) = Ok l'
      /\ RepInv rw l' /\ abs l' = abs l
      /\ u_entries (unst l') = [] /\ u_offset (unst l') = ll_last (abs l) + 1
      /\ u_snapshot (unst l') = None /\ store l' = store l
      /\ committed l' = committed l /\ persisted l' = persisted l /\ applied l' = applied l.
Proof.
  intros rw l H Hn Hne Hw e. pose proof (ll_last_upper rw l H) as Hup.
  pose proof H as H0. destruct H0 as [Hs Hq Hct Hsh Hp Hcm Hap Hb]. rewrite Hn in Hsh.
  destruct Hsh as (Hr & He & Hfc). pose proof (first_pos _ Hs) as Hfp.
  pose proof (stable_part_length l Hr) as Hlen.
  assert (Hei : e_index e = ll_last (abs l)).
  { subst e. rewrite (last_contig_index _ _ _ Hct Hne). lia. }
  split; [exact Hei|].
  unfold stable_entries, u_stable_entries. rewrite Hn.
  assert (Hmt : forall (A : Type) (a b : A),
             match u_entries (unst l) with [] => a | _ :: _ => b end = b).
  { intros. destruct (u_entries (unst l)); [congruence|reflexivity]. }
  rewrite Hmt. cbv zeta. fold e.
  rewrite !N.eqb_refl. cbn [negb orb bind].
  eexists. split; [reflexivity|].
  assert (Hes : entries (store l) = stable_part l ++ u_entries (unst l)).
  { unfold stable_part. rewrite <- Hw. symmetry. apply firstn_skipn. }
  assert (Hnx : next_of (store l) = ll_last (abs l) + 1).
  { unfold next_of. rewrite Hes, app_length, Hlen. lia. }
  assert (Habs : abs (set_unst l (mkUn None [] 0 (e_index e + 1))) = abs l).
  { unfold abs at 1. unfold stable_part. cbn [set_unst store unst u_snapshot u_entries u_offset].
    rewrite app_nil_r. unfold abs. rewrite Hn. f_equal. rewrite <- Hes.
    apply firstn_all2. rewrite Hei. unfold next_of in Hnx. lia. }
  splits; auto; cbn [set_unst unst u_offset]; [|lia].
  constructor; rewrite ?Habs; cbn [set_unst store unst u_snapshot u_entries u_offset committed persisted applied]; auto.
  - exact I.
  - splits; auto; lia.
  - destruct Hp. split; lia.
Qed.

Theorem stable_entries_panics : forall l i t,
    (u_snapshot (unst l) <> None -> stable_entries l i t = Panic site_u_stable_entries_snap)
    /\ (u_snapshot (unst l) = None -> u_entries (unst l) = [] ->
        stable_entries l i t = Panic site_u_stable_entries_empty)
    /\ (u_snapshot (unst l) = None -> u_entries (unst l) <> [] ->
        let e := List.last (u_entries (unst l)) (mkEntry 0 0 0 [] []) in
        e_index e <> i \/ e_term e <> t ->
        stable_entries l i t = Panic site_u_stable_entries_mismatch).
Proof.
  intros l i t. unfold stable_entries, u_stable_entries. splits.
  - intros Hs. destruct (u_snapshot (unst l)); [reflexivity|congruence].
  - intros Hs He. rewrite Hs, He. reflexivity.
  - intros Hs He Hm. rewrite Hs. destruct (u_entries (unst l)) as [|x xs] eqn:Eu; [congruence|].
    cbv zeta in *. set (e := List.last (x :: xs) (mkEntry 0 0 0 [] [])) in *. destruct (negb (e_index e =? i) || negb (e_term e =? t)) eqn:E; [reflexivity|].
    apply Bool.orb_false_iff in E. destruct E as [E1 E2].
    apply Bool.negb_false_iff in E1, E2. lia.
Qed.

(* the whole "persist the Ready's entries" step is the identity on the logical log *)
Theorem persist_entries_identity : forall rw l,
    RepInv rw l -> u_snapshot (unst l) = None -> u_entries (unst l) <> [] ->
    exists st' l',
      append (store l) (u_entries (unst l)) = Ok st'
      /\ (let e := List.last (u_entries (unst l)) (mkEntry 0 0 0 [] []) in
          stable_entries (set_store l st') (e_index e) (e_term e) = Ok l')
      /\ RepInv rw l' /\ abs l' = abs l /\ u_entries (unst l') = []
      /\ committed l' = committed l /\ persisted l' = persisted l /\ applied l' = applied l.
Proof.
  intros rw l H Hn Hne.
  destruct (store_append_unstable_ok rw l H Hn) as (st' & Ha & Hr & Habs & Hf & Hsk & Hnx).
  destruct (stable_entries_ok rw (set_store l st') Hr Hn Hne Hsk)
    as (Hei & l' & Hst & Hr' & Habs' & Hnil & _ & _ & _ & Hc & Hp & Hap).
  exists st', l'. splits; auto. congruence.
Qed.

(* ================================================================== *)
(* pending snapshot: apply to the storage, then stable_snap             *)
(* ================================================================== *)
Theorem store_apply_snapshot_ok : forall rw l s,
    RepInv rw l -> u_snapshot (unst l) = Some s -> first_of (store l) <= s_index s ->
    let st' := apply_snapshot_result (store l) s in
    apply_snapshot (store l) s = Ok (st', SOk tt)
    /\ RepInv rw (set_store l st') /\ abs (set_store l st') = abs l
    /\ snap_index st' = s_index s /\ snap_term st' = s_term s
    /\ first_of st' = s_index s + 1 /\ entries st' = [].
Proof.
  intros rw l s H Hsn Hf st'.
  pose proof H as H0. destruct H0 as [Hs Hq Hct Hsh Hp Hcm Hap Hb]. rewrite Hsn in Hsh.
  destruct Hsh as [Ho Hsc].
  assert (Hsb : s_index s < u64_max).
  { unfold abs, ll_last in Hb. rewrite Hsn in Hb. cbn [ll_base] in Hb. lia. }
  destruct (apply_snapshot_ok (store l) s Hs Hf Hsb) as [Ha Hs'].
  assert (Habs : abs (set_store l st') = abs l).
  { unfold abs. cbn [set_store unst]. rewrite Hsn. reflexivity. }
  splits; auto.
  constructor; rewrite ?Habs; cbn [set_store store unst committed persisted applied]; auto.
  - rewrite Hsn. split; auto.
  - destruct Hp as [Hp1 Hp2]. split; [exact Hp1|]. unfold next_of, first_of. cbn. lia.
Qed.

Theorem stable_snap_ok : forall rw l s,
    RepInv rw l -> u_snapshot (unst l) = Some s ->
    (* the application has applied the snapshot to the storage *)
    snap_index (store l) = s_index s -> snap_term (store l) = s_term s ->
    first_of (store l) = s_index s + 1 ->
    (u_entries (unst l) = [] -> entries (store l) = []) ->
    exists l', stable_snap l (s_index s) = Ok l' /\ RepInv rw l' /\ abs l' = abs l
      /\ u_snapshot (unst l') = None /\ u_entries (unst l') = u_entries (unst l)
      /\ u_offset (unst l') = u_offset (unst l) /\ store l' = store l
      /\ committed l' = committed l /\ persisted l' = persisted l /\ applied l' = applied l.
Proof.
  intros rw l s H Hsn Hsi Hst Hf Hemp.
  pose proof H as H0. destruct H0 as [Hs Hq Hct Hsh Hp Hcm Hap Hb]. rewrite Hsn in Hsh.
  destruct Hsh as [Ho Hsc].
  unfold stable_snap, u_stable_snap. rewrite Hsn, N.eqb_refl. cbn [negb bind].
  eexists. split; [reflexivity|].
  assert (Habs : abs (set_unst l (mkUn None (u_entries (unst l)) (u_entries_size (unst l)) (u_offset (unst l)))) = abs l).
  { unfold abs, stable_part. cbn [set_unst store unst u_snapshot u_entries u_offset]. rewrite Hsn.
    unfold store_bterm. rewrite Hf, Hsi, Hst, Ho.
    replace (s_index s + 1 - 1) with (s_index s) by lia. rewrite N.eqb_refl.
    replace (N.to_nat (s_index s + 1 - (s_index s + 1))) with O by lia. reflexivity. }
  splits; auto.
  constructor; rewrite ?Habs; cbn [set_unst store unst u_snapshot u_entries u_offset committed persisted applied]; auto.
  pose proof (first_le_next (store l)). splits; try lia.
  intros Hnil. rewrite (entries_nil_next _ (Hemp Hnil)). lia.
Qed.

Theorem stable_snap_panics : forall l i,
    (u_snapshot (unst l) = None -> stable_snap l i = Panic site_u_stable_snap_none)
    /\ (forall s, u_snapshot (unst l) = Some s -> s_index s <> i ->
        stable_snap l i = Panic site_u_stable_snap_mismatch).
Proof.
  intros l i. unfold stable_snap, u_stable_snap. split.
  - intros H. rewrite H. reflexivity.
  - intros s H Hne. rewrite H. destruct (s_index s =? i) eqn:E; [lia|reflexivity].
Qed.

(* ================================================================== *)
(* storage compaction up to applied                                    *)
(* ================================================================== *)
Theorem store_compact_ok : forall l ci,
    RepInv false l -> u_snapshot (unst l) = None ->
    first_of (store l) < ci -> ci <= applied l ->
    ci <= u_offset (unst l) -> ci < next_of (store l) ->
    exists st', compact (store l) ci = Ok st'
      /\ RepInv false (set_store l st')
      /\ abs (set_store l st')
         = mkLL (ci - 1) None (skipn (N.to_nat (ci - first_of (store l))) (ll_ents (abs l)))
      /\ first_of st' = ci.
Proof.
  intros l ci H Hn Hfc Hca Hco Hcn.
  pose proof H as H0. destruct H0 as [Hs Hq Hct Hsh Hp Hcm Hap Hb]. rewrite Hn in Hsh.
  destruct Hsh as (Hr & He & Hfcm). pose proof (first_pos _ Hs) as Hfp.
  specialize (Hap eq_refl).
  pose proof (stable_part_length l Hr) as Hlen.
  destruct (compact_ok (store l) ci Hs Hfc Hcn) as (Hc & Hs' & Hf').
  set (st' := set_entries (store l) (skipn (N.to_nat (ci - first_of (store l))) (entries (store l)))) in *.
  exists st'. split; [exact Hc|].
  assert (Hnx : next_of st' = next_of (store l)).
  { unfold next_of at 1. rewrite Hf'. subst st'. cbn [entries set_entries]. rewrite skipn_length.
    unfold next_of in *. lia. }
  assert (Hsnap : snap_index st' = snap_index (store l)) by reflexivity.
  assert (Habs : abs (set_store l st')
                 = mkLL (ci - 1) None (skipn (N.to_nat (ci - first_of (store l))) (ll_ents (abs l)))).
  { unfold abs, stable_part. cbn [set_store store unst]. rewrite Hn, Hf'. cbn [ll_ents]. f_equal.
    - unfold store_bterm. rewrite Hf', Hsnap. destruct Hs as (_ & Hsn & _).
      destruct (ci - 1 =? snap_index (store l)) eqn:E; [lia|reflexivity].
    - rewrite skipn_app. fold (stable_part l). rewrite Hlen.
      replace (N.to_nat (ci - first_of (store l)) - N.to_nat (u_offset (unst l) - first_of (store l)))%nat
        with O by lia.
      cbn [skipn]. f_equal. subst st'. cbn [entries set_entries]. unfold stable_part.
      rewrite firstn_skipn_comm. f_equal. f_equal. lia. }
  split; [|split; [exact Habs|exact Hf']].
  assert (Hll : ll_last (abs (set_store l st')) = ll_last (abs l)).
  { rewrite Habs. unfold ll_last. cbn [ll_base ll_ents]. rewrite skipn_length.
    unfold abs. rewrite Hn. cbn [ll_base ll_ents]. rewrite app_length, Hlen. lia. }
  constructor; rewrite ?Hll; cbn [set_store store unst committed persisted applied]; auto.
  - rewrite Hn, Hf', Hnx. splits; auto; lia.
  - rewrite Hnx. exact Hp.
Qed.

Theorem store_compact_noop : forall rw l ci,
    RepInv rw l -> ci <= first_of (store l) -> compact (store l) ci = Ok (store l).
Proof. intros rw l ci H Hc. apply compact_noop; [exact (ri_store rw l H)|exact Hc]. Qed.

(* ================================================================== *)
(* persistence notices                                                 *)
(* ================================================================== *)
Theorem maybe_persist_ok : forall rw l i t,
    RepInv rw l ->
    exists l' b, maybe_persist l i t = Ok (l', b) /\ RepInv rw l' /\ abs l' = abs l
      /\ committed l' = committed l /\ applied l' = applied l /\ store l' = store l
      /\ (b = false -> l' = l)
      /\ (b = true -> persisted l' = i /\ persisted l < i /\ i < u_offset (unst l)
                      /\ i < next_of (store l) /\ storage_term (store l) i = Ok (SOk t)).
Proof.
  intros rw l i t H. pose proof H as H0. destruct H0 as [Hs Hq Hct Hsh Hp Hcm Hap Hb].
  unfold maybe_persist.
  set (fu := match u_snapshot (unst l) with Some s => s_index s | None => u_offset (unst l) end).
  assert (Hfu : fu <= u_offset (unst l)).
  { subst fu. destruct (u_snapshot (unst l)); [destruct Hsh; lia|lia]. }
  destruct ((persisted l <? i) && (i <? fu)) eqn:E.
  - rewrite (term_spec _ i Hs). cbn [bind].
    set (r := if i =? snap_index (store l) then SOk (snap_term (store l))
              else if i <? first_of (store l) then SErr Compacted
                   else match entry_at (store l) i with Some e => SOk (e_term e) | None => SErr Unavailable end) in *.
    destruct (term_ok_eq r t) eqn:Et.
    + assert (Hr : r = SOk t).
      { destruct r as [t'|e]; cbn in Et; [f_equal; lia|discriminate]. }
      assert (Hin : i < next_of (store l)).
      { subst r. pose proof (first_le_next (store l)). destruct Hs as (_ & Hsn & _).
        destruct (i =? snap_index (store l)) eqn:E1; [lia|].
        destruct (i <? first_of (store l)) eqn:E2; [discriminate|].
        destruct (entry_at (store l) i) eqn:Ea; [|discriminate].
        assert (Hx : exists e, entry_at (store l) i = Some e) by eauto.
        apply entry_at_some_iff in Hx. lia. }
      exists (set_persisted l i), true. splits; auto.
      * apply RepInv_set_persisted; auto; lia.
      * intros; discriminate.
      * intros _. split; [reflexivity|]. split; [lia|]. split; [lia|]. split; [exact Hin|].
        rewrite Hr. reflexivity.
    + exists l, false. splits; auto. intros; discriminate.
  - exists l, false. splits; auto. intros; discriminate.
Qed.

(* persisted_sound, invariant part: persisted never exceeds the storage's last index *)
Theorem persisted_le_storage_last : forall rw l,
    RepInv rw l -> persisted l <= storage_last_index (store l).
Proof.
  intros rw l H. rewrite (storage_last_next _ (ri_store rw l H)).
  destruct (ri_persisted rw l H). lia.
Qed.

(* below the offset (and with no pending snapshot) the logical entry IS the
   storage's entry, so whatever index persisted points to has matching terms *)
Theorem persisted_entry_is_stored : forall rw l,
    RepInv rw l -> u_snapshot (unst l) = None -> first_of (store l) <= persisted l ->
    ll_get (abs l) (persisted l) = entry_at (store l) (persisted l).
Proof.
  intros rw l H Hn Hf. apply (abs_get_stable rw); auto. destruct (ri_persisted rw l H). lia.
Qed.

(* when maybe_persist raises persisted, the acknowledged term is the logical term *)
Theorem maybe_persist_term_matches : forall rw l i t l',
    RepInv rw l -> u_snapshot (unst l) = None ->
    maybe_persist l i t = Ok (l', true) -> ll_base (abs l) <= i ->
    ll_term (abs l) i = SOk t.
Proof.
  intros rw l i t l' H Hn Hm Hbi.
  destruct (maybe_persist_ok rw l i t H) as (l2 & b & Hm2 & _ & _ & _ & _ & _ & _ & Ht).
  rewrite Hm in Hm2. inversion Hm2; subst l2 b. destruct (Ht eq_refl) as (_ & _ & Hio & Hin & Hst).
  pose proof (term_abs rw l i H) as Hta. unfold term in Hta.
  rewrite (abs_base_first rw l H) in Hta. cbn [bind] in Hta. unfold ll_first in Hta.
  destruct (ll_base (abs l) + 1 =? 0) eqn:E0; [lia|].
  pose proof (ll_last_upper rw l H) as Hup.
  rewrite (abs_last rw l H) in Hta.
  destruct ((i <? ll_base (abs l) + 1 - 1) || (ll_last (abs l) <? i)) eqn:E1; [lia|].
  unfold u_maybe_term in Hta. destruct (i <? u_offset (unst l)) eqn:E2; [|lia].
  rewrite Hn in Hta. cbn [bind] in Hta. rewrite Hst in Hta. inversion Hta. reflexivity.
Qed.

Theorem maybe_persist_snap_ok : forall rw l i,
    RepInv rw l -> persisted l < i -> i <= committed l -> i < u_offset (unst l) ->
    (* the snapshot has reached the storage *)
    i < next_of (store l) ->
    maybe_persist_snap l i = Ok (set_persisted l i, true)
    /\ RepInv rw (set_persisted l i) /\ abs (set_persisted l i) = abs l.
Proof.
  intros rw l i H Hp Hc Ho Hn. unfold maybe_persist_snap.
  destruct (persisted l <? i) eqn:E; [|lia].
  destruct (committed l <? i) eqn:E1; [lia|].
  destruct (u_offset (unst l) <=? i) eqn:E2; [lia|].
  splits; auto. apply RepInv_set_persisted; auto.
Qed.

Theorem maybe_persist_snap_cases : forall l i,
    (i <= persisted l -> maybe_persist_snap l i = Ok (l, false))
    /\ (persisted l < i -> committed l < i -> maybe_persist_snap l i = Panic site_l_persist_snap_commit)
    /\ (persisted l < i -> i <= committed l -> u_offset (unst l) <= i ->
        maybe_persist_snap l i = Panic site_l_persist_snap_offset).
Proof.
  intros l i. unfold maybe_persist_snap. splits; intros.
  - destruct (persisted l <? i) eqn:E; [lia|reflexivity].
  - destruct (persisted l <? i) eqn:E; [|lia]. destruct (committed l <? i) eqn:E1; [reflexivity|lia].
  - destruct (persisted l <? i) eqn:E; [|lia]. destruct (committed l <? i) eqn:E1; [lia|].
    destruct (u_offset (unst l) <=? i) eqn:E2; [reflexivity|lia].
Qed.

(* ================================================================== *)
(* committed_immutable                                                 *)
(* ================================================================== *)
(* every entry at an index <= c that the new log still holds is unchanged *)
Definition preserves_upto (c : N) (L L' : LL) : Prop :=
  forall i, i <= c -> ll_base L' < i -> ll_get L' i = ll_get L i.

Lemma preserves_refl : forall c L L', L' = L -> preserves_upto c L L'.
Proof. intros c L L' ->. intros i _ _. reflexivity. Qed.

Theorem committed_immutable_append : forall rw l e0 t l' r,
    RepInv rw l -> e_index e0 <= ll_last (abs l) + 1 ->
    contiguous_from (e_index e0) (e0 :: t) -> persisted l < e_index e0 ->
    e_index e0 + N.of_nat (length (e0 :: t)) <= u64_max ->
    log_append l (e0 :: t) = Ok (l', r) ->
    preserves_upto (committed l) (abs l) (abs l').
Proof.
  intros rw l e0 t l' r H Hs Hc Hp Hb Ha.
  assert (Hcm : committed l < e_index e0).
  { destruct (N.lt_ge_cases (committed l) (e_index e0)) as [Hlt|Hge]; [exact Hlt|]. exfalso.
    destruct (N.eq_dec (e_index e0) 0) as [Hz|Hz].
    - unfold log_append in Ha. rewrite Hz in Ha. cbn in Ha. discriminate.
    - assert (Hf : log_append l (e0 :: t) = Panic site_l_append_range) by (apply log_append_fatal_iff; lia).
      rewrite Hf in Ha. discriminate. }
  destruct (log_append_ok rw l e0 t H Hc Hcm Hs Hp Hb) as (l2 & Ha2 & _ & Habs & _).
  rewrite Ha in Ha2. inversion Ha2; subst l2.
  intros i Hi _. rewrite Habs. apply ll_get_append_below; [lia|exact Hs].
Qed.

Theorem committed_immutable_maybe_append : forall rw l i t cmt ents l' r,
    RepInv rw l -> contiguous_from (i + 1) ents -> nz_terms ents ->
    (i <= ll_last (abs l) \/ t <> 0) -> i + N.of_nat (length ents) < u64_max ->
    maybe_append l i t cmt ents = Ok (l', r) ->
    preserves_upto (committed l) (abs l) (abs l').
Proof.
  intros rw l i t cmt ents l' r H Hc Hnz Hit Hb Hm.
  destruct (ll_match (abs l) i t) eqn:Em.
  - remember (ll_find_conflict (abs l) ents) as ci eqn:Eci.
    assert (Hci : ci = 0 \/ committed l < ci).
    { destruct (N.eq_dec ci 0) as [Hz|Hz]; [left; exact Hz|]. right.
      destruct (N.lt_ge_cases (committed l) ci) as [Hlt|Hge]; [exact Hlt|]. exfalso.
      rewrite (maybe_append_fatal rw l i t cmt ents H Em) in Hm; [discriminate|]. subst ci. lia. }
    destruct (maybe_append_ok rw l i t cmt ents H Hc Hnz Hit Hb Em ltac:(rewrite <- Eci; exact Hci)) as (l2 & Hm2 & _ & Habs & _).
    rewrite Hm in Hm2. inversion Hm2; subst l2. rewrite Habs. unfold ll_maybe_append. rewrite <- Eci.
    destruct (ci =? 0) eqn:E0; [apply preserves_refl; reflexivity|].
    destruct Hci as [Hci|Hci]; [lia|].
    assert (Hil : i <= ll_last (abs l)).
    { destruct Hit as [Hit|Hit]; [exact Hit|]. apply (ll_match_in_range _ _ _ Em Hit). }
    destruct (find_conflict_props (abs l) ents (i + 1) Hc Hnz ltac:(lia) ltac:(lia))
      as [[H0 _]|(_ & _ & _ & H3 & e & rr & Hsk & Hi)]; rewrite <- Eci in *; [lia|].
    rewrite Hsk. intros j Hj _. apply ll_get_append_below; lia.
  - rewrite (maybe_append_reject rw l i t cmt ents H Em) in Hm. inversion Hm; subst.
    apply preserves_refl; reflexivity.
Qed.

Theorem committed_immutable_restore : forall rw l s l',
    RepInv rw l -> s_index s < u64_max -> log_restore l s = Ok l' ->
    preserves_upto (committed l) (abs l) (abs l').
Proof.
  intros rw l s l' H Hb Hr.
  assert (Hc : committed l <= s_index s).
  { destruct (N.le_gt_cases (committed l) (s_index s)) as [Hle|Hgt]; [exact Hle|]. exfalso.
    rewrite (proj2 (log_restore_panics_iff l s) Hgt) in Hr. discriminate. }
  destruct (log_restore_ok rw l s H Hc Hb) as (l2 & Hr2 & _ & Habs & _).
  rewrite Hr in Hr2. inversion Hr2; subst l2. rewrite Habs.
  intros i Hi Hbi. cbn [ll_base] in Hbi. lia.
Qed.

Theorem committed_immutable_compact : forall l ci st',
    RepInv false l -> u_snapshot (unst l) = None ->
    first_of (store l) < ci -> ci <= applied l -> ci <= u_offset (unst l) -> ci < next_of (store l) ->
    compact (store l) ci = Ok st' ->
    preserves_upto (committed l) (abs l) (abs (set_store l st')).
Proof.
  intros l ci st' H Hn Hf Ha Ho Hnx Hc.
  destruct (store_compact_ok l ci H Hn Hf Ha Ho Hnx) as (st2 & Hc2 & _ & Habs & _).
  rewrite Hc in Hc2. inversion Hc2; subst st2. rewrite Habs.
  intros i Hi Hbi. cbn [ll_base] in Hbi. unfold ll_get. cbn [ll_base ll_ents].
  pose proof (first_pos _ (ri_store _ l H)) as Hfp.
  assert (Hbase : ll_base (abs l) = first_of (store l) - 1) by (unfold abs; rewrite Hn; reflexivity).
  rewrite Hbase.
  destruct (i <=? ci - 1) eqn:E1; [lia|]. destruct (i <=? first_of (store l) - 1) eqn:E2; [lia|].
  rewrite nth_error_skipn'. f_equal. lia.
Qed.

(* ================================================================== *)
(* refuted variants (concrete witnesses)                               *)
(* ================================================================== *)
Definition ex_ent (i t : N) : entry := mkEntry 0 t i [] [].
Definition ex_store2 : mem := set_entries MemStorage.new [ex_ent 1 1; ex_ent 2 1].

Lemma ex_store2_inv : SInv ex_store2.
Proof. unfold MemStorageProofs.RepInv, next_of, first_of, ex_store2, u64_max. cbn. repeat split; lia. Qed.

(* A raw truncating [append] at or below [persisted] does not lower [persisted]
   (only maybe_append does): "persisted < unstable.offset" and "the storage holds
   the persisted index with a matching term" both fail afterwards. *)
Theorem log_append_keeps_persisted_refuted :
  exists l l' r, log_new ex_store2 0 = Ok l /\ RepInv false l
    /\ log_append l [ex_ent 2 2] = Ok (l', r)
    /\ persisted l' = 2 /\ u_offset (unst l') = 2
    /\ ll_term (abs l') 2 = SOk 2 /\ storage_term (store l') 2 = Ok (SOk 1).
Proof.
  destruct (log_new_ok ex_store2 0 ex_store2_inv eq_refl) as (l & Hl & Hr & _).
  vm_compute in Hl. inversion Hl; subst l.
  eexists. eexists. eexists. split; [reflexivity|]. split; [exact Hr|].
  vm_compute. repeat split; reflexivity.
Qed.

(* maybe_persist_snap trusts its caller: before the snapshot has been applied to
   the storage it moves persisted beyond the storage's last index *)
Theorem maybe_persist_snap_unsound_refuted :
  exists l l1 l2, log_new MemStorage.new 0 = Ok l /\ RepInv false l
    /\ log_restore l (mkSnap 5 1 cs_default) = Ok l1 /\ RepInv false l1
    /\ maybe_persist_snap l1 5 = Ok (l2, true)
    /\ persisted l2 = 5 /\ storage_last_index (store l2) = 0.
Proof.
  destruct (log_new_ok MemStorage.new 0 new_RepInv eq_refl) as (l & Hl & Hr & _ & Hc & _).
  destruct (log_restore_ok false l (mkSnap 5 1 cs_default) Hr) as (l1 & Hl1 & Hr1 & _).
  { rewrite Hc. vm_compute. discriminate. }
  { vm_compute. reflexivity. }
  exists l, l1. vm_compute in Hl. inversion Hl; subst l. vm_compute in Hl1. inversion Hl1; subst l1.
  eexists. split; [reflexivity|]. split; [exact Hr|]. split; [reflexivity|]. split; [exact Hr1|].
  vm_compute. repeat split; reflexivity.
Qed.

(* stable_entries before the storage write (the async-ready order): the entry
   vanishes from the logical log (last_index falls back to the storage's) until
   the write lands *)
Theorem stable_before_write_refuted :
  exists l l1 r l2, log_new MemStorage.new 0 = Ok l
    /\ log_append l [ex_ent 1 1] = Ok (l1, r)
    /\ stable_entries l1 1 1 = Ok l2
    /\ last_index l1 = 1 /\ term l1 1 = Ok (SOk 1)
    /\ last_index l2 = 0 /\ term l2 1 = Ok (SOk 0).
Proof.
  eexists. eexists. eexists. eexists. vm_compute. repeat split; reflexivity.
Qed.
