(* C10 — progress after stabilisation: the deterministic "no permanent stall"
   mechanisms of the node model M/Raft.v (with M/Progress.v, M/Inflights.v,
   M/RaftLog.v), per step, for every state and every input.  The models are
   taken as given (no model file is edited).  What is and is not proved is
   listed in the header of Props/C10.v. *)
From RV Require Import Base.Prelude Base.IdSet Base.IdSetProofs M.Util M.UtilProofs M.Proto
  M.MemStorage M.MemStorageProofs M.Inflights M.InflightsProofs M.Progress M.RaftLog
  M.RaftLogProofs M.RaftLogProofsOps M.RaftLogProofsSlice M.Quorum M.ConfChange M.Msg M.Raft
  M.RaftProofs M.RaftProofsC15 M.RaftProofsC09.
From RV Require M.QuorumProofs.
From RecordUpdate Require Import RecordSet.
Import RecordSetNotations.

Local Open Scope N_scope.

(* ================================================================== *)
(* 0. frames                                                           *)
(* ================================================================== *)

(* nothing but the outbound queue differs *)
Definition msgs_only (r r' : raft) : Prop := r' = r <| r_msgs := r_msgs r' |>.

Lemma msgs_only_refl r : msgs_only r r.
Proof. destruct r; reflexivity. Qed.

Lemma msgs_only_trans a b c : msgs_only a b -> msgs_only b c -> msgs_only a c.
Proof.
  unfold msgs_only. intros H1 H2. rewrite H2. rewrite H1 at 1. destruct a; reflexivity.
Qed.

Lemma msgs_only_set r ms : msgs_only r (r <| r_msgs := ms |>).
Proof. destruct r; reflexivity. Qed.

Lemma send_msgs_only r m r' : send r m = Ok r' -> msgs_only r r'.
Proof. unfold send. intros H. inv_bind H. inversion H; subst. apply msgs_only_set. Qed.

Lemma msgs_only_prs r r' : msgs_only r r' -> r_prs r' = r_prs r.
Proof. intros ->. reflexivity. Qed.
Lemma msgs_only_log r r' : msgs_only r r' -> r_log r' = r_log r.
Proof. intros ->. reflexivity. Qed.

(* nothing but the outbound queue and the read-only bookkeeping differs *)
Definition ro_only (r r' : raft) : Prop :=
  r' = r <| r_read_only := r_read_only r' |> <| r_read_states := r_read_states r' |>
         <| r_msgs := r_msgs r' |>.

Lemma ro_only_refl r : ro_only r r.
Proof. destruct r; reflexivity. Qed.

Lemma ro_only_trans a b c : ro_only a b -> ro_only b c -> ro_only a c.
Proof.
  unfold ro_only. intros H1 H2. rewrite H2. rewrite H1 at 1. destruct a; reflexivity.
Qed.

Lemma msgs_only_ro_only r r' : msgs_only r r' -> ro_only r r'.
Proof. unfold msgs_only, ro_only. intros H. rewrite H. destruct r; reflexivity. Qed.

Lemma ro_only_prs r r' : ro_only r r' -> r_prs r' = r_prs r.
Proof. intros ->. reflexivity. Qed.
Lemma ro_only_log r r' : ro_only r r' -> r_log r' = r_log r.
Proof. intros ->. reflexivity. Qed.

Lemma get_pr_put_same r id p : get_pr (put_pr r id p) id = Some p.
Proof. unfold get_pr, put_pr. cbn. apply pget_pput_same. Qed.

Lemma get_pr_put_other r id p id' : id' <> id -> get_pr (put_pr r id p) id' = get_pr r id'.
Proof. intros H. unfold get_pr, put_pr. cbn. apply pget_pput_other. exact H. Qed.

Lemma pput_pput m id p q : pput (pput m id p) id q = pput m id q.
Proof.
  induction m as [|[k x] tl IH]; cbn [pput].
  - rewrite N.ltb_irrefl, N.eqb_refl. reflexivity.
  - destruct (id <? k) eqn:E1; cbn [pput].
    + rewrite N.ltb_irrefl, N.eqb_refl. reflexivity.
    + destruct (id =? k) eqn:E2; cbn [pput].
      * rewrite N.ltb_irrefl, N.eqb_refl. reflexivity.
      * rewrite E1, E2. f_equal. exact IH.
Qed.

Lemma put_pr_put_pr r id p q : put_pr (put_pr r id p) id q = put_pr r id q.
Proof. unfold put_pr. cbn. rewrite pput_pput. destruct r; reflexivity. Qed.

Lemma get_pr_prs r r' id : r_prs r' = r_prs r -> get_pr r' id = get_pr r id.
Proof. unfold get_pr. intros ->. reflexivity. Qed.

(* ================================================================== *)
(* 0b. maybe_send_append: what it can do                               *)
(* ================================================================== *)

Lemma update_state_matched p last p' : update_state p last = Ok p' ->
  matched p' = matched p /\ pr_state p' = pr_state p /\ recent_active p' = recent_active p /\
  pending_request_snapshot p' = pending_request_snapshot p.
Proof.
  unfold update_state. destruct (pr_state p) eqn:E; intros H.
  - inversion H; subst. cbn. auto.
  - inv_bind H. inversion H; subst. cbn. auto.
  - discriminate.
Qed.

Ltac nochg := repeat split; auto; try (intros; discriminate).

Lemma try_batching_facts r to : forall msgs pr ents msgs' pr' b,
  try_batching r to msgs pr ents = Ok (msgs', pr', b) ->
  matched pr' = matched pr /\ pr_state pr' = pr_state pr /\
  (b = false -> msgs' = msgs /\ pr' = pr) /\
  (b = true -> exists mm, In mm msgs' /\ m_to mm = to /\ m_type mm = MsgAppend /\
                          m_commit mm = committed (r_log r)).
Proof.
  induction msgs as [|m rest IH]; intros pr ents msgs' pr' b H; cbn [try_batching] in H.
  - inversion H; subst. nochg.
  - destruct ((m_type m =? MsgAppend) && (m_to m =? to)) eqn:E.
    + apply andb_prop in E. destruct E as [E1 E2]. apply N.eqb_eq in E1, E2.
      destruct ents as [|e0 et].
      * inversion H; subst. split; [reflexivity|]. split; [reflexivity|]. split; [discriminate|].
        intros _. eexists. split; [left; reflexivity|]. cbn. auto.
      * case_if H; [inversion H; subst; nochg|].
        inv_bind H. inversion H; subst. apply update_state_matched in Hx.
        destruct Hx as (A & B & _). split; [exact A|]. split; [exact B|]. split; [discriminate|].
        intros _. eexists. split; [left; reflexivity|]. cbn. auto.
    + inv_bind H. destruct x as [[rest' pr1] b1]. inversion H; subst.
      destruct (IH _ _ _ _ _ Hx) as (A & B & C0 & D).
      split; [exact A|]. split; [exact B|]. split.
      * intros Hb. destruct (C0 Hb) as [-> ->]. auto.
      * intros Hb. destruct (D Hb) as (mm & I1 & I2). exists mm. split; [right; exact I1|exact I2].
Qed.

(* the MsgAppend built by prepare_send_entries and stamped by send *)
Definition app_msg (r : raft) (to : N) (pr : progress) (t : N) (ents : list entry) : msg :=
  msg_default <| m_to := to |> <| m_type := MsgAppend |> <| m_index := next_idx pr - 1 |>
    <| m_log_term := t |> <| m_entries := ents |> <| m_commit := committed (r_log r) |>
    <| m_from := r_id r |> <| m_term := r_term r |>.

(* the MsgSnapshot built by prepare_send_snapshot and stamped by send *)
Definition snap_msg (r : raft) (to : N) (sn : snapshot) : msg :=
  msg_default <| m_to := to |> <| m_type := MsgSnapshot |> <| m_snapshot := sn |>
    <| m_from := r_id r |> <| m_term := r_term r |>.

Lemma become_snapshot_fields pr i :
  matched (become_snapshot pr i) = matched pr /\ pr_state (become_snapshot pr i) = Snapshot /\
  pending_snapshot (become_snapshot pr i) = i /\ next_idx (become_snapshot pr i) = next_idx pr.
Proof. cbn. auto. Qed.

Lemma prepare_send_entries_eq r m pr t ents :
  next_idx pr <> 0 ->
  prepare_send_entries r m pr t ents =
  (pr' <- match ents with
          | [] => Ok pr
          | _ => update_state pr (e_index (List.last ents entry_default))
          end ;;
   Ok (m <| m_type := MsgAppend |> <| m_index := next_idx pr - 1 |> <| m_log_term := t |>
         <| m_entries := ents |> <| m_commit := committed (r_log r) |>, pr')).
Proof.
  intros Hn. unfold prepare_send_entries. apply N.eqb_neq in Hn. rewrite Hn.
  destruct ents; reflexivity.
Qed.

(* general facts: only the queue changes; [matched] is never touched; a [false]
   answer means nothing happened; a [true] answer means a MsgAppend or
   MsgSnapshot for the peer is in the queue *)
Lemma maybe_send_append_facts r to pr ae r' pr' b :
  maybe_send_append r to pr ae = Ok (r', pr', b) ->
  msgs_only r r' /\ matched pr' = matched pr /\
  (b = false -> r' = r /\ pr' = pr) /\
  (b = true -> is_paused pr = false /\
     exists mm, In mm (r_msgs r') /\ m_to mm = to /\
                (m_type mm = MsgAppend \/ m_type mm = MsgSnapshot)).
Proof.
  unfold maybe_send_append. intros H.
  destruct (is_paused pr) eqn:Ep.
  { inversion H; subst. split; [apply msgs_only_refl|]. nochg. }
  assert (Hsnap :
    (x <- prepare_send_snapshot r (msg_default <| m_to := to |>) pr to ;;
     match x with
     | None => Ok (r, pr, false)
     | Some (m', pr1) => r1 <- send r m' ;; Ok (r1, pr1, true)
     end) = Ok (r', pr', b) ->
    msgs_only r r' /\ matched pr' = matched pr /\
    (b = false -> r' = r /\ pr' = pr) /\
    (b = true -> false = false /\
       exists mm, In mm (r_msgs r') /\ m_to mm = to /\
                  (m_type mm = MsgAppend \/ m_type mm = MsgSnapshot))).
  { intros H2. apply send_snapshot_branch in H2.
    destruct H2 as [(-> & -> & ->)|(-> & A & sn & B & C0 & -> & ->)].
    - split; [apply msgs_only_refl|]. nochg.
    - split; [apply msgs_only_set|]. split; [reflexivity|]. split; [discriminate|].
      intros _. split; [reflexivity|]. eexists. split.
      + cbn. apply in_or_app. right. left. reflexivity.
      + cbn. auto. }
  destruct (pending_request_snapshot pr =? INVALID_INDEX) eqn:Eq; cbn [negb] in H.
  2:{ apply Hsnap. exact H. }
  inv_bind H. rename x into ents.
  case_if H. { inversion H; subst. split; [apply msgs_only_refl|]. nochg. }
  case_if H; [discriminate|].
  inv_bind H. rename x into t.
  destruct t as [t|et]; destruct ents as [ents|ee].
  - inv_bind H. destruct x as [[msgs' pr1] batched].
    assert (Hb : matched pr1 = matched pr /\ pr_state pr1 = pr_state pr /\
                 (batched = false -> msgs' = r_msgs r /\ pr1 = pr) /\
                 (batched = true -> exists mm, In mm msgs' /\ m_to mm = to /\ m_type mm = MsgAppend /\
                                               m_commit mm = committed (r_log r))).
    { destruct (r_batch_append r).
      - eapply try_batching_facts; exact Hx1.
      - inversion Hx1; subst. nochg. }
    destruct Hb as (B1 & B2 & B3 & B4).
    destruct batched.
    + inversion H; subst. split; [apply msgs_only_set|]. split; [exact B1|]. split; [discriminate|].
      intros _. split; [reflexivity|]. destruct (B4 eq_refl) as (mm & I1 & I2 & I3 & _).
      exists mm. cbn. auto.
    + destruct (B3 eq_refl) as [-> ->].
      inv_bind H. destruct x as [m' pr2]. inv_bind H. inversion H; subst; clear H.
      rewrite prepare_send_entries_eq in Hx2 by (apply N.eqb_neq; exact E0).
      inv_bind Hx2. inversion Hx2; subst; clear Hx2.
      rewrite send_plain in Hx3 by reflexivity. inversion Hx3; subst; clear Hx3.
      split; [apply msgs_only_set|]. split.
      { match goal with
        | Hu : match ents with [] => _ | _ :: _ => _ end = Ok _ |- _ =>
            destruct ents; [inversion Hu; reflexivity|apply update_state_matched in Hu; apply Hu]
        end. }
      split; [discriminate|]. intros _. split; [reflexivity|].
      eexists. split; [cbn; apply in_or_app; right; left; reflexivity|]. cbn. auto.
  - destruct ee; try (apply Hsnap; exact H).
    inversion H; subst. split; [apply msgs_only_refl|]. nochg.
  - apply Hsnap. exact H.
  - destruct ee; try (apply Hsnap; exact H).
    inversion H; subst. split; [apply msgs_only_refl|]. nochg.
Qed.

Lemma maybe_send_append_paused r to pr ae :
  is_paused pr = true -> maybe_send_append r to pr ae = Ok (r, pr, false).
Proof. intros H. unfold maybe_send_append. rewrite H. reflexivity. Qed.

(* the entries path, without batching: the exact message and progress *)
Lemma maybe_send_append_entries r to pr ae ents t :
  is_paused pr = false -> pending_request_snapshot pr = 0 ->
  log_entries (r_log r) (next_idx pr) (Some (r_max_msg_size r)) = Ok (SOk ents) ->
  (ae = true \/ ents <> []) ->
  next_idx pr <> 0 ->
  RaftLog.term (r_log r) (next_idx pr - 1) = Ok (SOk t) ->
  r_batch_append r = false ->
  maybe_send_append r to pr ae =
  (pr' <- match ents with
          | [] => Ok pr
          | _ => update_state pr (e_index (List.last ents entry_default))
          end ;;
   Ok (r <| r_msgs := r_msgs r ++ [app_msg r to pr t ents] |>, pr', true)).
Proof.
  intros Hp Hq He Hae Hn Ht Hb. unfold maybe_send_append. rewrite Hp, Hq.
  change (0 =? INVALID_INDEX) with true. cbn [negb]. rewrite He. cbn [bind].
  assert (Hc : (negb ae && match ents with [] => true | _ :: _ => false end) = false).
  { destruct Hae as [->|Hne]; [reflexivity|]. destruct ents; [congruence|]. apply andb_false_r. }
  rewrite Hc. apply N.eqb_neq in Hn. rewrite Hn. rewrite Ht. cbn [bind]. rewrite Hb. cbn [bind].
  rewrite prepare_send_entries_eq by (apply N.eqb_neq; exact Hn).
  destruct (match ents with [] => Ok pr | _ :: _ => update_state pr (e_index (List.last ents entry_default)) end)
    as [pr'|s]; cbn [bind]; [|reflexivity].
  rewrite send_plain by reflexivity. reflexivity.
Qed.

(* the snapshot path: the needed entries or the probe term are not available *)
Lemma maybe_send_append_snapshot r to pr ae sn :
  is_paused pr = false ->
  (pending_request_snapshot pr <> 0 \/
   (exists e, log_entries (r_log r) (next_idx pr) (Some (r_max_msg_size r)) = Ok (SErr e) /\
              e <> LogTemporarilyUnavailable /\ ae = true /\ next_idx pr <> 0 /\
              exists x, RaftLog.term (r_log r) (next_idx pr - 1) = Ok x) \/
   (exists ents e, log_entries (r_log r) (next_idx pr) (Some (r_max_msg_size r)) = Ok (SOk ents) /\
              (ae = true \/ ents <> []) /\ next_idx pr <> 0 /\
              RaftLog.term (r_log r) (next_idx pr - 1) = Ok (SErr e))) ->
  recent_active pr = true ->
  raft_snapshot r (pending_request_snapshot pr) to = Ok (SOk sn) -> s_index sn <> 0 ->
  maybe_send_append r to pr ae =
  Ok (r <| r_msgs := r_msgs r ++ [snap_msg r to sn] |>, become_snapshot pr (s_index sn), true).
Proof.
  intros Hp Hwhy Hra Hsn Hnz. unfold maybe_send_append. rewrite Hp.
  assert (Hsnap :
    (x <- prepare_send_snapshot r (msg_default <| m_to := to |>) pr to ;;
     match x with
     | None => Ok (r, pr, false)
     | Some (m', pr1) => r1 <- send r m' ;; Ok (r1, pr1, true)
     end) = Ok (r <| r_msgs := r_msgs r ++ [snap_msg r to sn] |>, become_snapshot pr (s_index sn), true)).
  { unfold prepare_send_snapshot. rewrite Hra. cbn [negb]. rewrite Hsn. cbn [bind].
    apply N.eqb_neq in Hnz. rewrite Hnz. cbn [bind].
    rewrite send_plain by reflexivity. reflexivity. }
  destruct Hwhy as [Hq|[(e & He & Hne & -> & Hn & x & Hx)|(ents & e & He & Hae & Hn & Ht)]].
  - apply N.eqb_neq in Hq. unfold INVALID_INDEX. rewrite Hq. cbn [negb]. exact Hsnap.
  - destruct (pending_request_snapshot pr =? INVALID_INDEX); cbn [negb]; [|exact Hsnap].
    rewrite He. cbn [bind negb andb]. apply N.eqb_neq in Hn. rewrite Hn. rewrite Hx. cbn [bind].
    destruct x; destruct e; try congruence; exact Hsnap.
  - destruct (pending_request_snapshot pr =? INVALID_INDEX); cbn [negb]; [|exact Hsnap].
    rewrite He. cbn [bind].
    assert (Hc : (negb ae && match ents with [] => true | _ :: _ => false end) = false).
    { destruct Hae as [->|Hne]; [reflexivity|]. destruct ents; [congruence|]. apply andb_false_r. }
    rewrite Hc. apply N.eqb_neq in Hn. rewrite Hn. rewrite Ht. cbn [bind]. exact Hsnap.
Qed.

(* ================================================================== *)
(* 1. a heartbeat response un-sticks the peer                          *)
(* ================================================================== *)

(* --- Inflights: free_first_one on a non-empty window frees at least one slot --- *)
Lemma free_loop_bounds buf c to : forall fuel i ix i' ix',
  free_loop buf c to fuel i ix = Ok (i', ix') -> (i <= i' <= i + fuel)%nat.
Proof.
  induction fuel as [|f IH]; intros i ix i' ix' H; cbn [free_loop] in H.
  - inversion H; subst. lia.
  - inv_bind H. destruct (to <? x)%N.
    + inversion H; subst. lia.
    + apply IH in H. lia.
Qed.

Lemma idx_site {A} (l : list A) i s1 s2 x : idx l i s1 = Ok x -> idx l i s2 = Ok x.
Proof. unfold idx. destruct (nth_error l i); [auto|discriminate]. Qed.

Lemma free_first_one_spec s s' :
  free_first_one s = Ok s' -> (0 < count s)%nat ->
  exists i, (1 <= i <= count s)%nat /\ count s' = (count s - i)%nat /\
    ((count s - i <> 0)%nat -> cap s' = cap s /\ incoming_cap s' = incoming_cap s) /\
    ((count s - i = 0)%nat -> incoming_cap s' = None /\
        cap s' = match incoming_cap s with Some ic => ic | None => cap s end).
Proof.
  unfold free_first_one. intros H Hc.
  destruct (Nat.ltb_spec 0 (count s)) as [_|Hz]; [|lia].
  inv_bind H. unfold free_to in H.
  destruct (Nat.eqb_spec (count s) 0) as [Hz|_]; [lia|].
  pose proof (idx_site _ _ _ site_free_index _ Hx) as Hx'.
  rewrite Hx' in H. cbn [bind] in H. rewrite N.ltb_irrefl in H.
  inv_bind H. destruct x0 as [i ix].
  assert (Hi : (1 <= i <= count s)%nat).
  { destruct (count s) as [|f] eqn:Ec; [lia|]. cbn [free_loop] in Hx0.
    rewrite Hx' in Hx0. cbn [bind] in Hx0. rewrite N.ltb_irrefl in Hx0.
    apply free_loop_bounds in Hx0. lia. }
  exists i. split; [exact Hi|].
  destruct (Nat.eqb_spec (count s - i) 0) as [Hz|Hnz].
  - destruct (incoming_cap s) as [ic|]; inversion H; subst; cbn;
      (split; [lia|]); (split; [intros; lia|]); auto.
  - inversion H; subst; cbn. split; [reflexivity|]. split; [auto|]. intros; lia.
Qed.

(* a full window with no pending shrink and a positive capacity has room afterwards *)
Lemma free_first_one_unfull s s' :
  free_first_one s = Ok s' -> full s = true -> incoming_cap s = None -> (0 < cap s)%nat ->
  full s' = false /\ (count s' < count s)%nat.
Proof.
  intros H Hf Hn Hc. unfold full in Hf. rewrite Hn, orb_false_r in Hf.
  apply Nat.eqb_eq in Hf.
  destruct (free_first_one_spec s s' H ltac:(lia)) as (i & Hi & Hcnt & Hnz & Hz).
  split; [|lia]. unfold full.
  destruct (Nat.eq_dec (count s - i) 0) as [E|E].
  - destruct (Hz E) as [A B]. rewrite A, B, Hn, Hcnt, E. rewrite orb_false_r.
    apply Nat.eqb_neq. lia.
  - destruct (Hnz E) as [A B]. rewrite A, B, Hn, Hcnt. rewrite orb_false_r.
    apply Nat.eqb_neq. lia.
Qed.

(* under the representation invariant and with increasing contents (the way the
   leader fills the window) exactly the head is freed *)
Lemma free_first_one_exactly_one s :
  InflightsProofs.Inv s -> incr (InflightsProofs.abs s) ->
  exists s', free_first_one s = Ok s' /\ InflightsProofs.Inv s' /\
    InflightsProofs.abs s' = tl (InflightsProofs.abs s).
Proof.
  intros HI Hinc. destruct (free_first_refines s HI) as (s' & H1 & H2 & H3).
  exists s'. split; [exact H1|]. split; [exact H2|].
  pose proof (free_first_pops (abs_state s) Hinc) as Hp. rewrite <- H3 in Hp. exact Hp.
Qed.

(* --- the read-index tail of handle_heartbeat_response --- *)
Definition is_read_resp (x : msg) : Prop := m_type x = MsgReadIndexResp.

Lemma respond_reads_ro rss : forall r r',
  respond_reads r rss = Ok r' ->
  ro_only r r' /\ exists extra, r_msgs r' = r_msgs r ++ extra /\ Forall is_read_resp extra.
Proof.
  induction rss as [|rs rest IH]; intros r r' H; cbn [respond_reads] in H.
  - inversion H; subst. split; [apply ro_only_refl|]. exists []. rewrite app_nil_r. auto.
  - inv_bind H. destruct x as [r1 om]. inv_bind H.
    unfold handle_ready_read_index in Hx.
    match type of Hx with (if ?c then _ else _) = _ => destruct c end.
    + inv_bind Hx. inversion Hx; subst; clear Hx. inversion Hx0; subst; clear Hx0.
      destruct (IH _ _ H) as (A & extra & B & C0).
      split.
      * eapply ro_only_trans; [|exact A]. unfold ro_only. destruct r; reflexivity.
      * exists extra. split; [rewrite B; reflexivity|exact C0].
    + inversion Hx; subst; clear Hx.
      rewrite send_plain in Hx0 by reflexivity. inversion Hx0; subst; clear Hx0.
      destruct (IH _ _ H) as (A & extra & B & C0).
      split.
      * eapply ro_only_trans; [|exact A]. apply msgs_only_ro_only. apply msgs_only_set.
      * eexists. split; [rewrite B; cbn; rewrite <- app_assoc; reflexivity|].
        constructor; [reflexivity|exact C0].
Qed.

(* verbatim tail of the model function *)
Definition hb_ro_tail (r1 : raft) (m : msg) : Res raft :=
  if negb (ro_option (r_read_only r1) =? 0) || match m_context m with [] => true | _ => false end
  then Ok r1 else
  let '(ro', acks) := ro_recv_ack (r_read_only r1) (m_from m) (m_context m) in
  let r2 := r1 <| r_read_only := ro' |> in
  match acks with
  | Some a =>
      if prs_has_quorum (r_prs r2) a then
        z <- ro_advance (r_read_only r2) (m_context m) ;;
        let '(ro2, rss) := z in
        respond_reads (r2 <| r_read_only := ro2 |>) rss
      else Ok r2
  | None => Ok r2
  end.

Lemma hb_ro_tail_ro r1 m r' :
  hb_ro_tail r1 m = Ok r' ->
  ro_only r1 r' /\ exists extra, r_msgs r' = r_msgs r1 ++ extra /\ Forall is_read_resp extra /\
    (m_context m = [] \/ ro_option (r_read_only r1) <> 0 -> extra = []).
Proof.
  unfold hb_ro_tail. intros H.
  destruct (negb (ro_option (r_read_only r1) =? 0) || match m_context m with [] => true | _ => false end) eqn:E.
  { inversion H; subst. split; [apply ro_only_refl|]. exists []. rewrite app_nil_r. auto. }
  assert (Hno : m_context m = [] \/ ro_option (r_read_only r1) <> 0 -> False).
  { apply orb_false_elim in E. destruct E as [E1 E2]. intros [Hc|Hc].
    - rewrite Hc in E2. discriminate.
    - apply negb_false_iff in E1. apply N.eqb_eq in E1. congruence. }
  destruct (ro_recv_ack (r_read_only r1) (m_from m) (m_context m)) as [ro' acks].
  assert (Hset : forall ro, ro_only r1 (r1 <| r_read_only := ro |>)).
  { intros ro. unfold ro_only. destruct r1; reflexivity. }
  destruct acks as [a|].
  - match type of H with (if ?c then _ else _) = _ => destruct c end.
    + inv_bind H. destruct x as [ro2 rss]. apply respond_reads_ro in H.
      destruct H as (A & extra & B & C0). split.
      * eapply ro_only_trans; [|exact A]. unfold ro_only. destruct r1; reflexivity.
      * exists extra. split; [exact B|]. split; [exact C0|]. intros Hc. destruct (Hno Hc).
    + inversion H; subst. split; [apply Hset|]. exists []. cbn. rewrite app_nil_r.
      split; [reflexivity|]. split; [constructor|]. auto.
  - inversion H; subst. split; [apply Hset|]. exists []. cbn. rewrite app_nil_r.
    split; [reflexivity|]. split; [constructor|]. auto.
Qed.

(* the progress after the unconditional part: commit index noted, recently active, resumed *)
Definition hb_pr (pr0 : progress) (cmt : N) : progress :=
  resume (set_recent_active (update_committed pr0 cmt) true).

Lemma hb_pr_fields pr0 cmt :
  paused (hb_pr pr0 cmt) = false /\ recent_active (hb_pr pr0 cmt) = true /\
  matched (hb_pr pr0 cmt) = matched pr0 /\ next_idx (hb_pr pr0 cmt) = next_idx pr0 /\
  pr_state (hb_pr pr0 cmt) = pr_state pr0 /\ ins (hb_pr pr0 cmt) = ins pr0 /\
  pending_snapshot (hb_pr pr0 cmt) = pending_snapshot pr0 /\
  pending_request_snapshot (hb_pr pr0 cmt) = pending_request_snapshot pr0 /\
  Progress.committed_index (hb_pr pr0 cmt) = N.max (Progress.committed_index pr0) cmt.
Proof.
  unfold hb_pr, update_committed.
  destruct (Progress.committed_index pr0 <? cmt) eqn:E; cbn; repeat split; lia.
Qed.

(* the window step: one slot is freed iff the peer is in Replicate with a full window *)
Definition hb_window (pr : progress) : Res progress :=
  if pstate_eqb (pr_state pr) Replicate && Inflights.full (ins pr) then
    i <- Inflights.free_first_one (ins pr) ;; Ok (set_ins pr i)
  else Ok pr.

Definition hb_wants_send (r : raft) (pr1 : progress) : bool :=
  (matched pr1 <? last_index (r_log r)) || negb (pending_request_snapshot pr1 =? INVALID_INDEX).

(* handle_heartbeat_response, decomposed *)
Theorem heartbeat_response_eq r m :
  handle_heartbeat_response r m =
  match get_pr r (m_from m) with
  | None => Ok r
  | Some pr0 =>
      pr1 <- hb_window (hb_pr pr0 (m_commit m)) ;;
      r1 <- (if hb_wants_send r pr1 then
               y <- maybe_send_append r (m_from m) pr1 true ;;
               let '(r', pr', _) := y in Ok (put_pr r' (m_from m) pr')
             else Ok (put_pr r (m_from m) pr1)) ;;
      hb_ro_tail r1 m
  end.
Proof. reflexivity. Qed.

Lemma hb_window_fields pr pr1 :
  hb_window pr = Ok pr1 ->
  paused pr1 = paused pr /\ recent_active pr1 = recent_active pr /\ matched pr1 = matched pr /\
  next_idx pr1 = next_idx pr /\ pr_state pr1 = pr_state pr /\
  pending_snapshot pr1 = pending_snapshot pr /\
  pending_request_snapshot pr1 = pending_request_snapshot pr /\
  Progress.committed_index pr1 = Progress.committed_index pr /\
  (pr_state pr <> Replicate \/ Inflights.full (ins pr) = false -> pr1 = pr) /\
  (pr_state pr = Replicate -> Inflights.full (ins pr) = true ->
     Inflights.free_first_one (ins pr) = Ok (ins pr1)).
Proof.
  unfold hb_window. intros H.
  destruct (pstate_eqb (pr_state pr) Replicate && full (ins pr)) eqn:E.
  - inv_bind H. inversion H; subst. cbn. repeat split; auto.
    + apply andb_prop in E. destruct E as [E1 E2]. intros [Hs|Hf]; [|congruence].
      destruct (pr_state pr); cbn in E1; congruence.
  - inversion H; subst. repeat split; auto.
    intros Hs Hf. rewrite Hs, Hf in E. discriminate.
Qed.

(* MAIN 1: for a tracked peer, after a heartbeat response: the pause flag is cleared
   (resume); a full Replicate window has lost at least its head; an append (or
   snapshot) is attempted, with allow_empty = true, iff the peer is behind or asked
   for a snapshot; the rest of the state is untouched except for the read-index
   bookkeeping. *)
Theorem heartbeat_response_unsticks r m pr0 r' :
  get_pr r (m_from m) = Some pr0 ->
  handle_heartbeat_response r m = Ok r' ->
  exists pr1 r1 pr' b,
    hb_window (hb_pr pr0 (m_commit m)) = Ok pr1 /\
    paused pr1 = false /\ recent_active pr1 = true /\
    matched pr1 = matched pr0 /\ next_idx pr1 = next_idx pr0 /\ pr_state pr1 = pr_state pr0 /\
    pending_request_snapshot pr1 = pending_request_snapshot pr0 /\
    (* the window *)
    (pr_state pr0 = Replicate -> Inflights.full (ins pr0) = true ->
       Inflights.free_first_one (ins pr0) = Ok (ins pr1) /\
       ((0 < count (ins pr0))%nat -> (count (ins pr1) < count (ins pr0))%nat) /\
       (incoming_cap (ins pr0) = None -> (0 < cap (ins pr0))%nat -> is_paused pr1 = false)) /\
    (pr_state pr0 = Replicate -> Inflights.full (ins pr0) = false -> is_paused pr1 = false) /\
    (pr_state pr0 = Probe -> is_paused pr1 = false) /\
    (* the send *)
    (if (matched pr0 <? last_index (r_log r)) || negb (pending_request_snapshot pr0 =? 0)
     then maybe_send_append r (m_from m) pr1 true = Ok (r1, pr', b)
     else r1 = r /\ pr' = pr1 /\ b = false) /\
    msgs_only r r1 /\ matched pr' = matched pr0 /\
    (* the result *)
    get_pr r' (m_from m) = Some pr' /\
    (forall id, id <> m_from m -> get_pr r' id = get_pr r id) /\
    ro_only (put_pr r1 (m_from m) pr') r' /\
    exists extra, r_msgs r' = r_msgs r1 ++ extra /\ Forall is_read_resp extra /\
      (m_context m = [] \/ ro_option (r_read_only r) <> 0 -> extra = []).
Proof.
  intros Hg H. rewrite heartbeat_response_eq, Hg in H.
  inv_bind H. rename x into pr1. rename Hx into Hw.
  inv_bind H. rename x into r1p. rename Hx into Hsend.
  pose proof (hb_pr_fields pr0 (m_commit m)) as (P1 & P2 & P3 & P4 & P5 & P6 & P7 & P8 & P9).
  pose proof (hb_window_fields _ _ Hw) as (W1 & W2 & W3 & W4 & W5 & W6 & W7 & W8 & W9 & W10).
  assert (Hws : hb_wants_send r pr1 =
                (matched pr0 <? last_index (r_log r)) || negb (pending_request_snapshot pr0 =? 0)).
  { unfold hb_wants_send. rewrite W3, P3, W7, P8. reflexivity. }
  rewrite Hws in Hsend.
  assert (Hsnd : exists r1 pr' b,
    (if (matched pr0 <? last_index (r_log r)) || negb (pending_request_snapshot pr0 =? 0)
     then maybe_send_append r (m_from m) pr1 true = Ok (r1, pr', b)
     else r1 = r /\ pr' = pr1 /\ b = false) /\
    msgs_only r r1 /\ matched pr' = matched pr0 /\ r1p = put_pr r1 (m_from m) pr').
  { destruct ((matched pr0 <? last_index (r_log r)) || negb (pending_request_snapshot pr0 =? 0)).
    - inv_bind Hsend. destruct x as [[r1 pr'] b]. inversion Hsend; subst.
      exists r1, pr', b. split; [exact Hx|].
      apply maybe_send_append_facts in Hx. destruct Hx as (A & B & _).
      split; [exact A|]. split; [congruence|reflexivity].
    - inversion Hsend; subst. exists r, pr1, false. split; [auto|].
      split; [apply msgs_only_refl|]. split; [congruence|reflexivity]. }
  destruct Hsnd as (r1 & pr' & b & S1 & S2 & S3 & ->).
  apply hb_ro_tail_ro in H. destruct H as (T1 & extra & T2 & T3 & T4).
  exists pr1, r1, pr', b.
  split; [exact Hw|]. split; [congruence|]. split; [congruence|]. split; [congruence|].
  split; [congruence|]. split; [congruence|]. split; [congruence|].
  split.
  { intros Hs Hf.
    assert (Hs' : pr_state (hb_pr pr0 (m_commit m)) = Replicate) by congruence.
    assert (Hf' : full (ins (hb_pr pr0 (m_commit m))) = true) by congruence.
    pose proof (W10 Hs' Hf') as Hfree. rewrite P6 in Hfree. split; [exact Hfree|]. split.
    - intros Hc. destruct (free_first_one_spec _ _ Hfree Hc) as (i & Hi & Hcnt & _). lia.
    - intros Hn Hc. unfold is_paused. rewrite W5, Hs'.
      apply (free_first_one_unfull _ _ Hfree Hf Hn Hc). }
  split.
  { intros Hs Hf. rewrite W9 by (right; congruence).
    unfold is_paused. rewrite P5, Hs, P6. exact Hf. }
  split.
  { intros Hs. unfold is_paused. rewrite W5, P5, Hs. congruence. }
  split; [exact S1|]. split; [exact S2|]. split; [exact S3|].
  split.
  { rewrite (get_pr_prs _ _ _ (ro_only_prs _ _ T1)). apply get_pr_put_same. }
  split.
  { intros id Hne. rewrite (get_pr_prs _ _ _ (ro_only_prs _ _ T1)).
    rewrite get_pr_put_other by exact Hne. apply get_pr_prs. apply msgs_only_prs. exact S2. }
  split; [exact T1|].
  exists extra. split; [exact T2|]. split; [exact T3|].
  intros Hc. apply T4. destruct Hc as [Hc|Hc]; [left; exact Hc|right].
  replace (r_read_only (put_pr r1 (m_from m) pr')) with (r_read_only r); [exact Hc|].
  unfold msgs_only in S2. rewrite S2. reflexivity.
Qed.

(* COROLLARY probe_resumes: a Probe peer (paused or not) that answers a heartbeat while it
   is behind gets an append in that same step, provided the two log lookups succeed
   (entries from next_idx, term of next_idx - 1); stated without batching, where the
   message is exactly the one appended to the queue.  With a non-empty batch the
   peer is paused again (one probe in flight); an empty append leaves it unpaused. *)
Theorem probe_resumes r m pr0 ents t r' :
  get_pr r (m_from m) = Some pr0 -> pr_state pr0 = Probe ->
  matched pr0 < last_index (r_log r) -> pending_request_snapshot pr0 = 0 ->
  next_idx pr0 <> 0 ->
  log_entries (r_log r) (next_idx pr0) (Some (r_max_msg_size r)) = Ok (SOk ents) ->
  RaftLog.term (r_log r) (next_idx pr0 - 1) = Ok (SOk t) ->
  r_batch_append r = false ->
  handle_heartbeat_response r m = Ok r' ->
  let pr := hb_pr pr0 (m_commit m) in
  exists extra,
    r_msgs r' = r_msgs r ++ app_msg r (m_from m) pr t ents :: extra /\
    Forall is_read_resp extra /\
    get_pr r' (m_from m) = Some (match ents with [] => pr | _ => pause pr end).
Proof.
  intros Hg Hs Hm Hq Hn He Ht Hb H pr.
  destruct (heartbeat_response_unsticks r m pr0 r' Hg H)
    as (pr1 & r1 & pr' & b & Hw & A1 & A2 & A3 & A4 & A5 & A6 & _ & _ & A9 & Hsend & _ & _ & G1 & _ & _ &
        extra & X1 & X2 & _).
  assert (Hpr1 : pr1 = pr).
  { apply hb_window_fields in Hw. destruct Hw as (_ & _ & _ & _ & _ & _ & _ & _ & W9 & _).
    apply W9. left. pose proof (hb_pr_fields pr0 (m_commit m)) as (_ & _ & _ & _ & P5 & _).
    rewrite P5, Hs. discriminate. }
  subst pr1.
  assert (Hlt : (matched pr0 <? last_index (r_log r)) = true) by (apply N.ltb_lt; exact Hm).
  rewrite Hlt in Hsend. cbn [orb] in Hsend.
  rewrite (maybe_send_append_entries r (m_from m) pr true ents t) in Hsend;
    try assumption; try congruence; [|apply A9; exact Hs|left; reflexivity].
  assert (Hup : match ents with [] => Ok pr | _ :: _ => update_state pr (e_index (List.last ents entry_default)) end
                = Ok (match ents with [] => pr | _ => pause pr end)).
  { destruct ents; [reflexivity|]. unfold update_state. rewrite A5, Hs. reflexivity. }
  rewrite Hup in Hsend. cbn [bind] in Hsend. inversion Hsend; subst r1 pr' b.
  exists extra. split; [rewrite X1; cbn; rewrite <- app_assoc; reflexivity|].
  split; [exact X2|exact G1].
Qed.

(* ... and when the entries or the probe term are no longer in the leader's log (compacted),
   or the peer asked for a snapshot, and the storage can produce a snapshot, a MsgSnapshot
   is sent in that same step and the peer is tracked in Snapshot state *)
Theorem probe_resumes_snapshot r m pr0 sn r' :
  get_pr r (m_from m) = Some pr0 -> pr_state pr0 = Probe ->
  (matched pr0 < last_index (r_log r) \/ pending_request_snapshot pr0 <> 0) ->
  (pending_request_snapshot pr0 <> 0 \/
   (exists e, log_entries (r_log r) (next_idx pr0) (Some (r_max_msg_size r)) = Ok (SErr e) /\
              e <> LogTemporarilyUnavailable /\ next_idx pr0 <> 0 /\
              exists x, RaftLog.term (r_log r) (next_idx pr0 - 1) = Ok x) \/
   (exists ents e, log_entries (r_log r) (next_idx pr0) (Some (r_max_msg_size r)) = Ok (SOk ents) /\
              next_idx pr0 <> 0 /\ RaftLog.term (r_log r) (next_idx pr0 - 1) = Ok (SErr e))) ->
  raft_snapshot r (pending_request_snapshot pr0) (m_from m) = Ok (SOk sn) -> s_index sn <> 0 ->
  handle_heartbeat_response r m = Ok r' ->
  exists extra,
    r_msgs r' = r_msgs r ++ snap_msg r (m_from m) sn :: extra /\
    Forall is_read_resp extra /\
    get_pr r' (m_from m) = Some (become_snapshot (hb_pr pr0 (m_commit m)) (s_index sn)).
Proof.
  intros Hg Hs Hbehind Hwhy Hsn Hnz H.
  destruct (heartbeat_response_unsticks r m pr0 r' Hg H)
    as (pr1 & r1 & pr' & b & Hw & A1 & A2 & A3 & A4 & A5 & A6 & _ & _ & A9 & Hsend & _ & _ & G1 & _ & _ &
        extra & X1 & X2 & _).
  assert (Hc : ((matched pr0 <? last_index (r_log r)) || negb (pending_request_snapshot pr0 =? 0)) = true).
  { destruct Hbehind as [Hb|Hb].
    - apply N.ltb_lt in Hb. rewrite Hb. reflexivity.
    - apply N.eqb_neq in Hb. rewrite Hb. apply orb_true_r. }
  rewrite Hc in Hsend.
  rewrite (maybe_send_append_snapshot r (m_from m) pr1 true sn) in Hsend.
  - inversion Hsend; subst r1 pr' b.
    assert (Hpr1 : pr1 = hb_pr pr0 (m_commit m)).
    { apply hb_window_fields in Hw. destruct Hw as (_ & _ & _ & _ & _ & _ & _ & _ & W9 & _).
      apply W9. left. pose proof (hb_pr_fields pr0 (m_commit m)) as (_ & _ & _ & _ & P5 & _).
      rewrite P5, Hs. discriminate. }
    subst pr1.
    exists extra. split; [rewrite X1; cbn; rewrite <- app_assoc; reflexivity|].
    split; [exact X2|exact G1].
  - apply A9. exact Hs.
  - rewrite A6, A4.
    destruct Hwhy as [Hq|[(e & E1 & E2 & E3 & E4)|(ents & e & E1 & E2 & E3)]].
    + left. exact Hq.
    + right. left. exists e. repeat split; assumption.
    + right. right. exists ents, e. repeat split; auto.
  - exact A2.
  - rewrite A6. exact Hsn.
  - exact Hnz.
Qed.

(* ================================================================== *)
(* 2. a rejection repairs next_idx                                     *)
(* ================================================================== *)

(* the leader-side hint: the largest index <= reject_hint whose leader term is <= the
   follower's hint term (find_conflict_by_term), or the raw hint for term-less hints *)
Definition reject_npi (r : raft) (m : msg) : Res N :=
  if m_reject m && (0 <? m_log_term m) then
    x <- find_conflict_by_term (r_log r) (m_reject_hint m) (m_log_term m) ;; Ok (fst x)
  else Ok (m_reject_hint m).

(* the progress after the unconditional part of handle_append_response *)
Definition ack_pr (pr0 : progress) (cmt : N) : progress :=
  update_committed (set_recent_active pr0 true) cmt.

Lemma ack_pr_fields pr0 cmt :
  paused (ack_pr pr0 cmt) = paused pr0 /\ recent_active (ack_pr pr0 cmt) = true /\
  matched (ack_pr pr0 cmt) = matched pr0 /\ next_idx (ack_pr pr0 cmt) = next_idx pr0 /\
  pr_state (ack_pr pr0 cmt) = pr_state pr0 /\ ins (ack_pr pr0 cmt) = ins pr0 /\
  pending_snapshot (ack_pr pr0 cmt) = pending_snapshot pr0 /\
  pending_request_snapshot (ack_pr pr0 cmt) = pending_request_snapshot pr0 /\
  commit_group_id (ack_pr pr0 cmt) = commit_group_id pr0 /\
  Progress.committed_index (ack_pr pr0 cmt) = N.max (Progress.committed_index pr0) cmt.
Proof.
  unfold ack_pr, update_committed. cbn [Progress.committed_index set_recent_active].
  destruct (Progress.committed_index pr0 <? cmt) eqn:E; cbn; repeat split; lia.
Qed.

(* handle_append_response on a rejection, decomposed *)
Theorem append_reject_eq r m pr0 :
  get_pr r (m_from m) = Some pr0 -> m_reject m = true ->
  handle_append_response r m =
  (npi <- reject_npi r m ;;
   let '(pr1, dec) := maybe_decr_to (ack_pr pr0 (m_commit m)) (m_index m) npi (m_request_snapshot m) in
   if dec then
     send_append_to
       (put_pr r (m_from m) (if pstate_eqb (pr_state pr1) Replicate then become_probe pr1 else pr1))
       (m_from m)
   else Ok (put_pr r (m_from m) pr1)).
Proof.
  intros Hg Hr. unfold handle_append_response, reject_npi. rewrite Hr. cbn [andb].
  destruct (0 <? m_log_term m).
  - destruct (find_conflict_by_term (r_log r) (m_reject_hint m) (m_log_term m)); cbn [bind]; [|reflexivity].
    rewrite Hg. reflexivity.
  - cbn [bind]. rewrite Hg. reflexivity.
Qed.

(* --- Progress::maybe_decr_to, exactly --- *)

(* not in Replicate (Probe or Snapshot), plain rejection (no snapshot request) *)
Lemma maybe_decr_to_probe p rej hint :
  pr_state p <> Replicate ->
  maybe_decr_to p rej hint 0 =
  if (next_idx p =? 0) || negb (next_idx p - 1 =? rej) then (p, false)
  else (resume (set_next_idx p (N.max (N.min rej (hint + 1)) (matched p + 1))), true).
Proof.
  intros Hs. unfold maybe_decr_to.
  destruct (pr_state p) eqn:E; try congruence; cbn [pstate_eqb];
    change (0 =? INVALID_INDEX) with true; rewrite andb_true_r;
    (destruct ((next_idx p =? 0) || negb (next_idx p - 1 =? rej)); [reflexivity|]);
    (destruct (N.min rej (hint + 1) <? matched p + 1) eqn:E1;
      [rewrite N.max_r by lia|rewrite N.max_l by lia]; reflexivity).
Qed.

(* in Replicate, plain rejection *)
Lemma maybe_decr_to_replicate p rej hint :
  pr_state p = Replicate ->
  maybe_decr_to p rej hint 0 =
  if rej <=? matched p then (p, false) else (set_next_idx p (matched p + 1), true).
Proof.
  intros Hs. unfold maybe_decr_to. rewrite Hs. cbn [pstate_eqb].
  change (0 =? INVALID_INDEX) with true. rewrite andb_true_r.
  destruct (rej <? matched p) eqn:E1; destruct (rej =? matched p) eqn:E2;
    destruct (rej <=? matched p) eqn:E3; cbn [orb]; try reflexivity; lia.
Qed.

(* the repaired next index and the measure *)
Definition repaired_next (pr0 : progress) (rej npi : N) : N :=
  N.max (N.min rej (npi + 1)) (matched pr0 + 1).

Lemma repaired_next_bounds pr0 rej npi :
  next_idx pr0 <> 0 -> next_idx pr0 - 1 = rej ->
  matched pr0 < repaired_next pr0 rej npi /\
  repaired_next pr0 rej npi <= N.max rej (matched pr0 + 1) /\
  (matched pr0 + 1 < next_idx pr0 -> repaired_next pr0 rej npi < next_idx pr0) /\
  (next_idx pr0 <= matched pr0 + 1 -> repaired_next pr0 rej npi = matched pr0 + 1) /\
  (* the probed index next-1 never goes above the leader-side hint, except to stay
     right after [matched] *)
  (repaired_next pr0 rej npi - 1 <= npi \/ repaired_next pr0 rej npi = matched pr0 + 1).
Proof. unfold repaired_next. intros Hn Hr. lia. Qed.

(* the progress of a Probe peer after a non-stale plain rejection *)
Definition repaired_probe (pr0 : progress) (cmt rej npi : N) : progress :=
  mkPr (matched pr0) (repaired_next pr0 rej npi) (pr_state pr0) false (pending_snapshot pr0)
       (pending_request_snapshot pr0) true (ins pr0) (commit_group_id pr0)
       (N.max (Progress.committed_index pr0) cmt).

(* the progress of a Replicate peer after a non-stale plain rejection *)
Definition repaired_replicate (pr0 : progress) (cmt : N) : progress :=
  mkPr (matched pr0) (matched pr0 + 1) Probe false 0 (pending_request_snapshot pr0) true
       (Inflights.reset (ins pr0)) (commit_group_id pr0)
       (N.max (Progress.committed_index pr0) cmt).

Lemma progress_eta p :
  p = mkPr (matched p) (next_idx p) (pr_state p) (paused p) (pending_snapshot p)
           (pending_request_snapshot p) (recent_active p) (ins p) (commit_group_id p)
           (Progress.committed_index p).
Proof. destruct p; reflexivity. Qed.

(* MAIN 2a: Probe (or Snapshot) state, plain rejection.
   Non-stale (the rejected index is the one being probed): next_idx is repaired to
   max (min rejected (npi+1)) (matched+1), the pause flag is cleared and an append is
   attempted at once (send_append_to).  Stale: only recent_active / committed_index. *)
Theorem reject_repairs_next_probe r m pr0 npi :
  get_pr r (m_from m) = Some pr0 -> m_reject m = true -> m_request_snapshot m = 0 ->
  pr_state pr0 <> Replicate -> reject_npi r m = Ok npi ->
  (next_idx pr0 <> 0 /\ next_idx pr0 - 1 = m_index m ->
     handle_append_response r m =
     send_append_to (put_pr r (m_from m) (repaired_probe pr0 (m_commit m) (m_index m) npi)) (m_from m)) /\
  (next_idx pr0 = 0 \/ next_idx pr0 - 1 <> m_index m ->
     handle_append_response r m = Ok (put_pr r (m_from m) (ack_pr pr0 (m_commit m)))).
Proof.
  intros Hg Hr Hq Hs Hn.
  pose proof (ack_pr_fields pr0 (m_commit m)) as (P1 & P2 & P3 & P4 & P5 & P6 & P7 & P8 & P9 & P10).
  rewrite (append_reject_eq r m pr0 Hg Hr), Hn. cbn [bind]. rewrite Hq.
  rewrite maybe_decr_to_probe by congruence. rewrite P4.
  split.
  - intros [H0 H1]. apply N.eqb_neq in H0. rewrite H0, H1, N.eqb_refl. cbn [orb negb].
    assert (Hst : pstate_eqb (pr_state (resume (set_next_idx (ack_pr pr0 (m_commit m))
                    (N.max (N.min (m_index m) (npi + 1)) (matched (ack_pr pr0 (m_commit m)) + 1)))))
                  Replicate = false).
    { cbn [resume set_paused set_next_idx pr_state]. rewrite P5.
      destruct (pr_state pr0); cbn; congruence. }
    rewrite Hst. f_equal. f_equal.
    unfold repaired_probe, repaired_next, resume, set_paused, set_next_idx. cbn.
    rewrite P3, P5, P7, P8, P2, P6, P9, P10. reflexivity.
  - intros H0.
    assert (Hc : ((next_idx pr0 =? 0) || negb (next_idx pr0 - 1 =? m_index m)) = true).
    { destruct H0 as [H0|H0].
      - apply N.eqb_eq in H0. rewrite H0. reflexivity.
      - apply N.eqb_neq in H0. rewrite H0. apply orb_true_r. }
    rewrite Hc. reflexivity.
Qed.

(* MAIN 2b: Replicate state, plain rejection.  Non-stale (rejected index above matched):
   the peer falls back to Probe with next_idx = matched + 1, an empty window, not
   paused, and an append is attempted at once.  Stale: only recent_active /
   committed_index. *)
Theorem reject_repairs_next_replicate r m pr0 npi :
  get_pr r (m_from m) = Some pr0 -> m_reject m = true -> m_request_snapshot m = 0 ->
  pr_state pr0 = Replicate -> reject_npi r m = Ok npi ->
  (matched pr0 < m_index m ->
     handle_append_response r m =
     send_append_to (put_pr r (m_from m) (repaired_replicate pr0 (m_commit m))) (m_from m)) /\
  (m_index m <= matched pr0 ->
     handle_append_response r m = Ok (put_pr r (m_from m) (ack_pr pr0 (m_commit m)))).
Proof.
  intros Hg Hr Hq Hs Hn.
  pose proof (ack_pr_fields pr0 (m_commit m)) as (P1 & P2 & P3 & P4 & P5 & P6 & P7 & P8 & P9 & P10).
  rewrite (append_reject_eq r m pr0 Hg Hr), Hn. cbn [bind]. rewrite Hq.
  rewrite maybe_decr_to_replicate by congruence. rewrite P3.
  split; intros H0.
  - destruct (m_index m <=? matched pr0) eqn:E; [lia|].
    cbn [set_next_idx pr_state]. rewrite P5, Hs. cbn [pstate_eqb].
    f_equal. f_equal. unfold repaired_replicate, become_probe.
    cbn [set_next_idx pr_state]. rewrite P5, Hs.
    unfold reset_state, set_next_idx. cbn. rewrite P3, P8, P2, P6, P9, P10. reflexivity.
  - destruct (m_index m <=? matched pr0) eqn:E; [reflexivity|lia].
Qed.

(* the repaired progress is never paused in Probe state, so send_append_to does try *)
Lemma repaired_probe_unpaused pr0 cmt rej npi :
  pr_state pr0 = Probe -> is_paused (repaired_probe pr0 cmt rej npi) = false.
Proof. intros Hs. unfold is_paused, repaired_probe. cbn. rewrite Hs. reflexivity. Qed.

Lemma repaired_replicate_unpaused pr0 cmt : is_paused (repaired_replicate pr0 cmt) = false.
Proof. reflexivity. Qed.

(* send_append_to of an unpaused Probe peer whose lookups succeed: the exact message
   (no batching) *)
Lemma send_append_to_probe r to pr ents t :
  get_pr r to = Some pr -> pr_state pr = Probe -> paused pr = false ->
  pending_request_snapshot pr = 0 -> next_idx pr <> 0 ->
  log_entries (r_log r) (next_idx pr) (Some (r_max_msg_size r)) = Ok (SOk ents) ->
  RaftLog.term (r_log r) (next_idx pr - 1) = Ok (SOk t) ->
  r_batch_append r = false ->
  send_append_to r to =
  Ok (put_pr (r <| r_msgs := r_msgs r ++ [app_msg r to pr t ents] |>) to
             (match ents with [] => pr | _ => pause pr end)).
Proof.
  intros Hg Hs Hp Hq Hn He Ht Hb. unfold send_append_to. rewrite Hg.
  rewrite (maybe_send_append_entries r to pr true ents t); try assumption.
  - destruct ents; [reflexivity|]. unfold update_state. rewrite Hs. reflexivity.
  - unfold is_paused. rewrite Hs. exact Hp.
  - left. reflexivity.
Qed.

(* COROLLARY: a non-stale plain rejection in Probe state re-probes in the same step *)
Theorem reject_reprobes r m pr0 npi ents t :
  get_pr r (m_from m) = Some pr0 -> m_reject m = true -> m_request_snapshot m = 0 ->
  pr_state pr0 = Probe -> reject_npi r m = Ok npi ->
  next_idx pr0 <> 0 -> next_idx pr0 - 1 = m_index m ->
  pending_request_snapshot pr0 = 0 ->
  let pr2 := repaired_probe pr0 (m_commit m) (m_index m) npi in
  log_entries (r_log r) (next_idx pr2) (Some (r_max_msg_size r)) = Ok (SOk ents) ->
  RaftLog.term (r_log r) (next_idx pr2 - 1) = Ok (SOk t) ->
  r_batch_append r = false ->
  handle_append_response r m =
  Ok (put_pr (r <| r_msgs := r_msgs r ++ [app_msg r (m_from m) pr2 t ents] |>) (m_from m)
             (match ents with [] => pr2 | _ => pause pr2 end)).
Proof.
  intros Hg Hr Hq Hs Hn H0 H1 Hps pr2 He Ht Hb.
  destruct (reject_repairs_next_probe r m pr0 npi Hg Hr Hq ltac:(congruence) Hn) as [A _].
  rewrite (A (conj H0 H1)). fold pr2.
  rewrite (send_append_to_probe (put_pr r (m_from m) pr2) (m_from m) pr2 ents t).
  - f_equal. change (put_pr r (m_from m) pr2 <| r_msgs := r_msgs (put_pr r (m_from m) pr2) ++
                         [app_msg (put_pr r (m_from m) pr2) (m_from m) pr2 t ents] |>)
      with (put_pr (r <| r_msgs := r_msgs r ++ [app_msg r (m_from m) pr2 t ents] |>) (m_from m) pr2).
    apply put_pr_put_pr.
  - apply get_pr_put_same.
  - subst pr2. cbn. exact Hs.
  - reflexivity.
  - exact Hps.
  - subst pr2. cbn. unfold repaired_next. lia.
  - exact He.
  - exact Ht.
  - exact Hb.
Qed.

(* --- the hints (RaftLog lemma find_conflict_by_term_spec) --- *)

(* leader side: npi is at or below the follower's hint; with a term-carrying hint that
   lies inside the leader's log, npi is the largest index <= hint whose leader term is
   <= the hint term (every index in (npi, hint] has a larger leader term, so none of
   them can match the follower) *)
Theorem reject_npi_spec rw r m npi :
  RepInv rw (r_log r) -> m_reject m = true -> reject_npi r m = Ok npi ->
  npi <= m_reject_hint m /\
  (0 < m_log_term m -> m_reject_hint m <= last_index (r_log r) ->
     (forall j, npi < j <= m_reject_hint m -> above_term (abs (r_log r)) (m_log_term m) j) /\
     match ll_term (abs (r_log r)) npi with
     | SOk t' => t' <= m_log_term m
     | SErr _ => True
     end).
Proof.
  intros HI Hr H. unfold reject_npi in H. rewrite Hr in H. cbn [andb] in H.
  pose proof (find_conflict_by_term_spec rw (r_log r) (m_reject_hint m) (m_log_term m) HI) as S.
  rewrite <- (abs_last rw _ HI) in S.
  destruct (0 <? m_log_term m) eqn:E0.
  - inv_bind H. inversion H; subst; clear H.
    destruct (last_index (r_log r) <? m_reject_hint m) eqn:E1.
    + rewrite S in Hx. inversion Hx; subst. cbn [fst]. split; [lia|]. intros _ Hle. lia.
    + destruct S as [[Hp _]|(ci & ot & Hok & Hle & Hab & Hm)]; [congruence|].
      rewrite Hok in Hx. inversion Hx; subst. cbn [fst]. split; [exact Hle|].
      intros _ _. split; [exact Hab|]. destruct (ll_term (abs (r_log r)) ci); [apply Hm|exact I].
  - inversion H; subst. split; [lia|]. intros Hc. lia.
Qed.

(* follower side: the rejection of handle_append_entries carries the probed index, and a
   hint (hi, ht): hi <= min (probed index) (own last index), ht = own term at hi,
   ht <= the leader's term at the probed index, every own index in (hi, min ..] has a
   larger term.  The log is untouched. *)
Theorem follower_reject_hint rw r m r' :
  RepInv rw (r_log r) -> r_pending_request_snapshot r = 0 ->
  committed (r_log r) <= m_index m ->
  ll_match (abs (r_log r)) (m_index m) (m_log_term m) = false ->
  handle_append_entries r m = Ok r' ->
  exists hi ht,
    r' = r <| r_msgs := r_msgs r ++
           [msg_default <| m_to := m_from m |> <| m_type := MsgAppendResponse |>
              <| m_index := m_index m |> <| m_reject := true |> <| m_reject_hint := hi |>
              <| m_log_term := ht |> <| m_commit := committed (r_log r) |>
              <| m_from := r_id r |> <| m_term := r_term r |>] |> /\
    hi <= N.min (m_index m) (last_index (r_log r)) /\
    ll_term (abs (r_log r)) hi = SOk ht /\ ht <= m_log_term m /\
    (forall j, hi < j <= N.min (m_index m) (last_index (r_log r)) ->
       above_term (abs (r_log r)) (m_log_term m) j).
Proof.
  intros HI Hq Hc Hm H. unfold handle_append_entries in H. rewrite Hq in H.
  change (0 =? INVALID_INDEX) with true in H. cbn [negb] in H.
  destruct (m_index m <? committed (r_log r)) eqn:E; [lia|].
  rewrite (maybe_append_reject rw _ _ _ _ _ HI Hm) in H. cbn [bind] in H.
  assert (Hlog : r <| r_log := r_log r |> = r) by (destruct r; reflexivity).
  rewrite Hlog in H. clear Hlog.
  pose proof (find_conflict_by_term_spec rw (r_log r) (N.min (m_index m) (last_index (r_log r)))
                (m_log_term m) HI) as S.
  rewrite <- (abs_last rw _ HI) in S.
  destruct (last_index (r_log r) <? N.min (m_index m) (last_index (r_log r))) eqn:E1; [lia|].
  destruct S as [[Hp _]|(ci & ot & Hok & Hle & Hab & Hmm)]; [rewrite Hp in H; discriminate|].
  rewrite Hok in H. cbn [bind] in H.
  destruct (ll_term (abs (r_log r)) ci) as [t'|e] eqn:Et.
  - destruct Hmm as [Hle' ->]. rewrite send_plain in H by reflexivity. inversion H; subst; clear H.
    exists ci, t'. split; [reflexivity|]. split; [exact Hle|]. split; [exact Et|].
    split; [exact Hle'|exact Hab].
  - subst ot. discriminate.
Qed.

(* ================================================================== *)
(* 3. no Progress state is absorbing                                   *)
(* ================================================================== *)

(* [matched] of every tracked peer is the same, and the same peers are tracked *)
Definition same_matched (r r' : raft) : Prop :=
  forall id, option_map matched (get_pr r' id) = option_map matched (get_pr r id).

Lemma same_matched_refl r : same_matched r r.
Proof. intros id. reflexivity. Qed.

Lemma same_matched_trans a b c : same_matched a b -> same_matched b c -> same_matched a c.
Proof. intros H1 H2 id. rewrite H2, H1. reflexivity. Qed.

Lemma same_matched_prs r r' : r_prs r' = r_prs r -> same_matched r r'.
Proof. intros H id. rewrite (get_pr_prs _ _ _ H). reflexivity. Qed.

Lemma same_matched_put r id p p' :
  get_pr r id = Some p -> matched p' = matched p -> same_matched r (put_pr r id p').
Proof.
  intros Hg Hm id'. destruct (N.eq_dec id' id) as [->|Hne].
  - rewrite get_pr_put_same, Hg. cbn. congruence.
  - rewrite get_pr_put_other by exact Hne. reflexivity.
Qed.

Lemma send_append_to_matched r to r' : send_append_to r to = Ok r' -> same_matched r r'.
Proof.
  unfold send_append_to. intros H. destruct (get_pr r to) as [pr|] eqn:Hg; [|discriminate].
  inv_bind H. destruct x as [[r1 pr1] b]. inversion H; subst.
  apply maybe_send_append_facts in Hx. destruct Hx as (A & B & _).
  eapply same_matched_trans; [apply same_matched_prs; apply msgs_only_prs; exact A|].
  eapply same_matched_put; [|exact B].
  rewrite (get_pr_prs _ _ _ (msgs_only_prs _ _ A)). exact Hg.
Qed.

Lemma send_append_aggressively_loop_matched fuel : forall r to pr r' pr',
  send_append_aggressively_loop fuel r to pr = Ok (r', pr') ->
  msgs_only r r' /\ matched pr' = matched pr.
Proof.
  induction fuel as [|f IH]; intros r to pr r' pr' H; [discriminate|].
  cbn [send_append_aggressively_loop] in H. inv_bind H. destruct x as [[r1 pr1] b].
  apply maybe_send_append_facts in Hx. destruct Hx as (A & B & _).
  destruct b.
  - apply IH in H. destruct H as [C0 D]. split; [eapply msgs_only_trans; eassumption|congruence].
  - inversion H; subst. auto.
Qed.

Lemma send_append_aggressively_matched r to r' :
  send_append_aggressively r to = Ok r' -> same_matched r r'.
Proof.
  unfold send_append_aggressively. intros H. destruct (get_pr r to) as [pr|] eqn:Hg; [|discriminate].
  inv_bind H. destruct x as [r1 pr1]. inversion H; subst.
  apply (send_append_aggressively_loop_matched _ _ to) in Hx. destruct Hx as [A B].
  eapply same_matched_trans; [apply same_matched_prs; apply msgs_only_prs; exact A|].
  eapply same_matched_put; [|exact B].
  rewrite (get_pr_prs _ _ _ (msgs_only_prs _ _ A)). exact Hg.
Qed.

Lemma for_each_peer_matched (f : raft -> N -> Res raft) :
  (forall r id r', f r id = Ok r' -> same_matched r r') ->
  forall ids self r r', for_each_peer ids self f r = Ok r' -> same_matched r r'.
Proof.
  intros Hf. induction ids as [|id rest IH]; intros self r r' H.
  { inversion H; subst. apply same_matched_refl. }
  cbn [for_each_peer] in H. destruct (id =? self). { eapply IH; eassumption. }
  inv_bind H. eapply same_matched_trans; [eapply Hf; eassumption|eapply IH; eassumption].
Qed.

Lemma bcast_append_matched r r' : bcast_append r = Ok r' -> same_matched r r'.
Proof. unfold bcast_append. apply for_each_peer_matched. apply send_append_to_matched. Qed.

Lemma maybe_commit_matched r r' b : maybe_commit r = Ok (r', b) -> same_matched r r'.
Proof.
  unfold maybe_commit. intros H. inv_bind H. destruct x as [l' b'].
  destruct b'.
  - destruct (get_pr r (r_id r)) as [pr|] eqn:Hg;
      [|inversion H; subst; apply same_matched_prs; reflexivity].
    inversion H; subst.
    eapply same_matched_trans with (b := r <| r_log := l' |>); [apply same_matched_prs; reflexivity|].
    eapply same_matched_put.
    + change (get_pr (r <| r_log := l' |>) (r_id (r <| r_log := l' |>))) with (get_pr r (r_id r)).
      exact Hg.
    + unfold update_committed. destruct (_ <? _); reflexivity.
  - inversion H; subst. apply same_matched_prs. reflexivity.
Qed.

Lemma ack_tail_matched r m op r' : ack_tail r m op = Ok r' -> same_matched r r'.
Proof.
  unfold ack_tail. intros H. inv_bind H. destruct x as [r1 cmt].
  apply maybe_commit_matched in Hx. inv_bind H. inv_bind H.
  assert (H12 : same_matched r1 x).
  { destruct cmt.
    - destruct (should_bcast_commit r1); [apply bcast_append_matched; exact Hx0|].
      inversion Hx0; subst. apply same_matched_refl.
    - destruct op; [eapply send_append_to_matched; exact Hx0|].
      inversion Hx0; subst. apply same_matched_refl. }
  apply send_append_aggressively_matched in Hx1.
  assert (H3 : same_matched x0 r').
  { destruct (r_lead_transferee x0) as [t|]; [|inversion H; subst; apply same_matched_refl].
    destruct (t =? m_from m); [|inversion H; subst; apply same_matched_refl].
    destruct (get_pr x0 (m_from m)); [|discriminate].
    destruct (_ =? _); [|inversion H; subst; apply same_matched_refl].
    unfold send_timeout_now in H. apply send_msgs_only in H.
    apply same_matched_prs. apply msgs_only_prs. exact H. }
  eapply same_matched_trans; [exact Hx|].
  eapply same_matched_trans; [exact H12|].
  eapply same_matched_trans; [exact Hx1|exact H3].
Qed.

(* the progress right after the update of a successful, advancing acknowledgement
   (verbatim from the model function) *)
Definition acked_pr (pr : progress) (idx : N) : Res progress :=
  let pr1 := fst (maybe_update pr idx) in
  match pr_state pr1 with
  | Probe => Ok (become_replicate pr1)
  | Snapshot => Ok (if is_snapshot_caught_up pr1 then become_probe pr1 else pr1)
  | Replicate => i <- Inflights.free_to (ins pr1) idx ;; Ok (set_ins pr1 i)
  end.

(* handle_append_response on a successful response, decomposed *)
Theorem append_ack_eq r m pr0 :
  get_pr r (m_from m) = Some pr0 -> m_reject m = false ->
  handle_append_response r m =
  let pr := ack_pr pr0 (m_commit m) in
  if matched pr0 <? m_index m then
    pr2 <- acked_pr pr (m_index m) ;;
    ack_tail (put_pr r (m_from m) pr2) m (is_paused pr)
  else Ok (put_pr r (m_from m) (fst (maybe_update pr (m_index m)))).
Proof.
  intros Hg Hr. unfold handle_append_response. rewrite Hr. cbn [andb bind]. rewrite Hg.
  fold (ack_pr pr0 (m_commit m)).
  pose proof (ack_pr_fields pr0 (m_commit m)) as (_ & _ & P3 & _).
  cbv zeta. unfold acked_pr, maybe_update. rewrite P3.
  destruct (matched pr0 <? m_index m); cbn [negb fst]; reflexivity.
Qed.

Lemma maybe_update_fields p n :
  matched p < n ->
  matched (fst (maybe_update p n)) = n /\ paused (fst (maybe_update p n)) = false /\
  next_idx (fst (maybe_update p n)) = N.max (next_idx p) (n + 1) /\
  pr_state (fst (maybe_update p n)) = pr_state p /\ ins (fst (maybe_update p n)) = ins p /\
  pending_snapshot (fst (maybe_update p n)) = pending_snapshot p /\
  pending_request_snapshot (fst (maybe_update p n)) = pending_request_snapshot p /\
  recent_active (fst (maybe_update p n)) = recent_active p.
Proof.
  intros H. unfold maybe_update. apply N.ltb_lt in H. rewrite H. cbn [fst].
  cbn [resume set_matched set_paused next_idx].
  destruct (next_idx p <? n + 1) eqn:E; cbn; repeat split; lia.
Qed.

Lemma acked_pr_fields pr idx pr2 :
  matched pr < idx -> acked_pr pr idx = Ok pr2 ->
  matched pr2 = idx /\ paused pr2 = false /\ idx < next_idx pr2 /\
  match pr_state pr with
  | Probe => pr_state pr2 = Replicate /\ next_idx pr2 = idx + 1 /\ ins pr2 = Inflights.reset (ins pr)
  | Replicate => pr_state pr2 = Replicate /\ next_idx pr2 = N.max (next_idx pr) (idx + 1) /\
                 Inflights.free_to (ins pr) idx = Ok (ins pr2)
  | Snapshot => if pending_snapshot pr <=? idx
                then pr_state pr2 = Probe /\ next_idx pr2 = idx + 1
                else pr_state pr2 = Snapshot /\ next_idx pr2 = N.max (next_idx pr) (idx + 1)
  end.
Proof.
  intros Hm H. unfold acked_pr in H.
  pose proof (maybe_update_fields pr idx Hm) as (U1 & U2 & U3 & U4 & U5 & U6 & U7 & U8).
  cbv zeta in H. rewrite U4 in H.
  remember (fst (maybe_update pr idx)) as pr1 eqn:E1. clear E1.
  destruct (pr_state pr) eqn:Es.
  - inversion H as [H2]. clear H. subst pr2.
    unfold become_replicate, reset_state, set_next_idx. cbn.
    rewrite U1, U5. repeat split; lia.
  - inv_bind H. inversion H as [H2]. clear H. subst pr2. cbn. rewrite U1, U2, U3, U4.
    rewrite U5 in Hx. repeat split; auto; lia.
  - unfold is_snapshot_caught_up in H. rewrite U4, U6, U1 in H. cbn [pstate_eqb andb] in H.
    destruct (pending_snapshot pr <=? idx) eqn:E.
    + inversion H as [H2]. clear H. subst pr2. unfold become_probe. rewrite U4.
      unfold reset_state, set_next_idx. cbn. rewrite U1, U6.
      repeat split; lia.
    + inversion H as [H2]. clear H. subst pr2. rewrite U1, U2, U3, U4. repeat split; lia.
Qed.

(* MAIN 3a: a successful acknowledgement above [matched] raises [matched] to the
   acknowledged index in every state, moves Probe to Replicate, and moves Snapshot to
   Probe as soon as the acknowledged index reaches the pending snapshot; whatever the
   tail of the handler sends afterwards, [matched] of every peer stays. *)
Theorem ack_raises_matched r m pr0 r' :
  get_pr r (m_from m) = Some pr0 -> m_reject m = false -> matched pr0 < m_index m ->
  handle_append_response r m = Ok r' ->
  exists pr2 pr',
    acked_pr (ack_pr pr0 (m_commit m)) (m_index m) = Ok pr2 /\
    ack_tail (put_pr r (m_from m) pr2) m (is_paused pr0) = Ok r' /\
    match pr_state pr0 with
    | Probe => pr_state pr2 = Replicate /\ next_idx pr2 = m_index m + 1
    | Replicate => pr_state pr2 = Replicate
    | Snapshot => if pending_snapshot pr0 <=? m_index m
                  then pr_state pr2 = Probe /\ next_idx pr2 = m_index m + 1 /\ paused pr2 = false
                  else pr_state pr2 = Snapshot
    end /\
    get_pr r' (m_from m) = Some pr' /\ matched pr' = m_index m /\
    (forall id p, id <> m_from m -> get_pr r id = Some p ->
       exists p', get_pr r' id = Some p' /\ matched p' = matched p).
Proof.
  intros Hg Hr Hm H. rewrite (append_ack_eq r m pr0 Hg Hr) in H. cbv zeta in H.
  apply N.ltb_lt in Hm. rewrite Hm in H. apply N.ltb_lt in Hm.
  pose proof (ack_pr_fields pr0 (m_commit m)) as (P1 & P2 & P3 & P4 & P5 & P6 & P7 & P8 & P9 & P10).
  inv_bind H. rename x into pr2.
  assert (Hip : is_paused (ack_pr pr0 (m_commit m)) = is_paused pr0).
  { unfold is_paused. rewrite P5, P1, P6. reflexivity. }
  rewrite Hip in H.
  pose proof (acked_pr_fields _ _ _ ltac:(rewrite P3; exact Hm) Hx) as (F1 & F2 & F3 & F4).
  pose proof (ack_tail_matched _ _ _ _ H) as Hsm.
  assert (Hg' : option_map matched (get_pr r' (m_from m)) = Some (m_index m)).
  { rewrite Hsm, get_pr_put_same. cbn. congruence. }
  destruct (get_pr r' (m_from m)) as [pr'|] eqn:Eg'; [|discriminate].
  exists pr2, pr'. split; [exact Hx|]. split; [exact H|]. split.
  { rewrite P5 in F4. destruct (pr_state pr0).
    - destruct F4 as (A & B & _). auto.
    - apply F4.
    - rewrite P7 in F4. destruct (pending_snapshot pr0 <=? m_index m); [|apply F4].
      destruct F4 as [A B]. auto. }
  split; [reflexivity|]. split; [cbn in Hg'; congruence|].
  intros id p Hne Hp. specialize (Hsm id). rewrite get_pr_put_other in Hsm by exact Hne.
  rewrite Hp in Hsm. cbn in Hsm. destruct (get_pr r' id) as [p'|]; [|discriminate].
  exists p'. split; [reflexivity|]. cbn in Hsm. congruence.
Qed.

(* MAIN 3b: a snapshot status report (success or failure) always leaves Snapshot state:
   the peer becomes a paused Probe right after max (matched, pending snapshot) (success)
   or right after matched (failure); the pause is lifted by the next heartbeat response
   (MAIN 1). *)
Theorem snapshot_state_exits r m pr0 :
  get_pr r (m_from m) = Some pr0 -> pr_state pr0 = Snapshot ->
  handle_snapshot_status r m = Ok (put_pr r (m_from m) (resumed_pr pr0 (m_reject m))) /\
  pr_state (resumed_pr pr0 (m_reject m)) = Probe /\
  paused (resumed_pr pr0 (m_reject m)) = true /\
  pending_request_snapshot (resumed_pr pr0 (m_reject m)) = 0 /\
  matched (resumed_pr pr0 (m_reject m)) = matched pr0 /\
  matched pr0 < next_idx (resumed_pr pr0 (m_reject m)) /\
  next_idx (resumed_pr pr0 (m_reject m)) =
    (if m_reject m then matched pr0 + 1 else N.max (matched pr0 + 1) (pending_snapshot pr0 + 1)).
Proof.
  intros Hg Hs. rewrite snapshot_resume, Hg, Hs. split; [reflexivity|].
  unfold resumed_pr. cbn. repeat split; auto. destruct (m_reject m); lia.
Qed.

(* MAIN 3c: MsgUnreachable moves Replicate to Probe (right after matched, empty window,
   not paused); other states are untouched *)
Theorem unreachable_leaves_replicate r m pr0 :
  get_pr r (m_from m) = Some pr0 ->
  handle_unreachable r m =
  Ok (match pr_state pr0 with
      | Replicate => put_pr r (m_from m) (become_probe pr0)
      | _ => r
      end) /\
  (pr_state pr0 = Replicate ->
     pr_state (become_probe pr0) = Probe /\ next_idx (become_probe pr0) = matched pr0 + 1 /\
     paused (become_probe pr0) = false /\ matched (become_probe pr0) = matched pr0).
Proof.
  intros Hg. unfold handle_unreachable. rewrite Hg. split.
  - destruct (pr_state pr0); reflexivity.
  - intros Hs. unfold become_probe. rewrite Hs. cbn. auto.
Qed.

(* SUMMARY: for every Progress state there is an input, produced by the fault-free
   protocol, that makes the peer leave it or un-pauses it. *)
Theorem no_progress_state_absorbing r pr0 from :
  get_pr r from = Some pr0 ->
  match pr_state pr0 with
  | Snapshot =>
      forall m, m_from m = from ->
        exists r' pr', handle_snapshot_status r m = Ok r' /\ get_pr r' from = Some pr' /\
                       pr_state pr' = Probe
  | Replicate =>
      forall m, m_from m = from ->
        exists r' pr', handle_unreachable r m = Ok r' /\ get_pr r' from = Some pr' /\
                       pr_state pr' = Probe
  | Probe =>
      forall m r', m_from m = from -> m_reject m = false -> matched pr0 < m_index m ->
        handle_append_response r m = Ok r' ->
        exists pr2, acked_pr (ack_pr pr0 (m_commit m)) (m_index m) = Ok pr2 /\
                    pr_state pr2 = Replicate /\
                    ack_tail (put_pr r from pr2) m (paused pr0) = Ok r'
  end.
Proof.
  intros Hg. destruct (pr_state pr0) eqn:Es.
  - intros m r' Hf Hr Hm H. subst from.
    destruct (ack_raises_matched r m pr0 r' Hg Hr Hm H) as (pr2 & pr' & A & B & C0 & _).
    rewrite Es in C0. exists pr2. split; [exact A|]. split; [apply C0|].
    unfold is_paused in B. rewrite Es in B. exact B.
  - intros m Hf. subst from.
    destruct (unreachable_leaves_replicate r m pr0 Hg) as [A B]. rewrite Es in A.
    eexists. eexists. split; [exact A|]. split; [apply get_pr_put_same|]. apply (B Es).
  - intros m Hf. subst from.
    destruct (snapshot_state_exits r m pr0 Hg Es) as (A & B & _).
    eexists. eexists. split; [exact A|]. split; [apply get_pr_put_same|exact B].
Qed.

(* ================================================================== *)
(* 4. the election timeout fires                                       *)
(* ================================================================== *)

(* n consecutive ticks with nothing in between *)
Fixpoint ticks (n : nat) (r : raft) : Res raft :=
  match n with
  | O => Ok r
  | S k => x <- tick r ;; ticks k (fst x)
  end.

Lemma set_elapsed_twice (r : raft) a b :
  r <| r_election_elapsed := a |> <| r_election_elapsed := b |> = r <| r_election_elapsed := b |>.
Proof. destruct r; reflexivity. Qed.

(* MsgHup (a local message, term 0) is [hup false] in every role *)
Lemma step_hup r m : m_type m = MsgHup -> m_term m = 0 ->
  step r m = (r' <- hup r false ;; Ok (r', E_OK)).
Proof.
  intros Ht H0. unfold step. rewrite H0. change (0 =? 0) with true. cbn [bind]. rewrite Ht.
  reflexivity.
Qed.

(* one tick of a non-leader: either the counter goes up by one ... *)
Theorem tick_election_waits r :
  r_state r <> Leader ->
  r_election_elapsed r + 1 < r_randomized_election_timeout r \/ r_promotable r = false ->
  tick r = Ok (r <| r_election_elapsed := r_election_elapsed r + 1 |>, false).
Proof.
  intros Hs Hw. assert (Ht : tick r = tick_election r) by (unfold tick; destruct (r_state r); congruence).
  rewrite Ht. unfold tick_election, pass_election_timeout.
  change (r_randomized_election_timeout (r <| r_election_elapsed := r_election_elapsed r + 1 |>))
    with (r_randomized_election_timeout r).
  change (r_election_elapsed (r <| r_election_elapsed := r_election_elapsed r + 1 |>))
    with (r_election_elapsed r + 1).
  change (r_promotable (r <| r_election_elapsed := r_election_elapsed r + 1 |>)) with (r_promotable r).
  destruct Hw as [Hw|Hw].
  - destruct (r_randomized_election_timeout r <=? r_election_elapsed r + 1) eqn:E; [lia|]. reflexivity.
  - rewrite Hw. rewrite orb_true_r. reflexivity.
Qed.

(* ... or, the randomized timeout being reached on a promotable node, the counter is
   cleared and [hup] runs *)
Theorem tick_election_fires r :
  r_state r <> Leader -> r_promotable r = true ->
  r_randomized_election_timeout r <= r_election_elapsed r + 1 ->
  tick r = (r' <- hup (r <| r_election_elapsed := 0 |>) false ;; Ok (r', true)).
Proof.
  intros Hs Hp Hw. assert (Ht : tick r = tick_election r) by (unfold tick; destruct (r_state r); congruence).
  rewrite Ht. unfold tick_election, pass_election_timeout.
  change (r_randomized_election_timeout (r <| r_election_elapsed := r_election_elapsed r + 1 |>))
    with (r_randomized_election_timeout r).
  change (r_election_elapsed (r <| r_election_elapsed := r_election_elapsed r + 1 |>))
    with (r_election_elapsed r + 1).
  change (r_promotable (r <| r_election_elapsed := r_election_elapsed r + 1 |>)) with (r_promotable r).
  rewrite Hp. destruct (r_randomized_election_timeout r <=? r_election_elapsed r + 1) eqn:E; [|lia].
  cbn [negb orb]. rewrite set_elapsed_twice.
  rewrite step_hup by reflexivity.
  destruct (hup (r <| r_election_elapsed := 0 |>) false); reflexivity.
Qed.

(* MAIN 4a: a promotable non-leader that receives nothing runs [hup] after exactly
   max 1 (randomized_election_timeout - election_elapsed) consecutive ticks - at most
   max 1 randomized_election_timeout of them - the counter going up by one per tick *)
Theorem election_timeout_fires n : forall r,
  r_state r <> Leader -> r_promotable r = true ->
  r_election_elapsed r + N.of_nat (S n) =
    N.max (r_randomized_election_timeout r) (r_election_elapsed r + 1) ->
  ticks (S n) r = hup (r <| r_election_elapsed := 0 |>) false /\
  forall k, (k <= n)%nat ->
    ticks k r = Ok (r <| r_election_elapsed := r_election_elapsed r + N.of_nat k |>).
Proof.
  induction n as [|n IH]; intros r Hs Hp He.
  - split.
    + cbn [ticks]. rewrite tick_election_fires by (try assumption; lia).
      destruct (hup (r <| r_election_elapsed := 0 |>) false); reflexivity.
    + intros k Hk. assert (k = O) by lia. subst k. cbn [ticks N.of_nat].
      rewrite N.add_0_r. destruct r; reflexivity.
  - assert (Hw : r_election_elapsed r + 1 < r_randomized_election_timeout r) by lia.
    set (r1 := r <| r_election_elapsed := r_election_elapsed r + 1 |>).
    destruct (IH r1) as [A B]; try assumption.
    { subst r1. cbn -[N.of_nat N.max]. lia. }
    split.
    + change (ticks (S (S n)) r) with (x <- tick r ;; ticks (S n) (fst x)).
      rewrite tick_election_waits by (try assumption; left; exact Hw). cbn [bind fst].
      fold r1. rewrite A. subst r1. rewrite set_elapsed_twice. reflexivity.
    + intros k Hk. destruct k as [|k].
      * cbn [ticks N.of_nat]. rewrite N.add_0_r. destruct r; reflexivity.
      * change (ticks (S k) r) with (x <- tick r ;; ticks k (fst x)).
        rewrite tick_election_waits by (try assumption; left; exact Hw). cbn [bind fst].
        fold r1. rewrite B by lia. subst r1. rewrite set_elapsed_twice. cbn -[N.of_nat].
        replace (r_election_elapsed r + 1 + N.of_nat k) with (r_election_elapsed r + N.of_nat (S k)) by lia.
        reflexivity.
Qed.

Corollary election_timeout_bound r :
  r_state r <> Leader -> r_promotable r = true ->
  exists n, (N.of_nat n <= N.max 1 (r_randomized_election_timeout r)) /\ (1 <= n)%nat /\
            ticks n r = hup (r <| r_election_elapsed := 0 |>) false.
Proof.
  intros Hs Hp.
  set (d := N.max (r_randomized_election_timeout r) (r_election_elapsed r + 1) - r_election_elapsed r).
  exists (S (N.to_nat (d - 1))). split; [lia|]. split; [lia|].
  apply election_timeout_fires; try assumption. lia.
Qed.

(* MAIN 4b: reset installs the oracle's next draw as the randomized election timeout
   (the harness feeds the values thread_rng produced, which the Rust takes from
   [min_election_timeout, max_election_timeout)), and clears the counter *)
Theorem randomized_timeout_range r t r' :
  reset r t = Ok r' ->
  exists d ds, r_draws r = d :: ds /\ r_randomized_election_timeout r' = d /\ r_draws r' = ds /\
    r_election_elapsed r' = 0 /\ r_heartbeat_elapsed r' = 0 /\
    r_min_election_timeout r' = r_min_election_timeout r /\
    r_max_election_timeout r' = r_max_election_timeout r.
Proof.
  unfold reset. intros H.
  destruct (negb (r_term r =? t)); cbn in H;
    match type of H with match ?dd with _ => _ end = _ => destruct dd as [|d ds] eqn:E end;
    try discriminate; inversion H; subst; cbn; exists d, ds; repeat split; reflexivity.
Qed.

(* --- what hup does --- *)

Lemma count_votes_no_rejection V (c : vote_t) :
  (forall v, c v <> Some false) ->
  (fst (count_votes V c) + snd (count_votes V c) = length V)%nat.
Proof.
  intros Hc. induction V as [|v t IH]; cbn [count_votes length]; [reflexivity|].
  destruct (count_votes t c) as [y mi]. cbn [fst snd] in IH.
  destruct (c v) as [[|]|] eqn:E; cbn [fst snd]; try lia. exfalso. apply (Hc v). exact E.
Qed.

Lemma vote_result_not_lost V (c : vote_t) :
  (forall v, c v <> Some false) -> vote_result V c <> VoteLost.
Proof.
  intros Hc. unfold vote_result. destruct V as [|v0 t]; [discriminate|].
  pose proof (count_votes_no_rejection (v0 :: t) c Hc) as Hs.
  destruct (count_votes (v0 :: t) c) as [y mi]. cbn [fst snd] in Hs.
  destruct (majority (length (v0 :: t)) <=? y)%nat; [discriminate|].
  destruct (Nat.leb_spec (majority (length (v0 :: t))) (y + mi)); [discriminate|].
  exfalso. unfold majority in *. rewrite Hs in H. cbn [length] in H.
  pose proof (Nat.div_lt (S (length t)) 2 ltac:(lia) ltac:(lia)). lia.
Qed.

Lemma own_vote_not_lost inc out id :
  tracker_vote_result inc out (record_vote [] id true) <> VoteLost.
Proof.
  unfold tracker_vote_result, joint_vote_result, record_vote. cbn [assoc].
  assert (Hc : forall v, assoc [(id, true)] v <> Some false).
  { intros v. cbn [assoc]. destruct (id =? v); discriminate. }
  pose proof (vote_result_not_lost inc _ Hc). pose proof (vote_result_not_lost out _ Hc).
  destruct (vote_result inc _), (vote_result out _); congruence.
Qed.

Lemma reset_votes r t r' :
  reset r t = Ok r' ->
  t_votes (r_prs r') = [] /\ r_id r' = r_id r /\ r_state r' = r_state r /\ conf_of r' = conf_of r.
Proof.
  unfold reset. intros H.
  destruct (negb (r_term r =? t)); cbn in H;
    match type of H with match ?d with _ => _ end = _ => destruct d end;
    try discriminate; inversion H; subst; cbn; repeat split; reflexivity.
Qed.

Lemma send_vote_requests_msgs_only ids : forall r vm t cm ct tr r',
  send_vote_requests ids r vm t cm ct tr = Ok r' -> msgs_only r r'.
Proof.
  induction ids as [|id rest IH]; intros r vm t cm ct tr r' H.
  { inversion H; subst. apply msgs_only_refl. }
  cbn [send_vote_requests] in H. destruct (id =? r_id r). { eapply IH; exact H. }
  inv_bind H. inv_bind H. eapply msgs_only_trans; [eapply send_msgs_only; eassumption|].
  assert (Hid : r_id x0 = r_id r) by (apply send_msgs_only in Hx0; rewrite Hx0; reflexivity).
  eapply IH. exact H.
Qed.

(* polling one's own vote on an empty tally: never lost *)
Lemma poll_gen_own_vote rc r r' res :
  t_votes (r_prs r) = [] -> poll_gen rc r (r_id r) true = Ok (r', res) ->
  let r0 := r <| r_prs := (r_prs r) <| t_votes := record_vote [] (r_id r) true |> |> in
  (res = VotePending /\ r' = r0) \/
  (res = VoteWon /\
   if role_eqb (r_state r) PreCandidate then rc r0 = Ok r'
   else (r1 <- become_leader r0 ;; bcast_append r1) = Ok r').
Proof.
  intros Hv H. unfold poll_gen in H. rewrite Hv in H. cbv zeta.
  match type of H with
  | context [tracker_vote_result ?a ?b ?c] =>
      assert (Hnl : tracker_vote_result a b c <> VoteLost) by apply own_vote_not_lost;
      destruct (tracker_vote_result a b c)
  end; [|congruence|].
  - inversion H; subst. left. auto.
  - right.
    match type of H with (if ?c then _ else _) = _ =>
      change c with (role_eqb (r_state r) PreCandidate) in H end.
    destruct (role_eqb (r_state r) PreCandidate).
    + inv_bind H. inversion H; subst. auto.
    + inv_bind H. inv_bind H. inversion H; subst. split; [reflexivity|].
      rewrite Hx. cbn [bind]. exact Hx0.
Qed.

Lemma campaign_real_role tr r r' :
  campaign_real tr r = Ok r' ->
  (r_state r' = Candidate /\ r_term r' = r_term r + 1 /\ r_vote r' = r_id r) \/
  (r_state r' = Leader /\ r_term r' = r_term r + 1).
Proof.
  unfold campaign_real. intros H. inv_bind H. rename x into r1.
  assert (Hr1 : t_votes (r_prs r1) = [] /\ r_id r1 = r_id r /\ r_state r1 = Candidate /\
                r_term r1 = r_term r + 1 /\ r_vote r1 = r_id r).
  { unfold become_candidate in Hx. destruct (is_leader r); [discriminate|].
    inv_bind Hx. inversion Hx; subst r1; clear Hx.
    pose proof (reset_votes _ _ _ Hx0) as (V1 & V2 & V3 & V4).
    pose proof (reset_fields _ _ _ Hx0) as (_ & _ & _ & _ & _ & _ & Tm & _).
    cbn. auto. }
  destruct Hr1 as (V1 & V2 & V3 & V4 & V5).
  inv_bind H. destruct x as [r2 res].
  apply (poll_gen_own_vote _ _ _ _ V1) in Hx0. cbv zeta in Hx0.
  destruct Hx0 as [[-> ->]|[-> Hw]].
  - inv_bind H. apply send_vote_requests_msgs_only in H. rewrite H.
    left. cbn. auto.
  - rewrite V3 in Hw. cbn [role_eqb] in Hw. inversion H; subst r2; clear H.
    inv_bind Hw. apply become_leader_spec in Hx0. destruct Hx0 as (L1 & _ & _ & L2 & _).
    apply bcast_append_fr in Hw. destruct Hw as (B1 & _ & _ & _ & _ & _ & B2).
    right. rewrite B1, B2, L1, L2. cbn. auto.
Qed.

(* MAIN 4c: [hup] on a promotable (fix 8deb47c) non-leader whose scan of its window (C09 hup_scan: from the pending
   snapshot, or max (applied + 1) first_index, to committed) finds no unapplied membership
   change always campaigns:
   the node ends as PreCandidate (pre_vote, same term), as Candidate of term + 1 having
   voted for itself, or - when its own vote is already a quorum - as Leader of term + 1.
   (Blocked case: C09 hup_blocked.) *)
Theorem hup_campaigns r r' :
  is_leader r = false ->
  r_promotable r = true ->
  hup_scan r false ->
  hup r false = Ok r' ->
  (r_state r' = PreCandidate /\ r_pre_vote r = true /\ r_term r' = r_term r) \/
  (r_state r' = Candidate /\ r_term r' = r_term r + 1 /\ r_vote r' = r_id r) \/
  (r_state r' = Leader /\ r_term r' = r_term r + 1).
Proof.
  intros Hl Hpr Hc H. apply hup_spec in H.
  destruct H as [[E _]|[(_ & E & _)|[(_ & _ & E & _)|(_ & _ & _ & H)]]]; [congruence|congruence| |].
  { destruct Hc as (lo1 & A1 & B1). destruct E as (lo2 & A2 & B2). congruence. }
  unfold hup_campaign in H. destruct (r_pre_vote r) eqn:Epv.
  2:{ right. apply campaign_real_role in H. exact H. }
  unfold campaign_pre in H. inv_bind H. rename x into r1.
  unfold become_pre_candidate in Hx. rewrite Hl in Hx. inversion Hx; subst r1; clear Hx.
  inv_bind H. destruct x as [r2 res]. unfold poll in Hx.
  set (r1 := r <| r_state := PreCandidate |> <| r_prs := (r_prs r) <| t_votes := [] |> |>
               <| r_leader_id := INVALID_ID |>) in *.
  apply (poll_gen_own_vote _ r1 _ _ eq_refl) in Hx. cbv zeta in Hx.
  destruct Hx as [[-> ->]|[-> Hw]].
  - inv_bind H. apply send_vote_requests_msgs_only in H. rewrite H.
    left. cbn. auto.
  - change (role_eqb (r_state r1) PreCandidate) with true in Hw. cbv iota in Hw.
    inversion H; subst r2; clear H.
    apply campaign_real_role in Hw. right. exact Hw.
Qed.

(* ================================================================== *)
(* 5. check-quorum step-down and leader heartbeats                     *)
(* ================================================================== *)

(* the ids the leader counts as recently active: itself and every flagged peer *)
Definition active_ids (t : tracker) (self : N) : idset :=
  map fst (filter (fun kp => (fst kp =? self) || recent_active (snd kp)) (t_progress t)).

(* the flags after the check: cleared for everybody but the leader itself *)
Definition clear_active (t : tracker) (self : N) : tracker :=
  t <| t_progress := map (fun kp => (fst kp, set_recent_active (snd kp) (fst kp =? self)))
                         (t_progress t) |>.

Lemma quorum_recently_active_eq t self :
  quorum_recently_active t self = (clear_active t self, prs_has_quorum t (active_ids t self)).
Proof. reflexivity. Qed.

Lemma pget_clear_active m self id :
  pget (map (fun kp => (fst kp, set_recent_active (snd kp) (fst kp =? self))) m) id =
  option_map (fun p => set_recent_active p (id =? self)) (pget m id).
Proof.
  induction m as [|[k p] t IH]; cbn [map pget fst snd]; [reflexivity|].
  destruct (k =? id) eqn:E; [|exact IH]. apply N.eqb_eq in E. subst k. reflexivity.
Qed.

(* the recently-active set is a quorum iff it holds a majority of each non-empty half of
   the (joint) voter configuration (QuorumProofs.has_quorum_spec) *)
Lemma active_quorum_spec t self :
  prs_has_quorum t (active_ids t self) = true <->
  (incoming (t_conf t) = [] \/
   (majority (length (incoming (t_conf t))) <=
    QuorumProofs.count (fun v => Quorum.mem v (active_ids t self)) (incoming (t_conf t)))%nat) /\
  (outgoing (t_conf t) = [] \/
   (majority (length (outgoing (t_conf t))) <=
    QuorumProofs.count (fun v => Quorum.mem v (active_ids t self)) (outgoing (t_conf t)))%nat).
Proof. unfold prs_has_quorum. apply QuorumProofs.has_quorum_spec. Qed.

(* MsgCheckQuorum and MsgBeat are local messages (term 0) handled by the leader *)
Lemma step_check_quorum r m :
  r_state r = Leader -> m_type m = MsgCheckQuorum -> m_term m = 0 ->
  step r m =
  let r1 := r <| r_prs := clear_active (r_prs r) (r_id r) |> in
  if prs_has_quorum (r_prs r) (active_ids (r_prs r) (r_id r)) then Ok (r1, E_OK)
  else r' <- become_follower r1 (r_term r) INVALID_ID ;; Ok (r', E_OK).
Proof.
  intros Hs Ht H0. unfold step. rewrite H0. change (0 =? 0) with true. cbn [bind]. rewrite Ht, Hs.
  change (MsgCheckQuorum =? MsgHup) with false.
  change (MsgCheckQuorum =? MsgRequestVote) with false.
  change (MsgCheckQuorum =? MsgRequestPreVote) with false. cbn [orb].
  unfold step_leader. rewrite Ht.
  change (MsgCheckQuorum =? MsgBeat) with false.
  change (MsgCheckQuorum =? MsgCheckQuorum) with true. cbv iota.
  rewrite quorum_recently_active_eq. cbv zeta.
  destruct (prs_has_quorum (r_prs r) (active_ids (r_prs r) (r_id r))); reflexivity.
Qed.

Lemma step_beat r m :
  r_state r = Leader -> m_type m = MsgBeat -> m_term m = 0 ->
  step r m = (r' <- bcast_heartbeat r ;; Ok (r', E_OK)).
Proof.
  intros Hs Ht H0. unfold step. rewrite H0. change (0 =? 0) with true. cbn [bind]. rewrite Ht, Hs.
  change (MsgBeat =? MsgHup) with false.
  change (MsgBeat =? MsgRequestVote) with false.
  change (MsgBeat =? MsgRequestPreVote) with false. cbn [orb].
  unfold step_leader. rewrite Ht. reflexivity.
Qed.

(* --- the heartbeat broadcast, exactly --- *)

Definition hb_msg (r : raft) (ctx : option (list N)) (id : N) : msg :=
  let mt := match get_pr r id with Some pr => matched pr | None => 0 end in
  let m := msg_default <| m_to := id |> <| m_type := MsgHeartbeat |>
             <| m_commit := N.min mt (committed (r_log r)) |> in
  (match ctx with Some c => m <| m_context := c |> | None => m end)
    <| m_from := r_id r |> <| m_term := r_term r |>.

Lemma set_msgs_twice (r : raft) a b : r <| r_msgs := a |> <| r_msgs := b |> = r <| r_msgs := b |>.
Proof. destruct r; reflexivity. Qed.

Lemma set_msgs_same (r : raft) : r <| r_msgs := r_msgs r |> = r.
Proof. destruct r; reflexivity. Qed.

Lemma pget_in_pids m id : In id (pids m) -> exists p, pget m id = Some p.
Proof.
  induction m as [|[k p] t IH]; cbn [pids map fst In pget]; [intros []|].
  intros [->|H]; [rewrite N.eqb_refl; eauto|].
  destruct (k =? id); [eauto|apply IH; exact H].
Qed.

Lemma for_each_peer_heartbeat r ctx self : forall ids acc,
  (forall id, In id ids -> In id (pids (t_progress (r_prs r)))) ->
  for_each_peer ids self
    (fun r id => match get_pr r id with
                 | Some pr => send_heartbeat r id pr ctx
                 | None => Panic site_pr_unwrap
                 end) (r <| r_msgs := acc |>) =
  Ok (r <| r_msgs := acc ++ map (hb_msg r ctx) (filter (fun id => negb (id =? self)) ids) |>).
Proof.
  induction ids as [|id rest IH]; intros acc Hin; cbn [for_each_peer filter map].
  - rewrite app_nil_r. reflexivity.
  - destruct (id =? self) eqn:E; cbn [negb].
    + apply IH. intros x Hx. apply Hin. right. exact Hx.
    + change (get_pr (r <| r_msgs := acc |>) id) with (get_pr r id).
      destruct (pget_in_pids _ id (Hin id (or_introl eq_refl))) as [p Hp].
      unfold get_pr at 1. rewrite Hp. unfold send_heartbeat.
      destruct ctx as [c|]; rewrite send_plain by reflexivity; cbn [bind];
        rewrite set_msgs_twice;
        (rewrite IH by (intros x Hx; apply Hin; right; exact Hx));
        cbn [map]; rewrite <- app_assoc; cbn [app];
        unfold hb_msg, get_pr; rewrite Hp; reflexivity.
Qed.

(* every tracked peer but the leader gets one MsgHeartbeat, carrying
   min (matched, committed) and the pending read-index context *)
Theorem bcast_heartbeat_eq r :
  bcast_heartbeat r =
  Ok (r <| r_msgs := r_msgs r ++
        map (hb_msg r (ro_last_pending_request_ctx (r_read_only r)))
            (filter (fun id => negb (id =? r_id r)) (pids (t_progress (r_prs r)))) |>).
Proof.
  unfold bcast_heartbeat, bcast_heartbeat_with_ctx.
  pose proof (for_each_peer_heartbeat r (ro_last_pending_request_ctx (r_read_only r)) (r_id r)
                (pids (t_progress (r_prs r))) (r_msgs r) ltac:(auto)) as H.
  rewrite set_msgs_same in H. exact H.
Qed.

(* --- tick_heartbeat --- *)

(* the heartbeat phase of a tick *)
Definition beat_phase (r1 : raft) (hr : bool) : Res (raft * bool) :=
  if r_heartbeat_timeout r1 <=? r_heartbeat_elapsed r1 then
    r' <- bcast_heartbeat (r1 <| r_heartbeat_elapsed := 0 |>) ;; Ok (r', true)
  else Ok (r1, hr).

Lemma beat_phase_eq r1 hr :
  r_state r1 = Leader ->
  (if r_heartbeat_timeout r1 <=? r_heartbeat_elapsed r1 then
     let r2 := r1 <| r_heartbeat_elapsed := 0 |> in
     z <- step r2 (new_message INVALID_ID MsgBeat (Some (r_id r2))) ;; Ok (fst z, true)
   else Ok (r1, hr)) = beat_phase r1 hr.
Proof.
  intros Hs. unfold beat_phase. destruct (_ <=? _); [|reflexivity]. cbv zeta.
  rewrite step_beat by (try reflexivity; exact Hs).
  destruct (bcast_heartbeat _); reflexivity.
Qed.

(* both counters advanced by one *)
Definition ticked (r : raft) : raft :=
  r <| r_heartbeat_elapsed := r_heartbeat_elapsed r + 1 |>
    <| r_election_elapsed := r_election_elapsed r + 1 |>.

(* MAIN 5a (leader_heartbeats): a leader tick before the election timeout: both counters
   go up by one; when the heartbeat counter reaches heartbeat_timeout it is cleared and
   a MsgHeartbeat is queued for every other tracked peer (bcast_heartbeat_eq) *)
Theorem leader_heartbeats r :
  r_state r = Leader -> r_election_elapsed r + 1 < r_election_timeout r ->
  tick r = beat_phase (ticked r) false.
Proof.
  intros Hs He. unfold tick. rewrite Hs. unfold tick_heartbeat. fold (ticked r).
  change (r_election_timeout (ticked r)) with (r_election_timeout r).
  change (r_election_elapsed (ticked r)) with (r_election_elapsed r + 1).
  destruct (r_election_timeout r <=? r_election_elapsed r + 1) eqn:E; [lia|].
  cbn [bind]. change (is_leader (ticked r)) with (is_leader r). unfold is_leader. rewrite Hs.
  cbn [role_eqb negb]. apply (beat_phase_eq (ticked r) false). exact Hs.
Qed.

(* the state in which the election-timeout branch of a leader tick continues when the
   leader stays: counter cleared, flags cleared, pending transfer aborted *)
Definition after_check (r : raft) (checked : bool) : raft :=
  let r0 := ticked r <| r_election_elapsed := 0 |> in
  (if checked then r0 <| r_prs := clear_active (r_prs r) (r_id r) |> else r0)
    <| r_lead_transferee := None |>.

Lemma clear_transferee r1 :
  (if is_leader r1 && match r_lead_transferee r1 with Some _ => true | None => false end
   then r1 <| r_lead_transferee := None |> else r1) =
  if is_leader r1 then r1 <| r_lead_transferee := None |> else r1.
Proof.
  destruct (is_leader r1); [|reflexivity]. cbn [andb].
  destruct (r_lead_transferee r1) eqn:E; [reflexivity|]. destruct r1; cbn in *. subst. reflexivity.
Qed.

(* MAIN 5b (checkquorum_stepdown): at the election timeout a leader with check_quorum
   computes the recently-active set (itself included).  If it is not a quorum the leader
   becomes a follower of the same term without a leader; otherwise it stays, every
   recent_active flag but its own is cleared (so the next check needs fresh traffic),
   a pending leader transfer is aborted, and the heartbeat phase runs. *)
Theorem checkquorum_stepdown r :
  r_state r = Leader -> r_election_timeout r <= r_election_elapsed r + 1 ->
  tick r =
  if r_check_quorum r then
    if prs_has_quorum (r_prs r) (active_ids (r_prs r) (r_id r)) then
      beat_phase (after_check r true) true
    else
      r' <- become_follower
              (ticked r <| r_election_elapsed := 0 |> <| r_prs := clear_active (r_prs r) (r_id r) |>)
              (r_term r) INVALID_ID ;;
      Ok (r', true)
  else beat_phase (after_check r false) false.
Proof.
  intros Hs He. unfold tick. rewrite Hs. unfold tick_heartbeat. fold (ticked r).
  change (r_election_timeout (ticked r)) with (r_election_timeout r).
  change (r_election_elapsed (ticked r)) with (r_election_elapsed r + 1).
  destruct (r_election_timeout r <=? r_election_elapsed r + 1) eqn:E; [|lia].
  cbv zeta.
  change (r_check_quorum (ticked r <| r_election_elapsed := 0 |>)) with (r_check_quorum r).
  destruct (r_check_quorum r).
  - rewrite step_check_quorum by (try reflexivity; exact Hs). cbv zeta.
    change (r_prs (ticked r <| r_election_elapsed := 0 |>)) with (r_prs r).
    change (r_id (ticked r <| r_election_elapsed := 0 |>)) with (r_id r).
    change (r_term (ticked r <| r_election_elapsed := 0 |>)) with (r_term r).
    destruct (prs_has_quorum (r_prs r) (active_ids (r_prs r) (r_id r))).
    + cbn [bind fst]. rewrite clear_transferee.
      set (r1 := ticked r <| r_election_elapsed := 0 |> <| r_prs := clear_active (r_prs r) (r_id r) |>).
      assert (Hl : is_leader r1 = true) by (unfold is_leader; subst r1; cbn; rewrite Hs; reflexivity).
      rewrite Hl. cbn [bind].
      change (is_leader (r1 <| r_lead_transferee := None |>)) with (is_leader r1). rewrite Hl.
      cbn [negb]. apply (beat_phase_eq (after_check r true) true). cbn. exact Hs.
    + destruct (become_follower _ (r_term r) INVALID_ID) as [rf|s] eqn:Ebf; cbn [bind]; [|reflexivity].
      cbn [fst]. rewrite clear_transferee.
      pose proof (become_follower_fields _ _ _ _ Ebf) as (Hf & _).
      unfold is_leader. repeat (rewrite Hf; cbn [role_eqb bind negb]). reflexivity.
  - cbn [bind]. rewrite clear_transferee.
    set (r1 := ticked r <| r_election_elapsed := 0 |>).
    assert (Hl : is_leader r1 = true) by (unfold is_leader; subst r1; cbn; rewrite Hs; reflexivity).
    rewrite Hl. cbn [bind].
    change (is_leader (r1 <| r_lead_transferee := None |>)) with (is_leader r1). rewrite Hl.
    cbn [negb]. apply (beat_phase_eq (after_check r false) false). cbn. exact Hs.
Qed.

(* the two outcomes, spelled out *)
Corollary checkquorum_stepdown_follower r r' b :
  r_state r = Leader -> r_election_timeout r <= r_election_elapsed r + 1 ->
  r_check_quorum r = true ->
  prs_has_quorum (r_prs r) (active_ids (r_prs r) (r_id r)) = false ->
  tick r = Ok (r', b) ->
  r_state r' = Follower /\ r_term r' = r_term r /\ r_leader_id r' = INVALID_ID /\ b = true.
Proof.
  intros Hs He Hc Hq H. rewrite (checkquorum_stepdown r Hs He), Hc, Hq in H.
  inv_bind H. inversion H; subst. apply become_follower_fields in Hx.
  destruct Hx as (A & _ & _ & _ & _ & _ & B & _ & C0). auto.
Qed.

Corollary checkquorum_stays_leader r r' b :
  r_state r = Leader -> r_election_timeout r <= r_election_elapsed r + 1 ->
  r_check_quorum r = true ->
  prs_has_quorum (r_prs r) (active_ids (r_prs r) (r_id r)) = true ->
  tick r = Ok (r', b) ->
  r_state r' = Leader /\ r_term r' = r_term r /\ r_election_elapsed r' = 0 /\
  r_lead_transferee r' = None /\ b = true /\
  forall id, get_pr r' id =
             option_map (fun p => set_recent_active p (id =? r_id r)) (get_pr r id).
Proof.
  intros Hs He Hc Hq H. rewrite (checkquorum_stepdown r Hs He), Hc, Hq in H.
  unfold beat_phase in H.
  assert (Hpr : forall id, get_pr (after_check r true) id =
                 option_map (fun p => set_recent_active p (id =? r_id r)) (get_pr r id)).
  { intros id. unfold get_pr, after_check. cbn. apply pget_clear_active. }
  destruct (_ <=? _).
  - rewrite bcast_heartbeat_eq in H. cbn [bind] in H. inversion H; subst. cbn.
    repeat split; auto.
  - inversion H; subst. cbn. repeat split; auto.
Qed.
