(* C14: non-vacuity witnesses for the hypotheses of the theorems in
   M/RaftLogProofs*.v (concrete states reached through the model). *)
From RV Require Import Base.Prelude M.Util M.UtilProofs M.MemStorage M.MemStorageProofs
  M.RaftLog M.RaftLogProofs M.RaftLogProofsOps M.RaftLogProofsStore M.RaftLogProofsSlice
  M.RaftLogProofsHistory.
From Coq Require Import Relations.Relation_Operators Relations.Operators_Properties.

Local Open Scope N_scope.

Definition ex_l0 : raft_log :=
  mkLog ex_store2 (u_new 3) 0 2 0 0.

Lemma ex_l0_new : log_new ex_store2 0 = Ok ex_l0.
Proof. reflexivity. Qed.

Lemma ex_l0_inv : RepInv false ex_l0.
Proof.
  destruct (log_new_ok ex_store2 0 ex_store2_inv eq_refl) as (l & Hl & Hr & _).
  rewrite ex_l0_new in Hl. inversion Hl; subst l. exact Hr.
Qed.

(* a follower append that conflicts at index 2 (above the commit index 0, below
   persisted 2): the log is truncated there, persisted falls back to 1 *)
Theorem ex_conflicting_append :
  exists l', maybe_append ex_l0 1 1 3 [ex_ent 2 2; ex_ent 3 2] = Ok (l', Some (2, 3))
    /\ RepInv false l'
    /\ ll_ents (abs l') = [ex_ent 1 1; ex_ent 2 2; ex_ent 3 2]
    /\ committed l' = 3 /\ persisted l' = 1 /\ u_offset (unst l') = 2
    /\ ll_find_conflict (abs ex_l0) [ex_ent 2 2; ex_ent 3 2] = 2.
Proof.
  destruct (maybe_append_ok false ex_l0 1 1 3 [ex_ent 2 2; ex_ent 3 2] ex_l0_inv)
    as (l' & Hm & Hr & Habs & Hc & Hp & _).
  - cbn. repeat split; reflexivity.
  - repeat constructor; discriminate.
  - left. vm_compute. discriminate.
  - vm_compute. reflexivity.
  - reflexivity.
  - right. vm_compute. reflexivity.
  - exists l'. vm_compute in Hm. inversion Hm; subst l'.
    split; [reflexivity|]. split; [exact Hr|]. vm_compute. repeat split; reflexivity.
Qed.

Lemma hist_cons : forall a b c, cstep a b -> history b c -> history a c.
Proof.
  intros a b c Hab Hbc. apply Operators_Properties.clos_rt_rtn1.
  eapply rt_trans; [apply rt_step; exact Hab|].
  apply Operators_Properties.clos_rtn1_rt. exact Hbc.
Qed.

(* a history: leader append, persist, commit, persistence notice, apply, compact, restore *)
Theorem ex_history :
  exists l, history ex_l0 l
    /\ ll_base (abs l) = 6 /\ ll_bterm (abs l) = Some 3 /\ ll_ents (abs l) = []
    /\ committed l = 6 /\ applied l = 2 /\ persisted l = 3.
Proof.
  eexists. split.
  - eapply hist_cons; [eapply (CAppend _ (ex_ent 3 2) []);
                        [cbn; repeat split; reflexivity|vm_compute; reflexivity|vm_compute; discriminate
                        |vm_compute; discriminate|vm_compute; reflexivity]|].
    eapply hist_cons; [eapply CPersistEntries; [reflexivity|discriminate|vm_compute; reflexivity|vm_compute; reflexivity]|].
    eapply hist_cons; [eapply (CCommitTo _ 3); vm_compute; reflexivity|].
    eapply hist_cons; [eapply (CMaybePersist _ 3 2); vm_compute; reflexivity|].
    eapply hist_cons; [eapply (CAppliedTo _ 2); vm_compute; reflexivity|].
    eapply hist_cons; [eapply (CCompact _ 2); [reflexivity|vm_compute; discriminate|vm_compute; discriminate
                                                |vm_compute; reflexivity|vm_compute; reflexivity]|].
    eapply hist_cons; [eapply (CRestore _ (mkSnap 6 3 cs_default)); [vm_compute; reflexivity|vm_compute; reflexivity]|].
    apply rtn1_refl.
  - vm_compute. repeat split; reflexivity.
Qed.

(* a size-limited read across the storage / unstable boundary *)
Theorem ex_limited_slice :
  exists l' r, log_append ex_l0 [ex_ent 3 2] = Ok (l', r) /\ RepInv false l'
    /\ slice l' 1 4 None = Ok (SOk [ex_ent 1 1; ex_ent 2 1; ex_ent 3 2])
    /\ slice l' 1 4 (Some 9) = Ok (SOk [ex_ent 1 1; ex_ent 2 1])
    /\ slice l' 1 4 (Some 0) = Ok (SOk [ex_ent 1 1])
    /\ total_size entry_size [ex_ent 1 1; ex_ent 2 1; ex_ent 3 2] = 12.
Proof.
  destruct (log_append_ok false ex_l0 (ex_ent 3 2) [] ex_l0_inv) as (l' & Ha & Hr & _).
  - cbn. repeat split; reflexivity.
  - vm_compute. reflexivity.
  - vm_compute. discriminate.
  - vm_compute. reflexivity.
  - vm_compute. discriminate.
  - exists l'. eexists. split; [exact Ha|]. split; [exact Hr|].
    vm_compute in Ha. inversion Ha; subst l'. vm_compute. repeat split; reflexivity.
Qed.
