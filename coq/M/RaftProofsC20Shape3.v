(* C20 extension, part 3: RawNode entry points, the operation alphabet of C07 ([exec]) and
   traces from rn_new.  With NodeInv (RnInv), the log invariant (NLI) and
   commit_since_index < u64::MAX (CsiOK) no call panics at a site of
   local_sites ++ shape_sites, and the three invariants are preserved. *)
From RV Require Import Base.Prelude Base.IdSet M.Util M.UtilProofs M.Proto M.MemStorage
  M.MemStorageProofs M.Inflights M.Progress M.RaftLog M.Quorum M.ConfChange M.Msg M.Raft
  M.RawNode M.RaftProofs M.RaftLogProofs M.RaftLogProofsOps M.RaftLogProofsStore
  M.RaftLogProofsSlice M.RaftLogProofsHistory M.RaftProofsC07 M.RaftProofsRepInv
  M.RaftProofsC20 M.RaftProofsC20Inv M.RaftProofsC20Safe M.RaftProofsC20Shape M.RaftProofsC20Shape2.
From RecordUpdate Require Import RecordSet.
Import RecordSetNotations.

Local Open Scope N_scope.

Lemma lift_nops n (x : Res raft) : nops x -> nops (lift n x).
Proof. unfold lift. destruct x; cbn [bind]; auto. Qed.
Lemma lift2_nops n (x : Res (raft * N)) : nops x -> nops (lift2 n x).
Proof. unfold lift2. destruct x; cbn [bind]; auto. Qed.

Theorem rn_step_nops rw n m : NLI rw n -> msg_wf2 (nlast n) m -> nops (rn_step n m).
Proof.
  intros H W. unfold rn_step. destruct (is_local_msg _); [exact I|].
  destruct (_ || _); [|exact I]. apply lift2_nops. apply (step_nops rw); assumption.
Qed.

Theorem rn_tick_nops rw n : NLI rw n -> nroom 1 n -> nops (rn_tick n).
Proof.
  intros H Hr. unfold rn_tick. apply nops_bind; [apply (tick_nops rw); assumption|intros; exact I].
Qed.

Theorem rn_campaign_nops rw n : NLI rw n -> nroom 1 n -> nops (rn_campaign n).
Proof.
  intros H Hr. unfold rn_campaign. apply lift2_nops. apply (step_nops rw); [exact H|].
  apply msg_wf2_hup; [reflexivity|exact Hr].
Qed.

Lemma msg_wf2_propose1 li m e :
  m_type m = MsgPropose -> m_entries m = [e] -> li + 1 < u64_max -> msg_wf2 li m.
Proof.
  intros E Ee Hr. split; [|intros X; rewrite E in X; discriminate].
  unfold msg_wf. rewrite E, Ee.
  split; [intros X; discriminate X|split; [intros _; cbn; lia|split; intros X; discriminate X]].
Qed.

Theorem rn_propose_nops rw n c d : NLI rw n -> nroom 1 n -> nops (rn_propose n c d).
Proof.
  intros H Hr. unfold rn_propose. apply lift2_nops. apply (step_nops rw); [exact H|].
  eapply msg_wf2_propose1; [reflexivity|reflexivity|exact Hr].
Qed.

Theorem rn_propose_conf_change_nops rw n c d ty ci :
  NLI rw n -> nroom 1 n -> nops (rn_propose_conf_change n c d ty ci).
Proof.
  intros H Hr. unfold rn_propose_conf_change. apply lift2_nops. apply (step_nops rw); [exact H|].
  eapply msg_wf2_propose1; [reflexivity|reflexivity|exact Hr].
Qed.

Theorem rn_apply_conf_change_nops rw n cc : NLI rw n -> nops (rn_apply_conf_change n cc).
Proof.
  intros H. unfold rn_apply_conf_change.
  apply nops_bind; [apply (raft_apply_conf_change_nops rw); exact H|intros; exact I].
Qed.

Theorem rn_ping_nops rw n : NLI rw n -> nops (rn_ping n).
Proof. intros H. unfold rn_ping. apply lift_nops. apply (ping_nops rw). exact H. Qed.

Theorem gen_light_ready_nops rw n : NLI rw n -> CsiOK n -> nops (gen_light_ready n).
Proof.
  intros H Hc. unfold gen_light_ready. cbv zeta.
  destruct (next_entries_since_total rw _ H (rn_commit_since_index n)
              (Some (r_max_committed_size_per_ready (rn_raft n))) Hc) as [oe ->].
  cbn [bind]. apply nops_bind; [|intros; exact I].
  destruct (match oe with Some v => v | None => [] end); [exact I|].
  match goal with |- nops (if ?c then _ else _) => destruct c end; [exact I|].
  apply notin_b. vm_compute. reflexivity.
Qed.

Theorem rn_ready_nops rw n : NLI rw n -> CsiOK n -> nops (rn_ready n).
Proof.
  intros H Hc. unfold rn_ready. cbv zeta.
  apply nops_bind.
  { match goal with |- nops (if ?c then _ else _) => destruct c end; [|exact I].
    apply nops_bind; [|intros; exact I].
    eapply nops_only; [intros s; apply check_records_empty_sites_ok|vm_compute; reflexivity]. }
  intros recs _.
  change (r_log (rn_raft n <| r_read_states := [] |>)) with (r_log (rn_raft n)).
  pose proof (ready_since_bound rw n H Hc) as Hb. unfold ready_since in Hb.
  destruct (u_snapshot (unst (r_log (rn_raft n)))) as [s|] eqn:Es.
  - destruct (s_index s <? rn_commit_since_index n); [apply notin_b; vm_compute; reflexivity|].
    destruct (has_next_entries_since_total rw _ H (s_index s) Hb) as [b ->]. cbn [bind].
    destruct b; [apply notin_b; vm_compute; reflexivity|]. cbn [bind].
    apply nops_bind; [|intros [n2 light] _; exact I].
    apply (gen_light_ready_nops rw); [exact H|exact Hb].
  - cbn [bind]. apply nops_bind; [|intros [n2 light] _; exact I].
    apply (gen_light_ready_nops rw); [exact H|exact Hc].
Qed.

Theorem rn_has_ready_nops rw n : NLI rw n -> CsiOK n -> nops (rn_has_ready n).
Proof.
  intros H Hc. unfold rn_has_ready. cbv zeta.
  repeat match goal with |- nops (if ?c then _ else _) => destruct c; [exact I|] end.
  apply nops_total. apply (has_next_entries_since_total rw); [exact H|exact Hc].
Qed.

Theorem commit_ready_nops n rd : nops (commit_ready n rd).
Proof. eapply nops_only; [intros s; apply commit_ready_sites_ok|vm_compute; reflexivity]. Qed.

Theorem rn_on_persist_ready_nops rw n k : NLI rw n -> persist_pre n k -> nops (rn_on_persist_ready n k).
Proof.
  intros H Hp. unfold rn_on_persist_ready.
  destruct (fold_records _ _ _ _ _) as [[[recs i] t] si] eqn:Ef.
  apply nops_bind.
  { destruct (negb (si =? 0)); [|exact I]. apply (on_persist_snap_nops rw). exact H. }
  intros r1 E1.
  assert (Q : LI rw r1).
  { destruct (negb (si =? 0)); [|injection E1 as <-; exact H].
    eapply (on_persist_snap_pres rw); [exact E1|exact H|].
    unfold persist_pre in Hp. rewrite Ef in Hp. exact Hp. }
  apply nops_bind; [|intros; exact I].
  destruct (negb (i =? 0)); [|exact I]. apply (on_persist_entries_nops rw). exact Q.
Qed.

Theorem rn_advance_append_nops rw n rd :
  NLI rw n -> CsiOK n -> advance_pre n -> nops (rn_advance_append n rd).
Proof.
  intros H Hc [P1 P2]. unfold rn_advance_append.
  apply nops_bind; [apply commit_ready_nops|]. intros n1 E1.
  destruct (commit_ready_pres rw _ _ _ E1 P1 H) as (H1 & B1 & C1' & (D1 & D2 & D3) & F1 & G1).
  pose proof (commit_ready_csi _ _ _ E1) as C1.
  assert (P2' : persist_pre n1 (rn_max_number n1)).
  { unfold persist_pre in *. rewrite F1, G1, D2, C1'. exact P2. }
  apply nops_bind; [apply (rn_on_persist_ready_nops rw); assumption|]. intros n2 E2.
  destruct (rn_on_persist_ready_pres rw _ _ _ E2 P2' H1) as (H2 & _).
  pose proof (on_persist_ready_csi _ _ _ E2) as C2.
  apply nops_bind; [apply (gen_light_ready_nops rw); [exact H2|unfold CsiOK in *; congruence]|].
  intros [n3 light] _. cbv beta iota.
  repeat match goal with
         | |- nops (if ?c then _ else _) => destruct c
         | |- nops (Panic _) => apply notin_b; vm_compute; reflexivity
         | |- nops (bind _ _) => apply nops_bind; [|intros [? ?] _; cbv beta iota]
         | |- nops (Ok _) => exact I
         end.
Qed.

Lemma commit_apply_nops' rw r app :
  LI rw r -> (is_leader r = true -> room 1 r) -> nops (commit_apply r app).
Proof.
  intros H Hr. destruct (is_leader r) eqn:El; [apply (commit_apply_nops rw); auto|].
  unfold commit_apply, commit_apply_internal. cbn [negb]. cbv zeta.
  apply nops_bind.
  { eapply nops_only; [intros s; apply applied_to_sites_ok|vm_compute; reflexivity]. }
  intros l' _. change (is_leader (r <| r_log := l' |>)) with (is_leader r). rewrite El.
  rewrite andb_false_r. exact I.
Qed.

Theorem rn_advance_apply_to_nops rw n app :
  NLI rw n -> (is_leader (rn_raft n) = true -> nroom 1 n) -> nops (rn_advance_apply_to n app).
Proof. intros H Hr. unfold rn_advance_apply_to. apply lift_nops. apply (commit_apply_nops' rw); assumption. Qed.

Theorem rn_advance_apply_nops rw n :
  NLI rw n -> (is_leader (rn_raft n) = true -> nroom 1 n) -> nops (rn_advance_apply n).
Proof. intros. apply (rn_advance_apply_to_nops rw); assumption. Qed.

Theorem rn_advance_nops rw n rd :
  NLI rw n -> CsiOK n -> advance_pre n -> nroom 1 n -> nops (rn_advance n rd).
Proof.
  intros H Hc P Hr. unfold rn_advance. cbv zeta.
  apply nops_bind; [apply (rn_advance_append_nops rw); assumption|]. intros [n1 lr] E.
  destruct (rn_advance_append_pres rw _ _ _ _ E P H) as (H1 & A1 & _).
  apply nops_bind; [|intros; exact I]. cbn [fst].
  apply (rn_advance_apply_to_nops rw); [exact H1|]. intros _.
  unfold nroom, room, nlog, NLI, LI in *.
  rewrite (abs_last rw _ H1), A1, <- (abs_last rw _ H). exact Hr.
Qed.

Theorem rn_advance_append_async_nops n rd : nops (rn_advance_append_async n rd).
Proof. apply commit_ready_nops. Qed.

Lemma step_fst_nops rw n m :
  NLI rw n -> msg_wf2 (nlast n) m -> nops (x <- step (rn_raft n) m ;; Ok (n <| rn_raft := fst x |>)).
Proof. intros H W. apply nops_bind; [apply (step_nops rw); assumption|intros; exact I]. Qed.

Theorem rn_report_unreachable_nops rw n id : NLI rw n -> nops (rn_report_unreachable n id).
Proof. intros H. apply (step_fst_nops rw); [exact H|]. apply msg_wf2_local; cbn; try reflexivity; discriminate. Qed.
Theorem rn_report_snapshot_nops rw n id f : NLI rw n -> nops (rn_report_snapshot n id f).
Proof. intros H. apply (step_fst_nops rw); [exact H|]. apply msg_wf2_local; cbn; try reflexivity; discriminate. Qed.
Theorem rn_transfer_leader_nops rw n t : NLI rw n -> nops (rn_transfer_leader n t).
Proof. intros H. apply (step_fst_nops rw); [exact H|]. apply msg_wf2_local; cbn; try reflexivity; discriminate. Qed.
Theorem rn_read_index_nops rw n c : NLI rw n -> nops (rn_read_index n c).
Proof. intros H. apply (step_fst_nops rw); [exact H|]. apply msg_wf2_local; cbn; try reflexivity; discriminate. Qed.
Theorem rn_request_snapshot_nops rw n : NLI rw n -> nops (rn_request_snapshot n).
Proof. intros H. unfold rn_request_snapshot. apply lift2_nops. apply (request_snapshot_nops rw). exact H. Qed.

(* ================================================================== *)
(* the operation alphabet of C07 *)

(* what an operation needs beyond C14's op_wf: for a stepped MsgAppend the two facts a
   library peer guarantees, for MsgSnapshot an index >= 1, and a non-empty log when a
   membership change is applied *)
Definition op_wf2 (n : rawnode) (o : op) : Prop :=
  op_wf n o /\
  match o with
  | OStep m => (m_type m = MsgAppend -> append_wf2 (nlast n) m) /\ snap_ok m
  | OApplyCC _ => 1 <= nlast n
  | _ => True
  end.

Definition all_sites : list N := local_sites ++ shape_sites.

Lemma quiet_nops {A} (x : Res (rawnode * A)) : nops x -> nops (quiet x).
Proof. unfold quiet. destruct x; cbn [bind]; auto. Qed.
Lemma quiet1_nops (x : Res rawnode) : nops x -> nops (quiet1 x).
Proof. unfold quiet1. destruct x; cbn [bind]; auto. Qed.

Theorem exec_nops rw n o : NLI rw n -> CsiOK n -> op_wf2 n o -> nops (exec n o).
Proof.
  intros H Hc [W W2]. destruct o; cbn [exec op_wf] in *.
  - apply quiet_nops. apply (rn_step_nops rw); [exact H|]. split; [exact W|exact (proj1 W2)].
  - apply quiet_nops. apply (rn_tick_nops rw); assumption.
  - apply quiet_nops. apply (rn_campaign_nops rw); assumption.
  - apply quiet_nops. apply (rn_propose_nops rw); assumption.
  - apply quiet_nops. apply (rn_propose_conf_change_nops rw); assumption.
  - apply quiet_nops. apply (rn_apply_conf_change_nops rw); assumption.
  - apply quiet1_nops. apply (rn_ping_nops rw); assumption.
  - apply nops_bind; [apply (rn_ready_nops rw); assumption|intros; exact I].
  - destruct W as [W1 W3]. apply nops_bind; [apply (rn_advance_nops rw); assumption|intros; exact I].
  - apply nops_bind; [apply (rn_advance_append_nops rw); assumption|intros; exact I].
  - apply quiet1_nops. apply rn_advance_append_async_nops.
  - apply quiet1_nops. apply (rn_on_persist_ready_nops rw); assumption.
  - apply quiet1_nops. apply (rn_advance_apply_nops rw); assumption.
  - apply quiet1_nops. apply (rn_advance_apply_to_nops rw); assumption.
  - apply quiet1_nops. apply (rn_report_unreachable_nops rw); assumption.
  - apply quiet1_nops. apply (rn_report_snapshot_nops rw); assumption.
  - apply quiet_nops. apply (rn_request_snapshot_nops rw); assumption.
  - apply quiet1_nops. apply (rn_transfer_leader_nops rw); assumption.
  - apply quiet1_nops. apply (rn_read_index_nops rw); assumption.
  - exact I.
Qed.

Lemma quiet_safe {A} (x : Res (rawnode * A)) :
  safe (fun y => RnInv (fst y)) x -> safe (fun y => RnInv (fst y)) (quiet x).
Proof. unfold quiet. destruct x as [[a b]|s]; cbn [bind]; auto. Qed.
Lemma quiet1_safe (x : Res rawnode) : safe RnInv x -> safe (fun y => RnInv (fst y)) (quiet1 x).
Proof. unfold quiet1. destruct x; cbn [bind]; auto. Qed.

Theorem exec_safe n o : RnInv n -> op_wf2 n o -> safe (fun y => RnInv (fst y)) (exec n o).
Proof.
  intros H [W W2]. destruct o; cbn [exec op_wf] in *.
  - apply quiet_safe. apply rn_step_safe; [exact H|exact (proj2 W2)].
  - apply quiet_safe. apply rn_tick_safe; assumption.
  - apply quiet_safe. apply rn_campaign_safe; assumption.
  - apply quiet_safe. apply rn_propose_safe; assumption.
  - apply quiet_safe. apply rn_propose_conf_change_safe; assumption.
  - apply quiet_safe. apply rn_apply_conf_change_safe; assumption.
  - apply quiet1_safe. apply rn_ping_safe; assumption.
  - eapply safe_bind; [apply rn_ready_safe; exact H|]. intros y _ Hy. exact Hy.
  - eapply safe_bind; [apply rn_advance_safe; exact H|]. intros y _ Hy. exact Hy.
  - eapply safe_bind; [apply rn_advance_append_safe; exact H|]. intros y _ Hy. exact Hy.
  - apply quiet1_safe. apply rn_advance_append_async_safe; assumption.
  - apply quiet1_safe. apply rn_on_persist_ready_safe; assumption.
  - apply quiet1_safe. apply rn_advance_apply_safe; assumption.
  - apply quiet1_safe. apply rn_advance_apply_to_safe; assumption.
  - apply quiet1_safe. apply rn_report_unreachable_safe; assumption.
  - apply quiet1_safe. apply rn_report_snapshot_safe; assumption.
  - apply quiet_safe. apply rn_request_snapshot_safe; assumption.
  - apply quiet1_safe. apply rn_transfer_leader_safe; assumption.
  - apply quiet1_safe. apply rn_read_index_safe; assumption.
  - exact H.
Qed.

(* the three invariants together *)
Definition NGood (rw : bool) (n : rawnode) : Prop := RnInv n /\ NLI rw n /\ CsiOK n.

Theorem exec_good rw n o n' ot :
  exec n o = Ok (n', ot) -> op_wf2 n o -> NGood rw n -> NGood rw n'.
Proof.
  intros E W (A & B & C0). pose proof W as [W1 _]. split; [|split].
  - exact (safe_ok_inv _ _ _ (exec_safe n o A W) E).
  - eapply exec_pres; eassumption.
  - eapply exec_CsiOK; eassumption.
Qed.

Theorem exec_no_panic rw n o s :
  NGood rw n -> op_wf2 n o -> exec n o = Panic s -> ~ In s all_sites.
Proof.
  intros (A & B & C0) W E Hin. unfold all_sites in Hin. apply in_app_or in Hin. destruct Hin as [Hin|Hin].
  - exact (safe_panic_inv _ _ _ (exec_safe n o A W) E Hin).
  - exact (nops_panic_inv _ _ (exec_nops rw n o B C0 W) E Hin).
Qed.

(* traces *)
Inductive wrun2 : rawnode -> rawnode -> Prop :=
| wrun2_nil n : wrun2 n n
| wrun2_cons n o n1 ot n' : op_wf2 n o -> exec n o = Ok (n1, ot) -> wrun2 n1 n' -> wrun2 n n'.

Theorem wrun2_good rw n n' : wrun2 n n' -> NGood rw n -> NGood rw n'.
Proof.
  intros R. induction R as [|n o n1 ot n' W E R IH]; intros G; [exact G|].
  apply IH. eapply exec_good; eassumption.
Qed.

(* along any non-panicking prefix of a trace from rn_new the NEXT call cannot panic at a
   node-local or log/storage-shape site *)
Theorem trace_next_no_panic c st sa dr n0 n o s :
  rn_new c st sa dr = Ok (inr n0) -> SInv st -> trig_log st = false -> c_applied c < u64_max ->
  wrun2 n0 n -> op_wf2 n o -> exec n o = Panic s -> ~ In s all_sites.
Proof.
  intros H Hs Hq Ha R W E.
  assert (G0 : NGood true n0).
  { split; [eapply rn_new_RnInv; exact H|]. split; [exact (proj1 (rn_new_pres _ _ _ _ _ H Hs Hq))|].
    unfold CsiOK. unfold rn_new in H. destruct (c_id c =? 0); [discriminate|].
    inv_bind H. destruct x as [e|r]; inversion H; subst. exact Ha. }
  eapply (exec_no_panic true); [eapply wrun2_good; eassumption|exact W|exact E].
Qed.

(* ================================================================== *)
(* the Raft-level entry points, both invariants and both site lists at once *)
Theorem step_safe2 rw r m :
  NodeInv r -> LI rw r -> msg_wf2 (last_index (r_log r)) m -> snap_ok m ->
  (forall r' c, step r m = Ok (r', c) -> NodeInv r' /\ LI rw r') /\
  (forall s, step r m = Panic s -> ~ In s all_sites).
Proof.
  intros A B W S. split.
  - intros r' c E. split; [exact (safe_ok_inv _ _ _ (step_safe r m A S) E)|].
    eapply step_pres; [exact E|exact (proj1 W)|exact B].
  - intros s E Hin. unfold all_sites in Hin. apply in_app_or in Hin. destruct Hin as [Hin|Hin].
    + exact (safe_panic_inv _ _ _ (step_safe r m A S) E Hin).
    + exact (nops_panic_inv _ _ (step_nops rw r m B W) E Hin).
Qed.

Theorem tick_safe2 rw r :
  NodeInv r -> LI rw r -> room 1 r ->
  (forall r' b, tick r = Ok (r', b) -> NodeInv r' /\ LI rw r') /\
  (forall s, tick r = Panic s -> ~ In s all_sites).
Proof.
  intros A B Hr. split.
  - intros r' b E. split; [exact (safe_ok_inv _ _ _ (tick_safe r A) E)|].
    eapply tick_pres; eassumption.
  - intros s E Hin. unfold all_sites in Hin. apply in_app_or in Hin. destruct Hin as [Hin|Hin].
    + exact (safe_panic_inv _ _ _ (tick_safe r A) E Hin).
    + exact (nops_panic_inv _ _ (tick_nops rw r B Hr) E Hin).
Qed.

(* definitions written out *)
Lemma shape_sites_def_pin :
  shape_sites =
  [site_u_trunc_empty; site_u_slice_order; site_u_slice_bound; site_u_term_index;
   site_l_last_term; site_l_append_range; site_l_slice_order; site_l_slice_bound;
   site_l_slice_unavailable; site_l_next_entries; site_l_fuel; site_l_scan_empty;
   site_snapshot_err; site_req_snap_term;
   site_first_overflow; site_entries_last_overflow; site_entries_oob; site_entries_hi_underflow;
   site_entries_slice_order; site_entries_slice_end; site_term_index].
Proof. reflexivity. Qed.
Lemma all_sites_def_pin : all_sites = local_sites ++ shape_sites.
Proof. reflexivity. Qed.
Lemma nops_def_pin {A} (x : Res A) : nops x <-> (forall s, x = Panic s -> ~ In s shape_sites).
Proof.
  split; [intros H s ->; exact H|]. intros H. destruct x as [a|s]; [exact I|apply H; reflexivity].
Qed.
Lemma append_wf2_def_pin li m :
  append_wf2 li m <->
  (contiguous_from (m_index m + 1) (m_entries m)
   /\ m_index m + N.of_nat (length (m_entries m)) < u64_max)
  /\ Forall (fun e => e_term e <> 0) (m_entries m) /\ (m_index m <= li \/ m_log_term m <> 0).
Proof. reflexivity. Qed.
Lemma msg_wf2_def_pin li m :
  msg_wf2 li m <-> msg_wf li m /\ (m_type m = MsgAppend -> append_wf2 li m).
Proof. reflexivity. Qed.
Lemma op_wf2_def_pin n o :
  op_wf2 n o <->
  op_wf n o /\
  match o with
  | OStep m => (m_type m = MsgAppend -> append_wf2 (nlast n) m) /\ snap_ok m
  | OApplyCC _ => 1 <= nlast n
  | _ => True
  end.
Proof. reflexivity. Qed.
Lemma NGood_def_pin rw n : NGood rw n <-> RnInv n /\ NLI rw n /\ CsiOK n.
Proof. reflexivity. Qed.
Lemma wrun2_iff n n' :
  wrun2 n n' <-> (n' = n) \/ exists o n1 ot, op_wf2 n o /\ exec n o = Ok (n1, ot) /\ wrun2 n1 n'.
Proof.
  split.
  - intros R. destruct R; [left; reflexivity|right; eauto 10].
  - intros [-> |(o & n1 & ot & A & B & C0)]; [constructor|econstructor; eassumption].
Qed.

(* ================================================================== *)
(* non-vacuity: the single-voter trace of M/RaftProofsRepInv.v (campaign, Ready, the
   application's write, advance_append) is a wrun2; the invariants hold at its end and the
   next tick succeeds *)
Module ShapeSamples.
  Import Samples RepInvSamples.

  Lemma op_wf2_plain n o :
    op_wf n o -> match o with OStep _ | OApplyCC _ => False | _ => True end -> op_wf2 n o.
  Proof. intros W P. split; [exact W|]. destruct o; try exact I; contradiction. Qed.

  Lemma ex_leader_trace2 : wrun2 node0 node3.
  Proof.
    eapply (wrun2_cons node0 OCampaign node1);
      [apply op_wf2_plain; [vm_compute; reflexivity|exact I]|vm_compute; reflexivity|].
    eapply (wrun2_cons node1 OReady (fst ready1));
      [apply op_wf2_plain; exact I|vm_compute; reflexivity|].
    eapply (wrun2_cons (fst ready1) (OSetStore store1) node2).
    { apply op_wf2_plain; [|exact I]. apply SW_entries; [reflexivity|vm_compute; reflexivity]. }
    { reflexivity. }
    eapply (wrun2_cons node2 (OAdvanceAppend (snd ready1)) node3).
    { apply op_wf2_plain; [|exact I]. split.
      - split; [intros C; vm_compute in C; congruence|intros _; vm_compute; reflexivity].
      - unfold persist_pre. vm_compute. intros C; discriminate. }
    { vm_compute. reflexivity. }
    constructor.
  Qed.

  Lemma shape_nonvacuous :
    exists c st n0 n,
      rn_new c st None [15; 15; 15; 15] = Ok (inr n0) /\ SInv st /\ trig_log st = false /\
      c_applied c < u64_max /\ wrun2 n0 n /\ NGood true n /\ r_state (rn_raft n) = Leader /\
      op_wf2 n OTick /\ exists n' b, exec n OTick = Ok (n', b).
  Proof.
    exists cfg, store0, node0, node3.
    split; [exact node0_new|]. split; [exact store0_inv|]. split; [reflexivity|].
    split; [vm_compute; reflexivity|]. split; [exact ex_leader_trace2|].
    split.
    { eapply wrun2_good; [exact ex_leader_trace2|].
      split; [eapply rn_new_RnInv; exact node0_new|].
      split; [exact (proj1 (rn_new_pres _ _ _ _ _ node0_new store0_inv eq_refl))|vm_compute; reflexivity]. }
    split; [reflexivity|].
    split; [apply op_wf2_plain; [vm_compute; reflexivity|exact I]|].
    eexists. eexists. vm_compute. reflexivity.
  Qed.
End ShapeSamples.
