(* C20: step_rejects and the SITE TABLE of the node model.
   Every model function returns [Res A]; a panic is the value [Panic s].  For each
   function f of M/Raft.v and M/RawNode.v (and of the components they call) this file
   proves an upper bound  [f args = Panic s -> In s f_sites]  where [f_sites] is a
   concrete list of site numbers, and for the leaf functions an exact
   characterisation [f args = Panic site <-> condition].  *)
From RV Require Import Base.Prelude Base.IdSet M.Util M.Proto M.MemStorage M.Inflights
  M.Progress M.RaftLog M.Quorum M.ConfChange M.Msg M.Raft M.RawNode M.RaftProofs.
From RecordUpdate Require Import RecordSet.
Import RecordSetNotations.

Local Open Scope N_scope.

(* ================================================================== *)
(* 1. RawNode::step rejects local messages and responses of unknown peers *)
Theorem step_rejects_local n m :
  is_local_msg (m_type m) = true -> rn_step n m = Ok (n, E_STEP_LOCAL_MSG).
Proof. intros H. unfold rn_step. rewrite H. reflexivity. Qed.

Theorem step_rejects_unknown_peer n m :
  is_response_msg (m_type m) = true -> get_pr (rn_raft n) (m_from m) = None ->
  rn_step n m = Ok (n, if is_local_msg (m_type m) then E_STEP_LOCAL_MSG else E_STEP_PEER_NOT_FOUND).
Proof.
  intros H G. unfold rn_step. destruct (is_local_msg (m_type m)); [reflexivity|].
  rewrite G, H. reflexivity.
Qed.

(* the converse: these two codes are produced by nothing else, and every other message
   is handed to Raft::step unchanged *)
Theorem step_passes_rest n m :
  is_local_msg (m_type m) = false ->
  (is_response_msg (m_type m) = false \/ exists p, get_pr (rn_raft n) (m_from m) = Some p) ->
  rn_step n m = lift2 n (step (rn_raft n) m).
Proof.
  intros H G. unfold rn_step. rewrite H.
  destruct G as [G|[p G]]; rewrite G; [rewrite orb_true_r|]; reflexivity.
Qed.

(* ================================================================== *)
(* 2. infrastructure for site tables *)
Lemma bind_panic {A B} (a : Res A) (f : A -> Res B) s :
  bind a f = Panic s -> a = Panic s \/ exists x, a = Ok x /\ f x = Panic s.
Proof. destruct a as [x|s']; cbn; [eauto|]. intros H. left. injection H as ->. reflexivity. Qed.

Lemma in_b (s : N) L : existsb (N.eqb s) L = true -> In s L.
Proof.
  intros H. apply existsb_exists in H. destruct H as (x & Hx & E).
  apply N.eqb_eq in E. subst. exact Hx.
Qed.

Lemma incl_b (A B : list N) : forallb (fun x => existsb (N.eqb x) B) A = true -> incl A B.
Proof.
  intros H x Hx. rewrite forallb_forall in H. apply in_b. apply H. exact Hx.
Qed.

Lemma in_incl (s : N) A B : In s A -> incl A B -> In s B.
Proof. intros H I. apply I. exact H. Qed.

Create HintDb sites.

(* one decomposition step on the hypothesis [_ = Panic s] matching the goal [In s _] *)
Ltac pstep :=
  match goal with
  | H : Ok _ = Panic _ |- _ => discriminate H
  | H : Panic ?s1 = Panic ?s |- In ?s _ =>
      injection H as H; subst; apply in_b; vm_compute; reflexivity
  | H : bind ?a ?f = Panic ?s |- In ?s _ =>
      apply bind_panic in H; destruct H as [H | (? & ? & H)]; cbv beta in H
  | H : (match ?x with _ => _ end) = Panic ?s |- In ?s _ =>
      destruct x eqn:?; cbv beta iota in H
  end.

Ltac pleaf :=
  match goal with
  | H : _ = Panic ?s |- In ?s _ =>
      eapply in_incl; [ solve [eauto with sites nocore] | apply incl_b; vm_compute; reflexivity ]
  end.

Ltac psites := repeat (first [ pleaf | pstep ]).

(* start: unfold the head function and normalise lets *)
Ltac pstart H := cbv beta zeta in H.

(* ================================================================== *)
(* 3. component site tables: Inflights, Progress, MemStorage, Unstable, RaftLog *)

Lemma idx_sites {A} (l : list A) i st s : idx l i st = Panic s -> s = st.
Proof. unfold idx. destruct (nth_error l i); [discriminate|]. intros H; injection H; auto. Qed.

Ltac pidx :=
  match goal with
  | H : idx _ _ _ = Panic ?s |- In ?s _ =>
      apply idx_sites in H; subst; apply in_b; vm_compute; reflexivity
  end.

Ltac psites ::= repeat (first [ pidx | pleaf | pstep ]).

(* ---- Inflights ---- *)
Definition add_sites : list N :=
  [site_add_full; site_add_dbg_count; site_add_dbg_start; site_add_dbg_incoming; site_add_next].
Lemma add_sites_ok i x s : Inflights.add i x = Panic s -> In s add_sites.
Proof. unfold Inflights.add. intros H. pstart H. psites. Qed.
#[export] Hint Resolve add_sites_ok : sites.

Definition free_to_sites : list N := [site_free_index].
Lemma free_loop_sites buf c to fuel : forall i ix s,
  free_loop buf c to fuel i ix = Panic s -> In s free_to_sites.
Proof.
  induction fuel as [|f IH]; intros i ix s H; cbn [free_loop] in H; [discriminate|].
  pstart H. psites.
Qed.
#[export] Hint Resolve free_loop_sites : sites.
Lemma free_to_sites_ok i to s : Inflights.free_to i to = Panic s -> In s free_to_sites.
Proof. unfold Inflights.free_to. intros H. pstart H. psites. Qed.
#[export] Hint Resolve free_to_sites_ok : sites.

Definition free_first_one_sites : list N := [site_first_index; site_free_index].
Lemma free_first_one_sites_ok i s : Inflights.free_first_one i = Panic s -> In s free_first_one_sites.
Proof. unfold Inflights.free_first_one. intros H. pstart H. psites. Qed.
#[export] Hint Resolve free_first_one_sites_ok : sites.

Definition set_cap_sites : list N := [site_setcap_dbg_len; site_setcap_slice; site_count_underflow].
Lemma set_cap_sites_ok i c s : Inflights.set_cap i c = Panic s -> In s set_cap_sites.
Proof. unfold Inflights.set_cap. intros H. pstart H. psites. Qed.
#[export] Hint Resolve set_cap_sites_ok : sites.

(* ---- Progress ---- *)
Definition update_state_sites : list N := site_update_state_snapshot :: add_sites.
Lemma update_state_sites_ok p l s : update_state p l = Panic s -> In s update_state_sites.
Proof. unfold update_state. intros H. pstart H. psites. Qed.
#[export] Hint Resolve update_state_sites_ok : sites.

(* ---- MemStorage (the read side used by RaftLog) ---- *)
Definition st_first_index_sites : list N := [site_first_overflow].
Lemma st_first_index_sites_ok m s : MemStorage.first_index m = Panic s -> In s st_first_index_sites.
Proof. unfold MemStorage.first_index. intros H. pstart H. psites. Qed.
#[export] Hint Resolve st_first_index_sites_ok : sites.
Lemma storage_first_index_sites_ok m s : storage_first_index m = Panic s -> In s st_first_index_sites.
Proof. exact (st_first_index_sites_ok m s). Qed.
#[export] Hint Resolve storage_first_index_sites_ok : sites.

Definition storage_term_sites : list N := [site_first_overflow; site_term_index].
Lemma storage_term_sites_ok m i s : storage_term m i = Panic s -> In s storage_term_sites.
Proof. unfold storage_term. intros H. pstart H. psites. Qed.
#[export] Hint Resolve storage_term_sites_ok : sites.

Definition storage_entries_sites : list N :=
  [site_first_overflow; site_entries_last_overflow; site_entries_oob; site_entries_hi_underflow;
   site_entries_slice_order; site_entries_slice_end].
Lemma storage_entries_sites_ok m lo hi mx c s :
  storage_entries m lo hi mx c = Panic s -> In s storage_entries_sites.
Proof. unfold storage_entries. intros H. pstart H. psites. Qed.
#[export] Hint Resolve storage_entries_sites_ok : sites.

Definition make_snapshot_sites : list N :=
  [site_snapshot_entries0; site_snapshot_underflow; site_snapshot_index; site_snapshot_commit_lt].
Lemma make_snapshot_sites_ok m s : make_snapshot m = Panic s -> In s make_snapshot_sites.
Proof. unfold make_snapshot. intros H. pstart H. psites. Qed.
#[export] Hint Resolve make_snapshot_sites_ok : sites.
Lemma storage_snapshot_sites_ok m ri to s : storage_snapshot m ri to = Panic s -> In s make_snapshot_sites.
Proof. unfold storage_snapshot. intros H. pstart H. psites. Qed.
#[export] Hint Resolve storage_snapshot_sites_ok : sites.

(* ---- Unstable ---- *)
Definition u_maybe_term_sites : list N := [site_u_term_index].
Lemma u_maybe_term_sites_ok u i s : u_maybe_term u i = Panic s -> In s u_maybe_term_sites.
Proof. unfold u_maybe_term. intros H. pstart H. psites. Qed.
#[export] Hint Resolve u_maybe_term_sites_ok : sites.

Definition u_stable_entries_sites : list N :=
  [site_u_stable_entries_snap; site_u_stable_entries_empty; site_u_stable_entries_mismatch].
Lemma u_stable_entries_sites_ok u i t s : u_stable_entries u i t = Panic s -> In s u_stable_entries_sites.
Proof. unfold u_stable_entries. intros H. pstart H. psites. Qed.
#[export] Hint Resolve u_stable_entries_sites_ok : sites.

Definition u_stable_snap_sites : list N := [site_u_stable_snap_mismatch; site_u_stable_snap_none].
Lemma u_stable_snap_sites_ok u i s : u_stable_snap u i = Panic s -> In s u_stable_snap_sites.
Proof. unfold u_stable_snap. intros H. pstart H. psites. Qed.
#[export] Hint Resolve u_stable_snap_sites_ok : sites.

Definition u_check_sites : list N := [site_u_slice_order; site_u_slice_bound].
Lemma u_check_sites_ok u lo hi s : u_must_check_outofbounds u lo hi = Panic s -> In s u_check_sites.
Proof. unfold u_must_check_outofbounds. intros H. pstart H. psites. Qed.
#[export] Hint Resolve u_check_sites_ok : sites.

Definition u_taa_sites : list N := site_u_trunc_empty :: u_check_sites.
Lemma u_taa_sites_ok u ents s : u_truncate_and_append u ents = Panic s -> In s u_taa_sites.
Proof. unfold u_truncate_and_append. intros H. pstart H. psites. Qed.
#[export] Hint Resolve u_taa_sites_ok : sites.

Lemma u_slice_sites_ok u lo hi s : u_slice u lo hi = Panic s -> In s u_check_sites.
Proof. unfold u_slice. intros H. pstart H. psites. Qed.
#[export] Hint Resolve u_slice_sites_ok : sites.

(* ---- RaftLog ---- *)
Lemma l_first_index_sites_ok l s : RaftLog.first_index l = Panic s -> In s st_first_index_sites.
Proof. unfold RaftLog.first_index. intros H. pstart H. psites. Qed.
#[export] Hint Resolve l_first_index_sites_ok : sites.

Definition log_new_sites : list N := [site_first_overflow; site_l_underflow].
Lemma log_new_sites_ok st lim s : log_new st lim = Panic s -> In s log_new_sites.
Proof. unfold log_new. intros H. pstart H. psites. Qed.
#[export] Hint Resolve log_new_sites_ok : sites.

Definition term_sites : list N := [site_first_overflow; site_l_underflow; site_u_term_index; site_term_index].
Lemma term_sites_ok l i s : RaftLog.term l i = Panic s -> In s term_sites.
Proof. unfold RaftLog.term. intros H. pstart H. psites. Qed.
#[export] Hint Resolve term_sites_ok : sites.

Definition last_term_sites : list N := site_l_last_term :: term_sites.
Lemma last_term_sites_ok l s : last_term l = Panic s -> In s last_term_sites.
Proof. unfold last_term. intros H. pstart H. psites. Qed.
#[export] Hint Resolve last_term_sites_ok : sites.

Lemma match_term_sites_ok l i t s : match_term l i t = Panic s -> In s term_sites.
Proof. unfold match_term. intros H. pstart H. psites. Qed.
#[export] Hint Resolve match_term_sites_ok : sites.

Lemma find_conflict_sites_ok l ents : forall s, find_conflict l ents = Panic s -> In s term_sites.
Proof.
  induction ents as [|e rest IH]; intros s H; cbn [find_conflict] in H; [discriminate|].
  pstart H. psites.
Qed.
#[export] Hint Resolve find_conflict_sites_ok : sites.

Definition fcbt_sites : list N := site_l_fuel :: site_l_underflow :: term_sites.
Lemma fcbt_loop_sites_ok l fuel : forall ci t s, fcbt_loop l fuel ci t = Panic s -> In s fcbt_sites.
Proof.
  induction fuel as [|f IH]; intros ci t s H; cbn [fcbt_loop] in H.
  - psites.
  - pstart H. psites.
Qed.
#[export] Hint Resolve fcbt_loop_sites_ok : sites.
Lemma find_conflict_by_term_sites_ok l i t s :
  find_conflict_by_term l i t = Panic s -> In s fcbt_sites.
Proof. unfold find_conflict_by_term. intros H. pstart H. psites. Qed.
#[export] Hint Resolve find_conflict_by_term_sites_ok : sites.

Definition l_commit_to_sites : list N := [site_l_commit_range].
Lemma l_commit_to_sites_ok l tc s : RaftLog.commit_to l tc = Panic s -> In s l_commit_to_sites.
Proof. unfold RaftLog.commit_to. intros H. pstart H. psites. Qed.
#[export] Hint Resolve l_commit_to_sites_ok : sites.

Definition log_append_sites : list N := site_l_underflow :: site_l_append_range :: u_taa_sites.
Lemma log_append_sites_ok l ents s : log_append l ents = Panic s -> In s log_append_sites.
Proof. unfold log_append. intros H. pstart H. psites. Qed.
#[export] Hint Resolve log_append_sites_ok : sites.

Definition maybe_append_sites : list N :=
  term_sites ++ [site_l_append_conflict; site_l_overflow; site_l_underflow; site_l_sub_slice]
  ++ log_append_sites ++ l_commit_to_sites.
Lemma maybe_append_sites_ok l i t c ents s :
  maybe_append l i t c ents = Panic s -> In s maybe_append_sites.
Proof. unfold maybe_append. intros H. pstart H. psites. Qed.
#[export] Hint Resolve maybe_append_sites_ok : sites.

Definition applied_to_sites : list N := [site_l_applied_range].
Lemma applied_to_sites_ok l i s : applied_to l i = Panic s -> In s applied_to_sites.
Proof. unfold applied_to. intros H. pstart H. psites. Qed.
#[export] Hint Resolve applied_to_sites_ok : sites.

Definition l_check_sites : list N :=
  [site_l_slice_order; site_first_overflow; site_l_underflow; site_l_slice_bound].
Lemma l_check_sites_ok l lo hi s : must_check_outofbounds l lo hi = Panic s -> In s l_check_sites.
Proof. unfold must_check_outofbounds. intros H. pstart H. psites. Qed.
#[export] Hint Resolve l_check_sites_ok : sites.

Lemma store_entries_sites_ok l lo hi mx s : store_entries l lo hi mx = Panic s -> In s storage_entries_sites.
Proof. unfold store_entries. intros H. pstart H. psites. Qed.
#[export] Hint Resolve store_entries_sites_ok : sites.

Definition slice_sites : list N :=
  l_check_sites ++ storage_entries_sites ++ [site_l_slice_unavailable] ++ u_check_sites.
Lemma slice_sites_ok l lo hi mx s : slice l lo hi mx = Panic s -> In s slice_sites.
Proof. unfold slice. intros H. pstart H. psites. Qed.
#[export] Hint Resolve slice_sites_ok : sites.

Definition log_entries_sites : list N := site_l_overflow :: slice_sites.
Lemma log_entries_sites_ok l i mx s : log_entries l i mx = Panic s -> In s log_entries_sites.
Proof. unfold log_entries. intros H. pstart H. psites. Qed.
#[export] Hint Resolve log_entries_sites_ok : sites.

Lemma is_up_to_date_sites_ok l i t s : is_up_to_date l i t = Panic s -> In s last_term_sites.
Proof. unfold is_up_to_date. intros H. pstart H. psites. Qed.
#[export] Hint Resolve is_up_to_date_sites_ok : sites.

Definition upper_bound_sites : list N := [].   (* saturating since /repo 63caa76 *)
Lemma upper_bound_sites_ok l s : applied_index_upper_bound l = Panic s -> In s upper_bound_sites.
Proof. unfold applied_index_upper_bound. intros H. pstart H. psites. Qed.
#[export] Hint Resolve upper_bound_sites_ok : sites.

Definition next_entries_since_sites : list N :=
  site_l_overflow :: site_first_overflow :: site_l_next_entries :: slice_sites.
Lemma next_entries_since_sites_ok l since mx s :
  next_entries_since l since mx = Panic s -> In s next_entries_since_sites.
Proof. unfold next_entries_since. intros H. pstart H. psites. Qed.
#[export] Hint Resolve next_entries_since_sites_ok : sites.

Definition has_next_entries_since_sites : list N := [site_l_overflow; site_first_overflow].
Lemma has_next_entries_since_sites_ok l since s :
  has_next_entries_since l since = Panic s -> In s has_next_entries_since_sites.
Proof. unfold has_next_entries_since. intros H. pstart H. psites. Qed.
#[export] Hint Resolve has_next_entries_since_sites_ok : sites.

Lemma log_snapshot_sites_ok l ri to s : log_snapshot l ri to = Panic s -> In s make_snapshot_sites.
Proof. unfold log_snapshot. intros H. pstart H. psites. Qed.
#[export] Hint Resolve log_snapshot_sites_ok : sites.

Definition l_maybe_commit_sites : list N := term_sites ++ l_commit_to_sites.
Lemma l_maybe_commit_sites_ok l mi t s : RaftLog.maybe_commit l mi t = Panic s -> In s l_maybe_commit_sites.
Proof. unfold RaftLog.maybe_commit. intros H. pstart H. psites. Qed.
#[export] Hint Resolve l_maybe_commit_sites_ok : sites.

Lemma maybe_persist_sites_ok l i t s : maybe_persist l i t = Panic s -> In s storage_term_sites.
Proof. unfold maybe_persist. intros H. pstart H. psites. Qed.
#[export] Hint Resolve maybe_persist_sites_ok : sites.

Definition maybe_persist_snap_sites : list N := [site_l_persist_snap_commit; site_l_persist_snap_offset].
Lemma maybe_persist_snap_sites_ok l i s : maybe_persist_snap l i = Panic s -> In s maybe_persist_snap_sites.
Proof. unfold maybe_persist_snap. intros H. pstart H. psites. Qed.
#[export] Hint Resolve maybe_persist_snap_sites_ok : sites.

Definition scan_conf_sites : list N := site_l_fuel :: site_l_scan_empty :: slice_sites.
Lemma scan_conf_sites_ok l fuel : forall lo hi page s,
  scan_conf l fuel lo hi page = Panic s -> In s scan_conf_sites.
Proof.
  induction fuel as [|f IH]; intros lo hi page s H; cbn [scan_conf] in H.
  - psites.
  - pstart H. psites.
Qed.
#[export] Hint Resolve scan_conf_sites_ok : sites.

Definition log_restore_sites : list N := [site_l_restore_assert].
Lemma log_restore_sites_ok l sn s : log_restore l sn = Panic s -> In s log_restore_sites.
Proof. unfold log_restore. intros H. pstart H. psites. Qed.
#[export] Hint Resolve log_restore_sites_ok : sites.

Definition commit_info_sites : list N := site_l_commit_info :: term_sites.
Lemma commit_info_sites_ok l s : commit_info l = Panic s -> In s commit_info_sites.
Proof. unfold commit_info. intros H. pstart H. psites. Qed.
#[export] Hint Resolve commit_info_sites_ok : sites.

Lemma stable_entries_sites_ok l i t s : stable_entries l i t = Panic s -> In s u_stable_entries_sites.
Proof. unfold stable_entries. intros H. pstart H. psites. Qed.
#[export] Hint Resolve stable_entries_sites_ok : sites.

Lemma stable_snap_sites_ok l i s : stable_snap l i = Panic s -> In s u_stable_snap_sites.
Proof. unfold stable_snap. intros H. pstart H. psites. Qed.
#[export] Hint Resolve stable_snap_sites_ok : sites.

(* ================================================================== *)
(* 4. site tables of M/Raft.v *)

Definition first_entry_data_sites : list N := [site_read_entries0].
Lemma first_entry_data_sites_ok m s : first_entry_data m = Panic s -> In s first_entry_data_sites.
Proof. unfold first_entry_data. intros H. pstart H. psites. Qed.
#[export] Hint Resolve first_entry_data_sites_ok : sites.

Lemma ro_add_request_sites_ok ro i req id s :
  ro_add_request ro i req id = Panic s -> In s first_entry_data_sites.
Proof. unfold ro_add_request. intros H. pstart H. psites. Qed.
#[export] Hint Resolve ro_add_request_sites_ok : sites.

Definition ro_sites : list N := [site_ro_missing].
Lemma ro_position_sites_ok ro q : forall ctx i s, ro_position ro q ctx i = Panic s -> In s ro_sites.
Proof.
  induction q as [|x t IH]; intros ctx i s H; cbn [ro_position] in H; [discriminate|].
  pstart H. psites.
Qed.
#[export] Hint Resolve ro_position_sites_ok : sites.
Lemma ro_pop_sites_ok k : forall ro acc s, ro_pop ro k acc = Panic s -> In s ro_sites.
Proof.
  induction k as [|k IH]; intros ro acc s H; cbn [ro_pop] in H; [discriminate|].
  pstart H. psites.
Qed.
#[export] Hint Resolve ro_pop_sites_ok : sites.
Lemma ro_advance_sites_ok ro ctx s : ro_advance ro ctx = Panic s -> In s ro_sites.
Proof. unfold ro_advance. intros H. pstart H. psites. Qed.
#[export] Hint Resolve ro_advance_sites_ok : sites.

Definition vote_resp_msg_type_sites : list N := [site_vote_resp_type].
Lemma vote_resp_msg_type_sites_ok t s : vote_resp_msg_type t = Panic s -> In s vote_resp_msg_type_sites.
Proof. unfold vote_resp_msg_type. intros H. pstart H. psites. Qed.
#[export] Hint Resolve vote_resp_msg_type_sites_ok : sites.

Lemma commit_to_current_term_sites_ok r s : commit_to_current_term r = Panic s -> In s term_sites.
Proof. unfold commit_to_current_term. intros H. pstart H. psites. Qed.
#[export] Hint Resolve commit_to_current_term_sites_ok : sites.
Lemma apply_to_current_term_sites_ok r s : apply_to_current_term r = Panic s -> In s term_sites.
Proof. unfold apply_to_current_term. intros H. pstart H. psites. Qed.
#[export] Hint Resolve apply_to_current_term_sites_ok : sites.

Definition send_sites : list N := [site_send_vote_term0; site_send_term_set].
Lemma send_sites_ok r m s : send r m = Panic s -> In s send_sites.
Proof. unfold send. intros H. pstart H. psites. Qed.
#[export] Hint Resolve send_sites_ok : sites.

Definition raft_snapshot_sites : list N := make_snapshot_sites ++ storage_term_sites.
Lemma raft_snapshot_sites_ok r ri to s : raft_snapshot r ri to = Panic s -> In s raft_snapshot_sites.
Proof. unfold raft_snapshot. intros H. pstart H. psites. Qed.
#[export] Hint Resolve raft_snapshot_sites_ok : sites.

Definition prepare_send_snapshot_sites : list N :=
  site_snapshot_err :: site_snapshot_empty :: raft_snapshot_sites.
Lemma prepare_send_snapshot_sites_ok r m pr to s :
  prepare_send_snapshot r m pr to = Panic s -> In s prepare_send_snapshot_sites.
Proof. unfold prepare_send_snapshot. intros H. pstart H. psites. Qed.
#[export] Hint Resolve prepare_send_snapshot_sites_ok : sites.

Definition prepare_send_entries_sites : list N := site_next_idx_underflow :: update_state_sites.
Lemma prepare_send_entries_sites_ok r m pr t ents s :
  prepare_send_entries r m pr t ents = Panic s -> In s prepare_send_entries_sites.
Proof. unfold prepare_send_entries. intros H. pstart H. psites. Qed.
#[export] Hint Resolve prepare_send_entries_sites_ok : sites.

Lemma try_batching_sites_ok r to msgs : forall pr ents s,
  try_batching r to msgs pr ents = Panic s -> In s update_state_sites.
Proof.
  induction msgs as [|m rest IH]; intros pr ents s H; cbn [try_batching] in H; [discriminate|].
  pstart H. psites.
Qed.
#[export] Hint Resolve try_batching_sites_ok : sites.

Definition maybe_send_append_sites : list N :=
  site_next_idx_underflow :: prepare_send_snapshot_sites ++ send_sites ++ log_entries_sites
  ++ term_sites ++ update_state_sites.
Lemma maybe_send_append_sites_ok r to pr ae s :
  maybe_send_append r to pr ae = Panic s -> In s maybe_send_append_sites.
Proof. unfold maybe_send_append. intros H. pstart H. psites. Qed.
#[export] Hint Resolve maybe_send_append_sites_ok : sites.

Definition send_append_sites : list N := site_pr_unwrap :: maybe_send_append_sites.
Lemma send_append_to_sites_ok r to s : send_append_to r to = Panic s -> In s send_append_sites.
Proof. unfold send_append_to. intros H. pstart H. psites. Qed.
#[export] Hint Resolve send_append_to_sites_ok : sites.

Definition send_append_aggressively_sites : list N := site_fuel :: send_append_sites.
Lemma send_append_aggressively_loop_sites_ok fuel : forall r to pr s,
  send_append_aggressively_loop fuel r to pr = Panic s -> In s send_append_aggressively_sites.
Proof.
  induction fuel as [|f IH]; intros r to pr s H; cbn [send_append_aggressively_loop] in H.
  - psites.
  - pstart H. psites.
Qed.
#[export] Hint Resolve send_append_aggressively_loop_sites_ok : sites.
Lemma send_append_aggressively_sites_ok r to s :
  send_append_aggressively r to = Panic s -> In s send_append_aggressively_sites.
Proof. unfold send_append_aggressively. intros H. pstart H. psites. Qed.
#[export] Hint Resolve send_append_aggressively_sites_ok : sites.

Lemma send_heartbeat_sites_ok r to pr ctx s : send_heartbeat r to pr ctx = Panic s -> In s send_sites.
Proof. unfold send_heartbeat. intros H. pstart H. psites. Qed.
#[export] Hint Resolve send_heartbeat_sites_ok : sites.

Lemma for_each_peer_sites (f : raft -> N -> Res raft) (L : list N) ids self :
  (forall r id s, f r id = Panic s -> In s L) ->
  forall r s, for_each_peer ids self f r = Panic s -> In s L.
Proof.
  intros Hf. induction ids as [|id rest IH]; intros r s H; cbn [for_each_peer] in H; [discriminate|].
  destruct (id =? self); [eauto|].
  apply bind_panic in H. destruct H as [H|(x & _ & H)]; eauto.
Qed.

Lemma bcast_append_sites_ok r s : bcast_append r = Panic s -> In s send_append_sites.
Proof. unfold bcast_append. apply for_each_peer_sites. apply send_append_to_sites_ok. Qed.
#[export] Hint Resolve bcast_append_sites_ok : sites.

Definition bcast_heartbeat_sites : list N := site_pr_unwrap :: send_sites.
Lemma bcast_heartbeat_with_ctx_sites_ok r ctx s :
  bcast_heartbeat_with_ctx r ctx = Panic s -> In s bcast_heartbeat_sites.
Proof.
  unfold bcast_heartbeat_with_ctx. apply for_each_peer_sites.
  intros r0 id s0 H. pstart H. psites.
Qed.
#[export] Hint Resolve bcast_heartbeat_with_ctx_sites_ok : sites.
Lemma bcast_heartbeat_sites_ok r s : bcast_heartbeat r = Panic s -> In s bcast_heartbeat_sites.
Proof. unfold bcast_heartbeat. apply bcast_heartbeat_with_ctx_sites_ok. Qed.
#[export] Hint Resolve bcast_heartbeat_sites_ok : sites.

Definition maybe_commit_sites : list N := l_maybe_commit_sites.   (* no unwrap since /repo e9967b2 *)
Lemma maybe_commit_sites_ok r s : maybe_commit r = Panic s -> In s maybe_commit_sites.
Proof. unfold maybe_commit. intros H. pstart H. psites. Qed.
#[export] Hint Resolve maybe_commit_sites_ok : sites.

Lemma append_entry_sites_ok r es s : append_entry r es = Panic s -> In s log_append_sites.
Proof.
  unfold append_entry. intros H. destruct (maybe_increase_uncommitted_size r es) as [r1 ok].
  pstart H. psites.
Qed.
#[export] Hint Resolve append_entry_sites_ok : sites.

Definition reset_sites : list N := [site_draws].
Lemma reset_sites_ok r t s : reset r t = Panic s -> In s reset_sites.
Proof. unfold reset. intros H. pstart H. psites. Qed.
#[export] Hint Resolve reset_sites_ok : sites.

Lemma become_follower_sites_ok r t l s : become_follower r t l = Panic s -> In s reset_sites.
Proof. unfold become_follower. intros H. pstart H. psites. Qed.
#[export] Hint Resolve become_follower_sites_ok : sites.

Definition become_candidate_sites : list N := site_candidate_from_leader :: reset_sites.
Lemma become_candidate_sites_ok r s : become_candidate r = Panic s -> In s become_candidate_sites.
Proof. unfold become_candidate. intros H. pstart H. psites. Qed.
#[export] Hint Resolve become_candidate_sites_ok : sites.

Definition become_pre_candidate_sites : list N := [site_precandidate_from_leader].
Lemma become_pre_candidate_sites_ok r s :
  become_pre_candidate r = Panic s -> In s become_pre_candidate_sites.
Proof. unfold become_pre_candidate. intros H. pstart H. psites. Qed.
#[export] Hint Resolve become_pre_candidate_sites_ok : sites.

Definition become_leader_sites : list N :=
  [site_leader_from_follower; site_self_progress; site_leader_noop_dropped]
  ++ reset_sites ++ log_append_sites.   (* no persisted assertion since /repo 19c179c *)
Lemma become_leader_sites_ok r s : become_leader r = Panic s -> In s become_leader_sites.
Proof. unfold become_leader. intros H. pstart H. psites. Qed.
#[export] Hint Resolve become_leader_sites_ok : sites.

Definition poll_base_sites : list N := become_leader_sites ++ send_append_sites ++ reset_sites.
Lemma poll_gen_sites (rc : raft -> Res raft) (L : list N) r from v s :
  (forall r s, rc r = Panic s -> In s L) ->
  poll_gen rc r from v = Panic s -> In s (L ++ poll_base_sites).
Proof.
  intros Hrc H. unfold poll_gen in H. pstart H.
  match type of H with (match ?x with _ => _ end) = _ => destruct x end.
  - discriminate.
  - apply in_or_app; right. psites.
  - match type of H with (if ?c then _ else _) = _ => destruct c end.
    + apply bind_panic in H. destruct H as [H|(x & _ & H)]; [|discriminate].
      apply in_or_app; left; eauto.
    + apply in_or_app; right. psites.
Qed.

Definition send_vote_requests_sites : list N := last_term_sites ++ send_sites.
Lemma send_vote_requests_sites_ok ids : forall r vm t c ct tr s,
  send_vote_requests ids r vm t c ct tr = Panic s -> In s send_vote_requests_sites.
Proof.
  induction ids as [|id rest IH]; intros r vm t c ct tr s H; cbn [send_vote_requests] in H;
    [discriminate|].
  pstart H. psites.
Qed.
#[export] Hint Resolve send_vote_requests_sites_ok : sites.

Definition campaign_real_sites : list N :=
  site_fuel :: become_candidate_sites ++ poll_base_sites ++ commit_info_sites ++ send_vote_requests_sites.
Lemma campaign_real_sites_ok tr r s : campaign_real tr r = Panic s -> In s campaign_real_sites.
Proof.
  unfold campaign_real. intros H. pstart H.
  apply bind_panic in H. destruct H as [H|(r1 & _ & H)]; [psites|].
  apply bind_panic in H. destruct H as [H|(x & _ & H)].
  - apply (poll_gen_sites _ [site_fuel]) in H.
    + eapply in_incl; [exact H|apply incl_b; vm_compute; reflexivity].
    + intros r0 s0 H0. psites.
  - psites.
Qed.
#[export] Hint Resolve campaign_real_sites_ok : sites.

Lemma poll_sites_ok r from v s : poll r from v = Panic s -> In s campaign_real_sites.
Proof.
  unfold poll. intros H. apply (poll_gen_sites _ campaign_real_sites) in H.
  - eapply in_incl; [exact H|apply incl_b; vm_compute; reflexivity].
  - apply campaign_real_sites_ok.
Qed.
#[export] Hint Resolve poll_sites_ok : sites.

Definition campaign_pre_sites : list N := become_pre_candidate_sites ++ campaign_real_sites.
Lemma campaign_pre_sites_ok r s : campaign_pre r = Panic s -> In s campaign_pre_sites.
Proof. unfold campaign_pre. intros H. pstart H. psites. Qed.
#[export] Hint Resolve campaign_pre_sites_ok : sites.

Lemma has_unapplied_conf_changes_sites_ok r lo hi s :
  has_unapplied_conf_changes r lo hi = Panic s -> In s scan_conf_sites.
Proof. unfold has_unapplied_conf_changes. intros H. pstart H. psites. Qed.
#[export] Hint Resolve has_unapplied_conf_changes_sites_ok : sites.

Definition hup_sites : list N := scan_conf_sites ++ campaign_pre_sites.
Lemma hup_sites_ok r tl s : hup r tl = Panic s -> In s hup_sites.
Proof. unfold hup. intros H. pstart H. psites. Qed.
#[export] Hint Resolve hup_sites_ok : sites.

Definition maybe_commit_by_vote_sites : list N := l_maybe_commit_sites ++ scan_conf_sites ++ reset_sites.
Lemma maybe_commit_by_vote_sites_ok r m s :
  maybe_commit_by_vote r m = Panic s -> In s maybe_commit_by_vote_sites.
Proof. unfold maybe_commit_by_vote. intros H. pstart H. psites. Qed.
#[export] Hint Resolve maybe_commit_by_vote_sites_ok : sites.

Lemma handle_ready_read_index_sites_ok r req i s :
  handle_ready_read_index r req i = Panic s -> In s first_entry_data_sites.
Proof. unfold handle_ready_read_index. intros H. pstart H. psites. Qed.
#[export] Hint Resolve handle_ready_read_index_sites_ok : sites.

Definition respond_reads_sites : list N := first_entry_data_sites ++ send_sites.
Lemma respond_reads_sites_ok rss : forall r s, respond_reads r rss = Panic s -> In s respond_reads_sites.
Proof.
  induction rss as [|rs rest IH]; intros r s H; cbn [respond_reads] in H; [discriminate|].
  pstart H. psites.
Qed.
#[export] Hint Resolve respond_reads_sites_ok : sites.

Lemma send_timeout_now_sites_ok r to s : send_timeout_now r to = Panic s -> In s send_sites.
Proof. unfold send_timeout_now. intros H. pstart H. psites. Qed.
#[export] Hint Resolve send_timeout_now_sites_ok : sites.

Definition send_request_snapshot_sites : list N := site_req_snap_term :: term_sites ++ send_sites.
Lemma send_request_snapshot_sites_ok r s :
  send_request_snapshot r = Panic s -> In s send_request_snapshot_sites.
Proof. unfold send_request_snapshot. intros H. pstart H. psites. Qed.
#[export] Hint Resolve send_request_snapshot_sites_ok : sites.

Definition handle_append_entries_sites : list N :=
  site_hint_term :: send_request_snapshot_sites ++ maybe_append_sites ++ fcbt_sites.
Lemma handle_append_entries_sites_ok r m s :
  handle_append_entries r m = Panic s -> In s handle_append_entries_sites.
Proof. unfold handle_append_entries. intros H. pstart H. psites. Qed.
#[export] Hint Resolve handle_append_entries_sites_ok : sites.

Definition handle_heartbeat_sites : list N := l_commit_to_sites ++ send_request_snapshot_sites.
Lemma handle_heartbeat_sites_ok r m s : handle_heartbeat r m = Panic s -> In s handle_heartbeat_sites.
Proof. unfold handle_heartbeat. intros H. pstart H. psites. Qed.
#[export] Hint Resolve handle_heartbeat_sites_ok : sites.

Lemma pcc_loop_sites_ok ids self r s :
  for_each_peer ids self
    (fun r id => match get_pr r id with
                 | None => Panic site_pr_unwrap
                 | Some pr =>
                     y <- maybe_send_append r id pr false ;;
                     let '(r', pr', _) := y in Ok (put_pr r' id pr')
                 end) r = Panic s -> In s send_append_sites.
Proof.
  apply for_each_peer_sites. intros r0 id s0 H. pstart H. psites.
Qed.
#[export] Hint Resolve pcc_loop_sites_ok : sites.

Definition post_conf_change_sites : list N :=
  maybe_commit_sites ++ send_append_sites ++ ro_sites ++ respond_reads_sites.
Lemma post_conf_change_sites_ok r s : post_conf_change r = Panic s -> In s post_conf_change_sites.
Proof. unfold post_conf_change. intros H. pstart H. psites. Qed.
#[export] Hint Resolve post_conf_change_sites_ok : sites.

Definition restore_sites : list N :=
  [site_restore_conf; site_restore_mismatch; site_self_progress; site_next_idx_underflow]
  ++ reset_sites ++ term_sites ++ l_commit_to_sites ++ log_restore_sites ++ post_conf_change_sites.
Lemma restore_sites_ok r sn s : restore r sn = Panic s -> In s restore_sites.
Proof. unfold restore. intros H. pstart H. psites. Qed.
#[export] Hint Resolve restore_sites_ok : sites.

Definition handle_snapshot_sites : list N := restore_sites ++ send_sites.
Lemma handle_snapshot_sites_ok r m s : handle_snapshot r m = Panic s -> In s handle_snapshot_sites.
Proof. unfold handle_snapshot. intros H. pstart H. psites. Qed.
#[export] Hint Resolve handle_snapshot_sites_ok : sites.

Definition handle_append_response_sites : list N :=
  fcbt_sites ++ free_to_sites ++ maybe_commit_sites ++ send_append_aggressively_sites ++ send_sites.
Lemma handle_append_response_sites_ok r m s :
  handle_append_response r m = Panic s -> In s handle_append_response_sites.
Proof. unfold handle_append_response. intros H. pstart H. psites. Qed.
#[export] Hint Resolve handle_append_response_sites_ok : sites.

Definition handle_heartbeat_response_sites : list N :=
  free_first_one_sites ++ maybe_send_append_sites ++ ro_sites ++ respond_reads_sites.
Lemma handle_heartbeat_response_sites_ok r m s :
  handle_heartbeat_response r m = Panic s -> In s handle_heartbeat_response_sites.
Proof. unfold handle_heartbeat_response. intros H. pstart H. psites. Qed.
#[export] Hint Resolve handle_heartbeat_response_sites_ok : sites.

Definition handle_transfer_leader_sites : list N := site_pr_unwrap :: maybe_send_append_sites.
Lemma handle_transfer_leader_sites_ok r m s :
  handle_transfer_leader r m = Panic s -> In s handle_transfer_leader_sites.
Proof. unfold handle_transfer_leader. intros H. pstart H. psites. Qed.
#[export] Hint Resolve handle_transfer_leader_sites_ok : sites.

Lemma handle_snapshot_status_no_panic r m s : handle_snapshot_status r m = Panic s -> False.
Proof.
  unfold handle_snapshot_status.
  destruct (get_pr r (m_from m)); [|discriminate].
  destruct (negb _); discriminate.
Qed.
Lemma handle_unreachable_no_panic r m s : handle_unreachable r m = Panic s -> False.
Proof. unfold handle_unreachable. destruct (get_pr r (m_from m)); discriminate. Qed.
Lemma handle_snapshot_status_sites_ok r m s : handle_snapshot_status r m = Panic s -> In s [].
Proof. intros H. destruct (handle_snapshot_status_no_panic _ _ _ H). Qed.
Lemma handle_unreachable_sites_ok r m s : handle_unreachable r m = Panic s -> In s [].
Proof. intros H. destruct (handle_unreachable_no_panic _ _ _ H). Qed.
#[export] Hint Resolve handle_snapshot_status_sites_ok handle_unreachable_sites_ok : sites.

Definition step_leader_sites : list N :=
  site_empty_prop :: bcast_heartbeat_sites ++ reset_sites ++ log_append_sites ++ send_append_sites
  ++ term_sites ++ first_entry_data_sites ++ send_sites ++ handle_append_response_sites
  ++ handle_heartbeat_response_sites ++ handle_transfer_leader_sites.
Lemma step_leader_sites_ok r m s : step_leader r m = Panic s -> In s step_leader_sites.
Proof.
  unfold step_leader. intros H. pstart H.
  destruct (quorum_recently_active (r_prs r) (r_id r)) as [prs' active].
  destruct (filter_conf_changes r (m_entries m) (m_ccinfo m) 0) as [[r1 ents] ok].
  psites.
Qed.
#[export] Hint Resolve step_leader_sites_ok : sites.

Definition step_candidate_sites : list N :=
  site_candidate_term :: reset_sites ++ handle_append_entries_sites ++ handle_heartbeat_sites
  ++ handle_snapshot_sites ++ campaign_real_sites ++ maybe_commit_by_vote_sites.
Lemma step_candidate_sites_ok r m s : step_candidate r m = Panic s -> In s step_candidate_sites.
Proof. unfold step_candidate. intros H. pstart H. psites. Qed.
#[export] Hint Resolve step_candidate_sites_ok : sites.

Definition step_follower_sites : list N :=
  send_sites ++ handle_append_entries_sites ++ handle_heartbeat_sites ++ handle_snapshot_sites
  ++ hup_sites ++ l_maybe_commit_sites.
Lemma step_follower_sites_ok r m s : step_follower r m = Panic s -> In s step_follower_sites.
Proof. unfold step_follower. intros H. pstart H. psites. Qed.
#[export] Hint Resolve step_follower_sites_ok : sites.

Definition step_sites : list N :=
  reset_sites ++ send_sites ++ hup_sites ++ last_term_sites ++ vote_resp_msg_type_sites
  ++ commit_info_sites ++ maybe_commit_by_vote_sites
  ++ step_candidate_sites ++ step_follower_sites ++ step_leader_sites.
Lemma step_sites_ok r m s : step r m = Panic s -> In s step_sites.
Proof. unfold step. intros H. pstart H. psites. Qed.
#[export] Hint Resolve step_sites_ok : sites.

Lemma tick_election_sites_ok r s : tick_election r = Panic s -> In s step_sites.
Proof. unfold tick_election. intros H. pstart H. psites. Qed.
#[export] Hint Resolve tick_election_sites_ok : sites.
Lemma tick_heartbeat_sites_ok r s : tick_heartbeat r = Panic s -> In s step_sites.
Proof. unfold tick_heartbeat. intros H. pstart H. psites. Qed.
#[export] Hint Resolve tick_heartbeat_sites_ok : sites.
Lemma tick_sites_ok r s : tick r = Panic s -> In s step_sites.
Proof. unfold tick. intros H. pstart H. psites. Qed.
#[export] Hint Resolve tick_sites_ok : sites.

Definition on_persist_entries_sites : list N :=
  storage_term_sites ++ maybe_commit_sites ++ send_append_sites.
Lemma on_persist_entries_sites_ok r i t s :
  on_persist_entries r i t = Panic s -> In s on_persist_entries_sites.
Proof. unfold on_persist_entries. intros H. pstart H. psites. Qed.
#[export] Hint Resolve on_persist_entries_sites_ok : sites.

Lemma on_persist_snap_sites_ok r i s : on_persist_snap r i = Panic s -> In s maybe_persist_snap_sites.
Proof. unfold on_persist_snap. intros H. pstart H. psites. Qed.
#[export] Hint Resolve on_persist_snap_sites_ok : sites.

Definition commit_apply_internal_sites : list N :=
  site_commit_apply_assert :: site_autoleave_dropped :: applied_to_sites ++ log_append_sites.
Lemma commit_apply_internal_sites_ok r app skip s :
  commit_apply_internal r app skip = Panic s -> In s commit_apply_internal_sites.
Proof. unfold commit_apply_internal. intros H. pstart H. psites. Qed.
#[export] Hint Resolve commit_apply_internal_sites_ok : sites.

Definition commit_apply_sites : list N := site_autoleave_dropped :: applied_to_sites ++ log_append_sites.
Lemma commit_apply_sites_ok r app s : commit_apply r app = Panic s -> In s commit_apply_sites.
Proof. unfold commit_apply, commit_apply_internal. intros H. cbn [negb] in H. pstart H. psites. Qed.
#[export] Hint Resolve commit_apply_sites_ok : sites.

Lemma raft_apply_conf_change_sites_ok r cc s :
  raft_apply_conf_change r cc = Panic s -> In s post_conf_change_sites.
Proof. unfold raft_apply_conf_change. intros H. pstart H. psites. Qed.
#[export] Hint Resolve raft_apply_conf_change_sites_ok : sites.

Definition load_state_sites : list N := [site_load_state].
Lemma load_state_sites_ok r hs s : load_state r hs = Panic s -> In s load_state_sites.
Proof. unfold load_state. intros H. pstart H. psites. Qed.
#[export] Hint Resolve load_state_sites_ok : sites.

Lemma request_snapshot_sites_ok r s : request_snapshot r = Panic s -> In s send_request_snapshot_sites.
Proof. unfold request_snapshot. intros H. pstart H. psites. Qed.
#[export] Hint Resolve request_snapshot_sites_ok : sites.

Lemma ping_sites_ok r s : ping r = Panic s -> In s bcast_heartbeat_sites.
Proof. unfold ping. intros H. pstart H. psites. Qed.
#[export] Hint Resolve ping_sites_ok : sites.

Lemma adjust_max_inflight_msgs_sites_ok r t c s :
  adjust_max_inflight_msgs r t c = Panic s -> In s set_cap_sites.
Proof. unfold adjust_max_inflight_msgs. intros H. pstart H. psites. Qed.
#[export] Hint Resolve adjust_max_inflight_msgs_sites_ok : sites.

Definition group_commit_sites : list N := maybe_commit_sites ++ send_append_sites.
Lemma enable_group_commit_sites_ok r e s : enable_group_commit r e = Panic s -> In s group_commit_sites.
Proof. unfold enable_group_commit. intros H. pstart H. psites. Qed.
#[export] Hint Resolve enable_group_commit_sites_ok : sites.

Definition assign_groups_sites : list N := [site_assign_group].
Lemma assign_groups_sites_ok ids : forall m s, assign_groups m ids = Panic s -> In s assign_groups_sites.
Proof.
  induction ids as [|[peer g] rest IH]; intros m s H; cbn [assign_groups] in H; [discriminate|].
  pstart H. psites.
Qed.
#[export] Hint Resolve assign_groups_sites_ok : sites.
Definition assign_commit_groups_sites : list N := assign_groups_sites ++ group_commit_sites.
Lemma assign_commit_groups_sites_ok r ids s :
  assign_commit_groups r ids = Panic s -> In s assign_commit_groups_sites.
Proof. unfold assign_commit_groups. intros H. pstart H. psites. Qed.
#[export] Hint Resolve assign_commit_groups_sites_ok : sites.

(* ================================================================== *)
(* 5. site tables of M/RawNode.v *)
Lemma lift_sites (L : list N) n x s :
  (forall s, x = Panic s -> In s L) -> lift n x = Panic s -> In s L.
Proof. intros Hx H. unfold lift in H. apply bind_panic in H. destruct H as [H|(y & _ & H)]; [eauto|discriminate]. Qed.
Lemma lift2_sites (L : list N) n x s :
  (forall s, x = Panic s -> In s L) -> lift2 n x = Panic s -> In s L.
Proof. intros Hx H. unfold lift2 in H. apply bind_panic in H. destruct H as [H|(y & _ & H)]; [eauto|discriminate]. Qed.

Lemma rn_step_sites_ok n m s : rn_step n m = Panic s -> In s step_sites.
Proof.
  unfold rn_step. intros H. destruct (is_local_msg _); [discriminate|].
  destruct (_ || _); [|discriminate].
  eapply lift2_sites; [|exact H]. intros s0. apply step_sites_ok.
Qed.
#[export] Hint Resolve rn_step_sites_ok : sites.
Lemma rn_tick_sites_ok n s : rn_tick n = Panic s -> In s step_sites.
Proof. unfold rn_tick. intros H. pstart H. psites. Qed.
#[export] Hint Resolve rn_tick_sites_ok : sites.
Lemma rn_campaign_sites_ok n s : rn_campaign n = Panic s -> In s step_sites.
Proof. unfold rn_campaign. apply lift2_sites. intros s0. apply step_sites_ok. Qed.
Lemma rn_propose_sites_ok n c d s : rn_propose n c d = Panic s -> In s step_sites.
Proof. unfold rn_propose. apply lift2_sites. intros s0. apply step_sites_ok. Qed.
Lemma rn_propose_conf_change_sites_ok n c d ty ci s :
  rn_propose_conf_change n c d ty ci = Panic s -> In s step_sites.
Proof. unfold rn_propose_conf_change. apply lift2_sites. intros s0. apply step_sites_ok. Qed.
Lemma rn_apply_conf_change_sites_ok n cc s :
  rn_apply_conf_change n cc = Panic s -> In s post_conf_change_sites.
Proof. unfold rn_apply_conf_change. intros H. pstart H. psites. Qed.
Lemma rn_ping_sites_ok n s : rn_ping n = Panic s -> In s bcast_heartbeat_sites.
Proof. unfold rn_ping. apply lift_sites. intros s0. apply ping_sites_ok. Qed.
#[export] Hint Resolve rn_campaign_sites_ok rn_propose_sites_ok rn_propose_conf_change_sites_ok
  rn_apply_conf_change_sites_ok rn_ping_sites_ok : sites.

Definition gen_light_ready_sites : list N := site_rn_commit_since :: next_entries_since_sites.
Lemma gen_light_ready_sites_ok n s : gen_light_ready n = Panic s -> In s gen_light_ready_sites.
Proof. unfold gen_light_ready. intros H. pstart H. psites. Qed.
#[export] Hint Resolve gen_light_ready_sites_ok : sites.

Definition check_records_sites : list N := [site_rn_record_entry; site_rn_record_snap].
Lemma check_records_empty_sites_ok l : forall s, check_records_empty l = Panic s -> In s check_records_sites.
Proof.
  induction l as [|rr t IH]; intros s H; cbn [check_records_empty] in H; [discriminate|].
  pstart H. psites.
Qed.
#[export] Hint Resolve check_records_empty_sites_ok : sites.

Definition rn_ready_sites : list N :=
  check_records_sites ++ [site_rn_snap_since; site_rn_snap_entries] ++ has_next_entries_since_sites
  ++ gen_light_ready_sites.
Lemma rn_ready_sites_ok n s : rn_ready n = Panic s -> In s rn_ready_sites.
Proof. unfold rn_ready. intros H. pstart H. psites. Qed.
#[export] Hint Resolve rn_ready_sites_ok : sites.

Lemma rn_has_ready_sites_ok n s : rn_has_ready n = Panic s -> In s has_next_entries_since_sites.
Proof. unfold rn_has_ready. intros H. pstart H. psites. Qed.
#[export] Hint Resolve rn_has_ready_sites_ok : sites.

Definition commit_ready_sites : list N :=
  [site_rn_records_back; site_rn_number] ++ u_stable_snap_sites ++ u_stable_entries_sites.
Lemma commit_ready_sites_ok n rd s : commit_ready n rd = Panic s -> In s commit_ready_sites.
Proof. unfold commit_ready. intros H. pstart H. psites. Qed.
#[export] Hint Resolve commit_ready_sites_ok : sites.

Definition rn_on_persist_ready_sites : list N := maybe_persist_snap_sites ++ on_persist_entries_sites.
Lemma rn_on_persist_ready_sites_ok n k s :
  rn_on_persist_ready n k = Panic s -> In s rn_on_persist_ready_sites.
Proof.
  unfold rn_on_persist_ready. intros H.
  destruct (fold_records _ _ _ _ _) as [[[recs i] t] si]. pstart H. psites.
Qed.
#[export] Hint Resolve rn_on_persist_ready_sites_ok : sites.

Definition rn_advance_append_sites : list N :=
  [site_rn_new_msg; site_rn_commit_eq; site_rn_hs_eq] ++ commit_ready_sites
  ++ rn_on_persist_ready_sites ++ gen_light_ready_sites.
Lemma rn_advance_append_sites_ok n rd s :
  rn_advance_append n rd = Panic s -> In s rn_advance_append_sites.
Proof. unfold rn_advance_append. intros H. pstart H. psites. Qed.
#[export] Hint Resolve rn_advance_append_sites_ok : sites.

Lemma rn_advance_apply_to_sites_ok n app s : rn_advance_apply_to n app = Panic s -> In s commit_apply_sites.
Proof. unfold rn_advance_apply_to. apply lift_sites. intros s0. apply commit_apply_sites_ok. Qed.
#[export] Hint Resolve rn_advance_apply_to_sites_ok : sites.
Lemma rn_advance_apply_sites_ok n s : rn_advance_apply n = Panic s -> In s commit_apply_sites.
Proof. unfold rn_advance_apply. apply rn_advance_apply_to_sites_ok. Qed.
#[export] Hint Resolve rn_advance_apply_sites_ok : sites.

Definition rn_advance_sites : list N := rn_advance_append_sites ++ commit_apply_sites.
Lemma rn_advance_sites_ok n rd s : rn_advance n rd = Panic s -> In s rn_advance_sites.
Proof. unfold rn_advance. intros H. pstart H. psites. Qed.
#[export] Hint Resolve rn_advance_sites_ok : sites.

Lemma rn_advance_append_async_sites_ok n rd s :
  rn_advance_append_async n rd = Panic s -> In s commit_ready_sites.
Proof. unfold rn_advance_append_async. apply commit_ready_sites_ok. Qed.

Lemma rn_report_unreachable_sites_ok n id s : rn_report_unreachable n id = Panic s -> In s step_sites.
Proof. unfold rn_report_unreachable. intros H. pstart H. psites. Qed.
Lemma rn_report_snapshot_sites_ok n id f s : rn_report_snapshot n id f = Panic s -> In s step_sites.
Proof. unfold rn_report_snapshot. intros H. pstart H. psites. Qed.
Lemma rn_request_snapshot_sites_ok n s :
  rn_request_snapshot n = Panic s -> In s send_request_snapshot_sites.
Proof. unfold rn_request_snapshot. apply lift2_sites. intros s0. apply request_snapshot_sites_ok. Qed.
Lemma rn_transfer_leader_sites_ok n t s : rn_transfer_leader n t = Panic s -> In s step_sites.
Proof. unfold rn_transfer_leader. intros H. pstart H. psites. Qed.
Lemma rn_read_index_sites_ok n c s : rn_read_index n c = Panic s -> In s step_sites.
Proof. unfold rn_read_index. intros H. pstart H. psites. Qed.
