(* Theorems about M/Quorum.v (property C11): the commit index is the largest index
   acknowledged by a majority (of each non-empty half), vote tallies are exact,
   quorums intersect, and the group-commit result is characterised.
   Everything is proved for voter lists of ANY length. *)
From RV Require Import Base.Prelude M.Quorum.
From Coq Require Import Permutation Sorted.

Local Open Scope N_scope.

(* ------------------------------------------------------------------ *)
(** * Vocabulary of the specifications *)

(* index / group acknowledged by voter v (missing voter = (0,0)) *)
Definition idx_of (a : acked_t) (v : N) : N := fst (acked_or_default a v).
Definition grp_of (a : acked_t) (v : N) : N := snd (acked_or_default a v).

(* number of list positions satisfying p; for a NoDup list: the cardinality of
   { v in l | p v } *)
Definition count {A} (p : A -> bool) (l : list A) : nat := length (filter p l).

(* number of voters that acknowledged at least r *)
Definition cnt_ge (a : acked_t) (r : N) (V : list N) : nat :=
  count (fun v => r <=? idx_of a v) V.

(* "index r is acknowledged by a majority of V" *)
Definition quorum_acked (a : acked_t) (V : list N) (r : N) : Prop :=
  (majority (length V) <= cnt_ge a r V)%nat.

(* ------------------------------------------------------------------ *)
(** * majority *)

Lemma majority_spec : forall n, majority n = (n / 2 + 1)%nat.
Proof. reflexivity. Qed.

(* majority n is the least k with 2k > n *)
Lemma majority_least : forall n,
  (n < 2 * majority n)%nat /\ (forall k, (n < 2 * k)%nat -> (majority n <= k)%nat).
Proof. intros n. unfold majority. split; intros; lia. Qed.

Lemma majority_gt_half : forall n, (n < 2 * majority n)%nat.
Proof. intros n. apply majority_least. Qed.

(* the array accesses matched[quorum - 1] and matched.last() are in bounds *)
Lemma majority_pos_lt : forall n, (0 < n)%nat -> (majority n - 1 < n)%nat.
Proof. intros n H. unfold majority. lia. Qed.

Lemma majority_pos : forall n, (1 <= majority n)%nat.
Proof. intros n. unfold majority. lia. Qed.

Lemma majority_le : forall n, (0 < n)%nat -> (majority n <= n)%nat.
Proof. intros n H. unfold majority. lia. Qed.

(* ------------------------------------------------------------------ *)
(** * count *)

Lemma count_nil : forall A (p : A -> bool), count p [] = 0%nat.
Proof. reflexivity. Qed.

Lemma count_cons : forall A (p : A -> bool) x l,
  count p (x :: l) = ((if p x then 1 else 0) + count p l)%nat.
Proof. intros A p x l. unfold count. cbn [filter]. destruct (p x); reflexivity. Qed.

Lemma count_le_length : forall A (p : A -> bool) l, (count p l <= length l)%nat.
Proof.
  intros A p l. induction l as [|x l IH]; [cbn; lia|].
  rewrite count_cons. cbn [length]. destruct (p x); lia.
Qed.

Lemma count_map : forall A B (f : A -> B) (p : B -> bool) l,
  count p (map f l) = count (fun x => p (f x)) l.
Proof.
  intros A B f p l. induction l as [|x l IH]; [reflexivity|].
  cbn [map]. rewrite !count_cons, IH. reflexivity.
Qed.

Lemma count_perm : forall A (p : A -> bool) l l',
  Permutation l l' -> count p l = count p l'.
Proof.
  intros A p l l' H. induction H as [|x l l' H IH|x y l|l l' l'' H1 IH1 H2 IH2].
  - reflexivity.
  - rewrite !count_cons, IH. reflexivity.
  - rewrite !count_cons. lia.
  - congruence.
Qed.

Lemma count_ext_in : forall A (p q : A -> bool) l,
  (forall x, In x l -> p x = q x) -> count p l = count q l.
Proof.
  intros A p q l H. induction l as [|x l IH]; [reflexivity|].
  rewrite !count_cons, IH.
  - rewrite (H x) by (left; reflexivity). reflexivity.
  - intros y Hy. apply H. right. exact Hy.
Qed.

Lemma count_mono : forall A (p q : A -> bool) l,
  (forall x, In x l -> p x = true -> q x = true) -> (count p l <= count q l)%nat.
Proof.
  intros A p q l H. induction l as [|x l IH]; [cbn; lia|].
  rewrite !count_cons.
  assert (IH' : (count p l <= count q l)%nat).
  { apply IH. intros y Hy. apply H. right. exact Hy. }
  destruct (p x) eqn:Hp.
  - rewrite (H x) by (auto; left; reflexivity). lia.
  - destruct (q x); lia.
Qed.

Lemma count_all : forall A (p : A -> bool) l,
  (forall x, In x l -> p x = true) -> count p l = length l.
Proof.
  intros A p l H. induction l as [|x l IH]; [reflexivity|].
  rewrite count_cons, IH.
  - rewrite (H x) by (left; reflexivity). reflexivity.
  - intros y Hy. apply H. right. exact Hy.
Qed.

Lemma count_none : forall A (p : A -> bool) l,
  (forall x, In x l -> p x = false) -> count p l = 0%nat.
Proof.
  intros A p l H. induction l as [|x l IH]; [reflexivity|].
  rewrite count_cons, IH.
  - rewrite (H x) by (left; reflexivity). reflexivity.
  - intros y Hy. apply H. right. exact Hy.
Qed.

Lemma count_pos_ex : forall A (p : A -> bool) l,
  (0 < count p l)%nat -> exists x, In x l /\ p x = true.
Proof.
  intros A p l. induction l as [|x l IH]; [cbn; lia|].
  rewrite count_cons. destruct (p x) eqn:Hp.
  - intros _. exists x. split; [left; reflexivity|exact Hp].
  - intros H. destruct IH as [y [Hy Hpy]]; [lia|].
    exists y. split; [right; exact Hy|exact Hpy].
Qed.

(* inclusion-exclusion bound: the heart of quorum intersection *)
Lemma count_inter : forall A (p q : A -> bool) l,
  (count p l + count q l <= length l + count (fun x => p x && q x) l)%nat.
Proof.
  intros A p q l. induction l as [|x l IH]; [cbn; lia|].
  rewrite !count_cons. cbn [length]. destruct (p x), (q x); cbn [andb]; lia.
Qed.

Lemma count_app : forall A (p : A -> bool) l1 l2,
  count p (l1 ++ l2) = (count p l1 + count p l2)%nat.
Proof.
  intros A p l1 l2. unfold count. rewrite filter_app, app_length. reflexivity.
Qed.

(* ------------------------------------------------------------------ *)
(** * The stable descending sort *)

Definition ge_idx (x y : Index) : Prop := fst y <= fst x.
Definition desc (l : list Index) : Prop := StronglySorted ge_idx l.

Lemma insert_desc_perm : forall x l, Permutation (insert_desc x l) (x :: l).
Proof.
  intros x l. induction l as [|y t IH]; [apply Permutation_refl|].
  cbn [insert_desc]. destruct (fst x <? fst y) eqn:E.
  - eapply perm_trans; [apply perm_skip, IH|apply perm_swap].
  - apply Permutation_refl.
Qed.

Lemma sort_desc_perm : forall l, Permutation (sort_desc l) l.
Proof.
  intros l. induction l as [|x t IH]; [apply perm_nil|].
  cbn [sort_desc]. eapply perm_trans; [apply insert_desc_perm|].
  apply perm_skip, IH.
Qed.

Lemma sort_desc_length : forall l, length (sort_desc l) = length l.
Proof. intros l. apply Permutation_length, sort_desc_perm. Qed.

Lemma insert_desc_sorted : forall x l, desc l -> desc (insert_desc x l).
Proof.
  intros x l H. induction l as [|y t IH].
  - cbn. constructor; constructor.
  - cbn [insert_desc]. apply StronglySorted_inv in H. destruct H as [Ht Hy].
    destruct (fst x <? fst y) eqn:E.
    + constructor; [apply IH, Ht|].
      eapply Permutation_Forall; [apply Permutation_sym, insert_desc_perm|].
      constructor; [unfold ge_idx; lia|exact Hy].
    + constructor; [constructor; assumption|].
      constructor; [unfold ge_idx; lia|].
      rewrite Forall_forall in *. intros z Hz. specialize (Hy z Hz).
      unfold ge_idx in *. lia.
Qed.

Lemma sort_desc_sorted : forall l, desc (sort_desc l).
Proof.
  intros l. induction l as [|x t IH]; [constructor|].
  cbn [sort_desc]. apply insert_desc_sorted, IH.
Qed.

(* Stability: elements with equal index keep their relative order
   (Rust's slice::sort_by is stable; the group-commit loop depends on it). *)
Lemma insert_desc_stable : forall k x l,
  filter (fun m => fst m =? k) (insert_desc x l) =
  filter (fun m => fst m =? k) (x :: l).
Proof.
  intros k x l. induction l as [|y t IH]; [reflexivity|].
  cbn [insert_desc]. destruct (fst x <? fst y) eqn:E; [|reflexivity].
  cbn [filter] in *. rewrite IH.
  destruct (fst x =? k) eqn:Ex, (fst y =? k) eqn:Ey; try reflexivity. lia.
Qed.

Lemma sort_desc_stable : forall k l,
  filter (fun m => fst m =? k) (sort_desc l) = filter (fun m => fst m =? k) l.
Proof.
  intros k l. induction l as [|x t IH]; [reflexivity|].
  cbn [sort_desc]. rewrite insert_desc_stable. cbn [filter]. rewrite IH. reflexivity.
Qed.

Definition ge_p (r : N) : Index -> bool := fun m => r <=? fst m.

(* in a descending list: the element at position k is acknowledged by at least k+1
   positions, and anything larger by at most k *)
Lemma desc_nth_count : forall L, desc L -> forall k, (k < length L)%nat ->
  let r := fst (nth k L index_default) in
  (k + 1 <= count (ge_p r) L)%nat /\
  (forall r', r < r' -> (count (ge_p r') L <= k)%nat).
Proof.
  intros L H. induction H as [|x L HL IH Hx]; intros k Hk; [cbn in Hk; lia|].
  rewrite Forall_forall in Hx. cbn [length] in Hk. unfold ge_p in *.
  destruct k as [|k]; cbn [nth].
  - split.
    + rewrite count_cons. rewrite N.leb_refl. lia.
    + intros r' Hr'. rewrite count_cons.
      rewrite count_none.
      * destruct (r' <=? fst x) eqn:E; lia.
      * intros y Hy. specialize (Hx y Hy). unfold ge_idx in Hx. lia.
  - assert (Hk' : (k < length L)%nat) by lia.
    specialize (IH k Hk'). cbn zeta in IH. destruct IH as [IH1 IH2].
    assert (Hin : In (nth k L index_default) L) by (apply nth_In; exact Hk').
    specialize (Hx _ Hin). unfold ge_idx in Hx.
    split.
    + rewrite count_cons.
      destruct (fst (nth k L index_default) <=? fst x) eqn:E; lia.
    + intros r' Hr'. rewrite count_cons. specialize (IH2 r' Hr').
      destruct (r' <=? fst x); lia.
Qed.

Lemma last_In : forall A (l : list A) d, l <> [] -> In (last l d) l.
Proof.
  intros A l d. induction l as [|x l IH]; [congruence|]. intros _.
  destruct l as [|y l']; [left; reflexivity|].
  right. apply IH. discriminate.
Qed.

(* the last element of a descending list is the minimum *)
Lemma desc_last_le : forall L, desc L -> forall m, In m L ->
  fst (last L index_default) <= fst m.
Proof.
  intros L H. induction H as [|x L HL IH Hx]; intros m Hm; [destruct Hm|].
  rewrite Forall_forall in Hx.
  destruct L as [|y L'].
  - cbn [last]. destruct Hm as [->|[]]. lia.
  - change (last (x :: y :: L') index_default) with (last (y :: L') index_default).
    destruct Hm as [->|Hm].
    + assert (Hl : In (last (y :: L') index_default) (y :: L')).
      { apply last_In. discriminate. }
      exact (Hx _ Hl).
    + apply IH, Hm.
Qed.

(* ------------------------------------------------------------------ *)
(** * committed_index without group commit *)

Definition matched_of (a : acked_t) (V : list N) : list Index :=
  sort_desc (map (acked_or_default a) V).

Lemma matched_of_length : forall a V, length (matched_of a V) = length V.
Proof. intros a V. unfold matched_of. rewrite sort_desc_length, map_length. reflexivity. Qed.

Lemma matched_of_desc : forall a V, desc (matched_of a V).
Proof. intros a V. apply sort_desc_sorted. Qed.

Lemma matched_of_In : forall a V m, In m (matched_of a V) <->
  exists v, In v V /\ m = acked_or_default a v.
Proof.
  intros a V m. unfold matched_of. split.
  - intros H. apply (Permutation_in _ (sort_desc_perm _)) in H.
    apply in_map_iff in H. destruct H as [v [Hv Hin]]. exists v. auto.
  - intros [v [Hin ->]]. apply (Permutation_in _ (Permutation_sym (sort_desc_perm _))).
    apply in_map. exact Hin.
Qed.

(* counting over the sorted array = counting over the voters *)
Lemma count_matched : forall a V (p : Index -> bool),
  count p (matched_of a V) = count (fun v => p (acked_or_default a v)) V.
Proof.
  intros a V p. unfold matched_of.
  rewrite (count_perm _ p _ _ (sort_desc_perm _)). apply count_map.
Qed.

Lemma cnt_ge_matched : forall a V r,
  cnt_ge a r V = count (ge_p r) (matched_of a V).
Proof. intros a V r. rewrite count_matched. reflexivity. Qed.

(* the quorum element *)
Definition quorum_elem (a : acked_t) (V : list N) : Index :=
  nth (majority (length V) - 1) (matched_of a V) index_default.

Lemma committed_index_plain : forall V a, V <> [] ->
  committed_index false V a = (fst (quorum_elem a V), false).
Proof.
  intros V a HV. unfold committed_index, quorum_elem.
  destruct V as [|v V']; [congruence|].
  cbn [negb]. fold (matched_of a (v :: V')). rewrite matched_of_length. reflexivity.
Qed.

Lemma committed_index_empty : forall gc a, committed_index gc [] a = (u64_max, true).
Proof. reflexivity. Qed.

Lemma length_pos : forall A (l : list A), l <> [] -> (0 < length l)%nat.
Proof. intros A l H. destruct l; [congruence|cbn; lia]. Qed.

(* THE commit-index theorem: at least a majority acknowledged r, and fewer than a
   majority acknowledged anything larger.  No NoDup hypothesis is needed: the
   statement counts list positions, which for a NoDup list (a HashSet) are voters. *)
Theorem committed_index_spec : forall V a, V <> [] ->
  let r := fst (committed_index false V a) in
  (majority (length V) <= cnt_ge a r V)%nat /\
  (forall r', r < r' -> (cnt_ge a r' V < majority (length V))%nat).
Proof.
  intros V a HV. rewrite (committed_index_plain V a HV). cbn [fst]. cbn zeta.
  pose proof (length_pos _ _ HV) as Hlen.
  pose proof (majority_pos_lt _ Hlen) as Hk.
  pose proof (majority_pos (length V)) as Hm.
  destruct (desc_nth_count _ (matched_of_desc a V) (majority (length V) - 1)) as [H1 H2].
  { rewrite matched_of_length. exact Hk. }
  fold (quorum_elem a V) in H1, H2. split.
  - rewrite cnt_ge_matched. lia.
  - intros r' Hr'. rewrite cnt_ge_matched. specialize (H2 r' Hr'). lia.
Qed.

Lemma cnt_ge_antimono : forall a V r r', r <= r' -> (cnt_ge a r' V <= cnt_ge a r V)%nat.
Proof.
  intros a V r r' H. unfold cnt_ge. apply count_mono. intros x _ Hx. lia.
Qed.

(* equivalent reading: i is at most the commit index iff a majority acknowledged i *)
Theorem committed_index_iff : forall V a i, V <> [] ->
  (i <= fst (committed_index false V a) <-> quorum_acked a V i).
Proof.
  intros V a i HV. destruct (committed_index_spec V a HV) as [H1 H2].
  unfold quorum_acked. split.
  - intros Hi. pose proof (cnt_ge_antimono a V _ _ Hi). lia.
  - intros Hq. destruct (N.le_gt_cases i (fst (committed_index false V a))) as [Hle|Hgt];
      [exact Hle|]. specialize (H2 i Hgt). lia.
Qed.

(* the commit index is the LARGEST index acknowledged by a majority *)
Theorem committed_index_largest : forall V a, V <> [] ->
  quorum_acked a V (fst (committed_index false V a)) /\
  (forall i, quorum_acked a V i -> i <= fst (committed_index false V a)).
Proof.
  intros V a HV. split.
  - apply committed_index_iff; [exact HV|lia].
  - intros i Hi. apply committed_index_iff; assumption.
Qed.

Lemma cnt_ge_perm : forall a r V V', Permutation V V' -> cnt_ge a r V = cnt_ge a r V'.
Proof. intros a r V V' H. apply count_perm, H. Qed.

Lemma quorum_acked_perm : forall a i V V', Permutation V V' ->
  quorum_acked a V i -> quorum_acked a V' i.
Proof.
  intros a i V V' H. unfold quorum_acked.
  rewrite (cnt_ge_perm a i V V' H), (Permutation_length H). auto.
Qed.

Lemma perm_nonempty : forall A (l l' : list A), Permutation l l' -> l <> [] -> l' <> [].
Proof.
  intros A l l' H Hl ->. apply Permutation_sym, Permutation_nil in H. congruence.
Qed.

(* hash-iteration order does not matter *)
Lemma committed_index_perm_fst : forall V V' a, V <> [] -> Permutation V V' ->
  fst (committed_index false V a) = fst (committed_index false V' a).
Proof.
  intros V V' a HV H. pose proof (perm_nonempty _ _ _ H HV) as HV'.
  apply N.le_antisymm.
  - apply committed_index_iff; [exact HV'|]. apply (quorum_acked_perm _ _ _ _ H).
    apply committed_index_iff; [exact HV|lia].
  - apply committed_index_iff; [exact HV|].
    apply (quorum_acked_perm _ _ _ _ (Permutation_sym H)).
    apply committed_index_iff; [exact HV'|lia].
Qed.

Theorem committed_index_perm : forall V V' a, Permutation V V' ->
  committed_index false V a = committed_index false V' a.
Proof.
  intros V V' a H. destruct V as [|v V0].
  - apply Permutation_nil in H. subst. reflexivity.
  - assert (HV : v :: V0 <> []) by discriminate.
    pose proof (perm_nonempty _ _ _ H HV) as HV'.
    pose proof (committed_index_perm_fst _ _ a HV H) as E.
    rewrite (committed_index_plain _ a HV), (committed_index_plain _ a HV') in *.
    cbn [fst] in E. rewrite E. reflexivity.
Qed.

(* a witness set: for a NoDup voter list the voters that acknowledged >= i *)
Theorem committed_index_witness : forall V a i, V <> [] -> NoDup V ->
  i <= fst (committed_index false V a) ->
  exists S, NoDup S /\ incl S V /\ (majority (length V) <= length S)%nat /\
            (forall v, In v S -> i <= idx_of a v).
Proof.
  intros V a i HV Hnd Hi. apply committed_index_iff in Hi; [|exact HV].
  exists (filter (fun v => i <=? idx_of a v) V). repeat split.
  - apply NoDup_filter, Hnd.
  - intros v Hv. apply filter_In in Hv. tauto.
  - exact Hi.
  - intros v Hv. apply filter_In in Hv. lia.
Qed.

(* the result is an acknowledged index (or the default 0): it never invents a value *)
Lemma quorum_elem_In : forall V a, V <> [] ->
  exists v, In v V /\ quorum_elem a V = acked_or_default a v.
Proof.
  intros V a HV. apply matched_of_In. unfold quorum_elem. apply nth_In.
  rewrite matched_of_length. apply majority_pos_lt, length_pos, HV.
Qed.

Theorem committed_index_acked : forall V a, V <> [] ->
  exists v, In v V /\ fst (committed_index false V a) = idx_of a v.
Proof.
  intros V a HV. rewrite (committed_index_plain V a HV). cbn [fst].
  destruct (quorum_elem_In V a HV) as [v [Hv E]]. exists v. split; [exact Hv|].
  rewrite E. reflexivity.
Qed.

(* ------------------------------------------------------------------ *)
(** * Vote tallies *)

Definition is_yes (c : vote_t) (v : N) : bool :=
  match c v with Some true => true | _ => false end.
Definition is_missing (c : vote_t) (v : N) : bool :=
  match c v with None => true | _ => false end.
Definition is_no (c : vote_t) (v : N) : bool :=
  match c v with Some false => true | _ => false end.

Definition yes_count (c : vote_t) (V : list N) : nat := count (is_yes c) V.
Definition missing_count (c : vote_t) (V : list N) : nat := count (is_missing c) V.
Definition no_count (c : vote_t) (V : list N) : nat := count (is_no c) V.

Lemma count_votes_spec : forall V c,
  count_votes V c = (yes_count c V, missing_count c V).
Proof.
  intros V c. unfold yes_count, missing_count. induction V as [|v V IH]; [reflexivity|].
  cbn [count_votes]. rewrite IH, !count_cons. unfold is_yes, is_missing.
  destruct (c v) as [[|]|]; reflexivity.
Qed.

Lemma vote_partition : forall V c,
  (yes_count c V + no_count c V + missing_count c V = length V)%nat.
Proof.
  intros V c. unfold yes_count, no_count, missing_count.
  induction V as [|v V IH]; [reflexivity|].
  rewrite !count_cons. cbn [length]. unfold is_yes, is_no, is_missing in *.
  destruct (c v) as [[|]|]; lia.
Qed.

Lemma vote_result_unfold : forall V c, V <> [] ->
  vote_result V c =
  let q := majority (length V) in
  if (q <=? yes_count c V)%nat then VoteWon
  else if (q <=? yes_count c V + missing_count c V)%nat then VotePending
  else VoteLost.
Proof.
  intros V c HV. unfold vote_result. destruct V as [|v V']; [congruence|].
  rewrite count_votes_spec. reflexivity.
Qed.

Lemma vote_result_empty : forall c, vote_result [] c = VoteWon.
Proof. reflexivity. Qed.

(* Won exactly when a majority granted; Lost exactly when the set can no longer
   reach a majority; Pending otherwise. *)
Theorem vote_result_spec : forall V c, V <> [] ->
  let q := majority (length V) in
  let yes := yes_count c V in
  let missing := missing_count c V in
  (vote_result V c = VoteWon <-> (q <= yes)%nat) /\
  (vote_result V c = VoteLost <-> (yes + missing < q)%nat) /\
  (vote_result V c = VotePending <-> (yes < q /\ q <= yes + missing)%nat).
Proof.
  intros V c HV. cbn zeta. rewrite (vote_result_unfold V c HV). cbn zeta.
  destruct (majority (length V) <=? yes_count c V)%nat eqn:E1;
  [|destruct (majority (length V) <=? yes_count c V + missing_count c V)%nat eqn:E2];
  repeat split; intros; try discriminate; try lia.
Qed.

(* Lost, restated with the rejections: a majority can no longer be reached iff the
   rejections already exclude it *)
Corollary vote_result_lost_no : forall V c, V <> [] ->
  (vote_result V c = VoteLost <-> (length V - no_count c V < majority (length V))%nat).
Proof.
  intros V c HV. destruct (vote_result_spec V c HV) as [_ [H _]]. cbn zeta in H.
  pose proof (vote_partition V c). rewrite H. lia.
Qed.

Theorem vote_result_perm : forall V V' c, Permutation V V' ->
  vote_result V c = vote_result V' c.
Proof.
  intros V V' c H. destruct V as [|v V0].
  - apply Permutation_nil in H. subst. reflexivity.
  - assert (HV : v :: V0 <> []) by discriminate.
    pose proof (perm_nonempty _ _ _ H HV) as HV'.
    rewrite (vote_result_unfold _ c HV), (vote_result_unfold _ c HV').
    unfold yes_count, missing_count.
    rewrite (count_perm _ (is_yes c) _ _ H), (count_perm _ (is_missing c) _ _ H),
            (Permutation_length H). reflexivity.
Qed.

(* joint: Won iff both halves Won, Lost iff either half Lost, else Pending *)
Theorem joint_vote_result_spec : forall inc out c,
  (joint_vote_result inc out c = VoteWon <->
     vote_result inc c = VoteWon /\ vote_result out c = VoteWon) /\
  (joint_vote_result inc out c = VoteLost <->
     vote_result inc c = VoteLost \/ vote_result out c = VoteLost) /\
  (joint_vote_result inc out c = VotePending <->
     vote_result inc c <> VoteLost /\ vote_result out c <> VoteLost /\
     ~ (vote_result inc c = VoteWon /\ vote_result out c = VoteWon)).
Proof.
  intros inc out c. unfold joint_vote_result.
  destruct (vote_result inc c), (vote_result out c);
    repeat split; intros; try discriminate; try tauto;
    try (left; reflexivity); try (right; reflexivity);
    try (intuition discriminate).
Qed.

(* an empty half wins, so a half-populated joint config behaves like the other half *)
Theorem joint_vote_result_empty_out : forall inc c,
  joint_vote_result inc [] c = vote_result inc c.
Proof.
  intros inc c. unfold joint_vote_result. rewrite vote_result_empty.
  destruct (vote_result inc c); reflexivity.
Qed.

Theorem joint_vote_result_empty_inc : forall out c,
  joint_vote_result [] out c = vote_result out c.
Proof.
  intros out c. unfold joint_vote_result. rewrite vote_result_empty.
  destruct (vote_result out c); reflexivity.
Qed.

(* "a majority of V granted, or V is empty" *)
Definition half_won (V : list N) (c : vote_t) : Prop :=
  V = [] \/ (majority (length V) <= yes_count c V)%nat.
Definition half_lost (V : list N) (c : vote_t) : Prop :=
  V <> [] /\ (yes_count c V + missing_count c V < majority (length V))%nat.

Lemma vote_result_won_iff : forall V c, vote_result V c = VoteWon <-> half_won V c.
Proof.
  intros V c. unfold half_won. destruct V as [|v V0].
  - rewrite vote_result_empty. tauto.
  - assert (HV : v :: V0 <> []) by discriminate.
    destruct (vote_result_spec _ c HV) as [H _]. cbn zeta in H. rewrite H.
    split; [auto|]. intros [E|E]; [discriminate|exact E].
Qed.

Lemma vote_result_lost_iff : forall V c, vote_result V c = VoteLost <-> half_lost V c.
Proof.
  intros V c. unfold half_lost. destruct V as [|v V0].
  - rewrite vote_result_empty. split; [discriminate|]. intros [H _]. congruence.
  - assert (HV : v :: V0 <> []) by discriminate.
    destruct (vote_result_spec _ c HV) as [_ [H _]]. cbn zeta in H. rewrite H. tauto.
Qed.

(* the full joint statement in terms of counts *)
Theorem joint_vote_result_counts : forall inc out c,
  (joint_vote_result inc out c = VoteWon <-> half_won inc c /\ half_won out c) /\
  (joint_vote_result inc out c = VoteLost <-> half_lost inc c \/ half_lost out c) /\
  (joint_vote_result inc out c = VotePending <->
     ~ (half_won inc c /\ half_won out c) /\ ~ (half_lost inc c \/ half_lost out c)).
Proof.
  intros inc out c. destruct (joint_vote_result_spec inc out c) as [H1 [H2 H3]].
  rewrite H1, H2, H3, !vote_result_won_iff, !vote_result_lost_iff.
  repeat split; tauto.
Qed.

(* ---- tracker level ---- *)

Lemma mem_In : forall id l, mem id l = true <-> In id l.
Proof.
  intros id l. unfold mem. rewrite existsb_exists. split.
  - intros [x [Hx E]]. apply N.eqb_eq in E. subst. exact Hx.
  - intros H. exists id. split; [exact H|apply N.eqb_refl].
Qed.

Lemma joint_contains_spec : forall inc out id,
  joint_contains inc out id = true <-> In id inc \/ In id out.
Proof.
  intros inc out id. unfold joint_contains. rewrite orb_true_iff, !mem_In. tauto.
Qed.

Lemma assoc_In : forall V (m : list (N * V)) k v, assoc m k = Some v -> In (k, v) m.
Proof.
  intros V m k v. induction m as [|[k' v'] t IH]; [discriminate|].
  cbn [assoc]. destruct (k' =? k) eqn:E.
  - intros [= <-]. apply N.eqb_eq in E. subst. left. reflexivity.
  - intros H. right. apply IH, H.
Qed.

Lemma assoc_None : forall V (m : list (N * V)) k, assoc m k = None <-> ~ In k (map fst m).
Proof.
  intros V m k. induction m as [|[k' v'] t IH]; [cbn; tauto|].
  cbn [assoc map fst In]. destruct (k' =? k) eqn:E.
  - apply N.eqb_eq in E. split; [discriminate|]. intros H. exfalso. apply H. left. exact E.
  - rewrite IH. apply N.eqb_neq in E. tauto.
Qed.

(* record_vote: the first recorded vote of an id wins, the key set stays duplicate-free *)
Theorem record_vote_assoc : forall m id vote k,
  assoc (record_vote m id vote) k =
  match assoc m k with
  | Some b => Some b
  | None => if id =? k then Some vote else None
  end.
Proof.
  intros m id vote k. unfold record_vote. destruct (assoc m id) eqn:E.
  - destruct (assoc m k) eqn:Ek; [reflexivity|].
    destruct (id =? k) eqn:Eid; [|reflexivity]. apply N.eqb_eq in Eid. congruence.
  - cbn [assoc]. destruct (id =? k) eqn:Eid.
    + apply N.eqb_eq in Eid. subst. rewrite E. reflexivity.
    + destruct (assoc m k); reflexivity.
Qed.

Theorem record_vote_NoDup : forall m id vote,
  NoDup (map fst m) -> NoDup (map fst (record_vote m id vote)).
Proof.
  intros m id vote H. unfold record_vote. destruct (assoc m id) eqn:E; [exact H|].
  cbn [map fst]. constructor; [apply assoc_None, E|exact H].
Qed.

(* tally_votes: the result is the joint vote result of the recorded votes; granted /
   rejected count the recorded votes of members of either half *)
Theorem tally_votes_spec : forall inc out votes,
  tally_votes inc out votes =
  (count (fun kv => joint_contains inc out (fst kv) && snd kv) votes,
   count (fun kv => joint_contains inc out (fst kv) && negb (snd kv)) votes,
   joint_vote_result inc out (assoc votes)).
Proof.
  intros inc out votes. unfold tally_votes, tracker_vote_result.
  assert (E : tally_count inc out votes =
    (count (fun kv => joint_contains inc out (fst kv) && snd kv) votes,
     count (fun kv => joint_contains inc out (fst kv) && negb (snd kv)) votes)).
  { induction votes as [|[id vote] t IH]; [reflexivity|].
    cbn [tally_count]. rewrite IH, !count_cons. cbn [fst snd].
    destruct (joint_contains inc out id), vote; reflexivity. }
  rewrite E. reflexivity.
Qed.

(* In a non-joint config with a duplicate-free votes map, granted is exactly the
   number of voters that said yes, rejected the number that said no. *)
Lemma count_assoc_bij : forall (V : list N) (votes : votes_map) (b : bool),
  NoDup V -> NoDup (map fst votes) ->
  count (fun kv => mem (fst kv) V && Bool.eqb (snd kv) b) votes =
  count (fun v => match assoc votes v with Some x => Bool.eqb x b | None => false end) V.
Proof.
  intros V votes b HV. revert V HV. induction votes as [|[k x] t IH]; intros V HV Hnd.
  - cbn [assoc]. rewrite count_nil. symmetry. apply count_none. reflexivity.
  - cbn [map fst] in Hnd. apply NoDup_cons_iff in Hnd. destruct Hnd as [Hk Hnd].
    rewrite count_cons. cbn [fst snd]. rewrite (IH V HV Hnd).
    destruct (mem k V) eqn:Em.
    + (* k is a voter: split V around k *)
      apply mem_In in Em. apply in_split in Em. destruct Em as [V1 [V2 ->]].
      assert (Hk1 : ~ In k V1 /\ ~ In k V2).
      { apply NoDup_remove_2 in HV. rewrite in_app_iff in HV. tauto. }
      rewrite !count_app, !count_cons. cbn [assoc]. rewrite N.eqb_refl.
      assert (E : forall W, ~ In k W ->
        count (fun v => match (if k =? v then Some x else assoc t v) with
                        | Some x0 => Bool.eqb x0 b | None => false end) W =
        count (fun v => match assoc t v with
                        | Some x0 => Bool.eqb x0 b | None => false end) W).
      { intros W HW. apply count_ext_in. intros v Hv.
        destruct (k =? v) eqn:Ekv; [|reflexivity].
        apply N.eqb_eq in Ekv. subst. contradiction. }
      rewrite (E V1), (E V2) by tauto.
      assert (Et : assoc t k = None) by (apply assoc_None; exact Hk).
      rewrite Et. cbn [andb]. destruct (Bool.eqb x b); lia.
    + cbn [andb]. cbn [assoc]. apply count_ext_in. intros v Hv.
      destruct (k =? v) eqn:Ekv; [|reflexivity].
      apply N.eqb_eq in Ekv. subst. apply mem_In in Hv. congruence.
Qed.

Theorem tally_votes_simple_counts : forall V votes g r res,
  NoDup V -> NoDup (map fst votes) ->
  tally_votes V [] votes = (g, r, res) ->
  g = yes_count (assoc votes) V /\ r = no_count (assoc votes) V /\
  res = vote_result V (assoc votes).
Proof.
  intros V votes g r res HV Hnd H. rewrite tally_votes_spec in H.
  injection H as Hg Hr Hres. subst g r res. rewrite joint_vote_result_empty_out.
  repeat split.
  - unfold yes_count. rewrite (count_ext_in _ _
      (fun kv => mem (fst kv) V && Bool.eqb (snd kv) true)).
    + rewrite (count_assoc_bij V votes true HV Hnd). apply count_ext_in.
      intros v _. unfold is_yes. destruct (assoc votes v) as [[|]|]; reflexivity.
    + intros [k x] _. cbn [fst snd]. unfold joint_contains. cbn [mem existsb].
      rewrite orb_false_r. destruct x; reflexivity.
  - unfold no_count. rewrite (count_ext_in _ _
      (fun kv => mem (fst kv) V && Bool.eqb (snd kv) false)).
    + rewrite (count_assoc_bij V votes false HV Hnd). apply count_ext_in.
      intros v _. unfold is_no. destruct (assoc votes v) as [[|]|]; reflexivity.
    + intros [k x] _. cbn [fst snd]. unfold joint_contains. cbn [mem existsb].
      rewrite orb_false_r. destruct x; reflexivity.
Qed.

(* has_quorum: the set contains a majority of each non-empty half *)
Theorem has_quorum_spec : forall inc out S,
  has_quorum inc out S = true <->
  (inc = [] \/ (majority (length inc) <= count (fun v => mem v S) inc)%nat) /\
  (out = [] \/ (majority (length out) <= count (fun v => mem v S) out)%nat).
Proof.
  intros inc out S. unfold has_quorum.
  set (c := fun id : N => if mem id S then Some true else None).
  assert (Ey : forall V, yes_count c V = count (fun v => mem v S) V).
  { intros V. unfold yes_count. apply count_ext_in. intros v _. unfold is_yes, c.
    destruct (mem v S); reflexivity. }
  destruct (joint_vote_result_counts inc out c) as [H _].
  unfold half_won in H. rewrite !Ey in H. rewrite <- H.
  destruct (joint_vote_result inc out c); split; intros; congruence.
Qed.

(* ------------------------------------------------------------------ *)
(** * Quorum intersection *)

(* predicate form: two majorities of the same list share a position.  No NoDup
   needed: it is a counting argument over list positions. *)
Theorem quorum_intersect_pred : forall (V : list N) (p q : N -> bool),
  (majority (length V) <= count p V)%nat ->
  (majority (length V) <= count q V)%nat ->
  exists v, In v V /\ p v = true /\ q v = true.
Proof.
  intros V p q Hp Hq.
  pose proof (count_inter _ p q V) as Hi.
  pose proof (majority_gt_half (length V)) as Hm.
  destruct (count_pos_ex _ (fun x => p x && q x) V) as [v [Hv Hpq]]; [lia|].
  apply andb_true_iff in Hpq. exists v. tauto.
Qed.

Lemma NoDup_app_disjoint : forall (A B : list N),
  NoDup A -> NoDup B -> (forall x, In x A -> ~ In x B) -> NoDup (A ++ B).
Proof.
  intros A B HA HB Hd. induction A as [|a A IH]; [exact HB|].
  cbn [app]. apply NoDup_cons_iff in HA. destruct HA as [Ha HA].
  constructor.
  - rewrite in_app_iff. intros [H|H]; [contradiction|].
    apply (Hd a); [left; reflexivity|exact H].
  - apply IH; [exact HA|]. intros x Hx. apply Hd. right. exact Hx.
Qed.

(* set form: two sub-sets of the voters with a majority of members each share a
   member (pigeonhole via NoDup_incl_length) *)
Theorem quorum_intersect : forall (V A B : list N),
  NoDup V -> NoDup A -> NoDup B -> incl A V -> incl B V ->
  (majority (length V) <= length A)%nat ->
  (majority (length V) <= length B)%nat ->
  exists x, In x A /\ In x B.
Proof.
  intros V A B HV HA HB HAV HBV HlA HlB.
  destruct (existsb (fun x => mem x B) A) eqn:E.
  - apply existsb_exists in E. destruct E as [x [Hx Hm]]. apply mem_In in Hm.
    exists x. tauto.
  - exfalso.
    assert (Hd : forall x, In x A -> ~ In x B).
    { intros x Hx Hb.
      assert (existsb (fun x => mem x B) A = true); [|congruence].
      apply existsb_exists. exists x. split; [exact Hx|apply mem_In, Hb]. }
    pose proof (NoDup_app_disjoint A B HA HB Hd) as Hnd.
    assert (Hincl : incl (A ++ B) V) by (apply incl_app; assumption).
    pose proof (NoDup_incl_length Hnd Hincl) as Hlen. rewrite app_length in Hlen.
    pose proof (majority_gt_half (length V)). lia.
Qed.

(* two winning vote assignments of the same majority config share a granting voter *)
Theorem vote_won_intersect : forall V c1 c2, V <> [] ->
  vote_result V c1 = VoteWon -> vote_result V c2 = VoteWon ->
  exists v, In v V /\ c1 v = Some true /\ c2 v = Some true.
Proof.
  intros V c1 c2 HV H1 H2.
  apply vote_result_spec in H1; [|exact HV]. apply vote_result_spec in H2; [|exact HV].
  destruct (quorum_intersect_pred V (is_yes c1) (is_yes c2) H1 H2) as [v [Hv [Y1 Y2]]].
  exists v. unfold is_yes in Y1, Y2.
  destruct (c1 v) as [[|]|]; try discriminate. destruct (c2 v) as [[|]|]; try discriminate.
  auto.
Qed.

(* joint: two winning assignments share a granting voter in EACH non-empty half *)
Theorem joint_vote_won_intersect : forall inc out c1 c2,
  joint_vote_result inc out c1 = VoteWon -> joint_vote_result inc out c2 = VoteWon ->
  (inc <> [] -> exists v, In v inc /\ c1 v = Some true /\ c2 v = Some true) /\
  (out <> [] -> exists v, In v out /\ c1 v = Some true /\ c2 v = Some true).
Proof.
  intros inc out c1 c2 H1 H2.
  apply joint_vote_result_spec in H1. apply joint_vote_result_spec in H2.
  destruct H1 as [Hi1 Ho1], H2 as [Hi2 Ho2].
  split; intros HV; apply vote_won_intersect; assumption.
Qed.

(* has_quorum: two quorums of the same joint config share a member in each
   non-empty half *)
Theorem has_quorum_intersect : forall inc out S1 S2,
  has_quorum inc out S1 = true -> has_quorum inc out S2 = true ->
  (inc <> [] -> exists v, In v inc /\ In v S1 /\ In v S2) /\
  (out <> [] -> exists v, In v out /\ In v S1 /\ In v S2).
Proof.
  intros inc out S1 S2 H1 H2.
  apply has_quorum_spec in H1. apply has_quorum_spec in H2.
  destruct H1 as [[Ei1|Hi1] [Eo1|Ho1]], H2 as [[Ei2|Hi2] [Eo2|Ho2]];
    split; intros HV; try congruence;
    match goal with
    | Ha : (majority (length ?V) <= count _ ?V)%nat,
      Hb : (majority (length ?V) <= count _ ?V)%nat |- exists v, In v ?V /\ _ =>
        destruct (quorum_intersect_pred V _ _ Ha Hb) as [v [Hv [M1 M2]]];
        apply mem_In in M1; apply mem_In in M2; exists v; tauto
    end.
Qed.

(* a winning vote and a commit witness intersect: some voter both granted the vote
   and acknowledged an index >= i  (the step "the new leader has every committed
   entry" of the protocol proof) *)
Theorem vote_commit_intersect : forall V c a i, V <> [] ->
  vote_result V c = VoteWon ->
  i <= fst (committed_index false V a) ->
  exists v, In v V /\ c v = Some true /\ i <= idx_of a v.
Proof.
  intros V c a i HV Hw Hi.
  apply vote_result_spec in Hw; [|exact HV].
  apply committed_index_iff in Hi; [|exact HV].
  destruct (quorum_intersect_pred V (is_yes c) (fun v => i <=? idx_of a v) Hw Hi)
    as [v [Hv [Y G]]].
  exists v. unfold is_yes in Y. destruct (c v) as [[|]|]; try discriminate.
  repeat split; [exact Hv|lia].
Qed.

(* ------------------------------------------------------------------ *)
(** * Joint commit index *)

Theorem joint_committed_index_min : forall gc inc out a,
  joint_committed_index gc inc out a =
  (N.min (fst (committed_index gc inc a)) (fst (committed_index gc out a)),
   snd (committed_index gc inc a) && snd (committed_index gc out a)).
Proof.
  intros gc inc out a. unfold joint_committed_index.
  destruct (committed_index gc inc a), (committed_index gc out a). reflexivity.
Qed.

Theorem joint_committed_index_empty : forall gc a,
  joint_committed_index gc [] [] a = (u64_max, true).
Proof. reflexivity. Qed.

(* "i is acknowledged by a majority of each non-empty half" *)
Definition joint_acked (a : acked_t) (inc out : list N) (i : N) : Prop :=
  (inc = [] \/ quorum_acked a inc i) /\ (out = [] \/ quorum_acked a out i).

(* for every representable index i: i <= joint commit index iff i is acknowledged by
   a majority of each non-empty half *)
Theorem joint_committed_index_iff : forall inc out a i, i <= u64_max ->
  (i <= fst (joint_committed_index false inc out a) <-> joint_acked a inc out i).
Proof.
  intros inc out a i Hi. rewrite joint_committed_index_min. cbn [fst].
  unfold joint_acked.
  assert (H : forall V, (i <= fst (committed_index false V a) <->
                         V = [] \/ quorum_acked a V i)).
  { intros V. destruct V as [|v V0].
    - rewrite committed_index_empty. cbn [fst]. tauto.
    - assert (HV : v :: V0 <> []) by discriminate.
      rewrite (committed_index_iff _ a i HV). split; [auto|].
      intros [E|E]; [discriminate|exact E]. }
  rewrite <- !H. lia.
Qed.

Definition acked_bounded (a : acked_t) : Prop :=
  forall v i g, a v = Some (i, g) -> i <= u64_max.

Lemma idx_of_bounded : forall a v, acked_bounded a -> idx_of a v <= u64_max.
Proof.
  intros a v H. unfold idx_of, acked_or_default. destruct (a v) as [[i g]|] eqn:E.
  - cbn [fst]. exact (H v i g E).
  - cbn. unfold u64_max. lia.
Qed.

Lemma committed_index_bounded : forall V a, acked_bounded a ->
  fst (committed_index false V a) <= u64_max.
Proof.
  intros V a H. destruct V as [|v V0]; [cbn; lia|].
  destruct (committed_index_acked (v :: V0) a) as [w [_ E]]; [discriminate|].
  rewrite E. apply idx_of_bounded, H.
Qed.

(* with u64 indexes and at least one non-empty half: the joint commit index is the
   LARGEST index acknowledged by a majority of each non-empty half *)
Theorem joint_committed_index_largest : forall inc out a,
  acked_bounded a -> (inc <> [] \/ out <> []) ->
  let r := fst (joint_committed_index false inc out a) in
  joint_acked a inc out r /\ (forall i, joint_acked a inc out i -> i <= r).
Proof.
  intros inc out a Hb Hne. cbn zeta.
  assert (Hr : fst (joint_committed_index false inc out a) <= u64_max).
  { rewrite joint_committed_index_min. cbn [fst].
    pose proof (committed_index_bounded inc a Hb). lia. }
  split.
  - apply joint_committed_index_iff; [exact Hr|lia].
  - intros i Hi. apply joint_committed_index_iff; [|exact Hi].
    (* i is acknowledged by someone, hence representable *)
    assert (Hex : exists V, V <> [] /\ quorum_acked a V i).
    { destruct Hi as [[Ei|Hi] [Eo|Ho]].
      - subst. destruct Hne; congruence.
      - exists out. destruct Hne; [subst; congruence|]. auto.
      - exists inc. destruct Hne; [|subst; congruence]. auto.
      - destruct Hne; [exists inc|exists out]; auto. }
    destruct Hex as [V [HV Hq]]. unfold quorum_acked in Hq.
    pose proof (majority_pos (length V)).
    destruct (count_pos_ex _ (fun v => i <=? idx_of a v) V) as [v [_ Hv]];
      [unfold cnt_ge in Hq; lia|].
    pose proof (idx_of_bounded a v Hb). lia.
Qed.

(* a half-populated joint config behaves like the other half *)
Theorem joint_committed_index_empty_out : forall V a, acked_bounded a ->
  fst (joint_committed_index false V [] a) = fst (committed_index false V a).
Proof.
  intros V a Hb. rewrite joint_committed_index_min, committed_index_empty. cbn [fst].
  pose proof (committed_index_bounded V a Hb). lia.
Qed.

Theorem joint_committed_index_perm : forall inc inc' out out' a,
  Permutation inc inc' -> Permutation out out' ->
  joint_committed_index false inc out a = joint_committed_index false inc' out' a.
Proof.
  intros inc inc' out out' a Hi Ho. unfold joint_committed_index.
  rewrite (committed_index_perm _ _ a Hi), (committed_index_perm _ _ a Ho). reflexivity.
Qed.

(* joint election winner and joint commit witness intersect in each non-empty half *)
Theorem joint_vote_commit_intersect : forall inc out c a i,
  joint_vote_result inc out c = VoteWon ->
  i <= fst (joint_committed_index false inc out a) ->
  (inc <> [] -> exists v, In v inc /\ c v = Some true /\ i <= idx_of a v) /\
  (out <> [] -> exists v, In v out /\ c v = Some true /\ i <= idx_of a v).
Proof.
  intros inc out c a i Hw Hi. apply joint_vote_result_spec in Hw. destruct Hw as [Wi Wo].
  rewrite joint_committed_index_min in Hi. cbn [fst] in Hi.
  split; intros HV; apply vote_commit_intersect; try assumption; lia.
Qed.

(* tracker level: maximal_committed_index is the joint commit index of the progress map *)
Theorem maximal_committed_index_spec : forall gc inc out p,
  maximal_committed_index gc inc out p = joint_committed_index gc inc out (acked_of p).
Proof. reflexivity. Qed.

(* ------------------------------------------------------------------ *)
(** * Group commit *)

(* closed form of the loop: with e = the effective checked group (the quorum
   element's group, or if that is 0 the first non-zero group met), the loop returns
   at the first element whose group is non-zero and differs from e. *)
Definition nzb (m : Index) : bool := negb (snd m =? 0).
Definition differs (c : N) (m : Index) : bool := nzb m && negb (snd m =? c).
Definition eff (c : N) (L : list Index) : N :=
  if c =? 0 then match find nzb L with Some f => snd f | None => 0 end else c.

Lemma gc_loop_char : forall L qci lst c s,
  gc_loop qci lst c s L =
  match find (differs (eff c L)) L with
  | Some m => (N.min (fst m) qci, true)
  | None => if s && forallb nzb L then (qci, false) else (lst, false)
  end.
Proof.
  induction L as [|m t IH]; intros qci lst c s.
  - cbn. destruct s; reflexivity.
  - cbn [gc_loop]. destruct (snd m =? 0) eqn:E0.
    + assert (Hn : nzb m = false) by (unfold nzb; rewrite E0; reflexivity).
      assert (He : eff c (m :: t) = eff c t).
      { unfold eff. cbn [find]. rewrite Hn. reflexivity. }
      assert (Hd : differs (eff c t) m = false) by (unfold differs; rewrite Hn; reflexivity).
      rewrite IH, He. cbn [find forallb]. rewrite Hd, Hn. cbn [andb].
      rewrite andb_false_r. reflexivity.
    + assert (Hn : nzb m = true) by (unfold nzb; rewrite E0; reflexivity).
      destruct (c =? 0) eqn:Ec.
      * assert (He : eff c (m :: t) = snd m).
        { unfold eff. rewrite Ec. cbn [find]. rewrite Hn. reflexivity. }
        assert (He' : eff (snd m) t = snd m).
        { unfold eff. rewrite E0. reflexivity. }
        rewrite IH, He, He'. cbn [find forallb].
        assert (Hd : differs (snd m) m = false).
        { unfold differs. rewrite N.eqb_refl. apply andb_false_r. }
        rewrite Hd, Hn. cbn [andb]. reflexivity.
      * assert (He : forall L', eff c L' = c).
        { intros L'. unfold eff. rewrite Ec. reflexivity. }
        rewrite He. destruct (c =? snd m) eqn:Ecm.
        -- rewrite IH, He. cbn [find forallb].
           assert (Hd : differs c m = false).
           { unfold differs. rewrite N.eqb_sym, Ecm. apply andb_false_r. }
           rewrite Hd, Hn. cbn [andb]. reflexivity.
        -- cbn [find].
           assert (Hd : differs c m = true).
           { unfold differs. rewrite Hn, N.eqb_sym, Ecm. reflexivity. }
           rewrite Hd. reflexivity.
Qed.

Lemma committed_index_gc : forall V a, V <> [] ->
  committed_index true V a =
  let L := matched_of a V in
  let q := quorum_elem a V in
  match find (differs (eff (snd q) L)) L with
  | Some m => (N.min (fst m) (fst q), true)
  | None => if forallb nzb L then (fst q, false)
            else (fst (last L index_default), false)
  end.
Proof.
  intros V a HV. unfold committed_index, quorum_elem.
  destruct V as [|v V']; [congruence|].
  cbn [negb]. fold (matched_of a (v :: V')). rewrite matched_of_length.
  rewrite gc_loop_char. reflexivity.
Qed.

Lemma quorum_elem_in_matched : forall V a, V <> [] ->
  In (quorum_elem a V) (matched_of a V).
Proof.
  intros V a HV. unfold quorum_elem. apply nth_In.
  rewrite matched_of_length. apply majority_pos_lt, length_pos, HV.
Qed.

(* the group-commit result never exceeds the plain quorum index, whatever the
   group assignment (group 0 and missing voters included) *)
Theorem gc_le_plain : forall V a,
  fst (committed_index true V a) <= fst (committed_index false V a).
Proof.
  intros V a. destruct V as [|v V0]; [cbn; lia|].
  assert (HV : v :: V0 <> []) by discriminate.
  rewrite (committed_index_gc _ a HV), (committed_index_plain _ a HV). cbn zeta.
  destruct (find _ _) as [m|]; [cbn [fst]; lia|].
  destruct (forallb _ _); cbn [fst]; [lia|].
  apply desc_last_le; [apply matched_of_desc|apply quorum_elem_in_matched, HV].
Qed.

Theorem joint_gc_le_plain : forall inc out a,
  fst (joint_committed_index true inc out a) <=
  fst (joint_committed_index false inc out a).
Proof.
  intros inc out a. rewrite !joint_committed_index_min. cbn [fst].
  pose proof (gc_le_plain inc a). pose proof (gc_le_plain out a). lia.
Qed.

(* in a descending list the first element satisfying p has the largest index among
   those satisfying p *)
Lemma find_desc_max : forall (p : Index -> bool) L, desc L -> forall f,
  find p L = Some f -> forall x, In x L -> p x = true -> fst x <= fst f.
Proof.
  intros p L H. induction H as [|y L HL IH Hy]; intros f Hf x Hx Hp; [destruct Hx|].
  rewrite Forall_forall in Hy. cbn [find] in Hf. destruct (p y) eqn:Epy.
  - injection Hf as <-. destruct Hx as [->|Hx]; [lia|]. exact (Hy x Hx).
  - destruct Hx as [->|Hx]; [congruence|]. exact (IH f Hf x Hx Hp).
Qed.

(* "voters with index >= i span two distinct (non-zero) groups" *)
Definition two_groups (a : acked_t) (V : list N) (i : N) : Prop :=
  exists u v, In u V /\ In v V /\
    grp_of a u <> 0 /\ grp_of a v <> 0 /\ grp_of a u <> grp_of a v /\
    i <= idx_of a u /\ i <= idx_of a v.

Lemma nzb_true : forall m, nzb m = true <-> snd m <> 0.
Proof. intros m. unfold nzb. rewrite negb_true_iff, N.eqb_neq. tauto. Qed.

Lemma differs_true : forall c m, differs c m = true <-> snd m <> 0 /\ snd m <> c.
Proof.
  intros c m. unfold differs. rewrite andb_true_iff, nzb_true, negb_true_iff, N.eqb_neq.
  tauto.
Qed.

(* the effective checked group is the non-zero group of some element p of L that is
   at least as large as min(first differing element, quorum element) *)
Lemma eff_partner : forall a V, V <> [] ->
  let L := matched_of a V in
  let q := quorum_elem a V in
  (exists x, In x L /\ snd x <> 0) ->
  exists p, In p L /\ snd p = eff (snd q) L /\ snd p <> 0 /\
            (forall x, In x L -> snd x <> 0 -> N.min (fst x) (fst q) <= fst p).
Proof.
  intros a V HV L q [x0 [Hx0 Hx0nz]]. unfold eff. destruct (snd q =? 0) eqn:Eq.
  - destruct (find nzb L) as [f|] eqn:Ef.
    + destruct (find_some _ _ Ef) as [Hf Hfn]. apply nzb_true in Hfn.
      exists f. repeat split; try assumption.
      intros x Hx Hxn.
      pose proof (find_desc_max nzb L (matched_of_desc a V) f Ef x Hx) as Hle.
      rewrite nzb_true in Hle. specialize (Hle Hxn). lia.
    + exfalso. pose proof (find_none _ _ Ef x0 Hx0) as Hn.
      apply nzb_true in Hx0nz. congruence.
  - apply N.eqb_neq in Eq. exists q. repeat split.
    + apply quorum_elem_in_matched, HV.
    + exact Eq.
    + intros x _ _. lia.
Qed.

(* (A) two distinct non-zero groups occur among the voters: the flag is true and the
   result is the largest index i <= plain quorum index such that the voters with
   index >= i span two distinct groups, i.e. min(plain, largest index replicated
   into two groups). *)
Theorem gc_two_groups : forall V a, V <> [] -> two_groups a V 0 ->
  let r := fst (committed_index true V a) in
  let plain := fst (committed_index false V a) in
  snd (committed_index true V a) = true /\
  r <= plain /\ two_groups a V r /\
  (forall i, i <= plain -> two_groups a V i -> i <= r).
Proof.
  intros V a HV H2. cbn zeta.
  pose proof (gc_le_plain V a) as Hle.
  rewrite (committed_index_plain _ a HV) in *. cbn [fst] in *.
  rewrite (committed_index_gc _ a HV) in *. cbn zeta in *.
  set (L := matched_of a V) in *. set (q := quorum_elem a V) in *.
  destruct H2 as [u [v [Hu [Hv [Gu [Gv [Guv _]]]]]]].
  assert (Hmu : In (acked_or_default a u) L) by (apply matched_of_In; eauto).
  assert (Hmv : In (acked_or_default a v) L) by (apply matched_of_In; eauto).
  destruct (eff_partner a V HV) as [p [Hp [Ep [Pnz Pge]]]].
  { exists (acked_or_default a u). split; [exact Hmu|exact Gu]. }
  fold L in Hp, Ep, Pge. fold q in Ep, Pge.
  destruct (find (differs (eff (snd q) L)) L) as [m|] eqn:Ef.
  - destruct (find_some _ _ Ef) as [Hm Hmd]. apply differs_true in Hmd.
    destruct Hmd as [Mnz Mne]. cbn [fst snd] in *.
    split; [reflexivity|]. split; [exact Hle|]. split.
    + (* witnesses: m and the partner p *)
      apply matched_of_In in Hm. destruct Hm as [vm [Hvm Em]].
      pose proof Hp as Hp'. apply matched_of_In in Hp'. destruct Hp' as [vp [Hvp Epp]].
      exists vm, vp. unfold grp_of, idx_of. rewrite <- Em, <- Epp.
      repeat split; try assumption.
      * rewrite Ep. exact Mne.
      * lia.
      * apply Pge; [|exact Mnz]. apply matched_of_In. eauto.
    + intros i Hi [u' [v' [Hu' [Hv' [Gu' [Gv' [Guv' [Iu Iv]]]]]]]].
      assert (Hd : exists w, In w V /\ i <= idx_of a w /\
                             differs (eff (snd q) L) (acked_or_default a w) = true).
      { destruct (N.eq_dec (grp_of a u') (eff (snd q) L)) as [E|E].
        - exists v'. repeat split; try assumption. apply differs_true.
          split; [exact Gv'|]. unfold grp_of in *. congruence.
        - exists u'. repeat split; try assumption. apply differs_true.
          split; [exact Gu'|exact E]. }
      destruct Hd as [w [Hw [Iw Dw]]].
      assert (Hmw : In (acked_or_default a w) L) by (apply matched_of_In; eauto).
      pose proof (find_desc_max _ L (matched_of_desc a V) m Ef _ Hmw Dw) as Hwm.
      unfold idx_of in Iw. lia.
  - exfalso.
    pose proof (find_none _ _ Ef _ Hmu) as Du. pose proof (find_none _ _ Ef _ Hmv) as Dv.
    assert (Hu' : ~ (snd (acked_or_default a u) <> 0 /\
                     snd (acked_or_default a u) <> eff (snd q) L)).
    { rewrite <- differs_true. congruence. }
    assert (Hv' : ~ (snd (acked_or_default a v) <> 0 /\
                     snd (acked_or_default a v) <> eff (snd q) L)).
    { rewrite <- differs_true. congruence. }
    unfold grp_of in *.
    destruct (N.eq_dec (snd (acked_or_default a u)) (eff (snd q) L)) as [E1|E1];
    destruct (N.eq_dec (snd (acked_or_default a v)) (eff (snd q) L)) as [E2|E2];
      try tauto. congruence.
Qed.

(* (B) every voter has a non-zero group and they are all the same group: the plain
   quorum index, flag false *)
Theorem gc_single_group : forall V a, V <> [] ->
  (forall v, In v V -> grp_of a v <> 0) ->
  (forall u v, In u V -> In v V -> grp_of a u = grp_of a v) ->
  committed_index true V a = (fst (committed_index false V a), false).
Proof.
  intros V a HV Hnz Hsame.
  rewrite (committed_index_plain _ a HV). cbn [fst].
  rewrite (committed_index_gc _ a HV). cbn zeta.
  set (L := matched_of a V). set (q := quorum_elem a V).
  destruct (quorum_elem_In V a HV) as [vq [Hvq Eq]]. fold q in Eq.
  assert (Hqnz : snd q <> 0) by (rewrite Eq; apply (Hnz vq Hvq)).
  assert (He : eff (snd q) L = snd q).
  { unfold eff. apply N.eqb_neq in Hqnz. rewrite Hqnz. reflexivity. }
  rewrite He.
  destruct (find (differs (snd q)) L) as [m|] eqn:Ef.
  - exfalso. destruct (find_some _ _ Ef) as [Hm Hmd]. apply differs_true in Hmd.
    apply matched_of_In in Hm. destruct Hm as [vm [Hvm Em]].
    destruct Hmd as [_ Hne]. apply Hne. rewrite Em, Eq. apply (Hsame vm vq Hvm Hvq).
  - assert (Hall : forallb nzb L = true).
    { apply forallb_forall. intros x Hx. apply matched_of_In in Hx.
      destruct Hx as [vx [Hvx ->]]. apply nzb_true. apply (Hnz vx Hvx). }
    rewrite Hall. reflexivity.
Qed.

(* (C) some voter has no group (group 0 or no entry) and the grouped voters do not
   span two groups: the smallest acknowledged index, flag false *)
Theorem gc_zero_group : forall V a, V <> [] ->
  (exists v, In v V /\ grp_of a v = 0) ->
  (forall u v, In u V -> In v V -> grp_of a u <> 0 -> grp_of a v <> 0 ->
               grp_of a u = grp_of a v) ->
  let r := fst (committed_index true V a) in
  snd (committed_index true V a) = false /\
  (forall v, In v V -> r <= idx_of a v) /\ (exists v, In v V /\ r = idx_of a v).
Proof.
  intros V a HV [v0 [Hv0 G0]] Hsame. cbn zeta.
  rewrite (committed_index_gc _ a HV). cbn zeta.
  set (L := matched_of a V). set (q := quorum_elem a V).
  assert (Hm0 : In (acked_or_default a v0) L) by (apply matched_of_In; eauto).
  destruct (find (differs (eff (snd q) L)) L) as [m|] eqn:Ef.
  - exfalso. destruct (find_some _ _ Ef) as [Hm Hmd]. apply differs_true in Hmd.
    destruct Hmd as [Mnz Mne].
    destruct (eff_partner a V HV) as [p [Hp [Ep [Pnz _]]]].
    { exists m. split; assumption. }
    fold L in Hp, Ep. fold q in Ep.
    apply matched_of_In in Hm. destruct Hm as [vm [Hvm Em]].
    apply matched_of_In in Hp. destruct Hp as [vp [Hvp Epp]].
    apply Mne. rewrite <- Ep. rewrite Em, Epp.
    apply (Hsame vm vp Hvm Hvp); unfold grp_of; congruence.
  - assert (Hall : forallb nzb L = false).
    { destruct (forallb nzb L) eqn:E; [|reflexivity].
      rewrite forallb_forall in E. specialize (E _ Hm0). apply nzb_true in E.
      unfold grp_of in G0. congruence. }
    rewrite Hall. cbn [fst snd]. split; [reflexivity|]. split.
    + intros v Hv. apply desc_last_le; [apply matched_of_desc|].
      apply matched_of_In. eauto.
    + assert (Hl : In (last L index_default) L).
      { apply last_In. intros E. rewrite E in Hm0. destruct Hm0. }
      apply matched_of_In in Hl. destruct Hl as [v [Hv E]]. exists v.
      split; [exact Hv|]. unfold idx_of. rewrite E. reflexivity.
Qed.

(* ---- the all-grouped case, as stated in the property ---- *)

Definition all_grouped (a : acked_t) (V : list N) : Prop :=
  forall v, In v V -> grp_of a v <> 0.

(* "voters with index >= i span at least two distinct groups" *)
Definition spans_two (a : acked_t) (V : list N) (i : N) : Prop :=
  exists u v, In u V /\ In v V /\ grp_of a u <> grp_of a v /\
              i <= idx_of a u /\ i <= idx_of a v.

Lemma spans_two_groups : forall a V i, all_grouped a V ->
  (spans_two a V i <-> two_groups a V i).
Proof.
  intros a V i Hall. unfold spans_two, two_groups. split.
  - intros [u [v [Hu [Hv [G [Iu Iv]]]]]]. exists u, v.
    repeat split; try assumption; apply Hall; assumption.
  - intros [u [v [Hu [Hv [_ [_ [G [Iu Iv]]]]]]]]. exists u, v. tauto.
Qed.

Lemma spans_two_antimono : forall a V i j, i <= j -> spans_two a V j -> spans_two a V i.
Proof.
  intros a V i j Hij [u [v [Hu [Hv [G [Iu Iv]]]]]]. exists u, v.
  repeat split; try assumption; lia.
Qed.

(* every voter grouped, at least two groups: flag true, and the result is the
   largest i <= plain quorum index such that the voters with index >= i span two
   groups *)
Theorem gc_all_grouped : forall V a, V <> [] -> all_grouped a V -> spans_two a V 0 ->
  let r := fst (committed_index true V a) in
  let plain := fst (committed_index false V a) in
  snd (committed_index true V a) = true /\
  r <= plain /\ spans_two a V r /\
  (forall i, i <= plain -> spans_two a V i -> i <= r).
Proof.
  intros V a HV Hall H2. cbn zeta.
  apply (spans_two_groups a V 0 Hall) in H2.
  destruct (gc_two_groups V a HV H2) as [Hf [Hle [Hr Hmax]]]. cbn zeta in *.
  split; [exact Hf|]. split; [exact Hle|]. split.
  - apply spans_two_groups; assumption.
  - intros i Hi Hs. apply Hmax; [exact Hi|]. apply spans_two_groups; assumption.
Qed.

(* the same, as a formula: if G is the largest index replicated into two groups
   then the result is min(plain, G) *)
Corollary gc_all_grouped_min : forall V a G, V <> [] -> all_grouped a V ->
  spans_two a V G -> (forall i, spans_two a V i -> i <= G) ->
  committed_index true V a = (N.min (fst (committed_index false V a)) G, true).
Proof.
  intros V a G HV Hall HG Hmax.
  assert (H0 : spans_two a V 0) by (apply (spans_two_antimono a V 0 G); [lia|exact HG]).
  destruct (gc_all_grouped V a HV Hall H0) as [Hf [Hle [Hr Hm]]]. cbn zeta in *.
  rewrite (surjective_pairing (committed_index true V a)), Hf. f_equal.
  apply N.le_antisymm.
  - specialize (Hmax _ Hr). lia.
  - apply Hm; [lia|]. apply (spans_two_antimono a V _ G); [lia|exact HG].
Qed.

(* every voter grouped, one group only: the plain index with flag false *)
Theorem gc_all_grouped_one : forall V a, V <> [] -> all_grouped a V ->
  (forall u v, In u V -> In v V -> grp_of a u = grp_of a v) ->
  committed_index true V a = (fst (committed_index false V a), false).
Proof. intros V a HV Hall Hsame. apply gc_single_group; assumption. Qed.

(* ---- permutation invariance of the group-commit result (any group assignment) ---- *)

Lemma two_groups_perm : forall a V V' i, Permutation V V' ->
  two_groups a V i -> two_groups a V' i.
Proof.
  intros a V V' i H [u [v [Hu [Hv Hrest]]]]. exists u, v.
  split; [apply (Permutation_in _ H Hu)|]. split; [apply (Permutation_in _ H Hv)|].
  exact Hrest.
Qed.

Definition two_groups_b (a : acked_t) (V : list N) : bool :=
  existsb (fun u => existsb (fun v =>
    negb (grp_of a u =? 0) && negb (grp_of a v =? 0) &&
    negb (grp_of a u =? grp_of a v)) V) V.

Lemma two_groups_b_true : forall a V, two_groups_b a V = true -> two_groups a V 0.
Proof.
  intros a V H. unfold two_groups_b in H. apply existsb_exists in H.
  destruct H as [u [Hu H]]. apply existsb_exists in H. destruct H as [v [Hv H]].
  rewrite !andb_true_iff, !negb_true_iff, !N.eqb_neq in H.
  exists u, v. repeat split; try tauto; lia.
Qed.

Lemma two_groups_b_false : forall a V, two_groups_b a V = false ->
  forall u v, In u V -> In v V -> grp_of a u <> 0 -> grp_of a v <> 0 ->
              grp_of a u = grp_of a v.
Proof.
  intros a V H u v Hu Hv Gu Gv.
  destruct (N.eq_dec (grp_of a u) (grp_of a v)) as [E|E]; [exact E|exfalso].
  assert (two_groups_b a V = true); [|congruence].
  unfold two_groups_b. apply existsb_exists. exists u. split; [exact Hu|].
  apply existsb_exists. exists v. split; [exact Hv|].
  rewrite !andb_true_iff, !negb_true_iff, !N.eqb_neq. tauto.
Qed.

(* The group-commit result does not depend on the hash-iteration order either,
   although the loop reads the groups of equal indexes in iteration order. *)
Theorem committed_index_gc_perm : forall V V' a, Permutation V V' ->
  committed_index true V a = committed_index true V' a.
Proof.
  intros V V' a H. destruct V as [|v0 V0].
  - apply Permutation_nil in H. subst. reflexivity.
  - assert (HV : v0 :: V0 <> []) by discriminate. set (V := v0 :: V0) in *.
    pose proof (perm_nonempty _ _ _ H HV) as HV'.
    pose proof (committed_index_perm_fst V V' a HV H) as Hplain.
    pose proof (Permutation_sym H) as H'.
    destruct (two_groups_b a V) eqn:E2.
    + apply two_groups_b_true in E2.
      pose proof (two_groups_perm a V V' 0 H E2) as E2'.
      destruct (gc_two_groups V a HV E2) as [Hf [Hle [Hr Hm]]].
      destruct (gc_two_groups V' a HV' E2') as [Hf' [Hle' [Hr' Hm']]].
      cbn zeta in *.
      rewrite (surjective_pairing (committed_index true V a)),
              (surjective_pairing (committed_index true V' a)), Hf, Hf'. f_equal.
      apply N.le_antisymm.
      * apply Hm'; [lia|]. apply (two_groups_perm a V V' _ H Hr).
      * apply Hm; [lia|]. apply (two_groups_perm a V' V _ H' Hr').
    + pose proof (two_groups_b_false a V E2) as Hsame.
      assert (Hsame' : forall u v, In u V' -> In v V' -> grp_of a u <> 0 ->
                                   grp_of a v <> 0 -> grp_of a u = grp_of a v).
      { intros u v Hu Hv. apply Hsame; apply (Permutation_in _ H'); assumption. }
      destruct (forallb (fun v => negb (grp_of a v =? 0)) V) eqn:Enz.
      * rewrite forallb_forall in Enz.
        assert (Hall : forall v, In v V -> grp_of a v <> 0).
        { intros v Hv. specialize (Enz v Hv). rewrite negb_true_iff, N.eqb_neq in Enz.
          exact Enz. }
        assert (Hall' : forall v, In v V' -> grp_of a v <> 0).
        { intros v Hv. apply Hall, (Permutation_in _ H'), Hv. }
        rewrite (gc_single_group V a HV Hall), (gc_single_group V' a HV' Hall'), Hplain;
          [reflexivity| |]; intros u v Hu Hv; auto.
      * assert (Hz : exists v, In v V /\ grp_of a v = 0).
        { destruct (existsb (fun v => grp_of a v =? 0) V) eqn:Ex.
          - apply existsb_exists in Ex. destruct Ex as [v [Hv Ev]].
            exists v. split; [exact Hv|lia].
          - exfalso. assert (forallb (fun v => negb (grp_of a v =? 0)) V = true);
              [|congruence].
            apply forallb_forall. intros v Hv. apply negb_true_iff.
            destruct (grp_of a v =? 0) eqn:Ev; [|reflexivity].
            assert (existsb (fun v => grp_of a v =? 0) V = true); [|congruence].
            apply existsb_exists. exists v. tauto. }
        assert (Hz' : exists v, In v V' /\ grp_of a v = 0).
        { destruct Hz as [v [Hv Ev]]. exists v. split; [apply (Permutation_in _ H Hv)|exact Ev]. }
        destruct (gc_zero_group V a HV Hz Hsame) as [Hf [Hmin [w [Hw Ew]]]].
        destruct (gc_zero_group V' a HV' Hz' Hsame') as [Hf' [Hmin' [w' [Hw' Ew']]]].
        cbn zeta in *.
        rewrite (surjective_pairing (committed_index true V a)),
                (surjective_pairing (committed_index true V' a)), Hf, Hf'. f_equal.
        apply N.le_antisymm.
        -- rewrite Ew'. apply Hmin, (Permutation_in _ H'), Hw'.
        -- rewrite Ew. apply Hmin', (Permutation_in _ H), Hw.
Qed.

Theorem joint_committed_index_gc_perm : forall gc inc inc' out out' a,
  Permutation inc inc' -> Permutation out out' ->
  joint_committed_index gc inc out a = joint_committed_index gc inc' out' a.
Proof.
  intros gc inc inc' out out' a Hi Ho. unfold joint_committed_index. destruct gc.
  - rewrite (committed_index_gc_perm _ _ a Hi), (committed_index_gc_perm _ _ a Ho).
    reflexivity.
  - rewrite (committed_index_perm _ _ a Hi), (committed_index_perm _ _ a Ho). reflexivity.
Qed.

(* ---- concrete sanity checks (the doc-comment examples of majority.rs) ---- *)

Definition acked_list (l : list (N * Index)) : acked_t := assoc l.

(* "If the matched indexes are [2,2,2,4,5], it will return 2." *)
Example doc_example_plain :
  committed_index false [1;2;3;4;5]
    (acked_list [(1,(2,0));(2,(2,0));(3,(2,0));(4,(4,0));(5,(5,0))]) = (2, false).
Proof. vm_compute. reflexivity. Qed.

(* "If the matched indexes and groups are [(1, 1), (2, 2), (3, 2)], it will return 1." *)
Example doc_example_gc :
  committed_index true [1;2;3]
    (acked_list [(1,(1,1));(2,(2,2));(3,(3,2))]) = (1, true).
Proof. vm_compute. reflexivity. Qed.

(* group commit can be strictly below the plain index *)
Example gc_strictly_less :
  fst (committed_index true [1;2;3] (acked_list [(1,(1,1));(2,(2,2));(3,(3,2))])) <
  fst (committed_index false [1;2;3] (acked_list [(1,(1,1));(2,(2,2));(3,(3,2))])).
Proof. vm_compute. reflexivity. Qed.

Lemma committed_index_flag_plain : forall V a, V <> [] ->
  snd (committed_index false V a) = false.
Proof. intros V a HV. rewrite (committed_index_plain V a HV). reflexivity. Qed.
