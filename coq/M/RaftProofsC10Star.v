(* C10, part 7 — star convergence: one leader and a list of followers of the same term in
   the lock-step schedule [star_round]; and the commit clause.  Built on the pair proof
   (M/RaftProofsC10Pair.v): seen from one follower f, the responses of the other followers
   only make the leader run sub-operations that keep f's measure, invariant and
   obligations.  See the header of Props/C10.v for what is assumed and what is proved. *)
From RV Require Import Base.Prelude Base.IdSet Base.IdSetProofs M.Util M.UtilProofs M.Proto
  M.MemStorage M.MemStorageProofs M.Inflights M.InflightsProofs M.Progress M.RaftLog
  M.RaftLogProofs M.RaftLogProofsOps M.RaftLogProofsSlice M.RaftLogProofsHistory M.Quorum
  M.ConfChange M.Msg M.Raft M.RaftProofs M.RaftProofsC15 M.RaftProofsC09 M.RaftProofsC10
  M.RaftProofsC10Pair.
From RV Require M.QuorumProofs.
From RecordUpdate Require Import RecordSet.
Import RecordSetNotations.

Local Open Scope N_scope.

Lemma steps_app a : forall r b, steps r (a ++ b) = (x <- steps r a ;; steps x b).
Proof.
  induction a as [|m t IH]; intros r b; cbn [steps app]; [reflexivity|].
  destruct (step r m) as [[r1 c]|s]; cbn [bind fst]; [apply IH|reflexivity].
Qed.

(* ================================================================== *)
(* 7.1 the view from one follower f                                    *)
(* ================================================================== *)
Section View.

Variables (LL : LL) (T l f lo : N) (rw : bool).
Hypothesis HLL : LeaderLog LL.
Hypothesis Hlo : ll_base LL <= lo.
Hypothesis HloT : exists t, ll_term LL lo = SOk t.
Hypothesis HT : T <> 0.
Hypothesis Hlf : l <> f.
Variables (rwl : bool) (l0 : raft_log).
Hypothesis Hl0 : RepInv rwl l0.
Hypothesis Habs0 : abs l0 = LL.

Local Notation PrInv := (PrInv LL lo).
Local Notation LCore := (LCore T l l0).
Local Notation lstep := (lstep LL T l f lo).
Local Notation mext := (mext LL T l f lo).
Local Notation mu := (mu LL).
Local Notation obl := (obl LL T l f lo).
Local Notation FInv := (FInv LL T f lo rw).
Local Notation qmsg_ok := (qmsg_ok LL T l f lo).
Local Notation resp_ok := (resp_ok T l f).
Local Notation resp_chain := (resp_chain T l f).
Local Notation snd_app := (snd_app LL T l f lo).
Local Notation snd_hb := (snd_hb T l f).

(* a response of another follower *)
Definition other_ok (m : msg) : Prop :=
  m_term m = T /\ m_from m <> f /\
  (m_type m = MsgAppendResponse \/ (m_type m = MsgHeartbeatResponse /\ m_context m = [])).

Lemma lstep_refl' b r pr : get_pr r f = Some pr -> PrInv b pr -> lstep b r pr r pr.
Proof. intros. eapply lstep_refl; eassumption. Qed.

Lemma lstep_trans_ex b r pr r1 p1 r' :
  LCore r -> lstep b r pr r1 p1 ->
  (LCore r1 -> get_pr r1 f = Some p1 -> PrInv b p1 -> exists pr', lstep b r1 p1 r' pr') ->
  exists pr', lstep b r pr r' pr'.
Proof.
  intros HC S1 K. pose proof S1 as (A1 & _ & A3 & A4 & _).
  destruct (K (lfr_LCore _ _ _ _ _ A1 HC) A3 A4) as (p2 & S2).
  exists p2. eapply lstep_trans; eassumption.
Qed.

(* a sub-operation that only queues messages for g <> f and rewrites g's progress *)
Lemma other_put_lstep b r pr g new pg :
  get_pr r f = Some pr -> PrInv b pr -> g <> f -> Forall (fun x => m_to x = g) new ->
  lstep b r pr (put_pr (r <| r_msgs := r_msgs r ++ new |>) g pg) pr.
Proof.
  intros Hg HP Hne Hto. split.
  { eapply lfr_trans; [|apply put_pr_lfr]. apply msgs_only_lfr. apply msgs_only_set. }
  split.
  { exists new. split; [reflexivity|]. eapply Forall_impl; [|exact Hto].
    intros x Hx1 Hx2. cbn in Hx1. congruence. }
  split; [rewrite get_pr_put_other by congruence; exact Hg|]. split; [exact HP|reflexivity].
Qed.

Lemma put_lstep b r pr g pg :
  get_pr r f = Some pr -> PrInv b pr -> g <> f -> lstep b r pr (put_pr r g pg) pr.
Proof.
  intros Hg HP Hne. split; [apply put_pr_lfr|]. split; [exists []; rewrite app_nil_r; auto|].
  split; [rewrite get_pr_put_other by congruence; exact Hg|]. split; [exact HP|reflexivity].
Qed.

Lemma send_append_aggressively_loop_other g fuel : forall r pg r' pg',
  r_batch_append r = false ->
  send_append_aggressively_loop fuel r g pg = Ok (r', pg') ->
  exists new, r' = r <| r_msgs := r_msgs r ++ new |> /\ Forall (fun x => m_to x = g) new.
Proof.
  induction fuel as [|fu IH]; intros r pg r' pg' Hb H; [discriminate|].
  cbn [send_append_aggressively_loop] in H. inv_bind H. destruct x as [[r1 p1] sent].
  destruct (maybe_send_append_nobatch LL lo HLL Hlo HloT l0 Habs0 r g pg false r1 p1 sent Hb Hx)
    as (n1 & -> & F1).
  destruct sent.
  - apply IH in H; [|exact Hb]. destruct H as (n2 & -> & F2).
    exists (n1 ++ n2). split.
    + cbn. rewrite <- app_assoc. destruct r; reflexivity.
    + apply Forall_app. auto.
  - inversion H; subst r' pg'. exists n1. auto.
Qed.

Lemma send_append_aggressively_other b r pr g r' :
  LCore r -> get_pr r f = Some pr -> PrInv b pr -> g <> f ->
  send_append_aggressively r g = Ok r' -> lstep b r pr r' pr.
Proof.
  intros HC Hg HP Hne H. unfold send_append_aggressively in H.
  destruct (get_pr r g) as [pg|]; [|discriminate].
  inv_bind H. destruct x as [r1 p1]. inversion H; subst r'; clear H.
  destruct (send_append_aggressively_loop_other g _ _ _ _ _ (lc_batch _ _ _ _ HC) Hx) as (new & -> & Hto).
  apply other_put_lstep; assumption.
Qed.

(* the tail of handle_append_response for an acknowledgement of another follower *)
Lemma ack_tail_other b r pr m op r' :
  LCore r -> get_pr r f = Some pr -> PrInv b pr -> m_from m <> f ->
  ack_tail r m op = Ok r' -> exists pr', lstep b r pr r' pr'.
Proof.
  intros HC Hg HP Hne H. unfold ack_tail in H.
  inv_bind H. destruct x as [r1 cmt].
  pose proof (maybe_commit_lstep LL T l f lo Hlf l0 b _ _ _ _ HC Hg HP Hx) as S1.
  pose proof S1 as (A1 & _ & A3 & A4 & _). pose proof (lfr_LCore _ _ _ _ _ A1 HC) as HC1.
  inv_bind H. rename x into r2.
  assert (S2 : exists p2, lstep b r1 pr r2 p2).
  { destruct cmt.
    - destruct (should_bcast_commit r1).
      + eapply bcast_append_lstep; eassumption.
      + assert (r2 = r1) by congruence. subst r2. exists pr. apply lstep_refl'; assumption.
    - destruct op.
      + eapply send_append_to_lstep; eassumption.
      + assert (r2 = r1) by congruence. subst r2. exists pr. apply lstep_refl'; assumption. }
  destruct S2 as (p2 & S2). pose proof S2 as (B1 & _ & B3 & B4 & _).
  pose proof (lfr_LCore _ _ _ _ _ B1 HC1) as HC2.
  inv_bind H. rename x into r3.
  pose proof (send_append_aggressively_other b _ _ _ _ HC2 B3 B4 Hne Hx1) as S3.
  pose proof S3 as (C1 & _). pose proof (lfr_LCore _ _ _ _ _ C1 HC2) as HC3.
  rewrite (lc_transfer _ _ _ _ HC3) in H. inversion H; subst r'.
  exists p2. eapply lstep_trans; [exact S1|]. eapply lstep_trans; eassumption.
Qed.

(* MAIN frame lemma: handling a response of another follower is, for f, a sequence of
   sub-operations that keep f's invariant and key (state, matched, probing next_idx);
   what is queued for f meanwhile are sound appends built from (the leader's log, f's
   Progress) only *)
Lemma leader_step_other b L pr m L' c :
  LCore L -> get_pr L f = Some pr -> PrInv b pr -> other_ok m -> step L m = Ok (L', c) ->
  exists pr', lstep b L pr L' pr'.
Proof.
  intros HC Hg HP (Ot & Of & Oty) H.
  destruct (step_leader_same_term T HT L m (lc_state _ _ _ _ HC) (lc_term _ _ _ _ HC) Ot) as [EA EH].
  destruct Oty as [Hty|[Hty Hctx]].
  - rewrite (EA Hty) in H. inv_bind H. inversion H; subst x c; clear H.
    destruct (get_pr L (m_from m)) as [pg|] eqn:Hgg.
    2:{ unfold handle_append_response in Hx. inv_bind Hx. rewrite Hgg in Hx.
        assert (L' = L) by congruence. subst L'. exists pr. apply lstep_refl'; assumption. }
    destruct (m_reject m) eqn:Hrj.
    + rewrite (append_reject_eq L m pg Hgg Hrj) in Hx. inv_bind Hx.
      destruct (maybe_decr_to _ _ _ _) as [p1 dec]. destruct dec.
      * eapply (lstep_trans_ex b L pr _ pr); [exact HC|apply put_lstep; eassumption|].
        intros HC1 Hg1 HP1. eapply send_append_to_lstep; eassumption.
      * inversion Hx; subst L'. exists pr. apply put_lstep; assumption.
    + rewrite (append_ack_eq L m pg Hgg Hrj) in Hx. cbv zeta in Hx.
      destruct (matched pg <? m_index m).
      * inv_bind Hx.
        eapply (lstep_trans_ex b L pr _ pr); [exact HC|apply put_lstep; eassumption|].
        intros HC1 Hg1 HP1. eapply ack_tail_other; eassumption.
      * inversion Hx; subst L'. exists pr. apply put_lstep; assumption.
  - rewrite (EH Hty) in H. inv_bind H. inversion H; subst x c; clear H.
    rewrite heartbeat_response_eq in Hx.
    destruct (get_pr L (m_from m)) as [pg|] eqn:Hgg.
    2:{ assert (L' = L) by congruence. subst L'. exists pr. apply lstep_refl'; assumption. }
    inv_bind Hx. inv_bind Hx.
    assert (Htail : hb_ro_tail x0 m = Ok x0).
    { unfold hb_ro_tail. rewrite Hctx. rewrite orb_true_r. reflexivity. }
    rewrite Htail in Hx. inversion Hx; subst x0; clear Hx.
    exists pr.
    match goal with Hs : (if hb_wants_send _ _ then _ else _) = Ok _ |- _ => rename Hs into Hsd end.
    destruct (hb_wants_send L x).
    + inv_bind Hsd. destruct x0 as [[r1 p1] sent]. inversion Hsd; subst L'.
      match goal with Hs : maybe_send_append _ _ _ _ = Ok _ |- _ =>
        destruct (maybe_send_append_nobatch LL lo HLL Hlo HloT l0 Habs0 _ _ _ _ _ _ _
                    (lc_batch _ _ _ _ HC) Hs) as (new & -> & Hto) end.
      apply other_put_lstep; assumption.
    + inversion Hsd; subst L'. apply put_lstep; assumption.
Qed.

(* a whole list of responses of other followers *)
Lemma leader_steps_others : forall ms b L pr L',
  Forall other_ok ms -> LCore L -> get_pr L f = Some pr -> PrInv b pr -> steps L ms = Ok L' ->
  exists pr', lstep b L pr L' pr'.
Proof.
  induction ms as [|m t IH]; intros b L pr L' Ho HC Hg HP H; cbn [steps] in H.
  - assert (L' = L) by congruence. subst L'. exists pr. apply lstep_refl'; assumption.
  - inv_bind H. destruct x as [L1 c1]. cbn [fst] in H.
    pose proof (Forall_inv Ho) as Hm. pose proof (Forall_inv_tail Ho) as Ht.
    destruct (leader_step_other b L pr m L1 c1 HC Hg HP Hm Hx) as (p1 & S1).
    eapply (lstep_trans_ex b L pr L1 p1); [exact HC|exact S1|].
    intros HC1 Hg1 HP1. eapply IH; eassumption.
Qed.

(* ================================================================== *)
(* 7.2 one round of the star, seen from f                              *)
(* ================================================================== *)

(* the leader handles, in this order: responses [pre] of other followers, the responses
   of F, responses [post] of other followers *)
Definition view_round (L F : raft) (pre post : list msg) : Res (raft * raft) :=
  F1 <- steps F (to_peer (r_id F) (r_msgs L)) ;;
  L1 <- steps (L <| r_msgs := [] |>) (pre ++ to_peer (r_id L) (r_msgs F1) ++ post) ;;
  L2 <- tick L1 ;;
  F2 <- tick (F1 <| r_msgs := [] |>) ;;
  Ok (fst L2, fst F2).

Local Notation PairInv := (PairInv LL T l f lo rw l0).

Lemma lstep_key b r pr r' pr' : lstep b r pr r' pr' -> pkey pr' = pkey pr.
Proof. intros (_ & _ & _ & _ & K). exact K. Qed.

Lemma view_round_inv Hb a L F pre post L' F' pr :
  PairInv Hb a L F -> get_pr L f = Some pr ->
  Forall other_ok pre -> Forall other_ok post ->
  view_round L F pre post = Ok (L', F') ->
  exists a' pr', a <= a' /\ PairInv Hb a' L' F' /\ get_pr L' f = Some pr' /\
    matched pr <= matched pr' /\ (mu pr' < mu pr \/ pkey pr' = pkey pr) /\
    ((exists x, In x (to_peer f (r_msgs L)) /\ obl pr x) -> mu pr' < mu pr) /\
    ((exists x, In x (to_peer f (r_msgs L)) /\ m_type x = MsgHeartbeat) ->
       matched pr < ll_last LL ->
       mu pr' < mu pr \/ exists x, In x (to_peer f (r_msgs L')) /\ obl pr' x) /\
    (Hb <= r_heartbeat_elapsed L + 1 ->
       exists x, In x (to_peer f (r_msgs L')) /\ m_type x = MsgHeartbeat) /\
    (r_heartbeat_elapsed L + 1 < Hb -> r_heartbeat_elapsed L' = r_heartbeat_elapsed L + 1).
Proof.
  intros [HC (pr0 & Hg0 & HP) HF HFq Hq HH Htm] Hg Hpre Hpost H.
  rewrite Hg in Hg0. inversion Hg0; subst pr0; clear Hg0.
  unfold view_round in H. rewrite (fi_id _ _ _ _ _ _ _ HF), (lc_id _ _ _ _ HC) in H.
  set (Q := to_peer f (r_msgs L)) in *.
  inv_bind H. rename x into F1. inv_bind H. rename x into L1. inv_bind H. destruct x as [L2 hrl].
  inv_bind H. destruct x as [F2 hrf]. cbn [fst] in H. inversion H; subst L' F'; clear H.
  (* the follower *)
  destruct (follower_steps LL T l f lo rw HLL Hlo HT Hlf Q a F F1 HF Hq Hx)
    as (a1 & resps & La & HF1 & Fr1 & M1 & Ch & E1 & Eq1 & An & Hbr).
  rewrite HFq in M1. cbn [app] in M1.
  destruct (follower_frame_fields _ _ Fr1) as (Fp & Fra & Fid).
  pose proof (ag_lastL _ _ _ _ (fi_agree _ _ _ _ _ _ _ HF1)) as Ha1.
  (* the leader *)
  rewrite M1, (to_peer_all l resps (resp_chain_to _ _ _ _ _ _ Ch)) in Hx0.
  set (L0 := L <| r_msgs := [] |>) in *.
  assert (HC0 : LCore L0) by (destruct HC; constructor; cbn; auto).
  rewrite steps_app in Hx0. inv_bind Hx0. rename x into La1.
  rewrite steps_app in Hx0. inv_bind Hx0. rename x into Lb1.
  match goal with Hs : steps L0 pre = Ok La1 |- _ => rename Hs into Hpre_run end.
  match goal with Hs : steps La1 resps = Ok Lb1 |- _ => rename Hs into Hmid_run end.
  destruct (leader_steps_others pre a L0 pr La1 Hpre HC0 Hg HP Hpre_run) as (pra & SA).
  pose proof SA as (A1 & (newa & A2 & A2f) & A3 & A4 & A5).
  pose proof (lfr_LCore _ _ _ _ _ A1 HC0) as HCa.
  destruct (leader_steps LL T l f lo HLL Hlo HloT HT Hlf rwl l0 Hl0 Habs0 resps a a1 Ch Ha1 La1 pra Lb1
              HCa A3 A4 Hmid_run)
    as (prb & newb & S1 & S2 & S3 & S4 & S5 & S6 & S7 & S8 & S9 & S10).
  pose proof (lfr_LCore _ _ _ _ _ S1 HCa) as HCb.
  destruct (leader_steps_others post a1 Lb1 prb L1 Hpost HCb S4 S5 Hx0) as (pr1 & SB).
  pose proof SB as (B1 & (newc & B2 & B2f) & B3 & B4 & B5).
  pose proof (lfr_LCore _ _ _ _ _ B1 HCb) as HC1.
  destruct (pkey_inv _ _ A5) as (KA1 & KA2 & KA3). destruct (pkey_inv _ _ B5) as (KB1 & KB2 & KB3).
  assert (Hmsgs : r_msgs L1 = newa ++ newb ++ newc).
  { rewrite B2, S2, A2. change (r_msgs L0) with (@nil msg). cbn [app]. rewrite <- app_assoc. reflexivity. }
  assert (Hsound : Forall (fun x => m_to x = f -> snd_app x) (newa ++ newb ++ newc)).
  { apply Forall_app. split; [exact A2f|]. apply Forall_app. split; [exact S3|exact B2f]. }
  assert (Hlf1 : lfr L0 L1) by (eapply lfr_trans; [exact A1|eapply lfr_trans; [exact S1|exact B1]]).
  destruct (lfr_fields _ _ Hlf1) as [Ht1 He1].
  change (r_heartbeat_timeout L0) with (r_heartbeat_timeout L) in Ht1.
  change (r_heartbeat_elapsed L0) with (r_heartbeat_elapsed L) in He1.
  destruct (leader_tick LL T l f lo Hlo HT Hlf l0 a1 L1 pr1 L2 hrl HC1 B3 B4 Hx1)
    as (HC2 & Hg2 & Ht2 & hbs & M2 & Hhbs & Hfire & Hquiet).
  rewrite Hmsgs in M2. rewrite Ht1, HH in Ht2, Hfire, Hquiet. rewrite He1 in Hfire, Hquiet.
  (* measure facts from pr to pr1 *)
  assert (Hmu_a : mu pra = mu pr) by (apply mu_key; exact A5).
  assert (Hmu_b : mu pr1 = mu prb) by (apply mu_key; exact B5).
  (* the follower's tick *)
  set (F1c := F1 <| r_msgs := [] |>) in *.
  assert (HF1c : FInv a1 F1c) by (destruct HF1; constructor; cbn; auto).
  assert (Hwait : r_promotable F1c = false \/
                  r_election_elapsed F1c + 1 < r_randomized_election_timeout F1c).
  { change (r_promotable F1c) with (r_promotable F1).
    change (r_election_elapsed F1c) with (r_election_elapsed F1).
    change (r_randomized_election_timeout F1c) with (r_randomized_election_timeout F1).
    rewrite Fp, Fra. destruct Htm as [Htm|[Htm1 Htm2]]; [left; exact Htm|right].
    destruct Q as [|q0 qt] eqn:EQ.
    - rewrite (Eq1 eq_refl). specialize (Htm2 eq_refl). lia.
    - rewrite E1 by discriminate. lia. }
  destruct (follower_tick LL T f lo rw a1 F1c F2 hrf HF1c Hwait Hx2) as [EF2 HF2].
  exists a1, pr1. split; [exact La|]. split.
  { constructor.
    - exact HC2.
    - exists pr1. auto.
    - exact HF2.
    - rewrite EF2. reflexivity.
    - rewrite M2. apply Forall_to_peer. apply Forall_app. split.
      + eapply Forall_impl; [|exact Hsound]. intros x Hx' Hto. left. apply Hx'. exact Hto.
      + eapply Forall_impl; [|exact Hhbs]. intros x Hx' Hto. right. apply Hx'. exact Hto.
    - exact Ht2.
    - rewrite EF2. cbn [r_promotable r_randomized_election_timeout r_election_elapsed].
      change (r_promotable (F1c <| r_election_elapsed := r_election_elapsed F1c + 1 |>))
        with (r_promotable F1).
      change (r_randomized_election_timeout (F1c <| r_election_elapsed := r_election_elapsed F1c + 1 |>))
        with (r_randomized_election_timeout F1).
      change (r_election_elapsed (F1c <| r_election_elapsed := r_election_elapsed F1c + 1 |>))
        with (r_election_elapsed F1 + 1).
      rewrite Fp, Fra. destruct Htm as [Htm|[Htm1 Htm2]]; [left; exact Htm|right].
      split; [exact Htm1|]. intros Hempty.
      assert (Hnf : r_heartbeat_elapsed L + 1 < Hb).
      { destruct (N.lt_ge_cases (r_heartbeat_elapsed L + 1) Hb) as [Hlt|Hge]; [exact Hlt|].
        destruct (Hfire Hge) as (_ & x & Ix & Tx & _). exfalso.
        assert (Hin : In x (to_peer f (r_msgs L2))).
        { apply In_to_peer; [rewrite M2; apply in_or_app; right; exact Ix|exact Tx]. }
        rewrite Hempty in Hin. destruct Hin. }
      destruct (Hquiet Hnf) as [Eh2 _]. rewrite Eh2.
      destruct Q as [|q0 qt] eqn:EQ.
      + rewrite (Eq1 eq_refl). specialize (Htm2 eq_refl). lia.
      + rewrite E1 by discriminate. lia. }
  split; [exact Hg2|]. split; [lia|].
  split.
  { destruct S7 as [S7|S7]; [left; lia|]. right. congruence. }
  split.
  { (* an obligation in the queue is discharged *)
    intros (x & Ix & (Sx & O1 & O2 & O3)).
    destruct (An x Ix Sx) as (rep & Irep & (Rty & [(Rrj & Ridx)|(Rrj & Ridx)])).
    - specialize (S8 rep Irep Rty Rrj).
      apply (mu_lt_matched LL T l f lo Hlo HT Hlf a1); [exact B4|exact Ha1|].
      destruct Ridx as [Ridx|Ridx]; [|lia].
      destruct O2 as [O2|O2]; [lia|].
      destruct (m_entries x); [congruence|]. cbn [length] in Ridx. lia.
    - rewrite Hmu_b, <- Hmu_a. apply (S9 rep Irep Rty Rrj).
      destruct (pi_state _ _ _ _ A4) as [Es|Es]; [right|left; exact Es].
      rewrite Ridx. rewrite (KA3 Es). apply O3. congruence. }
  split.
  { (* a heartbeat in the queue creates an obligation *)
    intros (x & Ix & Tx) Hlt. destruct (Hbr x Ix Tx) as (rep & Irep & Rty).
    destruct (S10 (ex_intro _ rep (conj Irep Rty)) ltac:(lia)) as [Hd|(y & Iy & Oy)]; [left; lia|].
    right. exists y. split.
    - apply In_to_peer; [rewrite M2; apply in_or_app; left; apply in_or_app; right;
                         apply in_or_app; left; exact Iy|].
      destruct Oy as ((_ & _ & _ & Hto & _) & _). exact Hto.
    - eapply obl_key; [symmetry; exact B5|exact Oy]. }
  split.
  { intros Hge. destruct (Hfire Hge) as (_ & x & Ix & Tx & Ty). exists x. split; [|exact Ty].
    apply In_to_peer; [rewrite M2; apply in_or_app; right; exact Ix|exact Tx]. }
  intros Hlt. apply (Hquiet Hlt).
Qed.

(* ================================================================== *)
(* 7.3 convergence of f's measure along the star's rounds              *)
(* ================================================================== *)

(* n rounds, seen from f: whatever the other followers answered *)
Inductive vrounds : nat -> raft -> raft -> raft -> raft -> Prop :=
| vr_O L F : vrounds O L F L F
| vr_S n L F pre post L1 F1 L' F' :
    Forall other_ok pre -> Forall other_ok post ->
    view_round L F pre post = Ok (L1, F1) -> vrounds n L1 F1 L' F' ->
    vrounds (S n) L F L' F'.

Lemma vrounds_split k : forall j L F L' F',
  vrounds (k + j) L F L' F' -> exists L1 F1, vrounds k L F L1 F1 /\ vrounds j L1 F1 L' F'.
Proof.
  induction k as [|k IH]; intros j L F L' F' H; cbn [Nat.add] in H.
  - exists L, F. split; [constructor|exact H].
  - inversion H as [|n0 L0 F0 pre post L1 F1 L2 F2 Hp Hq Hv Hr]; subst n0 L0 F0 L2 F2.
    destruct (IH _ _ _ _ _ Hr) as (La & Fa & A & B).
    exists La, Fa. split; [eapply vr_S with (pre := pre) (post := post); eassumption|exact B].
Qed.

Lemma vrounds_mono n : forall Hb a L F pr L' F',
  PairInv Hb a L F -> get_pr L f = Some pr -> vrounds n L F L' F' ->
  exists a' pr', a <= a' /\ PairInv Hb a' L' F' /\ get_pr L' f = Some pr' /\
    matched pr <= matched pr' /\ mu pr' <= mu pr.
Proof.
  induction n as [|n IH]; intros Hb a L F pr L' F' HI Hg H.
  - inversion H; subst L' F'. exists a, pr. split; [lia|]. split; [exact HI|]. split; [exact Hg|]. lia.
  - inversion H as [|n0 L0 F0 pre post L1 F1 L2 F2 Hp Hq Hv Hr]; subst n0 L0 F0 L2 F2.
    destruct (view_round_inv Hb a L F pre post L1 F1 pr HI Hg Hp Hq Hv)
      as (a1 & pr1 & La & HI1 & Hg1 & Hm1 & Hmu1 & _).
    destruct (IH Hb a1 L1 F1 pr1 L' F' HI1 Hg1 Hr) as (a2 & pr2 & La2 & HI2 & Hg2 & Hm2 & Hmu2).
    exists a2, pr2. split; [lia|]. split; [exact HI2|]. split; [exact Hg2|].
    pose proof (mu_le_of_step LL T l f lo Hlo HT Hlf _ _ Hmu1). lia.
Qed.

Lemma v_progress_after_fire Hb a L F pr L' F' :
  PairInv Hb a L F -> get_pr L f = Some pr -> matched pr < ll_last LL ->
  Hb <= r_heartbeat_elapsed L + 1 ->
  vrounds 3 L F L' F' ->
  exists a' pr', PairInv Hb a' L' F' /\ get_pr L' f = Some pr' /\ mu pr' < mu pr.
Proof.
  intros HI Hg Hlt Hfire H.
  inversion H as [|n0 L0 F0 pre1 post1 L1 F1 L9 F9 Hp1 Hq1 Hv1 Hr1]; subst n0 L0 F0 L9 F9.
  inversion Hr1 as [|n0 L0 F0 pre2 post2 L2 F2 L9 F9 Hp2 Hq2 Hv2 Hr2]; subst n0 L0 F0 L9 F9.
  inversion Hr2 as [|n0 L0 F0 pre3 post3 L3 F3 L9 F9 Hp3 Hq3 Hv3 Hr3]; subst n0 L0 F0 L9 F9.
  inversion Hr3; subst L' F'.
  destruct (view_round_inv Hb a L F _ _ L1 F1 pr HI Hg Hp1 Hq1 Hv1)
    as (a1 & pr1 & _ & HI1 & Hg1 & Hm1 & Hmu1 & _ & _ & Hqq1 & _).
  pose proof (mu_le_of_step LL T l f lo Hlo HT Hlf _ _ Hmu1) as Hle1.
  destruct (view_round_inv Hb a1 L1 F1 _ _ L2 F2 pr1 HI1 Hg1 Hp2 Hq2 Hv2)
    as (a2 & pr2 & _ & HI2 & Hg2 & Hm2 & Hmu2 & _ & Hhb2 & _).
  pose proof (mu_le_of_step LL T l f lo Hlo HT Hlf _ _ Hmu2) as Hle2.
  destruct (view_round_inv Hb a2 L2 F2 _ _ L3 F3 pr2 HI2 Hg2 Hp3 Hq3 Hv3)
    as (a3 & pr3 & _ & HI3 & Hg3 & Hm3 & Hmu3 & Hobl3 & _).
  pose proof (mu_le_of_step LL T l f lo Hlo HT Hlf _ _ Hmu3) as Hle3.
  exists a3, pr3. split; [exact HI3|]. split; [exact Hg3|].
  destruct (PairInv_matched_le _ _ _ _ _ _ _ _ _ _ _ _ HI1 Hg1) as [HP1 Ha1].
  destruct (N.lt_ge_cases (matched pr1) (ll_last LL)) as [Hlt1|Hge1].
  - destruct (Hhb2 (Hqq1 Hfire) Hlt1) as [Hd|Hob]; [lia|].
    specialize (Hobl3 Hob). lia.
  - pose proof (mu_lt_matched LL T l f lo Hlo HT Hlf a1 pr pr1 HP1 Ha1 ltac:(lia)). lia.
Qed.

Lemma v_progress_within d : forall Hb a L F pr L' F',
  PairInv Hb a L F -> get_pr L f = Some pr -> matched pr < ll_last LL ->
  Hb <= r_heartbeat_elapsed L + 1 + N.of_nat d ->
  vrounds (d + 3) L F L' F' ->
  exists a' pr', PairInv Hb a' L' F' /\ get_pr L' f = Some pr' /\ mu pr' < mu pr.
Proof.
  induction d as [|d IH]; intros Hb a L F pr L' F' HI Hg Hlt Hd H.
  - apply (v_progress_after_fire Hb a L F pr L' F' HI Hg Hlt); [cbn in Hd; lia|exact H].
  - destruct (N.lt_ge_cases (r_heartbeat_elapsed L + 1) Hb) as [Hq|Hf].
    + change (S d + 3)%nat with (S (d + 3)) in H.
      inversion H as [|n0 L0 F0 pre post L1 F1 L9 F9 Hp1 Hq1 Hv1 Hr1]; subst n0 L0 F0 L9 F9.
      destruct (view_round_inv Hb a L F _ _ L1 F1 pr HI Hg Hp1 Hq1 Hv1)
        as (a1 & pr1 & _ & HI1 & Hg1 & Hm1 & Hmu1 & _ & _ & _ & Hh1).
      pose proof (mu_le_of_step LL T l f lo Hlo HT Hlf _ _ Hmu1) as Hle1. specialize (Hh1 Hq).
      destruct (PairInv_matched_le _ _ _ _ _ _ _ _ _ _ _ _ HI1 Hg1) as [HP1 Ha1].
      destruct (N.lt_ge_cases (matched pr1) (ll_last LL)) as [Hlt1|Hge1].
      * destruct (IH Hb a1 L1 F1 pr1 L' F' HI1 Hg1 Hlt1 ltac:(lia) Hr1) as (a' & pr' & A & B & C0).
        exists a', pr'. split; [exact A|]. split; [exact B|]. lia.
      * destruct (vrounds_mono _ Hb a1 L1 F1 pr1 L' F' HI1 Hg1 Hr1) as (a' & pr' & _ & A & B & _ & C0).
        exists a', pr'. split; [exact A|]. split; [exact B|].
        pose proof (mu_lt_matched LL T l f lo Hlo HT Hlf a1 pr pr1 HP1 Ha1 ltac:(lia)). lia.
    + replace (S d + 3)%nat with (3 + S d)%nat in H by lia.
      destruct (vrounds_split _ _ _ _ _ _ H) as (L1 & F1 & H3 & Hrest).
      destruct (v_progress_after_fire Hb a L F pr L1 F1 HI Hg Hlt Hf H3) as (a1 & pr1 & HI1 & Hg1 & Hmu1).
      destruct (vrounds_mono _ Hb a1 L1 F1 pr1 L' F' HI1 Hg1 Hrest) as (a' & pr' & _ & A & B & _ & C0).
      exists a', pr'. split; [exact A|]. split; [exact B|]. lia.
Qed.

Lemma v_converged_stays n Hb a L F pr L' F' :
  PairInv Hb a L F -> get_pr L f = Some pr -> matched pr = ll_last LL ->
  vrounds n L F L' F' ->
  exists a' pr', PairInv Hb a' L' F' /\ get_pr L' f = Some pr' /\ matched pr' = ll_last LL.
Proof.
  intros HI Hg Hm H.
  destruct (vrounds_mono n Hb a L F pr L' F' HI Hg H) as (a' & pr' & _ & A & B & C0 & _).
  exists a', pr'. split; [exact A|]. split; [exact B|].
  destruct (PairInv_matched_le _ _ _ _ _ _ _ _ _ _ _ _ A B) as [HP' Ha']. pose proof (pi_b _ _ _ _ HP'). lia.
Qed.

Lemma v_converges_measure n : forall Hb a L F pr N L' F',
  PairInv Hb a L F -> get_pr L f = Some pr -> 1 <= Hb -> mu pr <= N.of_nat n ->
  (N.to_nat (Hb + 2) * n <= N)%nat ->
  vrounds N L F L' F' ->
  exists a' pr', PairInv Hb a' L' F' /\ get_pr L' f = Some pr' /\ matched pr' = ll_last LL.
Proof.
  induction n as [|n IH]; intros Hb a L F pr N L' F' HI Hg HH Hmu HN H.
  - destruct (PairInv_matched_le _ _ _ _ _ _ _ _ _ _ _ _ HI Hg) as [HP _].
    pose proof (mu_pos LL T l f lo Hlo HT Hlf _ _ HP). lia.
  - destruct (PairInv_matched_le _ _ _ _ _ _ _ _ _ _ _ _ HI Hg) as [HP Ha].
    destruct (N.eq_dec (matched pr) (ll_last LL)) as [Hm|Hm].
    { eapply v_converged_stays; eassumption. }
    assert (Hlt : matched pr < ll_last LL) by (pose proof (pi_b _ _ _ _ HP); lia).
    set (d := N.to_nat (Hb - 1 - r_heartbeat_elapsed L)).
    assert (Hk : (d + 3 <= N.to_nat (Hb + 2))%nat) by (subst d; lia).
    assert (HN' : (d + 3 <= N)%nat) by lia.
    replace N with ((d + 3) + (N - (d + 3)))%nat in H by lia.
    destruct (vrounds_split _ _ _ _ _ _ H) as (L1 & F1 & Hd & Hrest).
    destruct (v_progress_within d Hb a L F pr L1 F1 HI Hg Hlt ltac:(subst d; lia) Hd)
      as (a1 & pr1 & HI1 & Hg1 & Hmu1).
    apply (IH Hb a1 L1 F1 pr1 (N - (d + 3))%nat L' F' HI1 Hg1 HH); [lia| |exact Hrest].
    nia.
Qed.

End View.

(* ================================================================== *)
(* 7.4 the star schedule                                               *)
(* ================================================================== *)

Fixpoint mapM {A B} (g : A -> Res B) (xs : list A) : Res (list B) :=
  match xs with
  | [] => Ok []
  | x :: t => y <- g x ;; ys <- mapM g t ;; Ok (y :: ys)
  end.

(* what a follower has queued for the leader *)
Definition replies (lid : N) (F1 : raft) : list msg := to_peer lid (r_msgs F1).

(* one lock-step round between a leader L and followers Fs (in list order):
   1. every message L has queued is delivered to its addressee among Fs, in order
      (L's queue is then emptied);
   2. the replies of each follower go back to L, follower after follower in list order
      (each follower's queue is emptied);
   3. everybody ticks once. *)
Definition star_round (L : raft) (Fs : list raft) : Res (raft * list raft) :=
  Fs1 <- mapM (fun F => steps F (to_peer (r_id F) (r_msgs L))) Fs ;;
  L1 <- steps (L <| r_msgs := [] |>) (concat (map (replies (r_id L)) Fs1)) ;;
  L2 <- tick L1 ;;
  Fs2 <- mapM (fun F1 => x <- tick (F1 <| r_msgs := [] |>) ;; Ok (fst x)) Fs1 ;;
  Ok (fst L2, Fs2).

Fixpoint star_rounds (n : nat) (L : raft) (Fs : list raft) : Res (raft * list raft) :=
  match n with
  | O => Ok (L, Fs)
  | S k => x <- star_round L Fs ;; star_rounds k (fst x) (snd x)
  end.

Lemma mapM_app_inv {A B} (g : A -> Res B) a : forall b ys,
  mapM g (a ++ b) = Ok ys ->
  exists a' b', ys = a' ++ b' /\ mapM g a = Ok a' /\ mapM g b = Ok b'.
Proof.
  induction a as [|x t IH]; intros b ys H; cbn [app mapM] in *.
  - exists [], ys. auto.
  - inv_bind H. inv_bind H. inversion H; subst ys; clear H.
    destruct (IH _ _ Hx0) as (a' & b' & E & Ha & Hb). subst x1.
    exists (x0 :: a'), b'. split; [reflexivity|]. rewrite Hx. cbn [bind]. rewrite Ha. auto.
Qed.

Lemma mapM_length {A B} (g : A -> Res B) xs : forall ys, mapM g xs = Ok ys -> length ys = length xs.
Proof.
  induction xs as [|x t IH]; intros ys H; cbn [mapM] in H.
  - inversion H. reflexivity.
  - inv_bind H. inv_bind H. inversion H; subst ys. cbn [length]. f_equal. apply IH. exact Hx0.
Qed.

Lemma mapM_In {A B} (g : A -> Res B) xs : forall ys y,
  mapM g xs = Ok ys -> In y ys -> exists x, In x xs /\ g x = Ok y.
Proof.
  induction xs as [|x t IH]; intros ys y H Hy; cbn [mapM] in H.
  - inversion H; subst ys. destruct Hy.
  - inv_bind H. inv_bind H. inversion H; subst ys; clear H. destruct Hy as [<-|Hy].
    + exists x. split; [left; reflexivity|exact Hx].
    + destruct (IH _ _ Hx0 Hy) as (x' & I & E). exists x'. split; [right; exact I|exact E].
Qed.

Lemma mapM_cons_inv {A B} (g : A -> Res B) x t ys :
  mapM g (x :: t) = Ok ys -> exists y t', ys = y :: t' /\ g x = Ok y /\ mapM g t = Ok t'.
Proof. cbn [mapM]. intros H. inv_bind H. inv_bind H. inversion H; subst. eauto. Qed.

(* a relation on two lists of equal length, established split by split *)
Lemma Forall2_splits {A B} (P : A -> B -> Prop) : forall xs ys,
  length ys = length xs ->
  (forall a x b, xs = a ++ x :: b ->
     exists a' y b', ys = a' ++ y :: b' /\ length a' = length a /\ P x y) ->
  Forall2 P xs ys.
Proof.
  induction xs as [|x t IH]; intros ys Hlen Hs.
  - destruct ys; [constructor|discriminate].
  - destruct ys as [|y t']; [discriminate|]. constructor.
    + destruct (Hs [] x t eq_refl) as (a' & y0 & b' & E & La & Hp).
      destruct a'; [|discriminate]. cbn in E. inversion E; subst. exact Hp.
    + apply IH; [cbn in Hlen; lia|]. intros a x' b E.
      destruct (Hs (x :: a) x' b ltac:(rewrite E; reflexivity)) as (a' & y0 & b' & E' & La & Hp).
      destruct a' as [|y1 a'']; [discriminate|]. cbn in E'. inversion E'; subst.
      exists a'', y0, b'. split; [reflexivity|]. split; [cbn in La; lia|exact Hp].
Qed.

(* the star round, projected on one follower *)
Lemma star_round_split L A F B L' Fs' :
  star_round L (A ++ F :: B) = Ok (L', Fs') ->
  exists A1 B1 A' F' B',
    mapM (fun F => steps F (to_peer (r_id F) (r_msgs L))) A = Ok A1 /\
    mapM (fun F => steps F (to_peer (r_id F) (r_msgs L))) B = Ok B1 /\
    Fs' = A' ++ F' :: B' /\ length A' = length A /\ length B' = length B /\
    view_round L F (concat (map (replies (r_id L)) A1)) (concat (map (replies (r_id L)) B1))
      = Ok (L', F').
Proof.
  unfold star_round. intros H. inv_bind H. rename x into Fs1. inv_bind H. rename x into L1.
  inv_bind H. destruct x as [L2 hr]. inv_bind H. rename x into Fs2. cbn [fst] in H.
  inversion H; subst L' Fs'; clear H.
  destruct (mapM_app_inv _ _ _ _ Hx) as (A1 & FB1 & -> & HA & HFB).
  destruct (mapM_cons_inv _ _ _ _ HFB) as (F1 & B1 & -> & HF & HB).
  destruct (mapM_app_inv _ _ _ _ Hx2) as (A2 & FB2 & -> & HA2 & HFB2).
  destruct (mapM_cons_inv _ _ _ _ HFB2) as (F2 & B2 & -> & HF2 & HB2).
  exists A1, B1, A2, F2, B2. split; [exact HA|]. split; [exact HB|]. split; [reflexivity|].
  split; [rewrite (mapM_length _ _ _ HA2), (mapM_length _ _ _ HA); reflexivity|].
  split; [rewrite (mapM_length _ _ _ HB2), (mapM_length _ _ _ HB); reflexivity|].
  unfold view_round. rewrite HF. cbn [bind].
  rewrite map_app, concat_app in Hx0. cbn [map concat] in Hx0. unfold replies at 2 in Hx0.
  rewrite Hx0. cbn [bind]. rewrite Hx1. cbn [bind].
  inv_bind HF2. rewrite Hx3. cbn [bind fst]. inversion HF2; subst. reflexivity.
Qed.

Lemma mapM_length_star L Fs L' Fs' : star_round L Fs = Ok (L', Fs') -> length Fs' = length Fs.
Proof.
  unfold star_round. intros H. inv_bind H. inv_bind H. inv_bind H. inv_bind H. inversion H; subst.
  rewrite (mapM_length _ _ _ Hx2), (mapM_length _ _ _ Hx). reflexivity.
Qed.

(* ================================================================== *)
(* 7.5 the star invariant and convergence                              *)
(* ================================================================== *)
Section Star.

(* lof id: the index from which follower id is known to agree (its initial matched) *)
Variables (LL : LL) (T l : N) (rw rwl : bool) (l0 : raft_log) (lof : N -> N).
Hypothesis HLL : LeaderLog LL.
Hypothesis HT : T <> 0.
Hypothesis Hl0 : RepInv rwl l0.
Hypothesis Habs0 : abs l0 = LL.

(* the pair invariant of one follower, with its side conditions *)
Definition FolInv (Hb : N) (L F : raft) : Prop :=
  l <> r_id F /\ ll_base LL <= lof (r_id F) /\
  (exists t, ll_term LL (lof (r_id F)) = SOk t) /\
  exists a, PairInv LL T l (r_id F) (lof (r_id F)) rw l0 Hb a L F.

Definition StarInv (Hb : N) (L : raft) (Fs : list raft) : Prop :=
  NoDup (map r_id Fs) /\ Forall (FolInv Hb L) Fs.

Lemma resp_chain_all f a ms c :
  resp_chain T l f a ms c -> Forall (fun m => exists b, resp_ok T l f b m) ms.
Proof. induction 1; constructor; eauto. Qed.

(* what a follower answers is, for any other follower, "a response of another follower" *)
Lemma replies_other Hb L G G1 f :
  FolInv Hb L G -> steps G (to_peer (r_id G) (r_msgs L)) = Ok G1 -> r_id G <> f ->
  Forall (other_ok T f) (replies l G1).
Proof.
  intros (Hlg & Hlo & HloT & a & HI) Hs Hne.
  destruct HI as [HC _ HF HFq Hq _ _].
  destruct (follower_steps LL T l (r_id G) (lof (r_id G)) rw HLL Hlo HT Hlg _ a G G1 HF Hq Hs)
    as (a1 & resps & _ & _ & _ & M1 & Ch & _).
  rewrite HFq in M1. cbn [app] in M1. unfold replies. rewrite M1.
  apply Forall_forall. intros m Hm. unfold to_peer in Hm. apply filter_In in Hm. destruct Hm as [Hm _].
  pose proof (resp_chain_all _ _ _ _ Ch) as Hall. rewrite Forall_forall in Hall.
  destruct (Hall m Hm) as (b & Rt & Rf & _ & Rk).
  split; [exact Rt|]. split; [congruence|].
  destruct Rk as [(A & B)|[(A & _)|(A & _)]]; auto.
Qed.

Lemma concat_replies_other Hb L A A1 f :
  mapM (fun F => steps F (to_peer (r_id F) (r_msgs L))) A = Ok A1 ->
  (forall G, In G A -> FolInv Hb L G /\ r_id G <> f) ->
  Forall (other_ok T f) (concat (map (replies l) A1)).
Proof.
  intros HA Hall. apply Forall_forall. intros m Hm. apply in_concat in Hm.
  destruct Hm as (ms & Hms & Hm). apply in_map_iff in Hms. destruct Hms as (G1 & <- & HG1).
  destruct (mapM_In _ _ _ _ HA HG1) as (G & HG & Hs). destruct (Hall G HG) as [HI Hne].
  pose proof (replies_other Hb L G G1 f HI Hs Hne) as Hf. rewrite Forall_forall in Hf. apply Hf. exact Hm.
Qed.

Lemma star_round_length L Fs L' Fs' : star_round L Fs = Ok (L', Fs') -> length Fs' = length Fs.
Proof.
  unfold star_round. intros H. inv_bind H. inv_bind H. inv_bind H. inv_bind H. inversion H; subst.
  rewrite (mapM_length _ _ _ Hx2), (mapM_length _ _ _ Hx). reflexivity.
Qed.

Lemma FolInv_leader_id Hb L F : FolInv Hb L F -> r_id L = l.
Proof. intros (_ & _ & _ & a & HI). apply (lc_id _ _ _ _ (pv_core _ _ _ _ _ _ _ _ _ _ _ HI)). Qed.

(* one round of the star: every follower sees a view_round *)
Lemma star_round_inv Hb L Fs L' Fs' :
  StarInv Hb L Fs -> star_round L Fs = Ok (L', Fs') ->
  Forall2 (fun F F' => r_id F' = r_id F /\ FolInv Hb L' F' /\
             exists pre post, Forall (other_ok T (r_id F)) pre /\ Forall (other_ok T (r_id F)) post /\
                              view_round L F pre post = Ok (L', F')) Fs Fs'.
Proof.
  intros [Hnd Hall] H. apply Forall2_splits; [eapply star_round_length; exact H|].
  intros A F B E. subst Fs.
  rewrite Forall_forall in Hall.
  assert (HIF : FolInv Hb L F) by (apply Hall; apply in_or_app; right; left; reflexivity).
  rewrite map_app in Hnd. cbn [map] in Hnd.
  pose proof (NoDup_remove_2 _ _ _ Hnd) as Hnin.
  destruct (star_round_split L A F B L' Fs' H) as (A1 & B1 & A' & F' & B' & HA & HB & -> & LA & LB & Hv).
  rewrite (FolInv_leader_id _ _ _ HIF) in Hv.
  assert (Hpre : Forall (other_ok T (r_id F)) (concat (map (replies l) A1))).
  { eapply concat_replies_other; [exact HA|]. intros G HG. split.
    - apply Hall. apply in_or_app. left. exact HG.
    - intros Eid. apply Hnin. apply in_or_app. left. rewrite <- Eid. apply in_map. exact HG. }
  assert (Hpost : Forall (other_ok T (r_id F)) (concat (map (replies l) B1))).
  { eapply concat_replies_other; [exact HB|]. intros G HG. split.
    - apply Hall. apply in_or_app. right. right. exact HG.
    - intros Eid. apply Hnin. apply in_or_app. right. rewrite <- Eid. apply in_map. exact HG. }
  exists A', F', B'. split; [reflexivity|]. split; [exact LA|].
  destruct HIF as (Hlg & Hlo & HloT & a & HI).
  destruct (pv_pr _ _ _ _ _ _ _ _ _ _ _ HI) as (pr & Hg & _).
  destruct (view_round_inv LL T l (r_id F) (lof (r_id F)) rw HLL Hlo HloT HT Hlg rwl l0 Hl0 Habs0
              Hb a L F _ _ L' F' pr HI Hg Hpre Hpost Hv) as (a' & pr' & _ & HI' & _).
  assert (Eid : r_id F' = r_id F).
  { apply (fi_id _ _ _ _ _ _ _ (pv_F _ _ _ _ _ _ _ _ _ _ _ HI')). }
  split; [exact Eid|]. split.
  - unfold FolInv. rewrite Eid. split; [exact Hlg|]. split; [exact Hlo|]. split; [exact HloT|].
    exists a'. exact HI'.
  - eexists. eexists. split; [exact Hpre|]. split; [exact Hpost|exact Hv].
Qed.

Lemma Forall2_ids (P : raft -> raft -> Prop) Fs Fs' :
  Forall2 (fun F F' => r_id F' = r_id F /\ P F F') Fs Fs' -> map r_id Fs' = map r_id Fs.
Proof. induction 1 as [|x y xs ys [E _] _ IH]; cbn [map]; [reflexivity|]. rewrite E, IH. reflexivity. Qed.

Lemma star_round_StarInv Hb L Fs L' Fs' :
  StarInv Hb L Fs -> star_round L Fs = Ok (L', Fs') -> StarInv Hb L' Fs'.
Proof.
  intros HS H. pose proof (star_round_inv Hb L Fs L' Fs' HS H) as HF. split.
  - rewrite (Forall2_ids _ _ _ HF). apply HS.
  - clear HS H. induction HF as [|x y xs ys (_ & HI & _) _ IH]; constructor; auto.
Qed.

(* n rounds: every follower sees n view rounds *)
Lemma star_rounds_view n : forall Hb L Fs L' Fs',
  StarInv Hb L Fs -> star_rounds n L Fs = Ok (L', Fs') ->
  StarInv Hb L' Fs' /\
  Forall2 (fun F F' => r_id F' = r_id F /\ vrounds T (r_id F) n L F L' F') Fs Fs'.
Proof.
  induction n as [|n IH]; intros Hb L Fs L' Fs' HS H; cbn [star_rounds] in H.
  - inversion H; subst L' Fs'. split; [exact HS|].
    clear. induction Fs; constructor; auto. split; [reflexivity|constructor].
  - inv_bind H. destruct x as [L1 Fs1]. cbn [fst snd] in H.
    pose proof (star_round_inv Hb L Fs L1 Fs1 HS Hx) as H1.
    pose proof (star_round_StarInv Hb L Fs L1 Fs1 HS Hx) as HS1.
    destruct (IH Hb L1 Fs1 L' Fs' HS1 H) as [HS' H2]. split; [exact HS'|].
    clear HS HS1 HS' Hx H IH. revert Fs' H2.
    induction H1 as [|F F1 xs ys (E1 & _ & pre & post & Hp & Hq & Hv) _ IHl]; intros Fs' H2.
    + inversion H2. constructor.
    + inversion H2 as [|? F' ? ys' (E2 & Hr) Hrest]; subst. constructor.
      * split; [congruence|]. rewrite E1 in Hr.
        eapply vr_S with (pre := pre) (post := post); eassumption.
      * apply IHl. exact Hrest.
Qed.

Lemma Forall2_impl_in {A B} (P Q : A -> B -> Prop) xs ys :
  (forall x y, In x xs -> P x y -> Q x y) -> Forall2 P xs ys -> Forall2 Q xs ys.
Proof.
  intros H HF. induction HF as [|x y xs' ys' Hp _ IH]; constructor.
  - apply H; [left; reflexivity|exact Hp].
  - apply IH. intros x0 y0 Hi. apply H. right. exact Hi.
Qed.

(* the bound on one follower's measure *)
Definition star_bound (Hb last m : N) : nat :=
  (N.to_nat (Hb + 2) * N.to_nat (pair_measure_bound last m))%nat.

(* MAIN 7a: every follower converges, each within its own pair bound *)
Theorem star_converges Hb L Fs N0 L' Fs' :
  StarInv Hb L Fs -> 1 <= Hb ->
  (forall F, In F Fs -> (star_bound Hb (ll_last LL) (lof (r_id F)) <= N0)%nat) ->
  star_rounds N0 L Fs = Ok (L', Fs') ->
  StarInv Hb L' Fs' /\
  Forall2 (fun F F' => r_id F' = r_id F /\
             exists pr', get_pr L' (r_id F) = Some pr' /\ matched pr' = ll_last LL /\
                         Agree LL (abs (r_log F')) (lof (r_id F)) (ll_last LL)) Fs Fs'.
Proof.
  intros HS HH HN H.
  destruct (star_rounds_view N0 Hb L Fs L' Fs' HS H) as [HS' HV]. split; [exact HS'|].
  destruct HS as [_ Hall]. rewrite Forall_forall in Hall.
  eapply Forall2_impl_in; [|exact HV]. clear HV. intros F F' HF (Eid & Hv).
  split; [exact Eid|].
  destruct (Hall F HF) as (Hlg & Hlo & HloT & a & HI).
  destruct (pv_pr _ _ _ _ _ _ _ _ _ _ _ HI) as (pr & Hg & HP).
  pose proof (ag_lastL _ _ _ _ (fi_agree _ _ _ _ _ _ _ (pv_F _ _ _ _ _ _ _ _ _ _ _ HI))) as Ha.
  pose proof (mu_bound LL T l (r_id F) (lof (r_id F)) Hlo HT Hlg a pr HP Ha) as Hmu.
  pose proof (pi_lo _ _ _ _ HP) as Hlom.
  assert (Hmu' : mu LL pr <= N.of_nat (N.to_nat (pair_measure_bound (ll_last LL) (lof (r_id F))))).
  { unfold pair_measure_bound.
    assert ((ll_last LL - matched pr) * (ll_last LL + 3) <= (ll_last LL - lof (r_id F)) * (ll_last LL + 3))
      by (apply N.mul_le_mono_r; lia).
    lia. }
  destruct (v_converges_measure LL T l (r_id F) (lof (r_id F)) rw HLL Hlo HloT HT Hlg rwl l0 Hl0 Habs0
              _ Hb a L F pr N0 L' F' HI Hg HH Hmu' (HN F HF) Hv) as (a' & pr' & HI' & Hg' & Hm').
  exists pr'. split; [exact Hg'|]. split; [exact Hm'|].
  destruct (PairInv_matched_le _ _ _ _ _ _ _ _ _ _ _ _ HI' Hg') as [HP' Ha'].
  pose proof (pi_b _ _ _ _ HP').
  pose proof (fi_agree _ _ _ _ _ _ _ (pv_F _ _ _ _ _ _ _ _ _ _ _ HI')) as Hag.
  replace (ll_last LL) with a' by lia. exact Hag.
Qed.

End Star.

(* ================================================================== *)
(* 7.6 the leader's commit index                                       *)
(* ================================================================== *)

Lemma send_append_to_log r to r' : send_append_to r to = Ok r' -> r_log r' = r_log r.
Proof.
  unfold send_append_to. intros H. destruct (get_pr r to); [|discriminate].
  inv_bind H. destruct x as [[r1 p1] b]. inversion H; subst r'.
  apply maybe_send_append_facts in Hx. destruct Hx as (A & _).
  change (r_log (put_pr r1 to p1)) with (r_log r1). apply msgs_only_log. exact A.
Qed.

Lemma for_each_peer_log (g : raft -> N -> Res raft) :
  (forall r id r', g r id = Ok r' -> r_log r' = r_log r) ->
  forall ids self r r', for_each_peer ids self g r = Ok r' -> r_log r' = r_log r.
Proof.
  intros Hg. induction ids as [|id rest IH]; intros self r r' H.
  { inversion H; reflexivity. }
  cbn [for_each_peer] in H. destruct (id =? self). { eapply IH; eassumption. }
  inv_bind H. rewrite (IH _ _ _ H). eapply Hg; eassumption.
Qed.

Lemma bcast_append_log r r' : bcast_append r = Ok r' -> r_log r' = r_log r.
Proof. unfold bcast_append. apply for_each_peer_log. apply send_append_to_log. Qed.

Lemma send_append_aggressively_log r to r' : send_append_aggressively r to = Ok r' -> r_log r' = r_log r.
Proof.
  unfold send_append_aggressively. intros H. destruct (get_pr r to); [|discriminate].
  inv_bind H. destruct x as [r1 p1]. inversion H; subst r'.
  apply (send_append_aggressively_loop_matched _ _ to) in Hx. destruct Hx as [A _].
  change (r_log (put_pr r1 to p1)) with (r_log r1). apply msgs_only_log. exact A.
Qed.

Lemma maybe_commit_log r r1 cmt :
  maybe_commit r = Ok (r1, cmt) ->
  RaftLog.maybe_commit (r_log r) (fst (prs_maximal_committed_index (r_prs r))) (r_term r)
    = Ok (r_log r1, cmt).
Proof.
  unfold maybe_commit. intros H. inv_bind H. destruct x as [l' b]. rewrite Hx. destruct b.
  - destruct (get_pr r (r_id r)); inversion H; subst; reflexivity.
  - inversion H; subst. reflexivity.
Qed.

(* the tail of an advancing acknowledgement: maybe_commit, then operations that leave the
   log alone *)
Lemma ack_tail_log r m op r' :
  ack_tail r m op = Ok r' ->
  exists r1 cmt, maybe_commit r = Ok (r1, cmt) /\ r_log r' = r_log r1.
Proof.
  unfold ack_tail. intros H. inv_bind H. destruct x as [r1 cmt]. exists r1, cmt.
  split; [exact Hx|]. inv_bind H. inv_bind H.
  assert (E1 : r_log x = r_log r1).
  { destruct cmt.
    - destruct (should_bcast_commit r1); [apply bcast_append_log; exact Hx0|congruence].
    - destruct op; [eapply send_append_to_log; exact Hx0|congruence]. }
  apply send_append_aggressively_log in Hx1.
  assert (E3 : r_log r' = r_log x0).
  { destruct (r_lead_transferee x0) as [t|]; [|congruence].
    destruct (t =? m_from m); [|congruence].
    destruct (get_pr x0 (m_from m)); [|discriminate].
    destruct (_ =? _); [|congruence].
    unfold send_timeout_now in H. apply send_msgs_only in H. apply msgs_only_log. exact H. }
  congruence.
Qed.

Lemma log_maybe_commit_facts lg q t lg' b :
  RaftLog.maybe_commit lg q t = Ok (lg', b) ->
  committed lg <= committed lg' /\
  (committed lg' = committed lg \/ (committed lg' = q /\ q <= last_index lg)) /\
  (RaftLog.term lg q = Ok (SOk t) -> committed lg <= q -> committed lg' = q).
Proof.
  unfold RaftLog.maybe_commit. intros H.
  destruct (committed lg <? q) eqn:E.
  - inv_bind H. destruct (term_ok_eq x t) eqn:Et.
    + inv_bind H. inversion H; subst lg' b; clear H. unfold RaftLog.commit_to in Hx0.
      destruct (q <=? committed lg) eqn:E1; [lia|].
      destruct (last_index lg <? q) eqn:E2; [discriminate|]. inversion Hx0; subst x0. cbn.
      split; [lia|]. split; [right; split; [reflexivity|lia]|]. auto.
    + inversion H; subst lg' b. split; [lia|]. split; [left; reflexivity|].
      intros Ht. rewrite Ht in Hx. inversion Hx; subst x. cbn in Et. rewrite N.eqb_refl in Et. discriminate.
  - inversion H; subst lg' b. split; [lia|]. split; [left; reflexivity|]. intros _ Hle. lia.
Qed.

Lemma maybe_decr_to_matched p rej hint rs :
  matched (fst (maybe_decr_to p rej hint rs)) = matched p.
Proof.
  unfold maybe_decr_to. destruct (pstate_eqb (pr_state p) Replicate).
  - destruct (_ || _); [reflexivity|]. destruct (rs =? INVALID_INDEX); reflexivity.
  - destruct (_ && _); [reflexivity|]. cbn [fst].
    destruct (rs =? INVALID_INDEX); [reflexivity|].
    destruct (pending_request_snapshot p =? INVALID_INDEX); reflexivity.
Qed.

Lemma become_probe_matched p : matched (become_probe p) = matched p.
Proof. unfold become_probe. destruct (pr_state p); reflexivity. Qed.

Lemma maybe_update_matched_noop p n : n <= matched p -> matched (fst (maybe_update p n)) = matched p.
Proof.
  intros H. unfold maybe_update. destruct (matched p <? n) eqn:E; [lia|]. cbn [fst].
  destruct (next_idx p <? n + 1); reflexivity.
Qed.

(* what a leader of term T does with a response, as far as log and matched are concerned:
   either nothing, or (advancing acknowledgement) the acknowledging peer's matched goes up
   and maybe_commit runs on the result *)
Lemma leader_resp_cases T L m L' c :
  T <> 0 -> r_state L = Leader -> r_term L = T -> m_term m = T ->
  (m_type m = MsgAppendResponse \/ (m_type m = MsgHeartbeatResponse /\ m_context m = [])) ->
  step L m = Ok (L', c) ->
  conf_of L' = conf_of L /\
  ((r_log L' = r_log L /\ same_matched L L') \/
   (exists pg pr2 r1 cmt,
      get_pr L (m_from m) = Some pg /\ matched pg < matched pr2 /\
      (forall id p, id <> m_from m -> get_pr L id = Some p ->
                    get_pr (put_pr L (m_from m) pr2) id = Some p) /\
      maybe_commit (put_pr L (m_from m) pr2) = Ok (r1, cmt) /\
      r_log L' = r_log r1 /\ same_matched (put_pr L (m_from m) pr2) L')).
Proof.
  intros HT Hs Ht Hm Hty H.
  destruct (step_leader_same_term T HT L m Hs Ht Hm) as [EA EH].
  destruct Hty as [Hty|[Hty Hctx]].
  - rewrite (EA Hty) in H. inv_bind H. inversion H; subst x c; clear H.
    split; [apply handle_append_response_fr in Hx; apply Hx|].
    destruct (get_pr L (m_from m)) as [pg|] eqn:Hgg.
    2:{ unfold handle_append_response in Hx. inv_bind Hx. rewrite Hgg in Hx.
        assert (L' = L) by congruence. subst L'. left. split; [reflexivity|apply same_matched_refl]. }
    destruct (m_reject m) eqn:Hrj.
    + left. rewrite (append_reject_eq L m pg Hgg Hrj) in Hx. inv_bind Hx.
      pose proof (maybe_decr_to_matched (ack_pr pg (m_commit m)) (m_index m) x (m_request_snapshot m)) as Hmd.
      pose proof (ack_pr_fields pg (m_commit m)) as (_ & _ & A3 & _).
      destruct (maybe_decr_to _ _ _ _) as [p1 dec]. cbn [fst] in Hmd. destruct dec.
      * split.
        { rewrite (send_append_to_log _ _ _ Hx). reflexivity. }
        eapply same_matched_trans; [|eapply send_append_to_matched; exact Hx].
        eapply same_matched_put; [exact Hgg|].
        destruct (pstate_eqb (pr_state p1) Replicate); [rewrite become_probe_matched|]; congruence.
      * inversion Hx; subst L'. split; [reflexivity|].
        eapply same_matched_put; [exact Hgg|congruence].
    + rewrite (append_ack_eq L m pg Hgg Hrj) in Hx. cbv zeta in Hx.
      pose proof (ack_pr_fields pg (m_commit m)) as (_ & _ & A3 & _).
      destruct (matched pg <? m_index m) eqn:Elt.
      * right. apply N.ltb_lt in Elt. inv_bind Hx. rename x into pr2.
        pose proof (acked_pr_fields _ _ _ ltac:(rewrite A3; exact Elt) Hx0) as (F1 & _).
        destruct (ack_tail_log _ _ _ _ Hx) as (r1 & cmt & Hmc & Hlog).
        exists pg, pr2, r1, cmt. split; [reflexivity|]. split; [lia|].
        split; [intros id p Hne Hp; rewrite get_pr_put_other by exact Hne; exact Hp|].
        split; [exact Hmc|]. split; [exact Hlog|]. eapply ack_tail_matched. exact Hx.
      * left. apply N.ltb_ge in Elt. inversion Hx; subst L'. split; [reflexivity|].
        eapply same_matched_put; [exact Hgg|].
        transitivity (matched (ack_pr pg (m_commit m))); [|exact A3].
        apply maybe_update_matched_noop. rewrite A3. exact Elt.
  - rewrite (EH Hty) in H. inv_bind H. inversion H; subst x c; clear H.
    split; [apply handle_heartbeat_response_fr in Hx; apply Hx|]. left.
    destruct (get_pr L (m_from m)) as [pg|] eqn:Hgg.
    2:{ unfold handle_heartbeat_response in Hx. rewrite Hgg in Hx.
        assert (L' = L) by congruence. subst L'. split; [reflexivity|apply same_matched_refl]. }
    destruct (heartbeat_response_unsticks L m pg L' Hgg Hx)
      as (pr1 & r1 & pr' & b & _ & _ & _ & _ & _ & _ & _ & _ & _ & _ & _ & S2 & S3 & G1 & G2 & T1 & _).
    split.
    + rewrite (ro_only_log _ _ T1). change (r_log (put_pr r1 (m_from m) pr')) with (r_log r1).
      apply msgs_only_log. exact S2.
    + intros id. destruct (N.eq_dec id (m_from m)) as [->|Hne].
      * rewrite G1, Hgg. cbn. congruence.
      * rewrite (G2 id Hne). reflexivity.
Qed.

(* --- the quorum index when every voter has the same matched --- *)

Lemma gc_loop_all_eq q : forall ms checked single,
  Forall (fun m : Index => fst m = q) ms -> fst (gc_loop q q checked single ms) = q.
Proof.
  induction ms as [|m t IH]; intros checked single Hall; cbn [gc_loop].
  - destruct single; reflexivity.
  - pose proof (Forall_inv Hall) as Hm. pose proof (Forall_inv_tail Hall) as Ht. cbn beta in Hm.
    destruct (snd m =? 0); [apply IH; exact Ht|].
    destruct (checked =? 0); [apply IH; exact Ht|].
    destruct (checked =? snd m); [apply IH; exact Ht|]. cbn [fst]. rewrite Hm. lia.
Qed.

Lemma committed_index_all_eq gc V a q :
  V <> [] -> (forall v, In v V -> fst (acked_or_default a v) = q) ->
  fst (Quorum.committed_index gc V a) = q.
Proof.
  intros HV Hall. unfold Quorum.committed_index. destruct V as [|v0 t] eqn:EV; [congruence|].
  rewrite <- EV in *. clear EV.
  set (ms := sort_desc (map (acked_or_default a) V)).
  assert (Hms : Forall (fun m : Index => fst m = q) ms).
  { apply Forall_forall. intros m Hm. subst ms.
    apply (Permutation.Permutation_in _ (QuorumProofs.sort_desc_perm _)) in Hm.
    apply in_map_iff in Hm. destruct Hm as (v & <- & Hv). apply Hall. exact Hv. }
  assert (Hlen : length ms = length V).
  { subst ms. rewrite QuorumProofs.sort_desc_length, map_length. reflexivity. }
  assert (Hpos : (0 < length ms)%nat) by (rewrite Hlen; destruct V; [congruence|cbn; lia]).
  assert (Hq : fst (nth (majority (length ms) - 1) ms index_default) = q).
  { rewrite Forall_forall in Hms. apply Hms. apply nth_In. apply QuorumProofs.majority_pos_lt. exact Hpos. }
  assert (Hl : fst (last ms index_default) = q).
  { rewrite Forall_forall in Hms. apply Hms. apply QuorumProofs.last_In. intros E. rewrite E in Hpos. cbn in Hpos. lia. }
  destruct (negb gc); [exact Hq|].
  rewrite Hq, Hl. apply gc_loop_all_eq. exact Hms.
Qed.

Lemma assoc_progress_map (g : progress -> Index) m v :
  assoc (map (fun kp : N * progress => (fst kp, g (snd kp))) m) v = option_map g (pget m v).
Proof.
  induction m as [|[k p] t IH]; cbn [map assoc pget fst snd]; [reflexivity|].
  destruct (k =? v); [reflexivity|exact IH].
Qed.

(* every voter's Progress has matched = q *)
Definition all_voters_at (r : raft) (q : N) : Prop :=
  forall v, In v (incoming (conf_of r)) \/ In v (outgoing (conf_of r)) ->
    exists p, get_pr r v = Some p /\ matched p = q.

Lemma mci_all_at r q :
  all_voters_at r q -> incoming (conf_of r) <> [] -> q <= u64_max ->
  fst (prs_maximal_committed_index (r_prs r)) = q.
Proof.
  intros Hall Hinc Hq. unfold prs_maximal_committed_index, Quorum.maximal_committed_index,
    joint_committed_index, acked_of.
  set (a := assoc _).
  assert (Ha : forall v, In v (incoming (t_conf (r_prs r))) \/ In v (outgoing (t_conf (r_prs r))) ->
                         fst (acked_or_default a v) = q).
  { intros v Hv. destruct (Hall v Hv) as (p & Hg & Hm). unfold acked_or_default. subst a.
    rewrite (assoc_progress_map (fun p0 => (matched p0, commit_group_id p0))). unfold get_pr in Hg. rewrite Hg. cbn. exact Hm. }
  pose proof (committed_index_all_eq (t_group_commit (r_prs r)) (incoming (t_conf (r_prs r))) a q Hinc
                ltac:(intros v Hv; apply Ha; left; exact Hv)) as Hi.
  destruct (Quorum.committed_index _ (incoming _) a) as [i_idx i_gc]. cbn [fst] in Hi. subst i_idx.
  destruct (outgoing (t_conf (r_prs r))) as [|o0 ot] eqn:Eo.
  - rewrite QuorumProofs.committed_index_empty. cbn [fst]. lia.
  - rewrite <- Eo in *.
    pose proof (committed_index_all_eq (t_group_commit (r_prs r)) (outgoing (t_conf (r_prs r))) a q
                  ltac:(rewrite Eo; discriminate) ltac:(intros v Hv; apply Ha; right; exact Hv)) as Ho.
    destruct (Quorum.committed_index _ (outgoing _) a) as [o_idx o_gc]. cbn [fst] in *. subst o_idx. lia.
Qed.

Lemma all_voters_at_same r r' q :
  conf_of r' = conf_of r -> same_matched r r' -> all_voters_at r' q -> all_voters_at r q.
Proof.
  intros Hc Hs Hall v Hv. rewrite <- Hc in Hv. destruct (Hall v Hv) as (p & Hg & Hm).
  specialize (Hs v). rewrite Hg in Hs. cbn in Hs. destruct (get_pr r v) as [p0|]; [|discriminate].
  exists p0. split; [reflexivity|]. cbn in Hs. congruence.
Qed.

(* the commit invariant of the leader: its commit index is at most [last], and equals it
   as soon as every voter's matched does *)
Definition CommitInv (last : N) (L : raft) : Prop :=
  committed (r_log L) <= last /\ (all_voters_at L last -> committed (r_log L) = last).

(* one response handled by the leader keeps the commit invariant *)
Lemma leader_step_CommitInv T last L m L' c :
  T <> 0 -> r_state L = Leader -> r_term L = T -> m_term m = T ->
  (m_type m = MsgAppendResponse \/ (m_type m = MsgHeartbeatResponse /\ m_context m = [])) ->
  last_index (r_log L) = last -> last <= u64_max ->
  RaftLog.term (r_log L) last = Ok (SOk T) ->
  incoming (conf_of L) <> [] ->
  CommitInv last L -> step L m = Ok (L', c) ->
  CommitInv last L' /\ committed (r_log L) <= committed (r_log L').
Proof.
  intros HT Hs Ht Hm Hty Hlast Hu Hterm Hinc [C1 C2] H.
  destruct (leader_resp_cases T L m L' c HT Hs Ht Hm Hty H)
    as (Hconf & [(Hlog & Hsm)|(pg & pr2 & r1 & cmt & Hg & Hlt & Hoth & Hmc & Hlog & Hsm)]).
  - unfold CommitInv. rewrite Hlog. split; [|lia]. split; [exact C1|]. intros Hall. apply C2.
    eapply all_voters_at_same; eassumption.
  - set (ra := put_pr L (m_from m) pr2) in *.
    pose proof (maybe_commit_log _ _ _ Hmc) as Hml.
    change (r_log ra) with (r_log L) in Hml. change (r_term ra) with (r_term L) in Hml.
    destruct (log_maybe_commit_facts _ _ _ _ _ Hml) as (M1 & M2 & M3).
    unfold CommitInv. rewrite Hlog. split; [|exact M1]. split.
    + destruct M2 as [M2|[M2 M2']]; [lia|]. rewrite M2. rewrite Hlast in M2'. exact M2'.
    + intros Hall.
      assert (Hall_a : all_voters_at ra last).
      { eapply all_voters_at_same; [|exact Hsm|exact Hall]. exact Hconf. }
      assert (Hinc_a : incoming (conf_of ra) <> []) by exact Hinc.
      rewrite (mci_all_at ra last Hall_a Hinc_a Hu) in M3. rewrite Ht in M3.
      apply M3; [exact Hterm|exact C1].
Qed.

(* --- the commit invariant along lists of responses, ticks and rounds --- *)

(* the static facts about a leader of term T whose log ends at [last] with an entry of
   its own term *)
Definition LeadS (T last : N) (L : raft) : Prop :=
  r_state L = Leader /\ r_term L = T /\ last_index (r_log L) = last /\
  RaftLog.term (r_log L) last = Ok (SOk T) /\ incoming (conf_of L) <> [].

Lemma term_same_ents lg lg' i : same_ents lg lg' -> RaftLog.term lg' i = RaftLog.term lg i.
Proof. intros (A & B & _). unfold RaftLog.term, first_index, last_index. rewrite A, B. reflexivity. Qed.

Lemma fr_LeadS T last r r' : fr r r' -> LeadS T last r -> LeadS T last r'.
Proof.
  intros (F1 & _ & F3 & F4 & _ & _ & F7) (S1 & S2 & S3 & S4 & S5).
  split; [congruence|]. split; [congruence|].
  split; [rewrite (last_index_same_ents _ _ F3); exact S3|].
  split; [rewrite (term_same_ents _ _ _ F3); exact S4|]. rewrite F4. exact S5.
Qed.

(* a response of some follower to a leader of term T *)
Definition resp_typed (T : N) (m : msg) : Prop :=
  m_term m = T /\
  (m_type m = MsgAppendResponse \/ (m_type m = MsgHeartbeatResponse /\ m_context m = [])).

Lemma leader_step_fr T L m L' c :
  T <> 0 -> r_state L = Leader -> r_term L = T -> resp_typed T m -> step L m = Ok (L', c) -> fr L L'.
Proof.
  intros HT Hs Ht (Hm & Hty) H.
  destruct (step_leader_same_term T HT L m Hs Ht Hm) as [EA EH].
  destruct Hty as [Hty|[Hty _]].
  - rewrite (EA Hty) in H. inv_bind H. apply handle_append_response_fr in Hx.
    assert (L' = x) by congruence. subst x. exact Hx.
  - rewrite (EH Hty) in H. inv_bind H. apply handle_heartbeat_response_fr in Hx.
    assert (L' = x) by congruence. subst x. exact Hx.
Qed.

Lemma steps_CommitInv T last : forall ms L L',
  T <> 0 -> last <= u64_max -> Forall (resp_typed T) ms ->
  LeadS T last L -> CommitInv last L -> steps L ms = Ok L' ->
  LeadS T last L' /\ CommitInv last L' /\ committed (r_log L) <= committed (r_log L') /\
  (forall id, ~ In id (map m_from ms) ->
     option_map matched (get_pr L' id) = option_map matched (get_pr L id)).
Proof.
  induction ms as [|m t IH]; intros L L' HT Hu Hall HS HC H; cbn [steps] in H.
  - assert (L' = L) by congruence. subst L'. split; [exact HS|]. split; [exact HC|]. split; [lia|]. auto.
  - inv_bind H. destruct x as [L1 c1]. cbn [fst] in H.
    pose proof (Forall_inv Hall) as Hm. pose proof (Forall_inv_tail Hall) as Ht.
    pose proof HS as (S1 & S2 & S3 & S4 & S5). pose proof Hm as (Hm1 & Hm2).
    pose proof (fr_LeadS _ _ _ _ (leader_step_fr T L m L1 c1 HT S1 S2 Hm Hx) HS) as HS1.
    destruct (leader_step_CommitInv T last L m L1 c1 HT S1 S2 Hm1 Hm2 S3 Hu S4 S5 HC Hx) as [HC1 Hmono1].
    destruct (IH L1 L' HT Hu Ht HS1 HC1 H) as (HS' & HC' & Hmono & Hoth).
    split; [exact HS'|]. split; [exact HC'|]. split; [lia|].
    intros id Hnin.
    assert (Hn1 : id <> m_from m) by (intros E; apply Hnin; left; congruence).
    assert (Hn2 : ~ In id (map m_from t)) by (intros E; apply Hnin; right; exact E).
    rewrite (Hoth id Hn2).
    destruct (leader_resp_cases T L m L1 c1 HT S1 S2 Hm1 Hm2 Hx)
      as (_ & [(_ & Hsm)|(pg & pr2 & r1 & cmt & Hg & _ & Hoth1 & _ & _ & Hsm)]).
    + apply Hsm.
    + rewrite Hsm. rewrite get_pr_put_other by exact Hn1. reflexivity.
Qed.

(* --- the general frame of a response handled by a leader: log, progress map, queue --- *)

Lemma send_append_to_lfr r to r' : send_append_to r to = Ok r' -> lfr r r'.
Proof.
  unfold send_append_to. intros H. destruct (get_pr r to); [|discriminate].
  inv_bind H. destruct x as [[r1 p1] b]. inversion H; subst r'.
  apply maybe_send_append_facts in Hx. destruct Hx as (A & _).
  eapply lfr_trans; [apply msgs_only_lfr; exact A|apply put_pr_lfr].
Qed.

Lemma for_each_peer_lfr (g : raft -> N -> Res raft) :
  (forall r id r', g r id = Ok r' -> lfr r r') ->
  forall ids self r r', for_each_peer ids self g r = Ok r' -> lfr r r'.
Proof.
  intros Hg. induction ids as [|id rest IH]; intros self r r' H.
  { assert (r' = r) by (cbn in H; congruence). subst r'. apply lfr_refl. }
  cbn [for_each_peer] in H. destruct (id =? self). { eapply IH; eassumption. }
  inv_bind H. eapply lfr_trans; [eapply Hg; eassumption|eapply IH; eassumption].
Qed.

Lemma bcast_append_lfr r r' : bcast_append r = Ok r' -> lfr r r'.
Proof. unfold bcast_append. apply for_each_peer_lfr. apply send_append_to_lfr. Qed.

Lemma send_append_aggressively_lfr r to r' : send_append_aggressively r to = Ok r' -> lfr r r'.
Proof.
  unfold send_append_aggressively. intros H. destruct (get_pr r to); [|discriminate].
  inv_bind H. destruct x as [r1 p1]. inversion H; subst r'.
  apply (send_append_aggressively_loop_matched _ _ to) in Hx. destruct Hx as [A _].
  eapply lfr_trans; [apply msgs_only_lfr; exact A|apply put_pr_lfr].
Qed.

Lemma maybe_commit_lfr r r' b : maybe_commit r = Ok (r', b) -> lfr r r'.
Proof.
  unfold maybe_commit. intros H. inv_bind H. destruct x as [l' b'].
  apply log_maybe_commit_same_ents in Hx.
  assert (Hl : lfr r (r <| r_log := l' |>)) by (split; [destruct r; reflexivity|exact Hx]).
  destruct b'.
  - destruct (get_pr r (r_id r)); inversion H; subst r' b; [|exact Hl].
    eapply lfr_trans; [exact Hl|apply put_pr_lfr].
  - inversion H; subst r' b. exact Hl.
Qed.

Lemma ack_tail_lfr r m op r' : ack_tail r m op = Ok r' -> lfr r r'.
Proof.
  unfold ack_tail. intros H. inv_bind H. destruct x as [r1 cmt]. apply maybe_commit_lfr in Hx.
  inv_bind H. inv_bind H.
  assert (E1 : lfr r1 x).
  { destruct cmt.
    - destruct (should_bcast_commit r1); [apply bcast_append_lfr; exact Hx0|].
      assert (x = r1) by congruence. subst x. apply lfr_refl.
    - destruct op; [eapply send_append_to_lfr; exact Hx0|].
      assert (x = r1) by congruence. subst x. apply lfr_refl. }
  apply send_append_aggressively_lfr in Hx1.
  assert (E3 : lfr x0 r').
  { destruct (r_lead_transferee x0) as [t|]; [|assert (r' = x0) by congruence; subst r'; apply lfr_refl].
    destruct (t =? m_from m); [|assert (r' = x0) by congruence; subst r'; apply lfr_refl].
    destruct (get_pr x0 (m_from m)); [|discriminate].
    destruct (_ =? _); [|assert (r' = x0) by congruence; subst r'; apply lfr_refl].
    unfold send_timeout_now in H. apply send_msgs_only in H. apply msgs_only_lfr. exact H. }
  eapply lfr_trans; [exact Hx|]. eapply lfr_trans; [exact E1|]. eapply lfr_trans; eassumption.
Qed.

Lemma leader_step_lfr T L m L' c :
  T <> 0 -> r_state L = Leader -> r_term L = T -> resp_typed T m -> step L m = Ok (L', c) -> lfr L L'.
Proof.
  intros HT Hs Ht (Hm & Hty) H.
  destruct (step_leader_same_term T HT L m Hs Ht Hm) as [EA EH].
  destruct Hty as [Hty|[Hty Hctx]].
  - rewrite (EA Hty) in H. inv_bind H. assert (x = L') by congruence. subst x. clear H.
    destruct (get_pr L (m_from m)) as [pg|] eqn:Hgg.
    2:{ unfold handle_append_response in Hx. inv_bind Hx. rewrite Hgg in Hx.
        assert (L' = L) by congruence. subst L'. apply lfr_refl. }
    destruct (m_reject m) eqn:Hrj.
    + rewrite (append_reject_eq L m pg Hgg Hrj) in Hx. inv_bind Hx.
      destruct (maybe_decr_to _ _ _ _) as [p1 dec]. destruct dec.
      * eapply lfr_trans; [apply put_pr_lfr|eapply send_append_to_lfr; exact Hx].
      * assert (L' = put_pr L (m_from m) p1) by congruence. subst L'. apply put_pr_lfr.
    + rewrite (append_ack_eq L m pg Hgg Hrj) in Hx. cbv zeta in Hx.
      destruct (matched pg <? m_index m).
      * inv_bind Hx. eapply lfr_trans; [apply put_pr_lfr|eapply ack_tail_lfr; exact Hx].
      * inversion Hx. apply put_pr_lfr.
  - rewrite (EH Hty) in H. inv_bind H. assert (x = L') by congruence. subst x. clear H.
    rewrite heartbeat_response_eq in Hx.
    destruct (get_pr L (m_from m)) as [pg|]; [|assert (L' = L) by congruence; subst L'; apply lfr_refl].
    inv_bind Hx. inv_bind Hx.
    assert (Htail : hb_ro_tail x0 m = Ok x0).
    { unfold hb_ro_tail. rewrite Hctx. rewrite orb_true_r. reflexivity. }
    rewrite Htail in Hx. assert (x0 = L') by congruence. subst x0. clear Hx.
    match goal with Hs : (if hb_wants_send _ _ then _ else _) = Ok _ |- _ => rename Hs into Hsd end.
    destruct (hb_wants_send L x).
    + inv_bind Hsd. destruct x0 as [[r1 p1] sent]. inversion Hsd; subst L'.
      match goal with Hs : maybe_send_append _ _ _ _ = Ok _ |- _ =>
        apply maybe_send_append_facts in Hs; destruct Hs as (A & _) end.
      eapply lfr_trans; [apply msgs_only_lfr; exact A|apply put_pr_lfr].
    + inversion Hsd. apply put_pr_lfr.
Qed.

Lemma steps_lfr T : forall ms L L',
  T <> 0 -> r_state L = Leader -> r_term L = T -> Forall (resp_typed T) ms ->
  steps L ms = Ok L' -> lfr L L'.
Proof.
  induction ms as [|m t IH]; intros L L' HT Hs Ht Hall H; cbn [steps] in H.
  - assert (L' = L) by congruence. subst L'. apply lfr_refl.
  - inv_bind H. destruct x as [L1 c1]. cbn [fst] in H.
    pose proof (leader_step_lfr T L m L1 c1 HT Hs Ht (Forall_inv Hall) Hx) as F1.
    pose proof (leader_step_fr T L m L1 c1 HT Hs Ht (Forall_inv Hall) Hx) as (G1 & _ & _ & _ & _ & _ & G7).
    eapply lfr_trans; [exact F1|]. apply IH; try assumption; try congruence.
    apply (Forall_inv_tail Hall).
Qed.

(* ================================================================== *)
(* 7.7 the star: the leader's commit index                             *)
(* ================================================================== *)
Section StarCommit.

Variables (LL : LL) (T l : N) (rw rwl : bool) (l0 : raft_log) (lof : N -> N).
Hypothesis HLL : LeaderLog LL.
Hypothesis HT : T <> 0.
Hypothesis Hl0 : RepInv rwl l0.
Hypothesis Habs0 : abs l0 = LL.
(* the last entry of the leader's log is of its own term *)
Hypothesis HlastT : ll_term LL (ll_last LL) = SOk T.

Local Notation FolInv := (FolInv LL T l rw l0 lof).
Local Notation StarInv := (StarInv LL T l rw l0 lof).
Local Notation LCore := (LCore T l l0).

Lemma LCore_LeadS L : LCore L -> incoming (conf_of L) <> [] -> LeadS T (ll_last LL) L.
Proof.
  intros HC Hinc. destruct (same_ents_lookups LL rwl l0 Hl0 Habs0 _ (lc_log _ _ _ _ HC)) as (Lt & Ll & _).
  split; [apply (lc_state _ _ _ _ HC)|]. split; [apply (lc_term _ _ _ _ HC)|]. split; [exact Ll|].
  split; [rewrite Lt, HlastT; reflexivity|exact Hinc].
Qed.

(* a tick of the leader touches neither the log nor the progress map *)
Lemma leader_tick_frame L L2 hr :
  LCore L -> tick L = Ok (L2, hr) -> LCore L2 /\ r_log L2 = r_log L /\ r_prs L2 = r_prs L.
Proof.
  intros HC H. pose proof HC as [C1 C2 C3 C4 C5 C6 C7 C8].
  assert (Hbeat : forall X hr0, LCore X -> beat_phase X hr0 = Ok (L2, hr) ->
                    LCore L2 /\ r_log L2 = r_log X /\ r_prs L2 = r_prs X).
  { intros X hr0 HX Hb. unfold beat_phase in Hb. destruct (_ <=? _).
    - rewrite bcast_heartbeat_eq in Hb. cbn [bind] in Hb. inversion Hb; subst L2 hr.
      split; [destruct HX; constructor; cbn; auto|]. split; reflexivity.
    - inversion Hb; subst L2 hr. auto. }
  destruct (N.lt_ge_cases (r_election_elapsed L + 1) (r_election_timeout L)) as [He|He].
  - rewrite (leader_heartbeats L C1 He) in H.
    apply (Hbeat (ticked L) false); [constructor; cbn; auto|exact H].
  - rewrite (checkquorum_stepdown L C1 He), C7 in H.
    apply (Hbeat (after_check L false) false); [constructor; cbn; auto|exact H].
Qed.

Lemma replies_typed Hb L G G1 :
  FolInv Hb L G -> steps G (to_peer (r_id G) (r_msgs L)) = Ok G1 ->
  Forall (fun m => resp_typed T m /\ m_from m = r_id G) (replies l G1).
Proof.
  intros (Hlg & Hlo & HloT & a & HI) Hs.
  destruct HI as [HC _ HF HFq Hq _ _].
  destruct (follower_steps LL T l (r_id G) (lof (r_id G)) rw HLL Hlo HT Hlg _ a G G1 HF Hq Hs)
    as (a1 & resps & _ & _ & _ & M1 & Ch & _).
  rewrite HFq in M1. cbn [app] in M1. unfold replies. rewrite M1.
  apply Forall_forall. intros m Hm. unfold to_peer in Hm. apply filter_In in Hm. destruct Hm as [Hm _].
  pose proof (resp_chain_all T l _ _ _ _ Ch) as Hall. rewrite Forall_forall in Hall.
  destruct (Hall m Hm) as (b & Rt & Rf & _ & Rk).
  split; [|exact Rf]. split; [exact Rt|].
  destruct Rk as [(A & B)|[(A & _)|(A & _)]]; auto.
Qed.

Lemma concat_replies_typed Hb L A A1 :
  mapM (fun F => steps F (to_peer (r_id F) (r_msgs L))) A = Ok A1 ->
  Forall (FolInv Hb L) A ->
  Forall (fun m => resp_typed T m /\ m_from m <> l) (concat (map (replies l) A1)).
Proof.
  intros HA Hall. rewrite Forall_forall in Hall. apply Forall_forall. intros m Hm. apply in_concat in Hm.
  destruct Hm as (ms & Hms & Hm). apply in_map_iff in Hms. destruct Hms as (G1 & <- & HG1).
  destruct (mapM_In _ _ _ _ HA HG1) as (G & HG & Hs).
  pose proof (replies_typed Hb L G G1 (Hall G HG) Hs) as Hf. rewrite Forall_forall in Hf.
  destruct (Hf m Hm) as [A1' A2]. split; [exact A1'|].
  destruct (Hall G HG) as (Hlg & _). congruence.
Qed.

(* one round of the star keeps the leader's commit invariant; the commit index never goes
   back; the leader's own Progress keeps its matched *)
Lemma star_round_CommitInv Hb L Fs L' Fs' :
  StarInv Hb L Fs -> Fs <> [] -> incoming (conf_of L) <> [] ->
  CommitInv (ll_last LL) L -> star_round L Fs = Ok (L', Fs') ->
  incoming (conf_of L') <> [] /\ conf_of L' = conf_of L /\ CommitInv (ll_last LL) L' /\
  committed (r_log L) <= committed (r_log L') /\
  option_map matched (get_pr L' l) = option_map matched (get_pr L l).
Proof.
  intros [Hnd Hall] Hne Hinc HCI H.
  assert (HC : LCore L).
  { destruct Fs as [|F0 t]; [congruence|]. pose proof (Forall_inv Hall) as (_ & _ & _ & a & HI).
    apply (pv_core _ _ _ _ _ _ _ _ _ _ _ HI). }
  unfold star_round in H. inv_bind H. rename x into Fs1. inv_bind H. rename x into L1.
  inv_bind H. destruct x as [L2 hr]. inv_bind H. cbn [fst] in H. inversion H; subst L' Fs'; clear H.
  rewrite (lc_id _ _ _ _ HC) in Hx0.
  pose proof (concat_replies_typed Hb L Fs Fs1 Hx Hall) as Hty.
  set (L0 := L <| r_msgs := [] |>) in *.
  assert (HC0 : LCore L0) by (destruct HC; constructor; cbn; auto).
  assert (HS0 : LeadS T (ll_last LL) L0) by (apply LCore_LeadS; [exact HC0|exact Hinc]).
  assert (Hty1 : Forall (resp_typed T) (concat (map (replies l) Fs1))).
  { eapply Forall_impl; [|exact Hty]. intros m [A _]. exact A. }
  destruct (steps_CommitInv T (ll_last LL) _ L0 L1 HT
              ltac:(pose proof (lg_bound _ HLL); lia) Hty1 HS0 HCI Hx0)
    as (HS1 & HC1 & Hmono & Hoth).
  pose proof (steps_lfr T _ L0 L1 HT (lc_state _ _ _ _ HC0) (lc_term _ _ _ _ HC0) Hty1 Hx0) as Hl1.
  pose proof (lfr_LCore _ _ _ _ _ Hl1 HC0) as HCL1.
  destruct (leader_tick_frame L1 L2 hr HCL1 Hx1) as (HC2 & Hlog2 & Hprs2).
  assert (Hconf1 : conf_of L1 = conf_of L).
  { clear - Hx0 Hty1 HT HC0. revert Hx0 Hty1. generalize (concat (map (replies l) Fs1)). intros ms.
    change (conf_of L) with (conf_of L0).
    assert (Hs : r_state L0 = Leader /\ r_term L0 = T)
      by (split; [apply (lc_state _ _ _ _ HC0)|apply (lc_term _ _ _ _ HC0)]).
    revert Hs. generalize L0. induction ms as [|m t IH]; intros r [Hs Ht] H Hall; cbn [steps] in H.
    - congruence.
    - inv_bind H. destruct x as [r1 c1]. cbn [fst] in H.
      pose proof (leader_step_fr T r m r1 c1 HT Hs Ht (Forall_inv Hall) Hx) as (G1 & _ & _ & G4 & _ & _ & G7).
      rewrite (IH r1 ltac:(split; congruence) H (Forall_inv_tail Hall)). exact G4. }
  assert (Hconf2 : conf_of L2 = conf_of L) by (unfold conf_of in *; rewrite Hprs2; exact Hconf1).
  split; [rewrite Hconf2; exact Hinc|]. split; [exact Hconf2|].
  split.
  { destruct HC1 as [D1 D2]. unfold CommitInv. rewrite Hlog2. split; [exact D1|].
    intros Hav. apply D2. intros v Hv. unfold conf_of in *. rewrite <- Hprs2 in Hv.
    destruct (Hav v Hv) as (p & Hg & Hm). exists p. split; [|exact Hm].
    unfold get_pr in *. rewrite <- Hprs2. exact Hg. }
  split; [rewrite Hlog2; exact Hmono|].
  unfold get_pr at 1. rewrite Hprs2. fold (get_pr L1 l). rewrite Hoth; [reflexivity|].
  intros Hin. apply in_map_iff in Hin. destruct Hin as (m & Em & Hm).
  rewrite Forall_forall in Hty. destruct (Hty m Hm) as [_ Hne']. congruence.
Qed.

Lemma star_rounds_CommitInv n : forall Hb L Fs L' Fs',
  StarInv Hb L Fs -> Fs <> [] -> incoming (conf_of L) <> [] ->
  CommitInv (ll_last LL) L -> star_rounds n L Fs = Ok (L', Fs') ->
  conf_of L' = conf_of L /\ CommitInv (ll_last LL) L' /\
  committed (r_log L) <= committed (r_log L') /\
  option_map matched (get_pr L' l) = option_map matched (get_pr L l).
Proof.
  induction n as [|n IH]; intros Hb L Fs L' Fs' HS Hne Hinc HCI H; cbn [star_rounds] in H.
  - inversion H; subst L' Fs'. split; [reflexivity|]. split; [exact HCI|]. split; [lia|reflexivity].
  - inv_bind H. destruct x as [L1 Fs1]. cbn [fst snd] in H.
    destruct (star_round_CommitInv Hb L Fs L1 Fs1 HS Hne Hinc HCI Hx) as (I1 & Cf1 & C1 & M1 & O1).
    pose proof (star_round_StarInv LL T l rw rwl l0 lof HLL HT Hl0 Habs0 Hb L Fs L1 Fs1 HS Hx) as HS1.
    assert (Hne1 : Fs1 <> []).
    { pose proof (mapM_length_star _ _ _ _ Hx) as Hl. destruct Fs1; [|discriminate].
      destruct Fs; [congruence|discriminate]. }
    destruct (IH Hb L1 Fs1 L' Fs' HS1 Hne1 I1 C1 H) as (Cf2 & C2 & M2 & O2).
    split; [congruence|]. split; [exact C2|]. split; [lia|congruence].
Qed.

(* MAIN 7b: at the end of the run the leader has committed its whole log *)
Theorem star_leader_commits Hb L Fs N0 L' Fs' pl :
  StarInv Hb L Fs -> Fs <> [] -> 1 <= Hb ->
  (forall F, In F Fs -> (star_bound Hb (ll_last LL) (lof (r_id F)) <= N0)%nat) ->
  (* voters: the leader and (some of) the followers; the configuration has voters *)
  incoming (conf_of L) <> [] ->
  (forall v, In v (incoming (conf_of L)) \/ In v (outgoing (conf_of L)) ->
             v = l \/ In v (map r_id Fs)) ->
  (* the leader's own Progress: its log is persisted *)
  get_pr L l = Some pl -> matched pl = ll_last LL ->
  CommitInv (ll_last LL) L ->
  star_rounds N0 L Fs = Ok (L', Fs') ->
  committed (r_log L') = ll_last LL.
Proof.
  intros HS Hne HH HN Hinc Hvot Hgl Hml HCI H.
  destruct (star_converges LL T l rw rwl l0 lof HLL HT Hl0 Habs0 Hb L Fs N0 L' Fs' HS HH HN H) as [HS' HF].
  destruct (star_rounds_CommitInv N0 Hb L Fs L' Fs' HS Hne Hinc HCI H) as (Cf & [_ C2] & _ & Own).
  apply C2. intros v Hv. rewrite Cf in Hv. destruct (Hvot v Hv) as [->|Hin].
  - rewrite Hgl in Own. cbn in Own. destruct (get_pr L' l) as [p|]; [|discriminate].
    exists p. split; [reflexivity|]. cbn in Own. congruence.
  - apply in_map_iff in Hin. destruct Hin as (F & <- & HFin).
    clear - HF HFin. induction HF as [|x y xs ys (_ & pr' & Hg & Hm & _) _ IH]; [destruct HFin|].
    destruct HFin as [->|HFin]; [exists pr'; auto|apply IH; exact HFin].
Qed.

End StarCommit.

(* ================================================================== *)
(* 7.8 the followers' commit index                                     *)
(* ================================================================== *)

Lemma commit_to_mono lg tc lg' :
  RaftLog.commit_to lg tc = Ok lg' -> committed lg <= committed lg' /\ tc <= committed lg'.
Proof.
  unfold RaftLog.commit_to. intros H. destruct (tc <=? committed lg) eqn:E.
  - inversion H; subst. lia.
  - destruct (last_index lg <? tc); [discriminate|]. inversion H; subst. cbn. lia.
Qed.

Lemma log_append_committed lg ents lg' x : log_append lg ents = Ok (lg', x) -> committed lg' = committed lg.
Proof.
  unfold log_append. intros H. destruct ents as [|e0 t]; [inversion H; reflexivity|].
  destruct (e_index e0 =? 0); [discriminate|]. destruct (_ <? _); [discriminate|].
  inv_bind H. inversion H; subst. reflexivity.
Qed.

Lemma maybe_append_commit_mono lg i t c ents lg' r :
  maybe_append lg i t c ents = Ok (lg', r) -> committed lg <= committed lg'.
Proof.
  unfold maybe_append. intros H. inv_bind H. destruct (negb x); [inversion H; subst; lia|].
  inv_bind H. inv_bind H. destruct (u64_max <? _); [discriminate|]. inv_bind H.
  inversion H; subst lg' r; clear H.
  assert (E1 : committed x1 = committed lg).
  { destruct (x0 =? 0); [inversion Hx1; reflexivity|].
    destruct (x0 <=? committed lg); [discriminate|]. destruct (i =? u64_max); [discriminate|].
    destruct (x0 <? i + 1); [discriminate|]. destruct (_ <? _); [discriminate|].
    inv_bind Hx1.
    match goal with Hla : log_append _ _ = Ok ?p |- _ =>
      destruct p as [la xa]; cbn [fst] in Hx1; apply log_append_committed in Hla;
      destruct (_ <? persisted la); inversion Hx1; subst; cbn; exact Hla end. }
  apply commit_to_mono in Hx2. lia.
Qed.

Lemma send_log r m r' : send r m = Ok r' -> r_log r' = r_log r.
Proof. intros H. apply send_msgs_only in H. apply msgs_only_log. exact H. Qed.

Lemma handle_append_entries_commit_mono r m r' :
  handle_append_entries r m = Ok r' -> committed (r_log r) <= committed (r_log r').
Proof.
  unfold handle_append_entries. intros H.
  destruct (negb (r_pending_request_snapshot r =? INVALID_INDEX)).
  { unfold send_request_snapshot in H. inv_bind H. destruct x; [|discriminate].
    rewrite (send_log _ _ _ H). lia. }
  destruct (m_index m <? committed (r_log r)). { rewrite (send_log _ _ _ H). lia. }
  inv_bind H. destruct x as [l' res]. apply maybe_append_commit_mono in Hx.
  destruct res as [[a b]|].
  - rewrite (send_log _ _ _ H). exact Hx.
  - inv_bind H. destruct x as [hi [ht|]]; [|discriminate]. rewrite (send_log _ _ _ H). exact Hx.
Qed.

Lemma handle_heartbeat_commit r m r' :
  handle_heartbeat r m = Ok r' ->
  committed (r_log r) <= committed (r_log r') /\ m_commit m <= committed (r_log r').
Proof.
  unfold handle_heartbeat. intros H. inv_bind H. apply commit_to_mono in Hx.
  assert (E : r_log r' = x).
  { destruct (negb _).
    - unfold send_request_snapshot in H. inv_bind H. destruct x0; [|discriminate].
      rewrite (send_log _ _ _ H). reflexivity.
    - rewrite (send_log _ _ _ H). reflexivity. }
  rewrite E. exact Hx.
Qed.

(* a follower of term T handling same-term appends and heartbeats: its commit index never
   goes back, and reaches the commit index of every heartbeat *)
Lemma follower_steps_commit T : forall q F F',
  T <> 0 -> r_state F = Follower -> r_term F = T ->
  Forall (fun m => m_term m = T /\ (m_type m = MsgAppend \/ m_type m = MsgHeartbeat)) q ->
  steps F q = Ok F' ->
  committed (r_log F) <= committed (r_log F') /\
  (forall x, In x q -> m_type x = MsgHeartbeat -> m_commit x <= committed (r_log F')).
Proof.
  induction q as [|m t IH]; intros F F' HT Hs Ht Hall H; cbn [steps] in H.
  - assert (F' = F) by congruence. subst F'. split; [lia|]. intros x [].
  - inv_bind H. destruct x as [F1 c1]. cbn [fst] in H.
    pose proof (Forall_inv Hall) as (Hm & Hty). pose proof (Forall_inv_tail Hall) as Hrest.
    destruct (step_follower_same_term T HT F m Hs Ht Hm) as [EA EH].
    assert (H1 : committed (r_log F) <= committed (r_log F1) /\
                 (m_type m = MsgHeartbeat -> m_commit m <= committed (r_log F1)) /\
                 r_state F1 = Follower /\ r_term F1 = T).
    { destruct Hty as [Hty|Hty].
      - rewrite (EA Hty) in Hx. inv_bind Hx. assert (x = F1) by congruence. subst x.
        pose proof (handle_append_entries_commit_mono _ _ _ Hx0) as Hmono.
        apply handle_append_entries_st in Hx0. destruct Hx0 as [S1 S2].
        split; [exact Hmono|]. split; [intros E; rewrite Hty in E; discriminate E|].
        split; [rewrite S1; exact Hs|rewrite S2; exact Ht].
      - rewrite (EH Hty) in Hx. inv_bind Hx. assert (x = F1) by congruence. subst x.
        pose proof (handle_heartbeat_commit _ _ _ Hx0) as [Hmono Hc].
        apply handle_heartbeat_st in Hx0. destruct Hx0 as [S1 S2].
        split; [exact Hmono|]. split; [intros _; exact Hc|].
        split; [rewrite S1; exact Hs|rewrite S2; exact Ht]. }
    destruct H1 as (M1 & C1 & S1 & S2).
    destruct (IH F1 F' HT S1 S2 Hrest H) as [M2 C2]. split; [lia|].
    intros x [->|Hin] Hx'; [specialize (C1 Hx'); lia|apply C2; assumption].
Qed.

Lemma leader_steps_commit_mono T : forall ms L L',
  T <> 0 -> r_state L = Leader -> r_term L = T -> Forall (resp_typed T) ms ->
  steps L ms = Ok L' -> committed (r_log L) <= committed (r_log L').
Proof.
  induction ms as [|m t IH]; intros L L' HT Hs Ht Hall H; cbn [steps] in H.
  - assert (L' = L) by congruence. subst L'. lia.
  - inv_bind H. destruct x as [L1 c1]. cbn [fst] in H.
    pose proof (Forall_inv Hall) as Hm. pose proof Hm as (Hm1 & Hm2).
    pose proof (leader_step_fr T L m L1 c1 HT Hs Ht Hm Hx) as (G1 & _ & _ & _ & _ & _ & G7).
    assert (M1 : committed (r_log L) <= committed (r_log L1)).
    { destruct (leader_resp_cases T L m L1 c1 HT Hs Ht Hm1 Hm2 Hx)
        as (_ & [(Hlog & _)|(pg & pr2 & r1 & cmt & _ & _ & _ & Hmc & Hlog & _)]).
      - rewrite Hlog. lia.
      - rewrite Hlog. apply maybe_commit_log in Hmc. apply log_maybe_commit_facts in Hmc.
        destruct Hmc as (M & _). exact M. }
    pose proof (IH L1 L' HT ltac:(congruence) ltac:(congruence) (Forall_inv_tail Hall) H). lia.
Qed.

Section ViewCommit.

Variables (LL : LL) (T l f lo : N) (rw : bool).
Hypothesis HLL : LeaderLog LL.
Hypothesis Hlo : ll_base LL <= lo.
Hypothesis HloT : exists t, ll_term LL lo = SOk t.
Hypothesis HT : T <> 0.
Hypothesis Hlf : l <> f.
Variables (rwl : bool) (l0 : raft_log).
Hypothesis Hl0 : RepInv rwl l0.
Hypothesis Habs0 : abs l0 = LL.

Local Notation LCore := (LCore T l l0).
Local Notation PairInv := (PairInv LL T l f lo rw l0).
Local Notation vrounds := (vrounds T f).

(* the heartbeat queued for f by the firing tick carries min (matched, committed) *)
Lemma leader_tick_hb L pr L2 hr :
  LCore L -> get_pr L f = Some pr -> tick L = Ok (L2, hr) ->
  r_heartbeat_timeout L <= r_heartbeat_elapsed L + 1 ->
  exists x, In x (r_msgs L2) /\ m_to x = f /\ m_type x = MsgHeartbeat /\
            m_commit x = N.min (matched pr) (committed (r_log L)).
Proof.
  intros HC Hg H Hfire. pose proof HC as [C1 C2 C3 C4 C5 C6 C7 C8].
  assert (Hbeat : forall X hr0, LCore X -> get_pr X f = Some pr -> r_log X = r_log L ->
                    r_heartbeat_timeout X <= r_heartbeat_elapsed X ->
                    beat_phase X hr0 = Ok (L2, hr) ->
                    exists x, In x (r_msgs L2) /\ m_to x = f /\ m_type x = MsgHeartbeat /\
                              m_commit x = N.min (matched pr) (committed (r_log L))).
  { intros X hr0 HX HgX HlX Hle Hb. unfold beat_phase in Hb.
    destruct (r_heartbeat_timeout X <=? r_heartbeat_elapsed X) eqn:E; [|apply N.leb_gt in E; lia].
    rewrite bcast_heartbeat_eq in Hb. cbn [bind] in Hb. inversion Hb; subst L2 hr; clear Hb.
    set (X0 := X <| r_heartbeat_elapsed := 0 |>).
    exists (hb_msg X0 (ro_last_pending_request_ctx (r_read_only X0)) f).
    split.
    { cbn. apply in_or_app. right. apply in_map. apply filter_In. split.
      - unfold get_pr in HgX. eapply pget_some_in. exact HgX.
      - rewrite (lc_id _ _ _ _ HX). apply negb_true_iff. apply N.eqb_neq. congruence. }
    split; [apply hb_msg_to|].
    unfold hb_msg. change (get_pr X0 f) with (get_pr X f). rewrite HgX.
    change (r_log X0) with (r_log X). rewrite HlX.
    destruct (ro_last_pending_request_ctx (r_read_only X0)); split; reflexivity. }
  destruct (N.lt_ge_cases (r_election_elapsed L + 1) (r_election_timeout L)) as [He|He].
  - rewrite (leader_heartbeats L C1 He) in H.
    apply (Hbeat (ticked L) false); [constructor; cbn; auto|exact Hg|reflexivity|cbn; exact Hfire|exact H].
  - rewrite (checkquorum_stepdown L C1 He), C7 in H.
    apply (Hbeat (after_check L false) false); [constructor; cbn; auto|exact Hg|reflexivity|cbn; exact Hfire|exact H].
Qed.

Lemma other_ok_typed m : other_ok T f m -> resp_typed T m.
Proof. intros (A & _ & B). split; assumption. Qed.

(* commit-index facts of one round seen from f *)
Lemma view_round_commit Hb a L F pre post L' F' pr :
  PairInv Hb a L F -> get_pr L f = Some pr ->
  Forall (other_ok T f) pre -> Forall (other_ok T f) post ->
  view_round L F pre post = Ok (L', F') ->
  committed (r_log L) <= committed (r_log L') /\
  committed (r_log F) <= committed (r_log F') /\
  (forall x, In x (to_peer f (r_msgs L)) -> m_type x = MsgHeartbeat ->
             m_commit x <= committed (r_log F')) /\
  (Hb <= r_heartbeat_elapsed L + 1 ->
     exists pr1 x, get_pr L' f = Some pr1 /\ In x (to_peer f (r_msgs L')) /\
       m_type x = MsgHeartbeat /\ m_commit x = N.min (matched pr1) (committed (r_log L'))).
Proof.
  intros HI Hg Hpre Hpost H.
  destruct (view_round_inv LL T l f lo rw HLL Hlo HloT HT Hlf rwl l0 Hl0 Habs0 Hb a L F pre post L' F' pr
              HI Hg Hpre Hpost H) as (a' & pr' & _ & HI' & Hg' & _).
  destruct HI as [HC (pr0 & Hg0 & HP) HF HFq Hq HH Htm].
  unfold view_round in H. rewrite (fi_id _ _ _ _ _ _ _ HF), (lc_id _ _ _ _ HC) in H.
  set (Q := to_peer f (r_msgs L)) in *.
  inv_bind H. rename x into F1. inv_bind H. rename x into L1. inv_bind H. destruct x as [L2 hrl].
  inv_bind H. destruct x as [F2 hrf]. cbn [fst] in H. inversion H; subst L' F'; clear H.
  (* the follower's steps *)
  assert (HQty : Forall (fun m => m_term m = T /\ (m_type m = MsgAppend \/ m_type m = MsgHeartbeat)) Q).
  { eapply Forall_impl; [|exact Hq]. intros m [(A & B & _)|(A & B & _)]; auto. }
  destruct (follower_steps_commit T Q F F1 HT (fi_state _ _ _ _ _ _ _ HF) (fi_term _ _ _ _ _ _ _ HF) HQty Hx)
    as [MF CF].
  destruct (follower_steps LL T l f lo rw HLL Hlo HT Hlf Q a F F1 HF Hq Hx)
    as (a1 & resps & La & HF1 & Fr1 & M1 & Ch & E1 & Eq1 & _).
  rewrite HFq in M1. cbn [app] in M1.
  destruct (follower_frame_fields _ _ Fr1) as (Fp & Fra & Fid).
  (* the follower's tick does not fire *)
  set (F1c := F1 <| r_msgs := [] |>) in *.
  assert (HF1c : FInv LL T f lo rw a1 F1c) by (destruct HF1; constructor; cbn; auto).
  assert (Hwait : r_promotable F1c = false \/
                  r_election_elapsed F1c + 1 < r_randomized_election_timeout F1c).
  { change (r_promotable F1c) with (r_promotable F1).
    change (r_election_elapsed F1c) with (r_election_elapsed F1).
    change (r_randomized_election_timeout F1c) with (r_randomized_election_timeout F1).
    rewrite Fp, Fra. destruct Htm as [Htm|[Htm1 Htm2]]; [left; exact Htm|right].
    destruct Q as [|q0 qt] eqn:EQ.
    - rewrite (Eq1 eq_refl). specialize (Htm2 eq_refl). lia.
    - rewrite E1 by discriminate. lia. }
  destruct (follower_tick LL T f lo rw a1 F1c F2 hrf HF1c Hwait Hx2) as [EF2 _].
  assert (HlogF2 : r_log F2 = r_log F1) by (rewrite EF2; reflexivity).
  (* the leader *)
  rewrite M1, (to_peer_all l resps (resp_chain_to _ _ _ _ _ _ Ch)) in Hx0.
  set (L0 := L <| r_msgs := [] |>) in *.
  assert (HC0 : LCore L0) by (destruct HC; constructor; cbn; auto).
  assert (Hty : Forall (resp_typed T) (pre ++ resps ++ post)).
  { apply Forall_app. split; [eapply Forall_impl; [|exact Hpre]; apply other_ok_typed|].
    apply Forall_app. split; [|eapply Forall_impl; [|exact Hpost]; apply other_ok_typed].
    pose proof (resp_chain_all T l f _ _ _ Ch) as Hall. eapply Forall_impl; [|exact Hall].
    intros m (b & Rt & _ & _ & Rk). split; [exact Rt|].
    destruct Rk as [(A & B)|[(A & _)|(A & _)]]; auto. }
  pose proof (leader_steps_commit_mono T _ L0 L1 HT (lc_state _ _ _ _ HC0) (lc_term _ _ _ _ HC0) Hty Hx0) as ML.
  pose proof (steps_lfr T _ L0 L1 HT (lc_state _ _ _ _ HC0) (lc_term _ _ _ _ HC0) Hty Hx0) as Hl1.
  pose proof (lfr_LCore _ _ _ _ _ Hl1 HC0) as HC1.
  destruct (lfr_fields _ _ Hl1) as [Ht1 He1].
  change (r_heartbeat_timeout L0) with (r_heartbeat_timeout L) in Ht1.
  change (r_heartbeat_elapsed L0) with (r_heartbeat_elapsed L) in He1.
  destruct (leader_tick_frame T l l0 L1 L2 hrl HC1 Hx1) as (HC2 & Hlog2 & Hprs2).
  split; [rewrite Hlog2; exact ML|]. split; [rewrite HlogF2; exact MF|].
  split; [intros x Ix Tx; rewrite HlogF2; apply CF; assumption|].
  intros Hfire.
  assert (Hg1 : get_pr L1 f = Some pr').
  { unfold get_pr in *. rewrite <- Hprs2. exact Hg'. }
  destruct (leader_tick_hb L1 pr' L2 hrl HC1 Hg1 Hx1 ltac:(rewrite Ht1, He1, HH; exact Hfire))
    as (x & Ix & Tx & Ty & Cx).
  exists pr', x. split; [exact Hg'|]. split; [apply In_to_peer; assumption|]. split; [exact Ty|].
  rewrite Hlog2. exact Cx.
Qed.

(* the follower's commit index reaches the leader's, once matched and the leader's commit
   index are at [last] *)
Lemma v_commit_mono n : forall Hb a L F pr L' F',
  PairInv Hb a L F -> get_pr L f = Some pr -> vrounds n L F L' F' ->
  committed (r_log L) <= committed (r_log L') /\ committed (r_log F) <= committed (r_log F').
Proof.
  induction n as [|n IH]; intros Hb a L F pr L' F' HI Hg H.
  - inversion H; subst L' F'. lia.
  - inversion H as [|n0 L0 F0 pre post L1 F1 L2 F2 Hp Hq Hv Hr]; subst n0 L0 F0 L2 F2.
    destruct (view_round_inv LL T l f lo rw HLL Hlo HloT HT Hlf rwl l0 Hl0 Habs0 Hb a L F pre post L1 F1 pr
                HI Hg Hp Hq Hv) as (a1 & pr1 & _ & HI1 & Hg1 & _).
    destruct (view_round_commit Hb a L F pre post L1 F1 pr HI Hg Hp Hq Hv) as (A & B & _).
    destruct (IH Hb a1 L1 F1 pr1 L' F' HI1 Hg1 Hr). lia.
Qed.

Lemma v_commit_after_fire Hb a L F pr L' F' :
  PairInv Hb a L F -> get_pr L f = Some pr -> matched pr = ll_last LL ->
  ll_last LL <= committed (r_log L) -> Hb <= r_heartbeat_elapsed L + 1 ->
  vrounds 2 L F L' F' -> committed (r_log F') = ll_last LL.
Proof.
  intros HI Hg Hm Hc Hfire H.
  inversion H as [|n0 L0 F0 pre1 post1 L1 F1 L9 F9 Hp1 Hq1 Hv1 Hr1]; subst n0 L0 F0 L9 F9.
  inversion Hr1 as [|n0 L0 F0 pre2 post2 L2 F2 L9 F9 Hp2 Hq2 Hv2 Hr2]; subst n0 L0 F0 L9 F9.
  inversion Hr2; subst L' F'.
  destruct (view_round_inv LL T l f lo rw HLL Hlo HloT HT Hlf rwl l0 Hl0 Habs0 Hb a L F _ _ L1 F1 pr
              HI Hg Hp1 Hq1 Hv1) as (a1 & pr1 & _ & HI1 & Hg1 & Hm1 & _).
  destruct (view_round_commit Hb a L F _ _ L1 F1 pr HI Hg Hp1 Hq1 Hv1) as (A1 & _ & _ & Hhb).
  destruct (Hhb Hfire) as (pr1' & x & Hg1' & Ix & Tx & Cx).
  rewrite Hg1 in Hg1'. inversion Hg1'; subst pr1'.
  destruct (PairInv_matched_le _ _ _ _ _ _ _ _ _ _ _ _ HI1 Hg1) as [HP1 Ha1].
  pose proof (pi_b _ _ _ _ HP1) as Hb1.
  destruct (view_round_inv LL T l f lo rw HLL Hlo HloT HT Hlf rwl l0 Hl0 Habs0 Hb a1 L1 F1 _ _ L2 F2 pr1
              HI1 Hg1 Hp2 Hq2 Hv2) as (a2 & pr2 & _ & HI2 & Hg2 & _).
  destruct (view_round_commit Hb a1 L1 F1 _ _ L2 F2 pr1 HI1 Hg1 Hp2 Hq2 Hv2) as (_ & _ & C2 & _).
  specialize (C2 x Ix Tx). rewrite Cx in C2.
  pose proof (fi_commit _ _ _ _ _ _ _ (pv_F _ _ _ _ _ _ _ _ _ _ _ HI2)) as Hle.
  pose proof (ag_lastL _ _ _ _ (fi_agree _ _ _ _ _ _ _ (pv_F _ _ _ _ _ _ _ _ _ _ _ HI2))) as Ha2.
  lia.
Qed.

Lemma v_commit_within d : forall Hb a L F pr L' F',
  PairInv Hb a L F -> get_pr L f = Some pr -> matched pr = ll_last LL ->
  ll_last LL <= committed (r_log L) -> Hb <= r_heartbeat_elapsed L + 1 + N.of_nat d ->
  vrounds (d + 2) L F L' F' -> committed (r_log F') = ll_last LL.
Proof.
  induction d as [|d IH]; intros Hb a L F pr L' F' HI Hg Hm Hc Hd H.
  - apply (v_commit_after_fire Hb a L F pr L' F' HI Hg Hm Hc); [cbn in Hd; lia|exact H].
  - assert (Hstay : forall a1 L1 F1 pr1 k,
              PairInv Hb a1 L1 F1 -> get_pr L1 f = Some pr1 -> committed (r_log F1) = ll_last LL ->
              vrounds k L1 F1 L' F' -> committed (r_log F') = ll_last LL).
    { intros a1 L1 F1 pr1 k HI1 Hg1 Hc1 Hr.
      destruct (v_commit_mono k Hb a1 L1 F1 pr1 L' F' HI1 Hg1 Hr) as [_ MF].
      destruct (vrounds_mono LL T l f lo rw HLL Hlo HloT HT Hlf rwl l0 Hl0 Habs0 k Hb a1 L1 F1 pr1 L' F'
                  HI1 Hg1 Hr) as (a' & pr' & _ & HI' & _).
      pose proof (fi_commit _ _ _ _ _ _ _ (pv_F _ _ _ _ _ _ _ _ _ _ _ HI')) as Hle.
      pose proof (ag_lastL _ _ _ _ (fi_agree _ _ _ _ _ _ _ (pv_F _ _ _ _ _ _ _ _ _ _ _ HI'))) as Ha'.
      lia. }
    destruct (N.lt_ge_cases (r_heartbeat_elapsed L + 1) Hb) as [Hq|Hf].
    + change (S d + 2)%nat with (S (d + 2)) in H.
      inversion H as [|n0 L0 F0 pre post L1 F1 L9 F9 Hp1 Hq1 Hv1 Hr1]; subst n0 L0 F0 L9 F9.
      destruct (view_round_inv LL T l f lo rw HLL Hlo HloT HT Hlf rwl l0 Hl0 Habs0 Hb a L F _ _ L1 F1 pr
                  HI Hg Hp1 Hq1 Hv1) as (a1 & pr1 & _ & HI1 & Hg1 & Hm1 & _ & _ & _ & _ & Hh1).
      destruct (view_round_commit Hb a L F _ _ L1 F1 pr HI Hg Hp1 Hq1 Hv1) as (A1 & _).
      destruct (PairInv_matched_le _ _ _ _ _ _ _ _ _ _ _ _ HI1 Hg1) as [HP1 Ha1].
      pose proof (pi_b _ _ _ _ HP1). specialize (Hh1 Hq).
      apply (IH Hb a1 L1 F1 pr1 L' F' HI1 Hg1); [lia|lia|lia|exact Hr1].
    + replace (S d + 2)%nat with (2 + S d)%nat in H by lia.
      destruct (vrounds_split T f _ _ _ _ _ _ H) as (L1 & F1 & H2 & Hrest).
      pose proof (v_commit_after_fire Hb a L F pr L1 F1 HI Hg Hm Hc Hf H2) as Hc1.
      destruct (vrounds_mono LL T l f lo rw HLL Hlo HloT HT Hlf rwl l0 Hl0 Habs0 2 Hb a L F pr L1 F1
                  HI Hg H2) as (a1 & pr1 & _ & HI1 & Hg1 & _).
      eapply Hstay; eassumption.
Qed.

End ViewCommit.

(* ================================================================== *)
(* 7.9 the star: everybody commits                                     *)
(* ================================================================== *)

Lemma star_rounds_split k : forall j L Fs,
  star_rounds (k + j) L Fs = (x <- star_rounds k L Fs ;; star_rounds j (fst x) (snd x)).
Proof.
  induction k as [|k IH]; intros j L Fs; cbn [star_rounds Nat.add]; [reflexivity|].
  destruct (star_round L Fs) as [[L1 Fs1]|s]; cbn [bind fst snd]; [apply IH|reflexivity].
Qed.

Lemma Forall2_compose {A B C} (P : A -> B -> Prop) (Q : B -> C -> Prop) (R : A -> C -> Prop) :
  (forall x y z, P x y -> Q y z -> R x z) ->
  forall xs ys zs, Forall2 P xs ys -> Forall2 Q ys zs -> Forall2 R xs zs.
Proof.
  intros H xs ys zs H1. revert zs. induction H1 as [|x y xs ys Hp _ IH]; intros zs H2.
  - inversion H2. constructor.
  - inversion H2 as [|? z ? zs' Hq Hr]; subst. constructor; [eapply H; eassumption|apply IH; exact Hr].
Qed.

Section StarFinal.

Variables (LL : LL) (T l : N) (rw rwl : bool) (l0 : raft_log) (lof : N -> N).
Hypothesis HLL : LeaderLog LL.
Hypothesis HT : T <> 0.
Hypothesis Hl0 : RepInv rwl l0.
Hypothesis Habs0 : abs l0 = LL.
Hypothesis HlastT : ll_term LL (ll_last LL) = SOk T.

Local Notation StarInv := (StarInv LL T l rw l0 lof).

(* a follower that has everything *)
Definition fol_done (L' : raft) (F F' : raft) : Prop :=
  r_id F' = r_id F /\
  (exists pr', get_pr L' (r_id F) = Some pr' /\ matched pr' = ll_last LL) /\
  Agree LL (abs (r_log F')) (lof (r_id F)) (ll_last LL).

(* from a converged star whose leader has committed its log: heartbeat_timeout + 1 rounds
   later every follower has committed it too *)
Lemma star_followers_commit Hb L Fs K L' Fs' :
  StarInv Hb L Fs -> 1 <= Hb ->
  (forall F, In F Fs -> exists pr, get_pr L (r_id F) = Some pr /\ matched pr = ll_last LL) ->
  ll_last LL <= committed (r_log L) ->
  (N.to_nat (Hb + 1) <= K)%nat ->
  star_rounds K L Fs = Ok (L', Fs') ->
  Forall2 (fun F F' => fol_done L' F F' /\ committed (r_log F') = ll_last LL) Fs Fs'.
Proof.
  intros HS HH Hdone Hc HK H.
  destruct (star_rounds_view LL T l rw rwl l0 lof HLL HT Hl0 Habs0 K Hb L Fs L' Fs' HS H) as [HS' HV].
  destruct HS as [_ Hall]. rewrite Forall_forall in Hall.
  eapply Forall2_impl_in; [|exact HV]. clear HV. intros F F' HF (Eid & Hv).
  destruct (Hall F HF) as (Hlg & Hlo & HloT & a & HI).
  destruct (Hdone F HF) as (pr & Hg & Hm).
  set (d := N.to_nat (Hb - 1 - r_heartbeat_elapsed L)).
  assert (HdK : (d + 2 <= K)%nat) by (subst d; lia).
  replace K with ((d + 2) + (K - (d + 2)))%nat in Hv by lia.
  destruct (vrounds_split T (r_id F) _ _ _ _ _ _ Hv) as (L1 & F1 & Hd & Hrest).
  pose proof (v_commit_within LL T l (r_id F) (lof (r_id F)) rw HLL Hlo HloT HT Hlg rwl l0 Hl0 Habs0
                d Hb a L F pr L1 F1 HI Hg Hm Hc ltac:(subst d; lia) Hd) as Hc1.
  destruct (v_converged_stays LL T l (r_id F) (lof (r_id F)) rw HLL Hlo HloT HT Hlg rwl l0 Hl0 Habs0
              _ Hb a L F pr L1 F1 HI Hg Hm Hd) as (a1 & pr1 & HI1 & Hg1 & Hm1).
  destruct (v_converged_stays LL T l (r_id F) (lof (r_id F)) rw HLL Hlo HloT HT Hlg rwl l0 Hl0 Habs0
              _ Hb a1 L1 F1 pr1 L' F' HI1 Hg1 Hm1 Hrest) as (a' & pr' & HI' & Hg' & Hm').
  destruct (v_commit_mono LL T l (r_id F) (lof (r_id F)) rw HLL Hlo HloT HT Hlg rwl l0 Hl0 Habs0
              _ Hb a1 L1 F1 pr1 L' F' HI1 Hg1 Hrest) as [_ MF].
  pose proof (pv_F _ _ _ _ _ _ _ _ _ _ _ HI') as HF'.
  pose proof (fi_commit _ _ _ _ _ _ _ HF') as Hle.
  pose proof (fi_agree _ _ _ _ _ _ _ HF') as Hag. pose proof (ag_lastL _ _ _ _ Hag) as Ha'.
  destruct (PairInv_matched_le _ _ _ _ _ _ _ _ _ _ _ _ HI' Hg') as [HP' _]. pose proof (pi_b _ _ _ _ HP').
  split; [|lia]. split; [exact Eid|]. split; [exists pr'; auto|].
  replace (ll_last LL) with a' by lia. exact Hag.
Qed.

(* MAIN 7c (star_commit): the whole run.  After the convergence bound plus
   heartbeat_timeout + 1 rounds: the leader and every follower have committed the leader's
   whole log, every follower's log agrees with it, every matched is last_index. *)
Theorem star_commit Hb L Fs N0 K L' Fs' pl :
  StarInv Hb L Fs -> Fs <> [] -> 1 <= Hb ->
  (forall F, In F Fs -> (star_bound Hb (ll_last LL) (lof (r_id F)) <= N0)%nat) ->
  incoming (conf_of L) <> [] ->
  (forall v, In v (incoming (conf_of L)) \/ In v (outgoing (conf_of L)) ->
             v = l \/ In v (map r_id Fs)) ->
  get_pr L l = Some pl -> matched pl = ll_last LL ->
  CommitInv (ll_last LL) L ->
  (N.to_nat (Hb + 1) <= K)%nat ->
  star_rounds (N0 + K) L Fs = Ok (L', Fs') ->
  committed (r_log L') = ll_last LL /\
  Forall2 (fun F F' => fol_done L' F F' /\ committed (r_log F') = ll_last LL) Fs Fs'.
Proof.
  intros HS Hne HH HN Hinc Hvot Hgl Hml HCI HK H.
  rewrite star_rounds_split in H. inv_bind H. destruct x as [L1 Fs1]. cbn [fst snd] in H.
  destruct (star_converges LL T l rw rwl l0 lof HLL HT Hl0 Habs0 Hb L Fs N0 L1 Fs1 HS HH HN Hx) as [HS1 HF1].
  pose proof (star_leader_commits LL T l rw rwl l0 lof HLL HT Hl0 Habs0 HlastT Hb L Fs N0 L1 Fs1 pl
                HS Hne HH HN Hinc Hvot Hgl Hml HCI Hx) as Hc1.
  destruct (star_rounds_CommitInv LL T l rw rwl l0 lof HLL HT Hl0 Habs0 HlastT N0 Hb L Fs L1 Fs1
              HS Hne Hinc HCI Hx) as (Cf1 & CI1 & _ & _).
  assert (Hne1 : Fs1 <> []).
  { intros E. subst Fs1. inversion HF1. subst Fs. congruence. }
  assert (Hids : map r_id Fs1 = map r_id Fs) by (eapply Forall2_ids; exact HF1).
  assert (Hdone1 : forall F1, In F1 Fs1 ->
            exists pr, get_pr L1 (r_id F1) = Some pr /\ matched pr = ll_last LL).
  { clear - HF1. induction HF1 as [|x y xs ys (E & pr' & Hg & Hm & _) _ IH]; intros F1 HIn; [destruct HIn|].
    destruct HIn as [<-|HIn]; [rewrite E; eauto|apply IH; exact HIn]. }
  pose proof (star_followers_commit Hb L1 Fs1 K L' Fs' HS1 HH Hdone1 ltac:(lia) HK H) as HF2.
  destruct (star_rounds_CommitInv LL T l rw rwl l0 lof HLL HT Hl0 Habs0 HlastT K Hb L1 Fs1 L' Fs'
              HS1 Hne1 ltac:(rewrite Cf1; exact Hinc) CI1 H) as (_ & [CL _] & ML & _).
  split; [lia|].
  eapply Forall2_compose; [|exact HF1|exact HF2].
  intros F F1 F' (E1 & pr1 & _ & _ & A1) (D2 & C2). destruct D2 as (E2 & (pr' & Hg' & Hm') & A2). cbn beta.
  split; [|exact C2]. split; [congruence|]. rewrite E1 in Hg', A2. split; [eauto|exact A2].
Qed.

End StarFinal.

(* ================================================================== *)
(* 7.10 the theorems, with explicit hypotheses                         *)
(* ================================================================== *)

(* the start conditions of one follower F (those of pair_convergence) *)
Definition star_start (L : raft) (rwf : bool) (F : raft) : Prop :=
  r_id L <> r_id F /\ to_peer (r_id F) (r_msgs L) = [] /\
  exists pr a,
    get_pr L (r_id F) = Some pr /\ (pr_state pr = Probe \/ pr_state pr = Replicate) /\
    matched pr < next_idx pr /\ next_idx pr <= last_index (r_log L) + 1 /\
    pending_request_snapshot pr = 0 /\
    incoming_cap (ins pr) = None /\ (0 < cap (ins pr))%nat /\
    ll_base (abs (r_log L)) <= matched pr /\
    (exists t, ll_term (abs (r_log L)) (matched pr) = SOk t) /\
    r_state F = Follower /\ r_term F = r_term L /\ RepInv rwf (r_log F) /\
    r_pending_request_snapshot F = 0 /\ r_msgs F = [] /\
    Agree (abs (r_log L)) (abs (r_log F)) (matched pr) a /\ committed (r_log F) <= a /\
    (r_promotable F = false \/
     r_election_elapsed F + r_heartbeat_timeout L + 1 < r_randomized_election_timeout F).

(* the start conditions of the leader *)
Definition star_leader (L : raft) (rwl : bool) : Prop :=
  r_state L = Leader /\ r_term L <> 0 /\ RepInv rwl (r_log L) /\
  (forall e, In e (ll_ents (abs (r_log L))) -> e_term e <> 0) /\
  r_batch_append L = false /\ r_lead_transferee L = None /\ r_check_quorum L = false /\
  ro_queue (r_read_only L) = [] /\ 1 <= r_heartbeat_timeout L.

(* the index from which follower id is known to agree: its matched at the start *)
Definition start_matched (L : raft) (id : N) : N :=
  match get_pr L id with Some p => matched p | None => 0 end.

(* what is reached for follower F *)
Definition star_done (L L' : raft) (F F' : raft) : Prop :=
  r_id F' = r_id F /\
  (exists pr', get_pr L' (r_id F) = Some pr' /\ matched pr' = last_index (r_log L)) /\
  Agree (abs (r_log L)) (abs (r_log F')) (start_matched L (r_id F)) (last_index (r_log L)).

Lemma star_start_StarInv L Fs rwl rwf :
  star_leader L rwl -> NoDup (map r_id Fs) -> Forall (star_start L rwf) Fs ->
  LeaderLog (abs (r_log L)) /\
  StarInv (abs (r_log L)) (r_term L) (r_id L) rwf (r_log L) (start_matched L)
          (r_heartbeat_timeout L) L Fs.
Proof.
  intros (Ls & Lt & Lrep & Lnz & Lb & Ltr & Lcq & Lro & LH) Hnd Hall.
  assert (HLL : LeaderLog (abs (r_log L))).
  { constructor; [apply (abs_wf rwl _ Lrep)|exact Lnz|apply (ri_bound rwl _ Lrep)]. }
  split; [exact HLL|]. split; [exact Hnd|].
  eapply Forall_impl; [|exact Hall]. intros F (Lid & Lq & pr & a & Pg & Pst & Pn & PnL & Pq & Pic & Pcap &
    Pbase & Pterm & Fs0 & Ft & Frep & Fq & Fm & Fag & Fc & Ftimer).
  pose proof (abs_last rwl _ Lrep) as Hlast.
  unfold FolInv, start_matched. rewrite Pg.
  split; [exact Lid|]. split; [exact Pbase|]. split; [exact Pterm|]. exists a.
  constructor.
  - constructor; auto. apply same_ents_refl.
  - exists pr. split; [exact Pg|].
    constructor; [exact Pst|lia|apply (ag_lo _ _ _ _ Fag)|exact Pn|rewrite <- Hlast; exact PnL|
                  exact Pq|exact Pic|exact Pcap].
  - constructor; auto.
  - exact Fm.
  - rewrite Lq. constructor.
  - reflexivity.
  - destruct Ftimer as [Ft1|Ft1]; [left; exact Ft1|right]. split; [lia|]. intros _. lia.
Qed.

(* MAIN 7 (star_convergence).  One leader L and followers Fs with distinct ids, each
   satisfying the start conditions of pair_convergence (star_start), under the lock-step
   schedule [star_round].  If N0 rounds run without a panic, N0 at least the pair bound
   (heartbeat_timeout + 2) * pair_measure_bound last matched of EVERY follower (i.e. the
   maximum of the pair bounds), then for every follower: L's Progress has
   matched = last_index L and the follower's log agrees with L's up to last_index L. *)
Theorem star_convergence :
  forall (L : raft) (Fs : list raft) (rwl rwf : bool) (N0 : nat) (L' : raft) (Fs' : list raft),
  star_leader L rwl -> Fs <> [] -> NoDup (map r_id Fs) -> Forall (star_start L rwf) Fs ->
  (forall F, In F Fs ->
     (N.to_nat (r_heartbeat_timeout L + 2) *
      N.to_nat (pair_measure_bound (last_index (r_log L)) (start_matched L (r_id F))) <= N0)%nat) ->
  star_rounds N0 L Fs = Ok (L', Fs') ->
  Forall2 (star_done L L') Fs Fs' /\
  r_state L' = Leader /\ r_term L' = r_term L /\ last_index (r_log L') = last_index (r_log L).
Proof.
  intros L Fs rwl rwf N0 L' Fs' HL Hne Hnd Hall HN H.
  destruct (star_start_StarInv L Fs rwl rwf HL Hnd Hall) as [HLL HS].
  destruct HL as (Ls & Lt & Lrep & Lnz & Lb & Ltr & Lcq & Lro & LH).
  pose proof (abs_last rwl _ Lrep) as Hlast.
  destruct (star_converges (abs (r_log L)) (r_term L) (r_id L) rwf rwl (r_log L) (start_matched L)
              HLL Lt Lrep eq_refl (r_heartbeat_timeout L) L Fs N0 L' Fs' HS LH
              ltac:(intros F HF; unfold star_bound; rewrite <- Hlast; apply HN; exact HF) H) as [HS' HF].
  split.
  { eapply Forall2_impl_in; [|exact HF]. intros F F' _ (E & pr' & Hg & Hm & Ag).
    unfold star_done. rewrite Hlast. split; [exact E|]. split; [eauto|exact Ag]. }
  assert (HLs : r_state L' = Leader /\ r_term L' = r_term L /\ last_index (r_log L') = last_index (r_log L)).
  { destruct Fs as [|F0 t].
    - congruence.
    - destruct HS' as [_ HA']. inversion HF as [|? F0' ? t' _ _]; subst.
      pose proof (Forall_inv HA') as (_ & _ & _ & a & HI).
      pose proof (pv_core _ _ _ _ _ _ _ _ _ _ _ HI) as HC.
      split; [apply (lc_state _ _ _ _ HC)|]. split; [apply (lc_term _ _ _ _ HC)|].
      destruct (lc_log _ _ _ _ HC) as (A & B & _). unfold last_index. rewrite A, B. reflexivity. }
  exact HLs.
Qed.

(* MAIN 7' (star_commit_all).  In addition: the last entry of L's log is of L's term (true
   after become_leader: the no-op entry), L's own Progress has matched = last_index (its log
   is persisted; persistence itself is not modelled), the voters are L and (some of) the
   followers, and L's commit index is consistent with the Progress map at the start
   (CommitInv: at most last_index, and equal to it if every voter's matched already is -
   i.e. some voter still lags, or the log is already committed).  Then after the
   convergence bound plus heartbeat_timeout + 1 more rounds the leader and every follower
   have commit index = last_index L. *)
Theorem star_commit_all :
  forall (L : raft) (Fs : list raft) (rwl rwf : bool) (pl : progress) (N0 K : nat)
         (L' : raft) (Fs' : list raft),
  star_leader L rwl -> Fs <> [] -> NoDup (map r_id Fs) -> Forall (star_start L rwf) Fs ->
  (forall F, In F Fs ->
     (N.to_nat (r_heartbeat_timeout L + 2) *
      N.to_nat (pair_measure_bound (last_index (r_log L)) (start_matched L (r_id F))) <= N0)%nat) ->
  (* commit *)
  ll_term (abs (r_log L)) (last_index (r_log L)) = SOk (r_term L) ->
  incoming (conf_of L) <> [] ->
  (forall v, In v (incoming (conf_of L)) \/ In v (outgoing (conf_of L)) ->
             v = r_id L \/ In v (map r_id Fs)) ->
  get_pr L (r_id L) = Some pl -> matched pl = last_index (r_log L) ->
  CommitInv (last_index (r_log L)) L ->
  (N.to_nat (r_heartbeat_timeout L + 1) <= K)%nat ->
  star_rounds (N0 + K) L Fs = Ok (L', Fs') ->
  committed (r_log L') = last_index (r_log L) /\
  Forall2 (fun F F' => star_done L L' F F' /\ committed (r_log F') = last_index (r_log L)) Fs Fs'.
Proof.
  intros L Fs rwl rwf pl N0 K L' Fs' HL Hne Hnd Hall HN HlT Hinc Hvot Hgl Hml HCI HK H.
  destruct (star_start_StarInv L Fs rwl rwf HL Hnd Hall) as [HLL HS].
  destruct HL as (Ls & Lt & Lrep & Lnz & Lb & Ltr & Lcq & Lro & LH).
  pose proof (abs_last rwl _ Lrep) as Hlast. rewrite Hlast in *.
  destruct (star_commit (abs (r_log L)) (r_term L) (r_id L) rwf rwl (r_log L) (start_matched L)
              HLL Lt Lrep eq_refl HlT (r_heartbeat_timeout L) L Fs N0 K L' Fs' pl HS Hne LH
              ltac:(intros F HF; unfold star_bound; apply HN; exact HF)
              Hinc Hvot Hgl Hml HCI HK H) as [HcL HF].
  split; [exact HcL|].
  eapply Forall2_impl_in; [|exact HF]. intros F F' _ ((E & (pr' & Hg & Hm) & Ag) & Hc).
  split; [|exact Hc]. unfold star_done. rewrite Hlast. split; [exact E|]. split; [eauto|exact Ag].
Qed.

(* ================================================================== *)
(* example star (used by the non-vacuity Examples of Props/C10.v)      *)
(* ================================================================== *)

(* leader 1 (term 2, entries 1..5 of terms 1,1,2,2,2, nothing committed), follower 2
   (entries 1..3 of terms 1,1,1: entry 3 diverges) tracked as a PAUSED probe at next_idx 5,
   follower 3 (entries 1..2) tracked as Replicate with a FULL window of stale indexes *)
Definition sp_cs : conf_state := mkCS [1; 2; 3] [] [] [] false.
Definition sp_prs : tracker :=
  mkTr [(1, mkPr 5 6 Replicate false 0 0 true (Inflights.new 256) 0 0);
        (2, xp_pr_probe); (3, xp_pr_repl)]
       (mkConf [1; 2; 3] [] [] [] false) [] 256 false.
Definition sp_L : raft :=
  mkRaft 2 1 1 [] xp_logL 256 1000 0 Leader true 1 None 0 (ro_new 0) 0 0
         false false false false false 2 10 15 10 20 0%Z u64_max 0 5 u64_max
         sp_prs [] [] None.
Definition sp_storeF3 : MemStorage.mem :=
  mkMem (mkHS 2 1 0) sp_cs [xp_ent 1 1; xp_ent 2 1] 0 0 false false None.
Definition sp_logF3 : raft_log := mkLog sp_storeF3 (u_new 3) 0 2 0 0.
Definition sp_F2 : raft := xp_F.
Definition sp_F3 : raft :=
  mkRaft 2 1 3 [] sp_logF3 256 1000 0 Follower true 1 None 0 (ro_new 0) 0 0
         false false false false false 2 10 15 10 20 0%Z u64_max 0 0 u64_max
         sp_prs [] [] None.

Lemma sp_storeF3_inv : SInv sp_storeF3.
Proof. unfold MemStorageProofs.RepInv, next_of, first_of, sp_storeF3, u64_max. cbn. repeat split; lia. Qed.

Lemma sp_logF3_inv : RepInv false sp_logF3.
Proof.
  destruct (log_new_ok sp_storeF3 0 sp_storeF3_inv eq_refl) as (lg & Hl & Hr & _).
  assert (E : log_new sp_storeF3 0 = Ok sp_logF3) by reflexivity.
  rewrite E in Hl. inversion Hl; subst lg. exact Hr.
Qed.

Lemma sp_agree3 : Agree (abs xp_logL) (abs sp_logF3) 0 2.
Proof.
  constructor.
  - lia.
  - vm_compute. discriminate.
  - vm_compute. discriminate.
  - intros i Hi. assert (E : i = 0 \/ i = 1 \/ i = 2) by lia.
    destruct E as [->|[->| ->]]; reflexivity.
  - intros i Hi. assert (E : i = 3 \/ i = 4 \/ i = 5).
    { assert (Hl : ll_last (abs xp_logL) = 5) by reflexivity. rewrite Hl in Hi. lia. }
    destruct E as [->|[->| ->]]; vm_compute; discriminate.
Qed.

Lemma sp_leader : star_leader sp_L false.
Proof.
  unfold star_leader. split; [reflexivity|]. split; [vm_compute; discriminate|].
  split; [exact xp_logL_inv|]. split; [exact xp_nz|].
  repeat (split; [reflexivity|]). vm_compute. discriminate.
Qed.

Lemma sp_start : Forall (star_start sp_L false) [sp_F2; sp_F3].
Proof.
  constructor; [|constructor; [|constructor]].
  - split; [vm_compute; discriminate|]. split; [reflexivity|]. exists xp_pr_probe, 2.
    split; [reflexivity|]. split; [left; reflexivity|]. split; [vm_compute; reflexivity|].
    split; [vm_compute; discriminate|]. split; [reflexivity|]. split; [reflexivity|].
    split; [vm_compute; lia|]. split; [vm_compute; discriminate|]. split; [exists 0; reflexivity|].
    split; [reflexivity|]. split; [reflexivity|]. split; [exact xp_logF_inv|].
    split; [reflexivity|]. split; [reflexivity|]. split; [exact xp_agree|].
    split; [vm_compute; discriminate|]. right. vm_compute. reflexivity.
  - split; [vm_compute; discriminate|]. split; [reflexivity|]. exists xp_pr_repl, 2.
    split; [reflexivity|]. split; [right; reflexivity|]. split; [vm_compute; reflexivity|].
    split; [vm_compute; discriminate|]. split; [reflexivity|]. split; [reflexivity|].
    split; [vm_compute; lia|]. split; [vm_compute; discriminate|]. split; [exists 0; reflexivity|].
    split; [reflexivity|]. split; [reflexivity|]. split; [exact sp_logF3_inv|].
    split; [reflexivity|]. split; [reflexivity|]. split; [exact sp_agree3|].
    split; [vm_compute; discriminate|]. right. vm_compute. reflexivity.
Qed.

Lemma sp_commitinv : CommitInv (last_index (r_log sp_L)) sp_L.
Proof.
  split; [vm_compute; discriminate|]. intros Hall. exfalso.
  destruct (Hall 2 ltac:(left; vm_compute; auto)) as (p & Hg & Hm).
  vm_compute in Hg. inversion Hg; subst p. vm_compute in Hm. discriminate.
Qed.

(* every hypothesis of star_commit_all holds of the example;
   191 = (heartbeat_timeout + 2) * pair_measure_bound 5 0 + heartbeat_timeout + 1 *)
Lemma sp_commit_applies L' Fs' :
  star_rounds (188 + 3) sp_L [sp_F2; sp_F3] = Ok (L', Fs') ->
  committed (r_log L') = 5 /\
  Forall2 (fun F F' => star_done sp_L L' F F' /\ committed (r_log F') = 5) [sp_F2; sp_F3] Fs'.
Proof.
  intros Hrun.
  pose proof (fun H5 H6 H7 H8 H9 H10 H11 H12 =>
    star_commit_all sp_L [sp_F2; sp_F3] false false (mkPr 5 6 Replicate false 0 0 true (Inflights.new 256) 0 0)
      188 3 L' Fs' sp_leader ltac:(discriminate) H5 sp_start H6 H7 H8 H9 H10 H11 sp_commitinv H12 Hrun) as X.
  clear Hrun. apply X; clear X.
  - repeat constructor; cbn; intuition discriminate.
  - intros F [<-|[<-|[]]]; vm_compute; lia.
  - reflexivity.
  - vm_compute. discriminate.
  - intros v [Hv|Hv]; vm_compute in Hv; cbn; intuition.
  - reflexivity.
  - reflexivity.
  - vm_compute. lia.
Qed.

(* and the run does not panic (computed): everybody has the whole log and has committed it *)
Lemma sp_run :
  exists L' F2' F3' p2 p3,
    star_rounds (188 + 3) sp_L [sp_F2; sp_F3] = Ok (L', [F2'; F3']) /\
    committed (r_log L') = 5 /\
    get_pr L' 2 = Some p2 /\ matched p2 = 5 /\ get_pr L' 3 = Some p3 /\ matched p3 = 5 /\
    last_index (r_log F2') = 5 /\ committed (r_log F2') = 5 /\
    last_index (r_log F3') = 5 /\ committed (r_log F3') = 5.
Proof. vm_compute. do 5 eexists. repeat split; reflexivity. Qed.

(* ================================================================== *)
(* the frame lemma, stated outside the sections                        *)
(* ================================================================== *)

(* MAIN 7-frame (star_frame).  While the leader handles a response of ANOTHER follower
   (m_from m <> f), follower f's Progress keeps its state, its matched and - while
   probing - its next_idx, and keeps the invariant PrInv; whatever is queued for f
   meanwhile is a sound MsgAppend (built from the leader's log and f's Progress only);
   apart from log (commit index), progress map and queue the leader is untouched.
   NOTE: next_idx and the inflight window of a REPLICATING f may change: an acknowledgement
   of another follower that advances the commit index makes the leader bcast_append, which
   sends to everybody (see other_response_moves_next_refuted). *)
Theorem star_frame :
  forall (LL : LL) (T l f lo : N) (rwl : bool) (l0 : raft_log) (b : N)
         (L : raft) (pr : progress) (m : msg) (L' : raft) (c : N),
  LeaderLog LL -> ll_base LL <= lo -> (exists t, ll_term LL lo = SOk t) -> T <> 0 -> l <> f ->
  RepInv rwl l0 -> abs l0 = LL ->
  LCore T l l0 L -> get_pr L f = Some pr -> PrInv LL lo b pr ->
  m_term m = T -> m_from m <> f ->
  (m_type m = MsgAppendResponse \/ (m_type m = MsgHeartbeatResponse /\ m_context m = [])) ->
  step L m = Ok (L', c) ->
  exists pr',
    get_pr L' f = Some pr' /\ PrInv LL lo b pr' /\
    pr_state pr' = pr_state pr /\ matched pr' = matched pr /\
    (pr_state pr = Probe -> next_idx pr' = next_idx pr) /\
    lfr L L' /\ LCore T l l0 L' /\
    exists new, r_msgs L' = r_msgs L ++ new /\
                Forall (fun x => m_to x = f -> snd_app LL T l f lo x) new.
Proof.
  intros LL T l f lo rwl l0 b L pr m L' c HLL Hlo HloT HT Hlf Hl0 Habs0 HC Hg HP Hm Hf Hty H.
  destruct (leader_step_other LL T l f lo HLL Hlo HloT HT Hlf rwl l0 Hl0 Habs0 b L pr m L' c HC Hg HP
              (conj Hm (conj Hf Hty)) H) as (pr' & A1 & A2 & A3 & A4 & A5).
  destruct (pkey_inv _ _ A5) as (K1 & K2 & K3).
  exists pr'. split; [exact A3|]. split; [exact A4|]. split; [exact K1|]. split; [exact K2|].
  split; [intros Hs; apply K3; congruence|]. split; [exact A1|].
  split; [eapply lfr_LCore; eassumption|exact A2].
Qed.

(* the stronger claim "a response of another follower never changes f's next_idx or
   window" is FALSE: leader 1 (term 2, log 1..5), follower 3 replicating at next_idx 3;
   follower 2 acknowledges index 5: the commit index advances to 5 and bcast_append
   sends entries 3..5 to follower 3, whose next_idx becomes 6 and whose window fills *)
Definition rf_L : raft :=
  mkRaft 2 1 1 [] xp_logL 256 1000 0 Leader true 1 None 0 (ro_new 0) 0 0
         false false false false false 2 10 15 10 20 0%Z u64_max 0 5 u64_max
         (mkTr [(1, mkPr 5 6 Replicate false 0 0 true (Inflights.new 256) 0 0);
                (2, mkPr 0 6 Replicate false 0 0 true (Inflights.new 256) 0 0);
                (3, mkPr 2 3 Replicate false 0 0 true (Inflights.new 256) 0 0)]
               (mkConf [1; 2; 3] [] [] [] false) [] 256 false) [] [] None.
Definition rf_m : msg :=
  msg_default <| m_type := MsgAppendResponse |> <| m_from := 2 |> <| m_to := 1 |> <| m_term := 2 |>
              <| m_index := 5 |>.

Theorem other_response_moves_next_refuted :
  exists L' p3 p3',
    step rf_L rf_m = Ok (L', E_OK) /\ m_from rf_m = 2 /\
    get_pr rf_L 3 = Some p3 /\ get_pr L' 3 = Some p3' /\
    next_idx p3 = 3 /\ next_idx p3' = 6 /\ count (ins p3) = 0%nat /\ count (ins p3') = 1%nat /\
    matched p3' = matched p3 /\ pr_state p3' = pr_state p3 /\ committed (r_log L') = 5.
Proof. vm_compute. do 3 eexists. repeat split; reflexivity. Qed.
