(* C10, part 7 — star convergence: one leader and a list of followers of the same term in
   the lock-step schedule [star_round]; and the commit clause.  Built on the pair proof
   (M/RaftProofsC10Pair.v): seen from one follower f, the responses of the other followers
   only make the leader run sub-operations that keep f's measure, invariant and
   obligations.  See the header of Props/C10.v for what is assumed and what is proved. *)
From RV Require Import Base.Prelude Base.IdSet Base.IdSetProofs M.Util M.UtilProofs M.Proto
  M.MemStorage M.MemStorageProofs M.Inflights M.InflightsProofs M.Progress M.RaftLog
  M.RaftLogProofs M.RaftLogProofsOps M.RaftLogProofsSlice M.RaftLogProofsHistory M.Quorum
  M.ConfChange M.Msg M.Raft M.RaftProofs M.RaftProofsC15 M.RaftProofsC09 M.RaftProofsC10
  M.RaftProofsC10Pair.
From RV Require M.QuorumProofs.
From RecordUpdate Require Import RecordSet.
Import RecordSetNotations.

Local Open Scope N_scope.

Lemma steps_app a : forall r b, steps r (a ++ b) = (x <- steps r a ;; steps x b).
Proof.
  induction a as [|m t IH]; intros r b; cbn [steps app]; [reflexivity|].
  destruct (step r m) as [[r1 c]|s]; cbn [bind fst]; [apply IH|reflexivity].
Qed.

(* ================================================================== *)
(* 7.1 the view from one follower f                                    *)
(* ================================================================== *)
Section View.

Variables (LL : LL) (T l f lo : N) (rw : bool).
Hypothesis HLL : LeaderLog LL.
Hypothesis Hlo : ll_base LL <= lo.
Hypothesis HloT : exists t, ll_term LL lo = SOk t.
Hypothesis HT : T <> 0.
Hypothesis Hlf : l <> f.
Variables (rwl : bool) (l0 : raft_log).
Hypothesis Hl0 : RepInv rwl l0.
Hypothesis Habs0 : abs l0 = LL.

Local Notation PrInv := (PrInv LL lo).
Local Notation LCore := (LCore T l l0).
Local Notation lstep := (lstep LL T l f lo).
Local Notation mext := (mext LL T l f lo).
Local Notation mu := (mu LL).
Local Notation obl := (obl LL T l f lo).
Local Notation FInv := (FInv LL T f lo rw).
Local Notation qmsg_ok := (qmsg_ok LL T l f lo).
Local Notation resp_ok := (resp_ok T l f).
Local Notation resp_chain := (resp_chain T l f).
Local Notation snd_app := (snd_app LL T l f lo).
Local Notation snd_hb := (snd_hb T l f).

(* a response of another follower *)
Definition other_ok (m : msg) : Prop :=
  m_term m = T /\ m_from m <> f /\
  (m_type m = MsgAppendResponse \/ (m_type m = MsgHeartbeatResponse /\ m_context m = [])).

Lemma lstep_refl' b r pr : get_pr r f = Some pr -> PrInv b pr -> lstep b r pr r pr.
Proof. intros. eapply lstep_refl; eassumption. Qed.

Lemma lstep_trans_ex b r pr r1 p1 r' :
  LCore r -> lstep b r pr r1 p1 ->
  (LCore r1 -> get_pr r1 f = Some p1 -> PrInv b p1 -> exists pr', lstep b r1 p1 r' pr') ->
  exists pr', lstep b r pr r' pr'.
Proof.
  intros HC S1 K. pose proof S1 as (A1 & _ & A3 & A4 & _).
  destruct (K (lfr_LCore _ _ _ _ _ A1 HC) A3 A4) as (p2 & S2).
  exists p2. eapply lstep_trans; eassumption.
Qed.

(* a sub-operation that only queues messages for g <> f and rewrites g's progress *)
Lemma other_put_lstep b r pr g new pg :
  get_pr r f = Some pr -> PrInv b pr -> g <> f -> Forall (fun x => m_to x = g) new ->
  lstep b r pr (put_pr (r <| r_msgs := r_msgs r ++ new |>) g pg) pr.
Proof.
  intros Hg HP Hne Hto. split.
  { eapply lfr_trans; [|apply put_pr_lfr]. apply msgs_only_lfr. apply msgs_only_set. }
  split.
  { exists new. split; [reflexivity|]. eapply Forall_impl; [|exact Hto].
    intros x Hx1 Hx2. cbn in Hx1. congruence. }
  split; [rewrite get_pr_put_other by congruence; exact Hg|]. split; [exact HP|reflexivity].
Qed.

Lemma put_lstep b r pr g pg :
  get_pr r f = Some pr -> PrInv b pr -> g <> f -> lstep b r pr (put_pr r g pg) pr.
Proof.
  intros Hg HP Hne. split; [apply put_pr_lfr|]. split; [exists []; rewrite app_nil_r; auto|].
  split; [rewrite get_pr_put_other by congruence; exact Hg|]. split; [exact HP|reflexivity].
Qed.

Lemma send_append_aggressively_loop_other g fuel : forall r pg r' pg',
  r_batch_append r = false ->
  send_append_aggressively_loop fuel r g pg = Ok (r', pg') ->
  exists new, r' = r <| r_msgs := r_msgs r ++ new |> /\ Forall (fun x => m_to x = g) new.
Proof.
  induction fuel as [|fu IH]; intros r pg r' pg' Hb H; [discriminate|].
  cbn [send_append_aggressively_loop] in H. inv_bind H. destruct x as [[r1 p1] sent].
  destruct (maybe_send_append_nobatch LL lo HLL Hlo HloT l0 Habs0 r g pg false r1 p1 sent Hb Hx)
    as (n1 & -> & F1).
  destruct sent.
  - apply IH in H; [|exact Hb]. destruct H as (n2 & -> & F2).
    exists (n1 ++ n2). split.
    + cbn. rewrite <- app_assoc. destruct r; reflexivity.
    + apply Forall_app. auto.
  - inversion H; subst r' pg'. exists n1. auto.
Qed.

Lemma send_append_aggressively_other b r pr g r' :
  LCore r -> get_pr r f = Some pr -> PrInv b pr -> g <> f ->
  send_append_aggressively r g = Ok r' -> lstep b r pr r' pr.
Proof.
  intros HC Hg HP Hne H. unfold send_append_aggressively in H.
  destruct (get_pr r g) as [pg|]; [|discriminate].
  inv_bind H. destruct x as [r1 p1]. inversion H; subst r'; clear H.
  destruct (send_append_aggressively_loop_other g _ _ _ _ _ (lc_batch _ _ _ _ HC) Hx) as (new & -> & Hto).
  apply other_put_lstep; assumption.
Qed.

(* the tail of handle_append_response for an acknowledgement of another follower *)
Lemma ack_tail_other b r pr m op r' :
  LCore r -> get_pr r f = Some pr -> PrInv b pr -> m_from m <> f ->
  ack_tail r m op = Ok r' -> exists pr', lstep b r pr r' pr'.
Proof.
  intros HC Hg HP Hne H. unfold ack_tail in H.
  inv_bind H. destruct x as [r1 cmt].
  pose proof (maybe_commit_lstep LL T l f lo Hlf l0 b _ _ _ _ HC Hg HP Hx) as S1.
  pose proof S1 as (A1 & _ & A3 & A4 & _). pose proof (lfr_LCore _ _ _ _ _ A1 HC) as HC1.
  inv_bind H. rename x into r2.
  assert (S2 : exists p2, lstep b r1 pr r2 p2).
  { destruct cmt.
    - destruct (should_bcast_commit r1).
      + eapply bcast_append_lstep; eassumption.
      + assert (r2 = r1) by congruence. subst r2. exists pr. apply lstep_refl'; assumption.
    - destruct op.
      + eapply send_append_to_lstep; eassumption.
      + assert (r2 = r1) by congruence. subst r2. exists pr. apply lstep_refl'; assumption. }
  destruct S2 as (p2 & S2). pose proof S2 as (B1 & _ & B3 & B4 & _).
  pose proof (lfr_LCore _ _ _ _ _ B1 HC1) as HC2.
  inv_bind H. rename x into r3.
  pose proof (send_append_aggressively_other b _ _ _ _ HC2 B3 B4 Hne Hx1) as S3.
  pose proof S3 as (C1 & _). pose proof (lfr_LCore _ _ _ _ _ C1 HC2) as HC3.
  rewrite (lc_transfer _ _ _ _ HC3) in H. inversion H; subst r'.
  exists p2. eapply lstep_trans; [exact S1|]. eapply lstep_trans; eassumption.
Qed.

(* MAIN frame lemma: handling a response of another follower is, for f, a sequence of
   sub-operations that keep f's invariant and key (state, matched, probing next_idx);
   what is queued for f meanwhile are sound appends built from (the leader's log, f's
   Progress) only *)
Lemma leader_step_other b L pr m L' c :
  LCore L -> get_pr L f = Some pr -> PrInv b pr -> other_ok m -> step L m = Ok (L', c) ->
  exists pr', lstep b L pr L' pr'.
Proof.
  intros HC Hg HP (Ot & Of & Oty) H.
  destruct (step_leader_same_term T HT L m (lc_state _ _ _ _ HC) (lc_term _ _ _ _ HC) Ot) as [EA EH].
  destruct Oty as [Hty|[Hty Hctx]].
  - rewrite (EA Hty) in H. inv_bind H. inversion H; subst x c; clear H.
    destruct (get_pr L (m_from m)) as [pg|] eqn:Hgg.
    2:{ unfold handle_append_response in Hx. inv_bind Hx. rewrite Hgg in Hx.
        assert (L' = L) by congruence. subst L'. exists pr. apply lstep_refl'; assumption. }
    destruct (m_reject m) eqn:Hrj.
    + rewrite (append_reject_eq L m pg Hgg Hrj) in Hx. inv_bind Hx.
      destruct (maybe_decr_to _ _ _ _) as [p1 dec]. destruct dec.
      * eapply (lstep_trans_ex b L pr _ pr); [exact HC|apply put_lstep; eassumption|].
        intros HC1 Hg1 HP1. eapply send_append_to_lstep; eassumption.
      * inversion Hx; subst L'. exists pr. apply put_lstep; assumption.
    + rewrite (append_ack_eq L m pg Hgg Hrj) in Hx. cbv zeta in Hx.
      destruct (matched pg <? m_index m).
      * inv_bind Hx.
        eapply (lstep_trans_ex b L pr _ pr); [exact HC|apply put_lstep; eassumption|].
        intros HC1 Hg1 HP1. eapply ack_tail_other; eassumption.
      * inversion Hx; subst L'. exists pr. apply put_lstep; assumption.
  - rewrite (EH Hty) in H. inv_bind H. inversion H; subst x c; clear H.
    rewrite heartbeat_response_eq in Hx.
    destruct (get_pr L (m_from m)) as [pg|] eqn:Hgg.
    2:{ assert (L' = L) by congruence. subst L'. exists pr. apply lstep_refl'; assumption. }
    inv_bind Hx. inv_bind Hx.
    assert (Htail : hb_ro_tail x0 m = Ok x0).
    { unfold hb_ro_tail. rewrite Hctx. rewrite orb_true_r. reflexivity. }
    rewrite Htail in Hx. inversion Hx; subst x0; clear Hx.
    exists pr.
    match goal with Hs : (if hb_wants_send _ _ then _ else _) = Ok _ |- _ => rename Hs into Hsd end.
    destruct (hb_wants_send L x).
    + inv_bind Hsd. destruct x0 as [[r1 p1] sent]. inversion Hsd; subst L'.
      match goal with Hs : maybe_send_append _ _ _ _ = Ok _ |- _ =>
        destruct (maybe_send_append_nobatch LL lo HLL Hlo HloT l0 Habs0 _ _ _ _ _ _ _
                    (lc_batch _ _ _ _ HC) Hs) as (new & -> & Hto) end.
      apply other_put_lstep; assumption.
    + inversion Hsd; subst L'. apply put_lstep; assumption.
Qed.

End View.
