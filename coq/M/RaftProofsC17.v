(* C17 — leadership transfer: per-step theorems about the node model M/Raft.v.
   Statements are pinned in Props/C17.v. *)
From RV Require Import Base.Prelude Base.IdSet M.Util M.Proto M.MemStorage M.Inflights
  M.Progress M.RaftLog M.Quorum M.ConfChange M.Msg M.Raft M.RawNode M.RaftProofs.
From RecordUpdate Require Import RecordSet.
Import RecordSetNotations.

Local Open Scope N_scope.

(* ------------------------------------------------------------------ *)
(* generic inversion of a monadic computation that returned Ok *)

Ltac inv_ok H :=
  lazymatch type of H with
  | Ok _ = Ok _ => inversion H; subst; clear H
  | Panic _ = Ok _ => discriminate H
  | bind _ _ = Ok _ =>
      let x := fresh "x" in let Hx := fresh "Hx" in
      apply bind_ok in H; destruct H as (x & Hx & H); inv_ok Hx; inv_ok H
  | (if ?c then _ else _) = Ok _ =>
      let E := fresh "E" in destruct c eqn:E; inv_ok H
  | (let '(_, _) := ?x in _) = Ok _ => destruct x; inv_ok H
  | match ?x with _ => _ end = Ok _ =>
      let E := fresh "E" in destruct x eqn:E; inv_ok H
  | _ => idtac
  end.

Lemma is_leader_state r : is_leader r = true -> r_state r = Leader.
Proof. unfold is_leader. destruct (r_state r); cbn; congruence. Qed.

(* the term prologue of [step] is the identity for a local (term 0) or same-term message *)
Definition same_term_msg (r : raft) (m : msg) : Prop := m_term m = 0 \/ m_term m = r_term r.

Lemma step_same_term r m :
  same_term_msg r m ->
  step r m =
    (if m_type m =? MsgHup then r' <- hup r false ;; Ok (r', E_OK)
     else if (m_type m =? MsgRequestVote) || (m_type m =? MsgRequestPreVote) then
       let can_vote := (r_vote r =? m_from m)
                       || ((r_vote r =? INVALID_ID) && (r_leader_id r =? INVALID_ID))
                       || ((m_type m =? MsgRequestPreVote) && (r_term r <? m_term m)) in
       utd <- is_up_to_date (r_log r) (m_index m) (m_log_term m) ;;
       rt <- vote_resp_msg_type (m_type m) ;;
       if can_vote && utd
          && ((last_index (r_log r) <? m_index m) || (r_priority r <=? get_priority m)%Z)
       then
         r1 <- send r ((new_message (m_from m) rt None) <| m_reject := false |>
                         <| m_term := m_term m |>) ;;
         if m_type m =? MsgRequestVote
         then Ok (r1 <| r_election_elapsed := 0 |> <| r_vote := m_from m |>, E_OK)
         else Ok (r1, E_OK)
       else
         ci <- commit_info (r_log r) ;;
         r1 <- send r ((new_message (m_from m) rt None) <| m_reject := true |>
                         <| m_term := r_term r |> <| m_commit := fst ci |>
                         <| m_commit_term := snd ci |>) ;;
         r2 <- maybe_commit_by_vote r1 m ;; Ok (r2, E_OK)
     else
       match r_state r with
       | PreCandidate | Candidate => step_candidate r m
       | Follower => step_follower r m
       | Leader => step_leader r m
       end).
Proof.
  intros H. match goal with |- _ = ?R => set (rhs := R) end. unfold step.
  destruct H as [H|H].
  - assert (E : (m_term m =? 0) = true) by (rewrite H; reflexivity).
    rewrite E. reflexivity.
  - destruct (m_term m =? 0); [reflexivity|].
    assert (E1 : (r_term r <? m_term m) = false) by (apply N.ltb_ge; lia).
    assert (E2 : (m_term m <? r_term r) = false) by (apply N.ltb_ge; lia).
    rewrite E1, E2. reflexivity.
Qed.

(* ------------------------------------------------------------------ *)
(* 2. transfer_blocks_proposals *)

Theorem transfer_blocks_proposals r m t :
  is_leader r = true -> r_lead_transferee r = Some t ->
  m_type m = MsgPropose -> same_term_msg r m -> m_entries m <> [] ->
  step r m = Ok (r, E_PROPOSAL_DROPPED).
Proof.
  intros Hl Ht Hty Hterm Hne. rewrite (step_same_term _ _ Hterm).
  rewrite Hty. change (MsgPropose =? MsgHup) with false.
  change (MsgPropose =? MsgRequestVote) with false.
  change (MsgPropose =? MsgRequestPreVote) with false. cbn [orb].
  rewrite (is_leader_state _ Hl). unfold step_leader. rewrite Hty.
  change (MsgPropose =? MsgBeat) with false.
  change (MsgPropose =? MsgCheckQuorum) with false.
  change (MsgPropose =? MsgPropose) with true. cbn iota.
  destruct (m_entries m) as [|e es]; [congruence|].
  destruct (get_pr r (r_id r)); [|reflexivity]. rewrite Ht. reflexivity.
Qed.

Lemma rn_eta n : n <| rn_raft := rn_raft n |> = n.
Proof. destruct n; reflexivity. Qed.

(* the application-facing form: RawNode::propose while a transfer is pending *)
Theorem rn_propose_blocked n t ctx data :
  is_leader (rn_raft n) = true -> r_lead_transferee (rn_raft n) = Some t ->
  rn_propose n ctx data = Ok (n, E_PROPOSAL_DROPPED).
Proof.
  intros Hl Ht. unfold rn_propose, lift2.
  rewrite (transfer_blocks_proposals _ _ t Hl Ht); cbn; try reflexivity.
  - rewrite rn_eta. reflexivity.
  - left; reflexivity.
  - discriminate.
Qed.

Theorem rn_propose_conf_change_blocked n t ctx data ty cci :
  is_leader (rn_raft n) = true -> r_lead_transferee (rn_raft n) = Some t ->
  rn_propose_conf_change n ctx data ty cci = Ok (n, E_PROPOSAL_DROPPED).
Proof.
  intros Hl Ht. unfold rn_propose_conf_change, lift2.
  rewrite (transfer_blocks_proposals _ _ t Hl Ht); cbn; try reflexivity.
  - rewrite rn_eta. reflexivity.
  - left; reflexivity.
  - discriminate.
Qed.

(* ------------------------------------------------------------------ *)
(* 7. follower_timeout_now *)

Theorem follower_timeout_now r m :
  m_type m = MsgTimeoutNow -> r_promotable r = false -> step_follower r m = Ok (r, E_OK).
Proof.
  intros Hty Hp. unfold step_follower. rewrite Hty, Hp. reflexivity.
Qed.

Theorem follower_timeout_now_step r m :
  r_state r = Follower -> m_type m = MsgTimeoutNow -> same_term_msg r m ->
  r_promotable r = false -> step r m = Ok (r, E_OK).
Proof.
  intros Hs Hty Hterm Hp. rewrite (step_same_term _ _ Hterm), Hs, Hty.
  change (MsgTimeoutNow =? MsgHup) with false.
  change (MsgTimeoutNow =? MsgRequestVote) with false.
  change (MsgTimeoutNow =? MsgRequestPreVote) with false. cbn [orb].
  apply follower_timeout_now; assumption.
Qed.

(* a promotable follower campaigns with the forced (transfer) flavour *)
Theorem follower_timeout_now_hup r m :
  m_type m = MsgTimeoutNow -> r_promotable r = true ->
  step_follower r m = (r' <- hup r true ;; Ok (r', E_OK)).
Proof.
  intros Hty Hp. unfold step_follower. rewrite Hty, Hp. reflexivity.
Qed.

(* ------------------------------------------------------------------ *)
(* 4a. transfer_cleared_on_reset *)

Lemma reset_clears r t r' : reset r t = Ok r' ->
  r_lead_transferee r' = None /\ r_election_elapsed r' = 0.
Proof.
  unfold reset. intros H.
  destruct (negb (r_term r =? t)); cbn in H;
  match type of H with match ?d with _ => _ end = _ => destruct d end;
    try discriminate; inversion H; subst; split; reflexivity.
Qed.

Lemma become_follower_clears r t l r' : become_follower r t l = Ok r' ->
  r_lead_transferee r' = None /\ r_election_elapsed r' = 0 /\ r_state r' = Follower.
Proof.
  unfold become_follower. intros H. inv_bind H. inversion H; subst. cbn.
  apply reset_clears in Hx. destruct Hx as [A B]. auto.
Qed.

Lemma become_candidate_clears r r' : become_candidate r = Ok r' ->
  r_lead_transferee r' = None /\ r_election_elapsed r' = 0 /\ r_state r' = Candidate.
Proof.
  unfold become_candidate. intros H. destruct (is_leader r); [discriminate|].
  inv_bind H. inversion H; subst. cbn.
  apply reset_clears in Hx. destruct Hx as [A B]. auto.
Qed.


(* ------------------------------------------------------------------ *)
(* Frame infrastructure.
   [sel ty l]   : the sub-list of messages of type [ty] (order kept).  The outbound
                  queue is not append-only (try_batching rewrites a queued MsgAppend
                  in place), so "what was emitted" is stated per message type.
   [ctl r]      : the control fields no replication helper touches.
   [cf ty r r'] : r' has the same control fields as r and the same [ty]-messages. *)

Definition sel (ty : N) (l : list msg) : list msg := filter (fun x => m_type x =? ty) l.

Lemma sel_app ty a b : sel ty (a ++ b) = sel ty a ++ sel ty b.
Proof. apply filter_app. Qed.

Lemma sel_one_other ty x : (m_type x =? ty) = false -> sel ty [x] = [].
Proof. intros H. unfold sel. cbn. rewrite H. reflexivity. Qed.

Lemma sel_one_same ty x : (m_type x =? ty) = true -> sel ty [x] = [x].
Proof. intros H. unfold sel. cbn. rewrite H. reflexivity. Qed.

Definition ctl (r : raft) :=
  (r_state r, r_lead_transferee r, r_election_elapsed r, r_election_timeout r,
   r_term r, r_vote r, r_id r, r_leader_id r, r_check_quorum r, r_pre_vote r,
   r_heartbeat_timeout r, r_heartbeat_elapsed r, conf_of r).

Definition cf (ty : N) (r r' : raft) : Prop :=
  sel ty (r_msgs r') = sel ty (r_msgs r) /\ ctl r' = ctl r.

Lemma cf_refl ty r : cf ty r r. Proof. split; reflexivity. Qed.
Lemma cf_trans ty a b c : cf ty a b -> cf ty b c -> cf ty a c.
Proof. unfold cf. intros [A B] [C D]. split; congruence. Qed.
Lemma cf_same ty r r1 r2 : ctl r2 = ctl r1 -> r_msgs r2 = r_msgs r1 -> cf ty r r1 -> cf ty r r2.
Proof. unfold cf. intros A B [C D]. split; congruence. Qed.
Lemma cf_same_l ty r0 r1 r2 : ctl r0 = ctl r1 -> r_msgs r0 = r_msgs r1 -> cf ty r0 r2 -> cf ty r1 r2.
Proof. unfold cf. intros A B [C D]. split; congruence. Qed.

(* what [send] does: appends exactly one message, whose type, destination, context,
   reject flag are those of the argument; nothing else changes *)
Lemma send_spec r m r' : send r m = Ok r' ->
  exists m', r' = r <| r_msgs := r_msgs r ++ [m'] |> /\
    m_type m' = m_type m /\ m_to m' = m_to m /\ m_context m' = m_context m /\
    m_reject m' = m_reject m /\
    (is_vote_type (m_type m) = true -> m_term m' = m_term m) /\
    (is_vote_type (m_type m) = false -> m_type m <> MsgPropose -> m_type m <> MsgReadIndex ->
       m_term m' = r_term r).
Proof.
  unfold send. intros H. inv_bind H. inversion H; subst; clear H.
  eexists. split; [reflexivity|].
  assert (Hx1 : m_type x = m_type m /\ m_to x = m_to m /\ m_context x = m_context m /\
                m_reject x = m_reject m /\
                (is_vote_type (m_type m) = true -> m_term x = m_term m) /\
                (is_vote_type (m_type m) = false -> m_type m <> MsgPropose ->
                 m_type m <> MsgReadIndex -> m_term x = r_term r)).
  { destruct (m_from m =? INVALID_ID); cbn [m_type m_term set] in Hx.
    - change (m_type (m <| m_from := r_id r |>)) with (m_type m) in Hx.
      change (m_term (m <| m_from := r_id r |>)) with (m_term m) in Hx.
      destruct (is_vote_type (m_type m)).
      + destruct (m_term m =? 0); inversion Hx; subst; cbn; repeat split; auto; discriminate.
      + destruct (negb (m_term m =? 0)); [discriminate|].
        destruct (m_type m =? MsgPropose) eqn:E1; cbn [negb andb] in Hx.
        * inversion Hx; subst; cbn; repeat split; auto; try discriminate.
          intros _ K. apply N.eqb_eq in E1. congruence.
        * destruct (m_type m =? MsgReadIndex) eqn:E2; cbn [negb andb] in Hx;
            inversion Hx; subst; cbn; repeat split; auto; try discriminate.
          intros _ _ K. apply N.eqb_eq in E2. congruence.
    - destruct (is_vote_type (m_type m)).
      + destruct (m_term m =? 0); inversion Hx; subst; cbn; repeat split; auto; discriminate.
      + destruct (negb (m_term m =? 0)); [discriminate|].
        destruct (m_type m =? MsgPropose) eqn:E1; cbn [negb andb] in Hx.
        * inversion Hx; subst; cbn; repeat split; auto; try discriminate.
          intros _ K. apply N.eqb_eq in E1. congruence.
        * destruct (m_type m =? MsgReadIndex) eqn:E2; cbn [negb andb] in Hx;
            inversion Hx; subst; cbn; repeat split; auto; try discriminate.
          intros _ _ K. apply N.eqb_eq in E2. congruence. }
  destruct Hx1 as (A & B & C0 & D & E & F).
  destruct ((m_type x =? MsgRequestVote) || (m_type x =? MsgRequestPreVote));
    [destruct (0 <? r_priority r)%Z|]; cbn; repeat split; auto.
Qed.

Lemma send_cf ty r m r' : send r m = Ok r' -> (m_type m =? ty) = false -> cf ty r r'.
Proof.
  intros H Hty. apply send_spec in H. destruct H as (m' & -> & A & _).
  split; [|reflexivity].
  change (r_msgs (r <| r_msgs := r_msgs r ++ [m'] |>)) with (r_msgs r ++ [m']).
  rewrite sel_app, sel_one_other, app_nil_r; [reflexivity|].
  rewrite A. exact Hty.
Qed.

(* solve [cf ty r X]: peel record updates off X that touch neither the control fields
   nor the queue, then chain the cf-facts in the context backwards *)
(* [proj (upd r1) = proj r1] for an update [upd] that does not touch [proj]: proved for a
   VARIABLE r0 and then instantiated, so that neither the tactic nor the kernel ever
   compares two large record terms *)
Ltac solve_upd r1 :=
  pattern r1;
  lazymatch goal with
  | |- ?P r1 =>
      let K := fresh "K" in
      assert (K : forall r0 : raft, P r0) by (intro; reflexivity); exact (K r1)
  end.

Ltac cf_peel :=
  lazymatch goal with
  | |- cf _ ?a ?a => idtac
  | |- cf _ _ (put_pr ?r1 _ _) => apply (cf_same _ _ r1); [solve_upd r1|solve_upd r1|]; cf_peel
  | |- cf _ _ (set_conf_prs ?r1 _ _) => apply (cf_same _ _ r1); [solve_upd r1|solve_upd r1|]; cf_peel
  | |- cf _ _ (set _ _ ?r1) => apply (cf_same _ _ r1); [solve_upd r1|solve_upd r1|]; cf_peel
  | _ => idtac
  end.

Ltac cf_chain :=
  cf_peel;
  first [ assumption | apply cf_refl
        | match goal with
          | H : cf _ ?a ?b |- cf _ _ ?b => eapply cf_trans; [|exact H]; cf_chain
          end ].

Ltac cf_solve := cf_chain.

Section Helpers.
  Variable ty : N.
  Hypothesis HtyA : (MsgAppend =? ty) = false.
  Hypothesis HtyS : (MsgSnapshot =? ty) = false.
  Hypothesis HtyH : (MsgHeartbeat =? ty) = false.
  Hypothesis HtyR : (MsgReadIndexResp =? ty) = false.

  Lemma prepare_send_snapshot_type r m pr to m' pr' :
    prepare_send_snapshot r m pr to = Ok (Some (m', pr')) -> m_type m' = MsgSnapshot.
  Proof. intros H. unfold prepare_send_snapshot in H. inv_ok H. reflexivity. Qed.

  Lemma prepare_send_entries_type r m pr t ents m' pr' :
    prepare_send_entries r m pr t ents = Ok (m', pr') -> m_type m' = MsgAppend.
  Proof. intros H. unfold prepare_send_entries in H. inv_ok H; reflexivity. Qed.

  Lemma try_batching_sel r to msgs pr ents msgs' pr' b :
    try_batching r to msgs pr ents = Ok (msgs', pr', b) -> sel ty msgs' = sel ty msgs.
  Proof.
    revert msgs' pr' b. induction msgs as [|m rest IH]; intros msgs' pr' b H; cbn [try_batching] in H.
    - inversion H; reflexivity.
    - destruct ((m_type m =? MsgAppend) && (m_to m =? to)) eqn:E.
      + apply andb_prop in E. destruct E as [E _]. apply N.eqb_eq in E.
        assert (Hm : (m_type m =? ty) = false) by (rewrite E; exact HtyA).
        inv_ok H; unfold sel; cbn [filter]; try reflexivity.
        * change (m_type (m <| m_commit := committed (r_log r) |>)) with (m_type m).
          rewrite Hm. reflexivity.
        * change (m_type (m <| m_entries := m_entries m ++ e :: l |>
                            <| m_commit := committed (r_log r) |>)) with (m_type m).
          rewrite Hm. reflexivity.
      + inv_bind H. destruct x as [[rest' pr1] b1]. inversion H; subst; clear H.
        unfold sel. cbn [filter]. destruct (m_type m =? ty); [f_equal|]; eapply IH; eassumption.
  Qed.

  Lemma maybe_send_append_cf r to pr ae r' pr' b :
    maybe_send_append r to pr ae = Ok (r', pr', b) -> cf ty r r'.
  Proof.
    intros H. unfold maybe_send_append in H.
    destruct (is_paused pr); [inversion H; apply cf_refl|].
    assert (Hsnap : forall r' pr' b,
      (x <- prepare_send_snapshot r (msg_default <| m_to := to |>) pr to ;;
       match x with
       | None => Ok (r, pr, false)
       | Some (m', pr') => r' <- send r m' ;; Ok (r', pr', true)
       end) = Ok (r', pr', b) -> cf ty r r').
    { clear H. intros r1 pr1 b1 H. inv_bind H. destruct x as [[m1 p1]|].
      - inv_bind H. inversion H; subst; clear H. eapply send_cf; [eassumption|].
        erewrite prepare_send_snapshot_type by eassumption. exact HtyS.
      - inversion H; apply cf_refl. }
    destruct (negb (pending_request_snapshot pr =? INVALID_INDEX)); [eapply Hsnap; exact H|].
    inv_bind H.
    match type of H with (if ?c then _ else _) = _ => destruct c end; [inversion H; apply cf_refl|].
    destruct (next_idx pr =? 0); [discriminate|].
    inv_bind H.
    destruct x0 as [t|e0]; destruct x as [ents|e1];
      try (eapply Hsnap; exact H);
      try (destruct e1; first [eapply Hsnap; exact H | inversion H; apply cf_refl]).
    inv_bind H. destruct x as [[msgs' pr1] batched].
    destruct batched.
    - inversion H; subst; clear H. split; [|reflexivity].
      change (r_msgs (r <| r_msgs := msgs' |>)) with msgs'.
      destruct (r_batch_append r); [eapply try_batching_sel; eassumption|].
      inversion Hx1; reflexivity.
    - inv_bind H. destruct x as [m1 p1]. inv_bind H. inversion H; subst; clear H.
      eapply send_cf; [eassumption|].
      erewrite prepare_send_entries_type by eassumption. exact HtyA.
  Qed.

  Lemma send_append_to_cf r to r' : send_append_to r to = Ok r' -> cf ty r r'.
  Proof.
    unfold send_append_to. intros H. destruct (get_pr r to); [|discriminate].
    inv_bind H. destruct x as [[r1 p1] b]. inversion H; subst; clear H.
    apply maybe_send_append_cf in Hx. cf_solve.
  Qed.

  Lemma send_append_aggressively_loop_cf fuel : forall r to pr r' pr',
    send_append_aggressively_loop fuel r to pr = Ok (r', pr') -> cf ty r r'.
  Proof.
    induction fuel as [|f IH]; intros r to pr r' pr' H; cbn [send_append_aggressively_loop] in H;
      [discriminate|].
    inv_bind H. destruct x as [[r1 p1] b]. apply maybe_send_append_cf in Hx.
    destruct b.
    - apply IH in H. eapply cf_trans; eassumption.
    - inversion H; subst. exact Hx.
  Qed.

  Lemma send_append_aggressively_cf r to r' : send_append_aggressively r to = Ok r' -> cf ty r r'.
  Proof.
    unfold send_append_aggressively. intros H. destruct (get_pr r to); [|discriminate].
    inv_bind H. destruct x as [r1 p1]. inversion H; subst; clear H.
    apply send_append_aggressively_loop_cf in Hx. cf_solve.
  Qed.

  Lemma send_heartbeat_cf r to pr ctx r' : send_heartbeat r to pr ctx = Ok r' -> cf ty r r'.
  Proof.
    unfold send_heartbeat. intros H. eapply send_cf; [exact H|].
    destruct ctx; exact HtyH.
  Qed.

  Lemma for_each_peer_cf (f : raft -> N -> Res raft) :
    (forall r id r', f r id = Ok r' -> cf ty r r') ->
    forall ids self r r', for_each_peer ids self f r = Ok r' -> cf ty r r'.
  Proof.
    intros Hf. induction ids as [|id rest IH]; intros self r r' H; cbn [for_each_peer] in H.
    - inversion H; apply cf_refl.
    - destruct (id =? self); [eapply IH; exact H|].
      inv_bind H. apply Hf in Hx. apply IH in H. eapply cf_trans; eassumption.
  Qed.

  Lemma bcast_append_cf r r' : bcast_append r = Ok r' -> cf ty r r'.
  Proof. unfold bcast_append. apply for_each_peer_cf. intros. eapply send_append_to_cf; eassumption. Qed.

  Lemma bcast_heartbeat_with_ctx_cf r ctx r' : bcast_heartbeat_with_ctx r ctx = Ok r' -> cf ty r r'.
  Proof.
    unfold bcast_heartbeat_with_ctx. apply for_each_peer_cf. intros r0 id r1 H.
    destruct (get_pr r0 id); [|discriminate]. eapply send_heartbeat_cf; eassumption.
  Qed.

  Lemma bcast_heartbeat_cf r r' : bcast_heartbeat r = Ok r' -> cf ty r r'.
  Proof. apply bcast_heartbeat_with_ctx_cf. Qed.

  Lemma maybe_commit_cf r r' b : maybe_commit r = Ok (r', b) -> cf ty r r'.
  Proof.
    unfold maybe_commit. intros H. inv_bind H. destruct x as [l' b1]. destruct b1.
    - destruct (get_pr r (r_id r)); inversion H; subst; clear H; cf_solve.
    - inversion H; subst; clear H. cf_solve.
  Qed.

  Lemma maybe_increase_uncommitted_size_cf r es r' b :
    maybe_increase_uncommitted_size r es = (r', b) -> cf ty r r'.
  Proof.
    unfold maybe_increase_uncommitted_size. intros H.
    repeat match type of H with (if ?c then _ else _) = _ => destruct c end;
      inversion H; subst; clear H; cf_solve.
  Qed.

  Lemma append_entry_cf r es r' b : append_entry r es = Ok (r', b) -> cf ty r r'.
  Proof.
    unfold append_entry. intros H.
    destruct (maybe_increase_uncommitted_size r es) as [r1 ok] eqn:Em.
    apply maybe_increase_uncommitted_size_cf in Em.
    destruct (negb ok); [inversion H; subst; exact Em|].
    inv_bind H. inversion H; subst; clear H. cf_solve.
  Qed.

  Lemma handle_ready_read_index_cf r req index r' om :
    handle_ready_read_index r req index = Ok (r', om) ->
    cf ty r r' /\ match om with Some x => m_type x = MsgReadIndexResp | None => True end.
  Proof.
    unfold handle_ready_read_index. intros H.
    destruct ((m_from req =? INVALID_ID) || (m_from req =? r_id r)).
    - inv_bind H. inversion H; subst; clear H. split; [cf_solve|exact I].
    - inversion H; subst; clear H. split; [apply cf_refl|reflexivity].
  Qed.

  Lemma respond_reads_cf rss : forall r r', respond_reads r rss = Ok r' -> cf ty r r'.
  Proof.
    induction rss as [|rs rest IH]; intros r r' H; cbn [respond_reads] in H.
    - inversion H; apply cf_refl.
    - inv_bind H. destruct x as [r1 om]. apply handle_ready_read_index_cf in Hx.
      destruct Hx as [A B]. inv_bind H. apply IH in H.
      eapply cf_trans; [exact A|]. eapply cf_trans; [|exact H].
      destruct om as [x1|]; [|inversion Hx; apply cf_refl].
      eapply send_cf; [exact Hx|]. rewrite B. exact HtyR.
  Qed.

  Ltac cf_fwd :=
    repeat match goal with
    | H : maybe_commit _ = Ok (_, _) |- _ => apply maybe_commit_cf in H
    | H : bcast_append _ = Ok _ |- _ => apply bcast_append_cf in H
    | H : bcast_heartbeat _ = Ok _ |- _ => apply bcast_heartbeat_cf in H
    | H : bcast_heartbeat_with_ctx _ _ = Ok _ |- _ => apply bcast_heartbeat_with_ctx_cf in H
    | H : send_append_to _ _ = Ok _ |- _ => apply send_append_to_cf in H
    | H : send_append_aggressively _ _ = Ok _ |- _ => apply send_append_aggressively_cf in H
    | H : maybe_send_append _ _ _ _ = Ok (_, _, _) |- _ => apply maybe_send_append_cf in H
    | H : append_entry _ _ = Ok (_, _) |- _ => apply append_entry_cf in H
    | H : respond_reads _ _ = Ok _ |- _ => apply respond_reads_cf in H
    end.

  (* handle_append_response: either nothing of type [ty] is sent and no control field
     moves, or the last action is send_timeout_now to the sender, taken in a state r3
     where the sender is the transfer target and has acknowledged the whole log *)
  Lemma handle_append_response_shape r m r' :
    handle_append_response r m = Ok r' ->
    cf ty r r' \/
    exists r3 p, cf ty r r3 /\ r_lead_transferee r3 = Some (m_from m) /\
      get_pr r3 (m_from m) = Some p /\ matched p = last_index (r_log r3) /\
      send_timeout_now r3 (m_from m) = Ok r'.
  Proof.
    intros H. unfold handle_append_response in H.
    inv_bind H. clear Hx. destruct (get_pr r (m_from m)) as [pr|]; [|inversion H; left; apply cf_refl].
    destruct (m_reject m).
    - left. inv_ok H; cf_fwd; cf_solve.
    - inv_ok H; cf_fwd; try (left; cf_solve).
      all: match goal with
           | E : (?n =? m_from _) = true |- _ => apply N.eqb_eq in E; subst n
           end;
           match goal with
           | E : (matched _ =? last_index _) = true |- _ => apply N.eqb_eq in E
           end;
           right; do 2 eexists;
           (split; [|split; [eassumption|split; [eassumption|split; [eassumption|eassumption]]]]).
      all: cf_solve.
  Qed.

  Lemma handle_heartbeat_response_cf r m r' : handle_heartbeat_response r m = Ok r' -> cf ty r r'.
  Proof.
    intros H. unfold handle_heartbeat_response in H.
    destruct (get_pr r (m_from m)) as [pr|]; [|inversion H; apply cf_refl].
    inv_ok H; cf_fwd; cf_solve.
  Qed.

  Lemma handle_snapshot_status_cf r m r' : handle_snapshot_status r m = Ok r' -> cf ty r r'.
  Proof. intros H. unfold handle_snapshot_status in H. inv_ok H; cf_solve. Qed.

  Lemma handle_unreachable_cf r m r' : handle_unreachable r m = Ok r' -> cf ty r r'.
  Proof.
    intros H. unfold handle_unreachable in H. inv_ok H; [|apply cf_refl].
    destruct (pstate_eqb (pr_state p) Replicate); cf_solve.
  Qed.

  Lemma filter_conf_changes_cf ents : forall r info i r' ents' ok,
    filter_conf_changes r ents info i = (r', ents', ok) -> cf ty r r'.
  Proof.
    induction ents as [|e rest IH]; intros r info i r' ents' ok H; cbn [filter_conf_changes] in H.
    - inversion H; apply cf_refl.
    - destruct (negb (is_conf_entry e)).
      { destruct (filter_conf_changes r rest _ (i + 1)) as [[ra ea] oa] eqn:Ea.
        inversion H; subst. eapply IH; eassumption. }
      match type of H with (if ?c then _ else _) = _ => destruct c end;
        [inversion H; apply cf_refl|].
      match type of H with (if ?c then _ else _) = _ => destruct c end.
      + destruct (filter_conf_changes r rest _ (i + 1)) as [[ra ea] oa] eqn:Ea.
        inversion H; subst. eapply IH; eassumption.
      + match type of H with (let '(_, _) := ?e in _) = _ => destruct e as [[ra ea] oa] eqn:Ea end.
        inversion H; subst. apply IH in Ea. eapply cf_trans; [|exact Ea]. cf_solve.
  Qed.

  (* ---------------------------------------------------------------- *)
  (* weak frame, for functions that may change role/term/timers: the [ty]-messages and
     the static configuration are unchanged, and a pending transfer is never created
     or retargeted (it can only stay or be cleared) *)
  Definition cfg (r : raft) :=
    (r_election_timeout r, r_id r, r_check_quorum r, r_pre_vote r, r_heartbeat_timeout r).

  Definition wf (r r' : raft) : Prop :=
    sel ty (r_msgs r') = sel ty (r_msgs r) /\ cfg r' = cfg r /\
    (forall t, r_lead_transferee r' = Some t -> r_lead_transferee r = Some t).

  Lemma wf_refl r : wf r r. Proof. repeat split; auto. Qed.
  Lemma wf_trans a b c : wf a b -> wf b c -> wf a c.
  Proof. unfold wf. intros (A & B & C0) (D & E & F). repeat split; try congruence. auto. Qed.
  Lemma cf_wf r r' : cf ty r r' -> wf r r'.
  Proof.
    unfold cf, wf, ctl, cfg. intros [A B]. inversion B. repeat split; try congruence.
  Qed.
  Lemma wf_same r r1 r2 :
    cfg r2 = cfg r1 -> r_msgs r2 = r_msgs r1 ->
    (r_lead_transferee r2 = r_lead_transferee r1 \/ r_lead_transferee r2 = None) ->
    wf r r1 -> wf r r2.
  Proof.
    unfold wf. intros A B C0 (D & E & F). repeat split; try congruence.
    intros t Ht. apply F. destruct C0; congruence.
  Qed.

  Ltac wf_peel :=
    lazymatch goal with
    | |- wf ?a ?a => idtac
    | |- wf _ (put_pr ?r1 _ _) => apply (wf_same _ r1); [solve_upd r1|solve_upd r1|left; solve_upd r1|]; wf_peel
    | |- wf _ (set_conf_prs ?r1 _ _) => apply (wf_same _ r1); [solve_upd r1|solve_upd r1|left; solve_upd r1|]; wf_peel
    | |- wf _ (set _ _ ?r1) =>
        apply (wf_same _ r1);
          [solve_upd r1|solve_upd r1|first [left; solve_upd r1|right; reflexivity]|]; wf_peel
    | _ => idtac
    end.

  Ltac wf_chain :=
    wf_peel;
    first [ assumption | apply wf_refl
          | match goal with
            | H : wf ?a ?b |- wf _ ?b => eapply wf_trans; [|exact H]; wf_chain
            | H : cf _ ?a ?b |- wf _ ?b => eapply wf_trans; [|exact (cf_wf _ _ H)]; wf_chain
            end ].

  Lemma reset_wf r t r' : reset r t = Ok r' -> wf r r'.
  Proof.
    unfold reset. intros H.
    destruct (negb (r_term r =? t)); cbn in H;
    match type of H with match ?d with _ => _ end = _ => destruct d end;
      try discriminate; inversion H; subst; repeat split; cbn; congruence.
  Qed.

  Lemma become_follower_wf r t l r' : become_follower r t l = Ok r' -> wf r r'.
  Proof.
    unfold become_follower. intros H. inv_bind H. inversion H; subst; clear H.
    apply reset_wf in Hx. wf_chain.
  Qed.

  Lemma become_candidate_wf r r' : become_candidate r = Ok r' -> wf r r'.
  Proof.
    unfold become_candidate. intros H. destruct (is_leader r); [discriminate|].
    inv_bind H. inversion H; subst; clear H. apply reset_wf in Hx. wf_chain.
  Qed.

  Lemma become_pre_candidate_wf r r' : become_pre_candidate r = Ok r' -> wf r r'.
  Proof.
    unfold become_pre_candidate. intros H. destruct (is_leader r); [discriminate|].
    inversion H; subst; clear H. wf_chain.
  Qed.

  Lemma become_leader_wf r r' : become_leader r = Ok r' -> wf r r'.
  Proof.
    unfold become_leader. intros H. destruct (role_eqb (r_state r) Follower); [discriminate|].
    inv_bind H. apply reset_wf in Hx.
    match type of H with match ?d with _ => _ end = _ => destruct d end; [|discriminate].
    inv_bind H. destruct x0 as [r6 ok]. destruct ok; [|discriminate]. inversion H; subst; clear H.
    apply append_entry_cf in Hx0. apply cf_wf in Hx0.
    eapply wf_trans; [|exact Hx0]. wf_chain.
  Qed.
  Hypothesis HtyAR : (MsgAppendResponse =? ty) = false.
  Hypothesis HtyHR : (MsgHeartbeatResponse =? ty) = false.
  Hypothesis HtyV : (MsgRequestVote =? ty) = false.

  Ltac wf_fwd :=
    repeat match goal with
    | H : reset _ _ = Ok _ |- _ => apply reset_wf in H
    | H : become_follower _ _ _ = Ok _ |- _ => apply become_follower_wf in H
    | H : become_candidate _ = Ok _ |- _ => apply become_candidate_wf in H
    | H : become_pre_candidate _ = Ok _ |- _ => apply become_pre_candidate_wf in H
    | H : become_leader _ = Ok _ |- _ => apply become_leader_wf in H
    end.

  Lemma poll_gen_wf rc r from v r' res :
    (forall a b, rc a = Ok b -> wf a b) ->
    poll_gen rc r from v = Ok (r', res) -> wf r r'.
  Proof.
    intros Hrc H. unfold poll_gen in H. cbn zeta in H.
    match type of H with match ?d with _ => _ end = _ => destruct d end.
    - inversion H; subst; clear H. wf_chain.
    - inv_bind H. inversion H; subst; clear H. wf_fwd. wf_chain.
    - match type of H with (if ?c then _ else _) = _ => destruct c end.
      + inv_bind H. inversion H; subst; clear H. apply Hrc in Hx. wf_chain.
      + inv_bind H. inv_bind H. inversion H; subst; clear H. wf_fwd. cf_fwd. wf_chain.
  Qed.

  Lemma send_vote_requests_wf vote_msg t cmt cmt_term tl :
    (vote_msg =? ty) = false ->
    forall ids r r', send_vote_requests ids r vote_msg t cmt cmt_term tl = Ok r' -> cf ty r r'.
  Proof.
    intros Hv. induction ids as [|id rest IH]; intros r r' H; cbn [send_vote_requests] in H.
    - inversion H; apply cf_refl.
    - destruct (id =? r_id r); [eapply IH; exact H|].
      inv_bind H. inv_bind H. apply IH in H. eapply cf_trans; [|exact H].
      eapply send_cf; [exact Hx0|]. destruct tl; exact Hv.
  Qed.

  Lemma campaign_real_wf tl r r' : campaign_real tl r = Ok r' -> wf r r'.
  Proof.
    unfold campaign_real. intros H. inv_bind H. inv_bind H. destruct x0 as [r2 res].
    apply poll_gen_wf in Hx0; [|intros a b K; discriminate K]. wf_fwd.
    destruct res.
    - inv_bind H. apply send_vote_requests_wf in H; [|exact HtyV]. wf_chain.
    - inv_bind H. apply send_vote_requests_wf in H; [|exact HtyV]. wf_chain.
    - inversion H; subst. wf_chain.
  Qed.

  Lemma poll_wf r from v r' res : poll r from v = Ok (r', res) -> wf r r'.
  Proof. unfold poll. apply poll_gen_wf. intros a b. apply campaign_real_wf. Qed.

  Lemma campaign_pre_wf r r' :
    (MsgRequestPreVote =? ty) = false -> campaign_pre r = Ok r' -> wf r r'.
  Proof.
    intros Hpv H. unfold campaign_pre in H. inv_bind H. inv_bind H. destruct x0 as [r2 res].
    apply poll_wf in Hx0. wf_fwd.
    destruct res.
    - inv_bind H. apply send_vote_requests_wf in H; [|exact Hpv]. wf_chain.
    - inv_bind H. apply send_vote_requests_wf in H; [|exact Hpv]. wf_chain.
    - inversion H; subst. wf_chain.
  Qed.

  Lemma hup_wf r tl r' :
    (tl = true \/ (MsgRequestPreVote =? ty) = false) -> hup r tl = Ok r' -> wf r r'.
  Proof.
    intros Htl H. unfold hup in H. destruct (is_leader r); [inversion H; apply wf_refl|].
    destruct (negb (r_promotable r)); [inversion H; apply wf_refl|].
    apply bind_ok in H; destruct H as (low & _ & H).
    inv_bind H. destruct x; [inversion H; apply wf_refl|].
    destruct tl; [eapply campaign_real_wf; exact H|].
    destruct Htl as [K|K]; [discriminate|].
    destruct (r_pre_vote r); [eapply campaign_pre_wf; eassumption|eapply campaign_real_wf; exact H].
  Qed.

  Lemma maybe_commit_by_vote_wf r m r' : maybe_commit_by_vote r m = Ok r' -> wf r r'.
  Proof.
    intros H. unfold maybe_commit_by_vote in H.
    destruct ((m_commit m =? 0) || (m_commit_term m =? 0)); [inversion H; apply wf_refl|].
    destruct ((m_commit m <=? committed (r_log r)) || is_leader r); [inversion H; apply wf_refl|].
    inv_bind H. destruct x as [l' b].
    destruct (negb b); [inversion H; subst; wf_chain|].
    match type of H with (if ?c then _ else _) = _ => destruct c end; [inversion H; subst; wf_chain|].
    inv_bind H. destruct x; [|inversion H; subst; wf_chain].
    wf_fwd. wf_chain.
  Qed.

  Lemma send_request_snapshot_cf r r' : send_request_snapshot r = Ok r' -> cf ty r r'.
  Proof.
    unfold send_request_snapshot. intros H. inv_bind H. destruct x; [|discriminate].
    eapply send_cf; [exact H|exact HtyAR].
  Qed.

  Lemma handle_append_entries_cf r m r' : handle_append_entries r m = Ok r' -> cf ty r r'.
  Proof.
    intros H. unfold handle_append_entries in H.
    destruct (negb (r_pending_request_snapshot r =? INVALID_INDEX));
      [eapply send_request_snapshot_cf; exact H|].
    destruct (m_index m <? committed (r_log r)); [eapply send_cf; [exact H|exact HtyAR]|].
    inv_bind H. destruct x as [l' res]. destruct res as [[c0 last_idx]|].
    - apply (send_cf ty) in H; [|exact HtyAR]. cf_solve.
    - inv_bind H. destruct x as [hi [ht|]]; [|discriminate].
      apply (send_cf ty) in H; [|exact HtyAR]. cf_solve.
  Qed.

  Lemma handle_heartbeat_cf r m r' : handle_heartbeat r m = Ok r' -> cf ty r r'.
  Proof.
    intros H. unfold handle_heartbeat in H. inv_bind H.
    match type of H with (if ?c then _ else _) = _ => destruct c end.
    - apply send_request_snapshot_cf in H. cf_solve.
    - apply (send_cf ty) in H; [|exact HtyHR]. cf_solve.
  Qed.


  (* post_conf_change: exactly when the node is a leader that is still a voter of a
     non-empty configuration does it reach the transfer check; the check runs on a
     state r3 that differs from r only by replication traffic *)
  Definition pcc_check (r3 : raft) : raft :=
    match r_lead_transferee r3 with
    | Some e => if negb (voters_contains (conf_of r3) e)
                then r3 <| r_lead_transferee := None |> else r3
    | None => r3
    end.

  Lemma post_conf_change_shape r r' cs :
    post_conf_change r = Ok (r', cs) ->
    cs = to_conf_state (conf_of r) /\
    ((r' = r <| r_promotable := voters_contains (conf_of r) (r_id r) |> /\
      (is_leader r = false \/ voters_contains (conf_of r) (r_id r) = false \/ cs_voters cs = []))
     \/
     (is_leader r = true /\ voters_contains (conf_of r) (r_id r) = true /\ cs_voters cs <> [] /\
      exists r3, cf ty r r3 /\ r' = pcc_check r3)).
  Proof.
    intros H. unfold post_conf_change in H.
    set (r0 := r <| r_promotable := voters_contains (conf_of r) (r_id r) |>) in *.
    change (is_leader r0) with (is_leader r) in H.
    destruct (voters_contains (conf_of r) (r_id r)) eqn:Ev; cbn [negb andb] in H.
    2:{ destruct (is_leader r) eqn:El; cbn [negb orb] in H;
        inversion H; subst; (split; [reflexivity|]); left; auto. }
    destruct (is_leader r) eqn:El; cbn [negb orb] in H.
    2:{ inversion H; subst; (split; [reflexivity|]); left; auto. }
    destruct (cs_voters (to_conf_state (conf_of r))) as [|v0 vs] eqn:Ecs.
    { inversion H; subst; (split; [reflexivity|]); left; auto. }
    inv_bind H. destruct x as [r1 b]. inv_bind H. inv_bind H. inversion H; subst; clear H.
    split; [reflexivity|]. right. rewrite Ecs. repeat split; try discriminate.
    exists x0. split; [|reflexivity].
    apply maybe_commit_cf in Hx.
    assert (Hr0 : cf ty r r0) by (subst r0; cf_solve).
    assert (H12 : cf ty r1 x).
    { destruct b; [apply bcast_append_cf; exact Hx0|].
      revert Hx0. apply for_each_peer_cf. intros ra id rb K.
      destruct (get_pr ra id); [|discriminate]. inv_bind K. destruct x1 as [[rc pc] bc].
      inversion K; subst. apply maybe_send_append_cf in Hx0. cf_solve. }
    assert (H23 : cf ty x x0).
    { clear - Hx1 HtyR. destruct (ro_last_pending_request_ctx (r_read_only x)) as [ctx|];
        [|inversion Hx1; apply cf_refl].
      destruct (ro_recv_ack (r_read_only x) (r_id x) ctx) as [ro' acks].
      destruct acks as [a|]; [|inversion Hx1; subst; cf_solve].
      match type of Hx1 with (if ?c then _ else _) = _ => destruct c end;
        [|inversion Hx1; subst; cf_solve].
      inv_bind Hx1. destruct x1 as [ro2 rss]. apply respond_reads_cf in Hx1. cf_solve. }
    eapply cf_trans; [exact Hr0|]. eapply cf_trans; [exact Hx|].
    eapply cf_trans; [exact H12|exact H23].
  Qed.

  Lemma pcc_check_wf r3 : wf r3 (pcc_check r3).
  Proof.
    unfold pcc_check. destruct (r_lead_transferee r3) as [e|] eqn:E; [|apply wf_refl].
    destruct (negb (voters_contains (conf_of r3) e)); [|apply wf_refl]. wf_chain.
  Qed.

  Lemma post_conf_change_wf r r' cs : post_conf_change r = Ok (r', cs) -> wf r r'.
  Proof.
    intros H. apply post_conf_change_shape in H. destruct H as [_ [[-> _]|(_ & _ & _ & r3 & A & ->)]].
    - wf_chain.
    - eapply wf_trans; [apply cf_wf; exact A|apply pcc_check_wf].
  Qed.

  Lemma restore_wf r s r' b : restore r s = Ok (r', b) -> wf r r'.
  Proof.
    intros H. unfold restore in H.
    destruct (s_index s <? committed (r_log r)); [inversion H; apply wf_refl|].
    destruct (negb (role_eqb (r_state r) Follower)).
    { inv_bind H. inversion H; subst. eapply become_follower_wf; eassumption. }
    match type of H with (if ?c then _ else _) = _ => destruct c end; [inversion H; apply wf_refl|].
    inv_bind H.
    match type of H with (if ?c then _ else _) = _ => destruct c end.
    { inv_bind H. inversion H; subst. wf_chain. }
    inv_bind H.
    match type of H with match ?d with _ => _ end = _ => destruct d as [[c' ids']|] end; [|discriminate].
    inv_bind H. destruct x1 as [r1 new_cs].
    match type of H with (if ?c then _ else _) = _ => destruct c end; [discriminate|].
    match type of H with match ?d with _ => _ end = _ => destruct d end; [|discriminate].
    destruct (next_idx p =? 0); [discriminate|]. inversion H; subst; clear H.
    apply post_conf_change_wf in Hx1. wf_chain.
  Qed.

  Lemma handle_snapshot_wf r m r' : handle_snapshot r m = Ok r' -> wf r r'.
  Proof.
    intros H. unfold handle_snapshot in H. inv_bind H. destruct x as [r1 ok].
    apply restore_wf in Hx.
    destruct ok; apply (send_cf ty) in H; try exact HtyAR; wf_chain.
  Qed.


  Hypothesis HtyP : (MsgPropose =? ty) = false.
  Hypothesis HtyTL : (MsgTransferLeader =? ty) = false.
  Hypothesis HtyRI : (MsgReadIndex =? ty) = false.

  Lemma step_candidate_wf r m r' c : step_candidate r m = Ok (r', c) -> wf r r'.
  Proof.
    intros H. unfold step_candidate in H.
    destruct (m_type m =? MsgPropose); [inversion H; apply wf_refl|].
    match type of H with (if ?c then _ else _) = _ => destruct c end.
    { destruct (negb (r_term r =? m_term m)); [discriminate|].
      inv_bind H. inv_bind H. inversion H; subst; clear H. wf_fwd.
      destruct (m_type m =? MsgAppend); [apply handle_append_entries_cf in Hx0; wf_chain|].
      destruct (m_type m =? MsgHeartbeat); [apply handle_heartbeat_cf in Hx0; wf_chain|].
      apply handle_snapshot_wf in Hx0. wf_chain. }
    match type of H with (if ?c then _ else _) = _ => destruct c end;
      [|inversion H; apply wf_refl].
    match type of H with (if ?c then _ else _) = _ => destruct c end;
      [inversion H; apply wf_refl|].
    inv_bind H. inv_bind H. inversion H; subst; clear H. destruct x as [r1 res].
    apply poll_wf in Hx. apply maybe_commit_by_vote_wf in Hx0. cbn [fst] in Hx0. wf_chain.
  Qed.

  Lemma step_follower_wf r m r' c : step_follower r m = Ok (r', c) -> wf r r'.
  Proof.
    intros H. unfold step_follower in H.
    destruct (m_type m =? MsgPropose) eqn:E1.
    { apply N.eqb_eq in E1.
      destruct (r_leader_id r =? INVALID_ID); [inversion H; apply wf_refl|].
      destruct (r_disable_proposal_forwarding r); [inversion H; apply wf_refl|].
      inv_bind H. inversion H; subst; clear H. apply (send_cf ty) in Hx; [wf_chain|].
      change (m_type (m <| m_to := r_leader_id r |>)) with (m_type m). rewrite E1. exact HtyP. }
    destruct (m_type m =? MsgAppend).
    { inv_bind H. inversion H; subst; clear H. apply handle_append_entries_cf in Hx. wf_chain. }
    destruct (m_type m =? MsgHeartbeat).
    { inv_bind H. inversion H; subst; clear H. apply handle_heartbeat_cf in Hx. wf_chain. }
    destruct (m_type m =? MsgSnapshot).
    { inv_bind H. inversion H; subst; clear H. apply handle_snapshot_wf in Hx. wf_chain. }
    destruct (m_type m =? MsgTransferLeader) eqn:E2.
    { apply N.eqb_eq in E2.
      destruct (r_leader_id r =? INVALID_ID); [inversion H; apply wf_refl|].
      inv_bind H. inversion H; subst; clear H. apply (send_cf ty) in Hx; [wf_chain|].
      change (m_type (m <| m_to := r_leader_id r |>)) with (m_type m). rewrite E2. exact HtyTL. }
    destruct (m_type m =? MsgTimeoutNow).
    { destruct (r_promotable r); [|inversion H; apply wf_refl].
      inv_bind H. inversion H; subst; clear H. eapply hup_wf; [left; reflexivity|exact Hx]. }
    destruct (m_type m =? MsgReadIndex) eqn:E3.
    { apply N.eqb_eq in E3.
      destruct (r_leader_id r =? INVALID_ID); [inversion H; apply wf_refl|].
      inv_bind H. inversion H; subst; clear H. apply (send_cf ty) in Hx; [wf_chain|].
      change (m_type (m <| m_to := r_leader_id r |>)) with (m_type m). rewrite E3. exact HtyRI. }
    destruct (m_type m =? MsgReadIndexResp); [|inversion H; apply wf_refl].
    destruct (m_entries m) as [|e [|e2 es]]; try (inversion H; apply wf_refl).
    inv_bind H. inversion H; subst; clear H. wf_chain.
  Qed.


  (* ---------------------------------------------------------------- *)
  (* handle_transfer_leader, case by case *)
  Definition tl_start (r : raft) (from : N) : raft :=
    r <| r_election_elapsed := 0 |> <| r_lead_transferee := Some from |>.

  Lemma tl_start_after_abort r f :
    (r <| r_lead_transferee := None |>) <| r_election_elapsed := 0 |> <| r_lead_transferee := Some f |>
    = tl_start r f.
  Proof. destruct r; reflexivity. Qed.

  Definition tl_ignored (r : raft) (m : msg) : Prop :=
    get_pr r (m_from m) = None \/ IdSet.mem (m_from m) (learners (conf_of r)) = true \/
    r_lead_transferee r = Some (m_from m) \/ (m_from m = r_id r /\ r_lead_transferee r = None).

  Definition tl_started (r : raft) (m : msg) (r' : raft) : Prop :=
    m_from m <> r_id r /\ r_lead_transferee r <> Some (m_from m) /\
    IdSet.mem (m_from m) (learners (conf_of r)) = false /\
    exists pr, get_pr r (m_from m) = Some pr /\
      ((matched pr = last_index (r_log r) /\
        send_timeout_now (tl_start r (m_from m)) (m_from m) = Ok r') \/
       (matched pr <> last_index (r_log r) /\
        exists r1 pr1 b, maybe_send_append (tl_start r (m_from m)) (m_from m) pr true = Ok (r1, pr1, b) /\
                         r' = put_pr r1 (m_from m) pr1)).

  Lemma handle_transfer_leader_shape r m r' :
    handle_transfer_leader r m = Ok r' ->
    (r' = r /\ tl_ignored r m) \/
    (m_from m = r_id r /\ (exists o, r_lead_transferee r = Some o /\ o <> r_id r) /\
     r' = r <| r_lead_transferee := None |>) \/
    tl_started r m r'.
  Proof.
    intros H. unfold handle_transfer_leader in H.
    destruct (get_pr r (m_from m)) as [pr|] eqn:Epr;
      [|inversion H; subst; left; split; [reflexivity|left; assumption]].
    destruct (IdSet.mem (m_from m) (learners (conf_of r))) eqn:El;
      [inversion H; subst; left; split; [reflexivity|right; left; assumption]|].
    assert (Hstart : forall r0, r0 = r \/ r0 = r <| r_lead_transferee := None |> ->
      r_lead_transferee r <> Some (m_from m) -> m_from m <> r_id r ->
      match get_pr (r0 <| r_election_elapsed := 0 |> <| r_lead_transferee := Some (m_from m) |>) (m_from m) with
      | Some pr =>
          if matched pr =? last_index (r_log (r0 <| r_election_elapsed := 0 |> <| r_lead_transferee := Some (m_from m) |>))
          then send_timeout_now (r0 <| r_election_elapsed := 0 |> <| r_lead_transferee := Some (m_from m) |>) (m_from m)
          else y <- maybe_send_append (r0 <| r_election_elapsed := 0 |> <| r_lead_transferee := Some (m_from m) |>) (m_from m) pr true ;;
               (let '(r', pr', _) := y in Ok (put_pr r' (m_from m) pr'))
      | None => Panic site_pr_unwrap
      end = Ok r' -> tl_started r m r').
    { intros r0 Hr0 Hne Hself K.
      assert (E0 : r0 <| r_election_elapsed := 0 |> <| r_lead_transferee := Some (m_from m) |>
                   = tl_start r (m_from m)).
      { destruct Hr0 as [->| ->]; [reflexivity|apply tl_start_after_abort]. }
      rewrite E0 in K.
      change (get_pr (tl_start r (m_from m)) (m_from m)) with (get_pr r (m_from m)) in K.
      change (r_log (tl_start r (m_from m))) with (r_log r) in K.
      rewrite Epr in K.
      repeat split; try assumption. exists pr. split; [exact Epr|].
      destruct (matched pr =? last_index (r_log r)) eqn:Em.
      - left. apply N.eqb_eq in Em. split; assumption.
      - right. apply N.eqb_neq in Em. split; [assumption|].
        inv_bind K. destruct x as [[r1 pr1] b]. inversion K; subst. eauto. }
    destruct (r_lead_transferee r) as [last|] eqn:Elt.
    - destruct (last =? m_from m) eqn:Elast.
      { apply N.eqb_eq in Elast. subst last. inversion H; subst. left. split; [reflexivity|].
        right; right; left; exact Elt. }
      apply N.eqb_neq in Elast.
      change (r_id (r <| r_lead_transferee := None |>)) with (r_id r) in H.
      destruct (m_from m =? r_id r) eqn:Eself.
      + apply N.eqb_eq in Eself. inversion H; subst. right; left.
        split; [assumption|]. split; [|reflexivity]. exists last. split; [reflexivity|congruence].
      + apply N.eqb_neq in Eself. right; right.
        apply (Hstart (r <| r_lead_transferee := None |>)); auto. congruence.
    - destruct (m_from m =? r_id r) eqn:Eself.
      + apply N.eqb_eq in Eself. inversion H; subst. left. split; [reflexivity|].
        right; right; right. auto.
      + apply N.eqb_neq in Eself. right; right. apply (Hstart r); auto. congruence.
  Qed.

End Helpers.

(* ------------------------------------------------------------------ *)
(* 5. transfer_ignored (unconditional equalities: these calls never panic) *)

Theorem transfer_ignored_unknown r m :
  get_pr r (m_from m) = None -> handle_transfer_leader r m = Ok r.
Proof. intros H. unfold handle_transfer_leader. rewrite H. reflexivity. Qed.

Theorem transfer_ignored_learner r m :
  IdSet.mem (m_from m) (learners (conf_of r)) = true -> handle_transfer_leader r m = Ok r.
Proof.
  intros H. unfold handle_transfer_leader. destruct (get_pr r (m_from m)); [|reflexivity].
  rewrite H. reflexivity.
Qed.

Theorem transfer_same_target r m :
  r_lead_transferee r = Some (m_from m) -> handle_transfer_leader r m = Ok r.
Proof.
  intros H. unfold handle_transfer_leader. destruct (get_pr r (m_from m)); [|reflexivity].
  destruct (IdSet.mem _ _); [reflexivity|]. rewrite H, N.eqb_refl. reflexivity.
Qed.

Theorem transfer_to_self r m :
  m_from m = r_id r ->
  handle_transfer_leader r m = Ok r \/
  (handle_transfer_leader r m = Ok (r <| r_lead_transferee := None |>) /\
   exists o, r_lead_transferee r = Some o /\ o <> r_id r).
Proof.
  intros H. unfold handle_transfer_leader. destruct (get_pr r (m_from m)); [|left; reflexivity].
  destruct (IdSet.mem _ _); [left; reflexivity|].
  destruct (r_lead_transferee r) as [last|] eqn:E.
  - destruct (last =? m_from m) eqn:El; [left; reflexivity|].
    change (r_id (r <| r_lead_transferee := None |>)) with (r_id r).
    rewrite H, N.eqb_refl. right. split; [reflexivity|]. exists last. split; [reflexivity|].
    apply N.eqb_neq in El. congruence.
  - rewrite H, N.eqb_refl. left; reflexivity.
Qed.

(* lifted to [step] on a leader, for a local or same-term request *)
Lemma step_leader_transfer r m :
  is_leader r = true -> m_type m = MsgTransferLeader -> same_term_msg r m ->
  step r m = (r' <- handle_transfer_leader r m ;; Ok (r', E_OK)).
Proof.
  intros Hl Hty Hterm. rewrite (step_same_term _ _ Hterm), Hty, (is_leader_state _ Hl).
  unfold step_leader. rewrite Hty. reflexivity.
Qed.

Theorem transfer_ignored_step r m :
  is_leader r = true -> m_type m = MsgTransferLeader -> same_term_msg r m ->
  (get_pr r (m_from m) = None \/ IdSet.mem (m_from m) (learners (conf_of r)) = true \/
   r_lead_transferee r = Some (m_from m)) ->
  step r m = Ok (r, E_OK).
Proof.
  intros Hl Hty Hterm Hc. rewrite step_leader_transfer by assumption.
  destruct Hc as [Hc|[Hc|Hc]];
    [rewrite transfer_ignored_unknown|rewrite transfer_ignored_learner|rewrite transfer_same_target];
    auto.
Qed.

Theorem transfer_to_self_step r m :
  is_leader r = true -> m_type m = MsgTransferLeader -> same_term_msg r m ->
  m_from m = r_id r ->
  step r m = Ok (r, E_OK) \/
  (step r m = Ok (r <| r_lead_transferee := None |>, E_OK) /\
   exists o, r_lead_transferee r = Some o /\ o <> r_id r).
Proof.
  intros Hl Hty Hterm Hs. rewrite step_leader_transfer by assumption.
  destruct (transfer_to_self r m Hs) as [E|[E K]]; rewrite E; [left|right]; auto.
Qed.

(* RawNode::transfer_leader naming a learner, an unknown node or the pending target *)
Theorem rn_transfer_leader_ignored n id :
  is_leader (rn_raft n) = true ->
  (get_pr (rn_raft n) id = None \/ IdSet.mem id (learners (conf_of (rn_raft n))) = true \/
   r_lead_transferee (rn_raft n) = Some id) ->
  rn_transfer_leader n id = Ok n.
Proof.
  intros Hl Hc. unfold rn_transfer_leader.
  rewrite transfer_ignored_step; auto; try (left; reflexivity).
  cbn. rewrite rn_eta. reflexivity.
Qed.

(* ------------------------------------------------------------------ *)
(* instantiation of the frame lemmas at ty := MsgTimeoutNow *)
Notation TN := MsgTimeoutNow (only parsing).

Ltac spec_hyps t :=
  lazymatch type of t with
  | ((_ =? _) = false) -> _ => spec_hyps constr:(t (@eq_refl bool false))
  | _ => t
  end.
Ltac tn L := spec_hyps constr:(L MsgTimeoutNow).

Definition maybe_commit_tn := ltac:(let L := tn maybe_commit_cf in exact L).
Definition bcast_append_tn := ltac:(let L := tn bcast_append_cf in exact L).
Definition bcast_heartbeat_tn := ltac:(let L := tn bcast_heartbeat_cf in exact L).
Definition bcast_heartbeat_with_ctx_tn := ltac:(let L := tn bcast_heartbeat_with_ctx_cf in exact L).
Definition send_append_to_tn := ltac:(let L := tn send_append_to_cf in exact L).
Definition maybe_send_append_tn := ltac:(let L := tn maybe_send_append_cf in exact L).
Definition append_entry_tn := ltac:(let L := tn append_entry_cf in exact L).
Definition respond_reads_tn := ltac:(let L := tn respond_reads_cf in exact L).
Definition handle_ready_read_index_tn := ltac:(let L := tn handle_ready_read_index_cf in exact L).
Definition filter_conf_changes_tn := ltac:(let L := tn filter_conf_changes_cf in exact L).
Definition handle_append_response_tn := ltac:(let L := tn handle_append_response_shape in exact L).
Definition handle_heartbeat_response_tn := ltac:(let L := tn handle_heartbeat_response_cf in exact L).
Definition handle_snapshot_status_tn := ltac:(let L := tn handle_snapshot_status_cf in exact L).
Definition handle_unreachable_tn := ltac:(let L := tn handle_unreachable_cf in exact L).
Definition for_each_peer_tn := ltac:(let L := tn for_each_peer_cf in exact L).
Definition reset_tn := ltac:(let L := tn reset_wf in exact L).
Definition become_follower_tn := ltac:(let L := tn become_follower_wf in exact L).
Definition become_leader_tn := ltac:(let L := tn become_leader_wf in exact L).
Definition hup_tn := ltac:(let L := tn hup_wf in exact L).
Definition maybe_commit_by_vote_tn := ltac:(let L := tn maybe_commit_by_vote_wf in exact L).
Definition step_candidate_tn := ltac:(let L := tn step_candidate_wf in exact L).
Definition step_follower_tn := ltac:(let L := tn step_follower_wf in exact L).
Definition post_conf_change_shape_tn := ltac:(let L := tn post_conf_change_shape in exact L).
Definition post_conf_change_tn := ltac:(let L := tn post_conf_change_wf in exact L).
Definition send_request_snapshot_tn := ltac:(let L := tn send_request_snapshot_cf in exact L).
Definition cf_wf_tn := cf_wf MsgTimeoutNow.
Definition wf_trans_tn := wf_trans MsgTimeoutNow.


Ltac cft_fwd :=
  repeat match goal with
  | H : maybe_commit _ = Ok (_, _) |- _ => apply maybe_commit_tn in H
  | H : bcast_append _ = Ok _ |- _ => apply bcast_append_tn in H
  | H : bcast_heartbeat _ = Ok _ |- _ => apply bcast_heartbeat_tn in H
  | H : bcast_heartbeat_with_ctx _ _ = Ok _ |- _ => apply bcast_heartbeat_with_ctx_tn in H
  | H : send_append_to _ _ = Ok _ |- _ => apply send_append_to_tn in H
  | H : maybe_send_append _ _ _ _ = Ok (_, _, _) |- _ => apply maybe_send_append_tn in H
  | H : append_entry _ _ = Ok (_, _) |- _ => apply append_entry_tn in H
  | H : respond_reads _ _ = Ok _ |- _ => apply respond_reads_tn in H
  | H : handle_heartbeat_response _ _ = Ok _ |- _ => apply handle_heartbeat_response_tn in H
  | H : handle_snapshot_status _ _ = Ok _ |- _ => apply handle_snapshot_status_tn in H
  | H : handle_unreachable _ _ = Ok _ |- _ => apply handle_unreachable_tn in H
  | H : send_request_snapshot _ = Ok _ |- _ => apply send_request_snapshot_tn in H
  end.

Ltac wft_peel :=
  lazymatch goal with
  | |- wf _ ?a ?a => idtac
  | |- wf _ _ (put_pr ?r1 _ _) =>
      apply (wf_same MsgTimeoutNow _ r1); [solve_upd r1|solve_upd r1|left; solve_upd r1|]; wft_peel
  | |- wf _ _ (set_conf_prs ?r1 _ _) =>
      apply (wf_same MsgTimeoutNow _ r1); [solve_upd r1|solve_upd r1|left; solve_upd r1|]; wft_peel
  | |- wf _ _ (set _ _ ?r1) =>
      apply (wf_same MsgTimeoutNow _ r1);
        [solve_upd r1|solve_upd r1|first [left; solve_upd r1|right; reflexivity]|]; wft_peel
  | _ => idtac
  end.

Ltac wft_chain :=
  wft_peel;
  first [ assumption | apply wf_refl
        | match goal with
          | H : wf _ ?a ?b |- wf _ _ ?b => eapply wf_trans; [|exact H]; wft_chain
          | H : cf _ ?a ?b |- wf _ _ ?b => eapply wf_trans; [|exact (cf_wf _ _ _ H)]; wft_chain
          end ].

Ltac wft_fwd :=
  repeat match goal with
  | H : reset _ _ = Ok _ |- _ => apply reset_tn in H
  | H : become_follower _ _ _ = Ok _ |- _ => apply become_follower_tn in H
  | H : become_leader _ = Ok _ |- _ => apply become_leader_tn in H
  | H : maybe_commit_by_vote _ _ = Ok _ |- _ => apply maybe_commit_by_vote_tn in H
  | H : step_candidate _ _ = Ok (_, _) |- _ => apply step_candidate_tn in H
  | H : step_follower _ _ = Ok (_, _) |- _ => apply step_follower_tn in H
  | H : post_conf_change _ = Ok (_, _) |- _ => apply post_conf_change_tn in H
  end.

(* ------------------------------------------------------------------ *)
(* 1. timeout_now_guard *)

(* a MsgTimeoutNow x is justified in state r': it is addressed to the pending transfer
   target, carries the leader's term, and the target's matched index is the leader's
   last log index *)
Definition tn_ok (r' : raft) (x : msg) : Prop :=
  m_type x = MsgTimeoutNow /\ m_term x = r_term r' /\
  r_lead_transferee r' = Some (m_to x) /\
  exists p, get_pr r' (m_to x) = Some p /\ matched p = last_index (r_log r').

(* between r and r' at most one MsgTimeoutNow was queued, and if so it is justified in r' *)
Definition tn_guarded (r r' : raft) : Prop :=
  sel MsgTimeoutNow (r_msgs r') = sel MsgTimeoutNow (r_msgs r) \/
  exists x, sel MsgTimeoutNow (r_msgs r') = sel MsgTimeoutNow (r_msgs r) ++ [x] /\ tn_ok r' x.

Lemma send_timeout_now_spec r to r' : send_timeout_now r to = Ok r' ->
  exists x, r' = r <| r_msgs := r_msgs r ++ [x] |> /\
    m_type x = MsgTimeoutNow /\ m_to x = to /\ m_term x = r_term r.
Proof.
  unfold send_timeout_now. intros H. apply send_spec in H.
  destruct H as (x & E & A & B & _ & _ & _ & F).
  exists x. repeat split; auto. apply F; [reflexivity|discriminate|discriminate].
Qed.

Lemma send_timeout_now_guard r0 r3 to p r' :
  sel MsgTimeoutNow (r_msgs r3) = sel MsgTimeoutNow (r_msgs r0) ->
  r_lead_transferee r3 = Some to -> get_pr r3 to = Some p -> matched p = last_index (r_log r3) ->
  send_timeout_now r3 to = Ok r' ->
  ctl r' = ctl r3 /\
  exists x, sel MsgTimeoutNow (r_msgs r') = sel MsgTimeoutNow (r_msgs r0) ++ [x] /\
            tn_ok r' x /\ m_to x = to.
Proof.
  intros Hs Hl Hp Hm H. apply send_timeout_now_spec in H. destruct H as (x & -> & A & B & C0).
  split; [reflexivity|]. exists x. split; [|split; [|exact B]].
  - change (r_msgs (r3 <| r_msgs := r_msgs r3 ++ [x] |>)) with (r_msgs r3 ++ [x]).
    rewrite sel_app, sel_one_same, Hs; [reflexivity|]. rewrite A. reflexivity.
  - unfold tn_ok. rewrite B. repeat split; try assumption. exists p. split; assumption.
Qed.

Lemma tl_started_facts r m r' : tl_started r m r' ->
  ctl r' = ctl (tl_start r (m_from m)) /\ tn_guarded r r'.
Proof.
  intros (Hself & Hne & Hlr & pr & Hpr & [[Hm H]|[Hm (r1 & pr1 & b & H & ->)]]).
  - eapply send_timeout_now_guard in H; try reflexivity; try eassumption.
    destruct H as (A & x & B & C0 & _). split; [exact A|]. right. exists x. split; assumption.
  - apply maybe_send_append_tn in H. destruct H as [A B]. split; [exact B|]. left. exact A.
Qed.

Inductive sl_out (r : raft) (m : msg) (r' : raft) : Prop :=
| SL_quiet : cf MsgTimeoutNow r r' -> sl_out r m r'
| SL_down : m_type m = MsgCheckQuorum -> wf MsgTimeoutNow r r' ->
    r_lead_transferee r' = None -> r_state r' = Follower -> r_election_elapsed r' = 0 ->
    sl_out r m r'
| SL_tn x : m_type m = MsgAppendResponse -> ctl r' = ctl r ->
    r_lead_transferee r = Some (m_from m) ->
    sel MsgTimeoutNow (r_msgs r') = sel MsgTimeoutNow (r_msgs r) ++ [x] -> tn_ok r' x ->
    m_to x = m_from m -> sl_out r m r'
| SL_cancel o : m_type m = MsgTransferLeader -> m_from m = r_id r ->
    r_lead_transferee r = Some o -> o <> r_id r -> r' = r <| r_lead_transferee := None |> ->
    sl_out r m r'
| SL_start : m_type m = MsgTransferLeader -> tl_started r m r' -> sl_out r m r'.

Lemma quorum_recently_active_conf t p t' a :
  quorum_recently_active t p = (t', a) -> t_conf t' = t_conf t.
Proof. unfold quorum_recently_active. intros H. inversion H; reflexivity. Qed.

Lemma step_leader_shape r m r' c : step_leader r m = Ok (r', c) -> sl_out r m r'.
Proof.
  intros H. unfold step_leader in H.
  destruct (m_type m =? MsgBeat).
  { inv_bind H. inversion H; subst. apply SL_quiet. cft_fwd. assumption. }
  destruct (m_type m =? MsgCheckQuorum) eqn:Ecq.
  { apply N.eqb_eq in Ecq.
    destruct (quorum_recently_active (r_prs r) (r_id r)) as [prs' active] eqn:Eq.
    apply quorum_recently_active_conf in Eq.
    assert (Hr0 : cf MsgTimeoutNow r (r <| r_prs := prs' |>)).
    { split; [reflexivity|]. unfold ctl, conf_of. cbn. rewrite Eq. reflexivity. }
    destruct (negb active).
    - inv_bind H. inversion H; subst; clear H.
      pose proof (become_follower_clears _ _ _ _ Hx) as (A & B & C0).
      apply become_follower_tn in Hx.
      apply SL_down; auto.
    - inversion H; subst. apply SL_quiet. exact Hr0. }
  destruct (m_type m =? MsgPropose).
  { destruct (m_entries m); [discriminate|].
    destruct (get_pr r (r_id r)); [|inversion H; apply SL_quiet, cf_refl].
    destruct (r_lead_transferee r); [inversion H; apply SL_quiet, cf_refl|].
    destruct (filter_conf_changes r (e :: l) (m_ccinfo m) 0) as [[r1 ents] ok] eqn:Ef.
    apply filter_conf_changes_tn in Ef.
    destruct (negb ok); [inversion H; subst; apply SL_quiet; exact Ef|].
    inv_bind H. destruct x as [r2 appended]. cft_fwd.
    destruct (negb appended).
    - inversion H; subst. apply SL_quiet. eapply cf_trans; eassumption.
    - inv_bind H. inversion H; subst. cft_fwd. apply SL_quiet.
      eapply cf_trans; [exact Ef|]. eapply cf_trans; eassumption. }
  destruct (m_type m =? MsgReadIndex).
  { inv_bind H. destruct (negb x); [inversion H; apply SL_quiet, cf_refl|].
    assert (Hans : forall r' c,
      (x <- handle_ready_read_index r m (committed (r_log r)) ;;
       (let '(r1, om) := x in
        r2 <- match om with Some mm => send r1 mm | None => Ok r1 end ;; Ok (r2, E_OK)))
      = Ok (r', c) -> cf MsgTimeoutNow r r').
    { clear. intros r' c H. inv_bind H. destruct x as [r1 om].
      apply handle_ready_read_index_tn in Hx. destruct Hx as [A B].
      inv_bind H. inversion H; subst; clear H.
      destruct om as [mm|]; [|inversion Hx; subst; exact A].
      apply (send_cf MsgTimeoutNow) in Hx; [|rewrite B; reflexivity].
      eapply cf_trans; eassumption. }
    match type of H with (if ?c then _ else _) = _ => destruct c end;
      [apply SL_quiet; eapply Hans; exact H|].
    destruct (ro_option (r_read_only r) =? 0); [|apply SL_quiet; eapply Hans; exact H].
    inv_bind H. inv_bind H. inv_bind H. inversion H; subst. cft_fwd. apply SL_quiet. cf_solve. }
  destruct (m_type m =? MsgAppendResponse) eqn:Ear.
  { apply N.eqb_eq in Ear. inv_bind H. inversion H; subst; clear H.
    apply handle_append_response_tn in Hx.
    destruct Hx as [Hx|(r3 & p & A & B & C0 & D & E)]; [apply SL_quiet; exact Hx|].
    destruct A as [A1 A2].
    eapply send_timeout_now_guard in E; try eassumption.
    destruct E as (E1 & x & E2 & E3 & E4).
    apply (SL_tn _ _ _ x); auto; try congruence.
    unfold ctl in A2. inversion A2. congruence. }
  destruct (m_type m =? MsgHeartbeatResponse).
  { inv_bind H. inversion H; subst. cft_fwd. apply SL_quiet. assumption. }
  destruct (m_type m =? MsgSnapStatus).
  { inv_bind H. inversion H; subst. cft_fwd. apply SL_quiet. assumption. }
  destruct (m_type m =? MsgUnreachable).
  { inv_bind H. inversion H; subst. cft_fwd. apply SL_quiet. assumption. }
  destruct (m_type m =? MsgTransferLeader) eqn:Etl.
  { apply N.eqb_eq in Etl. inv_bind H. inversion H; subst; clear H.
    apply handle_transfer_leader_shape in Hx.
    destruct Hx as [[-> _]|[(A & (o & B & C0) & ->)|Hx]].
    - apply SL_quiet, cf_refl.
    - eapply SL_cancel; eauto.
    - apply SL_start; assumption. }
  inversion H; subst. apply SL_quiet, cf_refl.
Qed.

(* ------------------------------------------------------------------ *)
(* [step] = term prologue, then the role-specific part *)
Definition step_pre (r : raft) (m : msg) : Res (raft * N + raft) :=
  let t := m_type m in
  if m_term m =? 0 then Ok (inr r)
  else if r_term r <? m_term m then
    let is_vote_req := (t =? MsgRequestVote) || (t =? MsgRequestPreVote) in
    let force := list_eqb (m_context m) CAMPAIGN_TRANSFER in
    let in_lease := r_check_quorum r && negb (r_leader_id r =? INVALID_ID)
                    && (r_election_elapsed r <? r_election_timeout r) in
    if is_vote_req && negb force && in_lease then Ok (inl (r, E_OK))
    else if (t =? MsgRequestPreVote)
            || ((t =? MsgRequestPreVoteResponse) && negb (m_reject m))
    then Ok (inr r)
    else if (t =? MsgAppend) || (t =? MsgHeartbeat) || (t =? MsgSnapshot)
    then r' <- become_follower r (m_term m) (m_from m) ;; Ok (inr r')
    else r' <- become_follower r (m_term m) INVALID_ID ;; Ok (inr r')
  else if m_term m <? r_term r then
    if (r_check_quorum r || r_pre_vote r) && ((t =? MsgHeartbeat) || (t =? MsgAppend)) then
      r' <- send r (new_message (m_from m) MsgAppendResponse None) ;; Ok (inl (r', E_OK))
    else if t =? MsgRequestPreVote then
      r' <- send r ((new_message (m_from m) MsgRequestPreVoteResponse None)
                      <| m_term := r_term r |> <| m_reject := true |>) ;;
      Ok (inl (r', E_OK))
    else Ok (inl (r, E_OK))
  else Ok (inr r).

Definition vote_granted (r : raft) (m : msg) : bool :=
  ((r_vote r =? m_from m)
   || ((r_vote r =? INVALID_ID) && (r_leader_id r =? INVALID_ID))
   || ((m_type m =? MsgRequestPreVote) && (r_term r <? m_term m))).

Definition step_main (r : raft) (m : msg) : Res (raft * N) :=
  if m_type m =? MsgHup then r' <- hup r false ;; Ok (r', E_OK)
  else if (m_type m =? MsgRequestVote) || (m_type m =? MsgRequestPreVote) then
    utd <- is_up_to_date (r_log r) (m_index m) (m_log_term m) ;;
    rt <- vote_resp_msg_type (m_type m) ;;
    if vote_granted r m && utd
       && ((last_index (r_log r) <? m_index m) || (r_priority r <=? get_priority m)%Z)
    then
      r1 <- send r ((new_message (m_from m) rt None) <| m_reject := false |>
                      <| m_term := m_term m |>) ;;
      if m_type m =? MsgRequestVote
      then Ok (r1 <| r_election_elapsed := 0 |> <| r_vote := m_from m |>, E_OK)
      else Ok (r1, E_OK)
    else
      ci <- commit_info (r_log r) ;;
      r1 <- send r ((new_message (m_from m) rt None) <| m_reject := true |>
                      <| m_term := r_term r |> <| m_commit := fst ci |>
                      <| m_commit_term := snd ci |>) ;;
      r2 <- maybe_commit_by_vote r1 m ;; Ok (r2, E_OK)
  else
    match r_state r with
    | PreCandidate | Candidate => step_candidate r m
    | Follower => step_follower r m
    | Leader => step_leader r m
    end.

Lemma step_eq r m :
  step r m = (pre <- step_pre r m ;;
              match pre with inl ret => Ok ret | inr r0 => step_main r0 m end).
Proof. reflexivity. Qed.

Lemma step_main_same_term r m : same_term_msg r m -> step r m = step_main r m.
Proof. intros H. rewrite (step_same_term _ _ H). reflexivity. Qed.

Lemma step_pre_shape r m x : step_pre r m = Ok x ->
  x = inr r \/
  (exists r1 c, x = inl (r1, c) /\ cf MsgTimeoutNow r r1) \/
  (r_term r < m_term m /\ exists r0 l, x = inr r0 /\ become_follower r (m_term m) l = Ok r0).
Proof.
  intros H. unfold step_pre in H. cbn zeta in H.
  destruct (m_term m =? 0); [inversion H; left; reflexivity|].
  destruct (r_term r <? m_term m) eqn:Elt.
  - apply N.ltb_lt in Elt.
    match type of H with (if ?c then _ else _) = _ => destruct c end.
    { inversion H. right; left. do 2 eexists. split; [reflexivity|apply cf_refl]. }
    match type of H with (if ?c then _ else _) = _ => destruct c end;
      [inversion H; left; reflexivity|].
    match type of H with (if ?c then _ else _) = _ => destruct c end;
      inv_bind H; inversion H; subst; right; right; (split; [exact Elt|]); eauto.
  - destruct (m_term m <? r_term r); [|inversion H; left; reflexivity].
    right; left.
    match type of H with (if ?c then _ else _) = _ => destruct c end.
    { inv_bind H. inversion H; subst. do 2 eexists. split; [reflexivity|].
      eapply send_cf; [eassumption|reflexivity]. }
    destruct (m_type m =? MsgRequestPreVote).
    { inv_bind H. inversion H; subst. do 2 eexists. split; [reflexivity|].
      eapply send_cf; [eassumption|reflexivity]. }
    inversion H. do 2 eexists. split; [reflexivity|apply cf_refl].
Qed.

Lemma vote_resp_msg_type_not_tn t rt : vote_resp_msg_type t = Ok rt -> (rt =? MsgTimeoutNow) = false.
Proof.
  unfold vote_resp_msg_type. destruct (t =? MsgRequestVote); [intros H; inversion H; reflexivity|].
  destruct (t =? MsgRequestPreVote); [intros H; inversion H; reflexivity|discriminate].
Qed.

Lemma maybe_commit_by_vote_leader r m : is_leader r = true -> maybe_commit_by_vote r m = Ok r.
Proof.
  intros H. unfold maybe_commit_by_vote. rewrite H, orb_true_r.
  destruct ((m_commit m =? 0) || (m_commit_term m =? 0)); reflexivity.
Qed.

Lemma hup_leader r tl : is_leader r = true -> hup r tl = Ok r.
Proof. intros H. unfold hup. rewrite H. reflexivity. Qed.

Inductive sm_out (r : raft) (m : msg) (r' : raft) : Prop :=
| SM_quiet : cf MsgTimeoutNow r r' -> sm_out r m r'
| SM_grant r1 : m_type m = MsgRequestVote -> vote_granted r m = true ->
    cf MsgTimeoutNow r r1 -> r' = r1 <| r_election_elapsed := 0 |> <| r_vote := m_from m |> ->
    sm_out r m r'
| SM_leader : r_state r = Leader -> sl_out r m r' -> sm_out r m r'
| SM_other : r_state r <> Leader -> wf MsgTimeoutNow r r' -> sm_out r m r'.

Lemma step_main_shape r m r' c : step_main r m = Ok (r', c) -> sm_out r m r'.
Proof.
  intros H. unfold step_main in H.
  assert (Hst : {r_state r = Leader} + {r_state r <> Leader})
    by (destruct (r_state r); auto; right; discriminate).
  assert (Hil : r_state r = Leader -> is_leader r = true) by (unfold is_leader; intros ->; reflexivity).
  destruct (m_type m =? MsgHup).
  { inv_bind H. inversion H; subst; clear H. destruct Hst as [Hs|Hs].
    - rewrite hup_leader in Hx by auto. inversion Hx; subst. apply SM_quiet, cf_refl.
    - apply SM_other; [exact Hs|]. eapply hup_tn; [right; reflexivity|exact Hx]. }
  match type of H with (if ?c then _ else _) = _ => destruct c end.
  { inv_bind H. inv_bind H. pose proof (vote_resp_msg_type_not_tn _ _ Hx0) as Hrt.
    match type of H with (if ?c then _ else _) = _ => destruct c eqn:Eg end.
    - inv_bind H. apply (send_cf MsgTimeoutNow) in Hx1; [|exact Hrt].
      destruct (m_type m =? MsgRequestVote) eqn:Ev; inversion H; subst; clear H.
      + apply N.eqb_eq in Ev. apply andb_prop in Eg. destruct Eg as [Eg _].
        apply andb_prop in Eg. destruct Eg as [Eg _]. eapply SM_grant; eauto.
      + apply SM_quiet. exact Hx1.
    - inv_bind H. inv_bind H. inv_bind H. inversion H; subst; clear H.
      apply (send_cf MsgTimeoutNow) in Hx2; [|exact Hrt].
      destruct Hst as [Hs|Hs].
      + assert (Hl1 : is_leader x2 = true).
        { destruct Hx2 as [_ K]. unfold ctl in K. inversion K. unfold is_leader.
          rewrite H0, Hs. reflexivity. }
        rewrite maybe_commit_by_vote_leader in Hx3 by exact Hl1. inversion Hx3; subst.
        apply SM_quiet. exact Hx2.
      + apply SM_other; [exact Hs|]. apply maybe_commit_by_vote_tn in Hx3.
        eapply wf_trans; [apply cf_wf; exact Hx2|exact Hx3]. }
  destruct (r_state r) eqn:Es.
  - apply SM_other; [congruence|]. eapply step_follower_tn; exact H.
  - apply SM_other; [congruence|]. eapply step_candidate_tn; exact H.
  - apply SM_leader; [exact Es|]. eapply step_leader_shape; exact H.
  - apply SM_other; [congruence|]. eapply step_candidate_tn; exact H.
Qed.

(* ------------------------------------------------------------------ *)
(* Theorem 1 *)

(* the only two sources of a MsgTimeoutNow *)
Definition tn_source (r : raft) (m : msg) (r' : raft) : Prop :=
  r_state r = Leader /\
  (m_type m = MsgAppendResponse \/ m_type m = MsgTransferLeader) /\
  exists x, sel MsgTimeoutNow (r_msgs r') = sel MsgTimeoutNow (r_msgs r) ++ [x] /\
            tn_ok r' x /\ m_to x = m_from m.

Lemma wf_sel ty r r' : wf ty r r' -> sel ty (r_msgs r') = sel ty (r_msgs r).
Proof. intros (A & _). exact A. Qed.

Lemma cf_sel ty r r' : cf ty r r' -> sel ty (r_msgs r') = sel ty (r_msgs r).
Proof. intros (A & _). exact A. Qed.

Lemma sl_out_sources r m r' : r_state r = Leader -> sl_out r m r' ->
  sel MsgTimeoutNow (r_msgs r') = sel MsgTimeoutNow (r_msgs r) \/ tn_source r m r'.
Proof.
  intros Hs [H|H1 H2 _ _ _|x H1 H2 H3 H4 H5 H6|o H1 H2 H3 H4 ->|H1 H2].
  - left. apply cf_sel. exact H.
  - left. apply wf_sel. exact H2.
  - right. split; [exact Hs|]. split; [left; exact H1|]. exists x. auto.
  - left. reflexivity.
  - pose proof H2 as (_ & _ & _ & pr & Hpr & [[Hm K]|[Hm (r1 & pr1 & b & K & ->)]]).
    + right. split; [exact Hs|]. split; [right; exact H1|].
      eapply send_timeout_now_guard in K; try reflexivity; try eassumption.
      destruct K as (_ & x & B & C0 & D). exists x. auto.
    + left. apply maybe_send_append_tn in K. destruct K as [A _]. exact A.
Qed.

Lemma sm_out_sources r m r' : sm_out r m r' ->
  sel MsgTimeoutNow (r_msgs r') = sel MsgTimeoutNow (r_msgs r) \/ tn_source r m r'.
Proof.
  intros [H|r1 H1 H2 H3 ->|H1 H2|H1 H2].
  - left. apply cf_sel. exact H.
  - left. apply cf_sel in H3. exact H3.
  - apply sl_out_sources; assumption.
  - left. apply wf_sel. exact H2.
Qed.

Theorem timeout_now_sources r m r' c : step r m = Ok (r', c) ->
  sel MsgTimeoutNow (r_msgs r') = sel MsgTimeoutNow (r_msgs r) \/ tn_source r m r'.
Proof.
  intros H. rewrite step_eq in H. inv_bind H.
  apply step_pre_shape in Hx. destruct Hx as [->|[(r1 & c1 & -> & A)|(Hlt & r0 & l & -> & A)]].
  - apply step_main_shape in H. apply sm_out_sources. exact H.
  - inversion H; subst. left. apply cf_sel. exact A.
  - apply step_main_shape in H.
    pose proof (become_follower_clears _ _ _ _ A) as (_ & _ & Hf).
    apply become_follower_tn in A. apply wf_sel in A. left.
    destruct (sm_out_sources _ _ _ H) as [K|(K & _)]; congruence.
Qed.

Theorem timeout_now_guard r m r' c : step r m = Ok (r', c) -> tn_guarded r r'.
Proof.
  intros H. destruct (timeout_now_sources _ _ _ _ H) as [K|(_ & _ & x & A & B & _)].
  - left. exact K.
  - right. exists x. auto.
Qed.

(* ------------------------------------------------------------------ *)
(* Theorem 3: the transfer timer.  What one input can do to (lead_transferee,
   election_elapsed) on a leader. *)

Lemma ctl_fields r r' : ctl r' = ctl r ->
  r_state r' = r_state r /\ r_lead_transferee r' = r_lead_transferee r /\
  r_election_elapsed r' = r_election_elapsed r /\ r_election_timeout r' = r_election_timeout r /\
  r_term r' = r_term r /\ r_vote r' = r_vote r /\ r_id r' = r_id r /\
  r_leader_id r' = r_leader_id r /\ r_check_quorum r' = r_check_quorum r /\
  r_heartbeat_timeout r' = r_heartbeat_timeout r /\ r_heartbeat_elapsed r' = r_heartbeat_elapsed r /\
  conf_of r' = conf_of r.
Proof. unfold ctl. intros H. inversion H. repeat split; assumption. Qed.

Lemma ctl_cfg r r' : ctl r' = ctl r -> cfg r' = cfg r.
Proof. unfold ctl, cfg. intros H. inversion H. congruence. Qed.

Lemma ctl_leader r r' : ctl r' = ctl r -> is_leader r' = is_leader r.
Proof. intros H. apply ctl_fields in H. destruct H as (A & _). unfold is_leader. rewrite A. reflexivity. Qed.

(* the timer is untouched: same target, same elapsed, still leader *)
Definition timer_same (r r' : raft) : Prop :=
  is_leader r' = true /\ r_lead_transferee r' = r_lead_transferee r /\
  r_election_elapsed r' = r_election_elapsed r /\ r_vote r' = r_vote r.

(* a NEW transfer was started by this message: different target, elapsed back to 0 *)
Definition timer_restarted (r : raft) (m : msg) (r' : raft) : Prop :=
  is_leader r' = true /\ m_type m = MsgTransferLeader /\
  r_lead_transferee r' = Some (m_from m) /\ r_lead_transferee r <> Some (m_from m) /\
  r_election_elapsed r' = 0.

(* the leader granted a same-term MsgRequestVote: only possible when its recorded vote
   is the sender (or it has neither vote nor leader) -- never for a well-formed leader,
   which has voted for itself, and a sender other than itself *)
Definition timer_vote_reset (r : raft) (m : msg) (r' : raft) : Prop :=
  is_leader r' = true /\ m_type m = MsgRequestVote /\ vote_granted r m = true /\
  r_lead_transferee r' = r_lead_transferee r /\ r_election_elapsed r' = 0 /\
  r_vote r' = m_from m.

Lemma cf_timer_same r r' : is_leader r = true -> cf MsgTimeoutNow r r' -> timer_same r r'.
Proof.
  intros Hl [_ H]. pose proof (ctl_leader _ _ H) as A. apply ctl_fields in H.
  destruct H as (_ & B & C0 & _ & _ & D & _). unfold timer_same. rewrite A. auto.
Qed.

Lemma wf_cfg ty r r' : wf ty r r' -> cfg r' = cfg r.
Proof. intros (_ & A & _). exact A. Qed.

Lemma wf_lt_none ty r r' : wf ty r r' -> r_lead_transferee r = None -> r_lead_transferee r' = None.
Proof.
  intros (_ & _ & A) H. destruct (r_lead_transferee r') as [t|] eqn:E; [|reflexivity].
  specialize (A t eq_refl). congruence.
Qed.

Theorem transfer_timer_step r m r' c :
  is_leader r = true -> step r m = Ok (r', c) ->
  cfg r' = cfg r /\
  (r_lead_transferee r' = None \/ timer_same r r' \/ timer_restarted r m r' \/
   timer_vote_reset r m r').
Proof.
  intros Hl H. rewrite step_eq in H. inv_bind H.
  apply step_pre_shape in Hx. destruct Hx as [->|[(r1 & c1 & -> & A)|(Hlt & r0 & l & -> & A)]].
  - apply step_main_shape in H. destruct H as [H|r1 H1 H2 H3 ->|H1 H2|H1 H2].
    + split; [apply ctl_cfg; apply H|]. right; left. apply cf_timer_same; assumption.
    + pose proof (cf_timer_same _ _ Hl H3) as (A & B & C0 & _).
      split; [destruct H3 as [_ K]; apply ctl_cfg in K; exact K|].
      right; right; right. unfold timer_vote_reset. repeat split; auto.
    + destruct H2 as [H|H2 H3 H4 H5 H6|x H2 H3 H4 H5 H6 H7|o H2 H3 H4 H5 ->|H2 H3].
      * split; [apply ctl_cfg; apply H|]. right; left. apply cf_timer_same; assumption.
      * split; [eapply wf_cfg; exact H3|]. left. exact H4.
      * split; [apply ctl_cfg; exact H3|]. right; left.
        pose proof (ctl_leader _ _ H3) as A. apply ctl_fields in H3.
        destruct H3 as (_ & B & C0 & _ & _ & D & _). unfold timer_same. rewrite A. auto.
      * split; [reflexivity|]. left. reflexivity.
      * pose proof H3 as (Hself & Hne & _). apply tl_started_facts in H3. destruct H3 as [A _].
        split; [apply ctl_cfg in A; exact A|]. right; right; left.
        pose proof (ctl_leader _ _ A) as B. apply ctl_fields in A.
        destruct A as (_ & A1 & A2 & _). unfold timer_restarted. rewrite B. repeat split; auto.
    + apply is_leader_state in Hl. congruence.
  - inversion H; subst. split; [apply ctl_cfg; apply A|]. right; left. apply cf_timer_same; assumption.
  - apply step_main_shape in H.
    pose proof (become_follower_clears _ _ _ _ A) as (Hn & _ & Hf).
    apply become_follower_tn in A.
    assert (Hw : wf MsgTimeoutNow r0 r').
    { destruct H as [H|r1 H1 H2 H3 ->|H1 H2|H1 H2].
      - apply cf_wf. exact H.
      - apply cf_wf in H3. wft_chain.
      - congruence.
      - exact H2. }
    split; [rewrite (wf_cfg _ _ _ Hw); eapply wf_cfg; exact A|].
    left. eapply wf_lt_none; eassumption.
Qed.

(* a leader that has voted for itself never takes the vote-reset branch for a request
   from another node *)
Lemma no_vote_reset r m r' :
  r_vote r = r_id r -> r_id r <> 0 -> m_from m <> r_id r -> ~ timer_vote_reset r m r'.
Proof.
  intros Hv Hid Hfrom (_ & Hty & Hg & _). unfold vote_granted in Hg. rewrite Hty, Hv in Hg.
  change (MsgRequestVote =? MsgRequestPreVote) with false in Hg. cbn [andb orb] in Hg.
  rewrite orb_false_r in Hg. apply orb_prop in Hg. destruct Hg as [Hg|Hg].
  - apply N.eqb_eq in Hg. congruence.
  - apply andb_prop in Hg. destruct Hg as [Hg _]. apply N.eqb_eq in Hg.
    unfold INVALID_ID in Hg. congruence.
Qed.

Lemma step_local_leader r m r' c :
  r_state r = Leader -> m_term m = 0 ->
  (m_type m = MsgCheckQuorum \/ m_type m = MsgBeat) ->
  step r m = Ok (r', c) -> sl_out r m r'.
Proof.
  intros Hs Ht Hty H. rewrite step_main_same_term in H by (left; exact Ht).
  unfold step_main in H. rewrite Hs in H.
  destruct Hty as [E|E]; rewrite E in H; cbn [orb] in H;
    [change (MsgCheckQuorum =? MsgHup) with false in H;
     change (MsgCheckQuorum =? MsgRequestVote) with false in H;
     change (MsgCheckQuorum =? MsgRequestPreVote) with false in H
    |change (MsgBeat =? MsgHup) with false in H;
     change (MsgBeat =? MsgRequestVote) with false in H;
     change (MsgBeat =? MsgRequestPreVote) with false in H];
    cbn [orb] in H; eapply step_leader_shape; exact H.
Qed.

Lemma sl_out_beat r m r' : m_type m = MsgBeat -> sl_out r m r' -> cf MsgTimeoutNow r r'.
Proof.
  intros Hty [H|H1 _ _ _ _|x H1 _ _ _ _ _|o H1 _ _ _ _|H1 _]; try exact H;
    rewrite Hty in H1; discriminate.
Qed.

(* the heartbeat half of tick_heartbeat never touches the timer *)
Lemma tick_heartbeat_tail r1 hr r' b :
  is_leader r1 = true ->
  (if r_heartbeat_timeout r1 <=? r_heartbeat_elapsed r1 then
     z <- step (r1 <| r_heartbeat_elapsed := 0 |>)
               (new_message INVALID_ID MsgBeat (Some (r_id (r1 <| r_heartbeat_elapsed := 0 |>)))) ;;
     Ok (fst z, true)
   else Ok (r1, hr)) = Ok (r', b) ->
  cfg r' = cfg r1 /\ is_leader r' = true /\ r_lead_transferee r' = r_lead_transferee r1 /\
  r_election_elapsed r' = r_election_elapsed r1 /\ r_vote r' = r_vote r1.
Proof.
  intros Hl H. destruct (r_heartbeat_timeout r1 <=? r_heartbeat_elapsed r1).
  - inv_bind H. inversion H; subst; clear H. destruct x as [r2 c]. cbn [fst].
    apply step_local_leader in Hx; [|apply is_leader_state; exact Hl|reflexivity|right; reflexivity].
    apply sl_out_beat in Hx; [|reflexivity]. destruct Hx as [_ K].
    pose proof (ctl_leader _ _ K) as A. pose proof (ctl_cfg _ _ K) as B.
    apply ctl_fields in K. destruct K as (_ & K1 & K2 & _ & _ & K3 & _).
    repeat split; [exact B|rewrite A; exact Hl|exact K1|exact K2|exact K3].
  - inversion H; subst. auto.
Qed.

Theorem transfer_timer_tick r r' b :
  is_leader r = true -> tick r = Ok (r', b) ->
  cfg r' = cfg r /\
  (r_lead_transferee r' = None \/
   (is_leader r' = true /\ r_lead_transferee r' = r_lead_transferee r /\
    r_election_elapsed r' = r_election_elapsed r + 1 /\
    r_election_elapsed r' < r_election_timeout r' /\ r_vote r' = r_vote r)).
Proof.
  intros Hl H. unfold tick in H. rewrite (is_leader_state _ Hl) in H.
  unfold tick_heartbeat in H.
  set (r1 := r <| r_heartbeat_elapsed := r_heartbeat_elapsed r + 1 |>
               <| r_election_elapsed := r_election_elapsed r + 1 |>) in *.
  assert (Hl1 : is_leader r1 = true) by exact Hl.
  change (r_election_timeout r1) with (r_election_timeout r) in H.
  change (r_election_elapsed r1) with (r_election_elapsed r + 1) in H.
  inv_bind H. destruct x as [ra has_ready].
  destruct (r_election_timeout r <=? r_election_elapsed r + 1) eqn:Eexp.
  - (* the election timeout has elapsed: the transfer is abandoned *)
    inv_bind Hx. destruct x as [r3 hr]. inversion Hx; subst; clear Hx.
    set (r2 := r1 <| r_election_elapsed := 0 |>) in *.
    assert (H3 : cfg r3 = cfg r /\
                 (is_leader r3 = true \/ (is_leader r3 = false /\ r_lead_transferee r3 = None))).
    { change (r_check_quorum r2) with (r_check_quorum r) in Hx0.
      destruct (r_check_quorum r).
      - inv_bind Hx0. inversion Hx0; subst; clear Hx0. destruct x as [rz cz]. cbn [fst].
        apply step_local_leader in Hx; [|apply is_leader_state; exact Hl|reflexivity|left; reflexivity].
        destruct Hx as [K|K1 K2 K3 K4 K5|x K1 _ _ _ _ _|o K1 _ _ _ _|K1 _];
          try (cbn in K1; discriminate K1).
        + destruct K as [_ K]. split; [apply ctl_cfg in K; exact K|]. left.
          rewrite (ctl_leader _ _ K). exact Hl.
        + split; [apply (wf_cfg _ _ _ K2)|]. right. split; [|exact K3].
          unfold is_leader. rewrite K4. reflexivity.
      - inversion Hx0; subst. split; [reflexivity|]. left. exact Hl. }
    destruct H3 as [Hc3 H3].
    set (r4 := if is_leader r3 && match r_lead_transferee r3 with Some _ => true | None => false end
               then r3 <| r_lead_transferee := None |> else r3) in *.
    assert (H4 : cfg r4 = cfg r /\ r_lead_transferee r4 = None /\ is_leader r4 = is_leader r3).
    { subst r4. destruct H3 as [K|[K1 K2]].
      - rewrite K. cbn [andb]. destruct (r_lead_transferee r3) eqn:E; auto.
      - rewrite K1. cbn [andb]. auto. }
    destruct H4 as (Hc4 & Hn4 & Hl4).
    destruct (is_leader r4) eqn:El4; cbn [negb] in H.
    + apply tick_heartbeat_tail in H; [|exact El4]. destruct H as (A & _ & B & _).
      split; [congruence|]. left. congruence.
    + inversion H; subst. split; [exact Hc4|]. left. exact Hn4.
  - inversion Hx; subst; clear Hx. rewrite Hl1 in H. cbn [negb] in H.
    apply tick_heartbeat_tail in H; [|exact Hl1]. destruct H as (A & B & C0 & D & V).
    split; [exact A|]. right. split; [exact B|]. split; [exact C0|]. split; [exact D|].
    split; [|exact V].
    apply N.leb_gt in Eexp. rewrite D.
    assert (E : r_election_timeout r' = r_election_timeout r).
    { unfold cfg in A. inversion A. reflexivity. }
    rewrite E. exact Eexp.
Qed.

Theorem transfer_expires r r' b :
  is_leader r = true -> r_election_timeout r <= r_election_elapsed r + 1 ->
  tick r = Ok (r', b) -> r_lead_transferee r' = None.
Proof.
  intros Hl Hexp H. apply transfer_timer_tick in H; [|exact Hl].
  destruct H as (A & [H|(_ & _ & B & C0 & _)]); [exact H|].
  assert (E : r_election_timeout r' = r_election_timeout r).
  { unfold cfg in A. inversion A. reflexivity. }
  lia.
Qed.

(* ------------------------------------------------------------------ *)
(* Theorem 4 *)

Lemma become_leader_clears r r' : become_leader r = Ok r' ->
  r_lead_transferee r' = None /\ r_election_elapsed r' = 0 /\ r_state r' = Leader.
Proof.
  unfold become_leader. intros H. destruct (role_eqb (r_state r) Follower); [discriminate|].
  inv_bind H. apply reset_clears in Hx. destruct Hx as [A B].
  match type of H with match ?d with _ => _ end = _ => destruct d end; [|discriminate].
  inv_bind H. destruct x0 as [r6 ok]. destruct ok; [|discriminate]. inversion H; subst; clear H.
  apply append_entry_tn in Hx.
  match type of Hx with cf _ ?r5 _ =>
    assert (K : cf MsgTimeoutNow (x <| r_leader_id := r_id x |> <| r_state := Leader |>) r5)
      by cf_solve
  end.
  pose proof (cf_trans _ _ _ _ K Hx) as [_ L]. apply ctl_fields in L.
  destruct L as (L1 & L2 & L3 & _). cbn in L1, L2, L3. repeat split; congruence.
Qed.

Theorem transfer_cleared_on_reset :
  (forall r t r', reset r t = Ok r' -> r_lead_transferee r' = None) /\
  (forall r t l r', become_follower r t l = Ok r' -> r_lead_transferee r' = None) /\
  (forall r r', become_candidate r = Ok r' -> r_lead_transferee r' = None) /\
  (forall r r', become_leader r = Ok r' -> r_lead_transferee r' = None).
Proof.
  repeat split; intros.
  - eapply reset_clears; eassumption.
  - eapply become_follower_clears; eassumption.
  - eapply become_candidate_clears; eassumption.
  - eapply become_leader_clears; eassumption.
Qed.

(* post_conf_change.  The transfer check is reached exactly when the node is a leader that
   is still a voter of a configuration with at least one voter; then a surviving transfer
   target is a voter of the (new) configuration.  Otherwise nothing but [promotable]
   changes. *)
Definition pcc_reaches_check (r : raft) : Prop :=
  is_leader r = true /\ voters_contains (conf_of r) (r_id r) = true /\
  cs_voters (to_conf_state (conf_of r)) <> [].

Theorem transfer_cleared_when_target_removed r r' cs :
  post_conf_change r = Ok (r', cs) ->
  conf_of r' = conf_of r /\
  (pcc_reaches_check r ->
     forall t, r_lead_transferee r' = Some t ->
       r_lead_transferee r = Some t /\ voters_contains (conf_of r') t = true) /\
  (~ pcc_reaches_check r ->
     r' = r <| r_promotable := voters_contains (conf_of r) (r_id r) |>).
Proof.
  intros H. apply post_conf_change_shape_tn in H.
  destruct H as [-> [[-> Hc]|(H1 & H2 & H3 & r3 & A & ->)]].
  - split; [reflexivity|]. split.
    + intros (K1 & K2 & K3). destruct Hc as [Hc|[Hc|Hc]]; congruence.
    + reflexivity.
  - destruct A as [_ A]. apply ctl_fields in A.
    destruct A as (_ & A2 & _ & _ & _ & _ & _ & _ & _ & _ & _ & A12).
    assert (Hconf : conf_of (pcc_check r3) = conf_of r3).
    { unfold pcc_check. destruct (r_lead_transferee r3); [|reflexivity].
      destruct (negb _); reflexivity. }
    split; [congruence|]. split.
    + intros _ t Ht. rewrite Hconf. unfold pcc_check in Ht.
      destruct (r_lead_transferee r3) as [e|] eqn:E; [|congruence].
      destruct (voters_contains (conf_of r3) e) eqn:Ev; cbn [negb] in Ht.
      * rewrite E in Ht. inversion Ht; subst. split; [congruence|exact Ev].
      * cbn in Ht. discriminate.
    + intros K. exfalso. apply K. repeat split; assumption.
Qed.

(* the same through Raft::apply_conf_change, with the NEW configuration *)
Theorem apply_conf_change_clears_removed_target r cc r' cs :
  raft_apply_conf_change r cc = Ok (r', Some cs) ->
  is_leader r = true -> voters_contains (conf_of r') (r_id r) = true -> cs_voters cs <> [] ->
  forall t, r_lead_transferee r' = Some t ->
    r_lead_transferee r = Some t /\ voters_contains (conf_of r') t = true.
Proof.
  intros H Hl Hv Hcs t Ht. unfold raft_apply_conf_change in H.
  match type of H with match ?d with _ => _ end = _ => destruct d as [[c' chs]|] end;
    [|discriminate].
  inv_bind H. inversion H; subst; clear H. destruct x as [r1 cs1]. cbn [fst snd] in *.
  pose proof (post_conf_change_shape_tn _ _ _ Hx) as [Ecs _].
  apply transfer_cleared_when_target_removed in Hx. destruct Hx as (A & B & _).
  rewrite A in Hv. 
  assert (Hr : pcc_reaches_check (set_conf_prs r c'
                 (apply_changes (t_progress (r_prs r)) chs (last_index (r_log r))
                                (t_max_inflight (r_prs r))))).
  { repeat split; [exact Hl|exact Hv|rewrite <- Ecs; exact Hcs]. }
  destruct (B Hr t Ht) as [B1 B2]. split; [exact B1|exact B2].
Qed.

(* ------------------------------------------------------------------ *)
(* Theorem 6: the forced vote *)

Ltac spec_hyps_at t :=
  lazymatch type of t with
  | ((_ =? _) = false) -> _ => spec_hyps_at constr:(t (@eq_refl bool false))
  | _ => t
  end.

(* (a) hup(true) never queues a pre-vote request *)
Theorem forced_vote_no_prevote r r' :
  hup r true = Ok r' ->
  sel MsgRequestPreVote (r_msgs r') = sel MsgRequestPreVote (r_msgs r).
Proof.
  intros H.
  let L := spec_hyps_at constr:(hup_wf MsgRequestPreVote) in
  apply (L r true r' (or_introl eq_refl)) in H.
  apply wf_sel in H. exact H.
Qed.

(* (b) every vote request it queues carries the transfer context and the new term *)
Lemma send_vote_requests_spec vote_msg t cmt cmt_term tl :
  forall ids r r', send_vote_requests ids r vote_msg t cmt cmt_term tl = Ok r' ->
  ctl r' = ctl r /\
  exists new, r_msgs r' = r_msgs r ++ new /\
    Forall (fun x => m_type x = vote_msg /\ m_to x <> r_id r /\ In (m_to x) ids /\
                     m_context x = (if tl then CAMPAIGN_TRANSFER else []) /\
                     (is_vote_type vote_msg = true -> m_term x = t)) new.
Proof.
  induction ids as [|id rest IH]; intros r r' H; cbn [send_vote_requests] in H.
  - inversion H; subst. split; [reflexivity|]. exists []. rewrite app_nil_r. auto.
  - destruct (id =? r_id r) eqn:Eid.
    + apply IH in H. destruct H as (A & new & B & C0). split; [exact A|].
      exists new. split; [exact B|]. eapply Forall_impl; [|exact C0].
      cbn. intros x (X1 & X2 & X3 & X4). split; [exact X1|]. split; [exact X2|].
      split; [right; exact X3|exact X4].
    + inv_bind H. inv_bind H. apply send_spec in Hx0.
      destruct Hx0 as (x' & -> & S1 & S2 & S3 & _ & S5 & _).
      apply IH in H. destruct H as (A & new & B & C0).
      split; [rewrite A; reflexivity|].
      exists (x' :: new). split.
      { rewrite B. cbn. rewrite <- app_assoc. reflexivity. }
      constructor.
      * apply N.eqb_neq in Eid.
        assert (T1 : m_type x' = vote_msg) by (destruct tl; exact S1).
        assert (T2 : m_to x' = id) by (destruct tl; exact S2).
        split; [exact T1|]. split; [congruence|]. split; [left; congruence|]. split.
        { destruct tl; exact S3. }
        intros K. destruct tl; cbn in S5; rewrite (S5 K); reflexivity.
      * eapply Forall_impl; [|exact C0]. cbn. intros y (X1 & X2 & X3 & X4).
        split; [exact X1|]. split; [exact X2|]. split; [right; exact X3|exact X4].
Qed.

Theorem forced_vote_requests r r' :
  hup r true = Ok r' ->
  exists new, sel MsgRequestVote (r_msgs r') = sel MsgRequestVote (r_msgs r) ++ new /\
    Forall (fun x => m_type x = MsgRequestVote /\ m_context x = CAMPAIGN_TRANSFER /\
                     m_term x = r_term r' /\ m_to x <> r_id r') new.
Proof.
  intros H. unfold hup in H.
  destruct (is_leader r); [inversion H; subst; exists []; rewrite app_nil_r; auto|].
  destruct (negb (r_promotable r)); [inversion H; subst; exists []; rewrite app_nil_r; auto|].
  apply bind_ok in H; destruct H as (low & _ & H).
  inv_bind H. destruct x; [inversion H; subst; exists []; rewrite app_nil_r; auto|].
  unfold campaign_real in H. inv_bind H. inv_bind H. destruct x0 as [r2 res].
  let L := spec_hyps_at constr:(become_candidate_wf MsgRequestVote) in apply L in Hx0.
  let L := spec_hyps_at constr:(poll_gen_wf MsgRequestVote) in
    apply L in Hx1; [|intros a b K; discriminate K].
  apply wf_sel in Hx0. apply wf_sel in Hx1.
  assert (Hnone : res = VoteWon -> r' = r2 ->
     exists new, sel MsgRequestVote (r_msgs r') = sel MsgRequestVote (r_msgs r) ++ new /\
       Forall (fun x => m_type x = MsgRequestVote /\ m_context x = CAMPAIGN_TRANSFER /\
                        m_term x = r_term r' /\ m_to x <> r_id r') new).
  { intros _ ->. exists []. rewrite app_nil_r. split; [congruence|constructor]. }
  assert (Hsend : forall ci,
     send_vote_requests (voter_ids (conf_of r2)) r2 MsgRequestVote (r_term r2) (fst ci) (snd ci) true
       = Ok r' ->
     exists new, sel MsgRequestVote (r_msgs r') = sel MsgRequestVote (r_msgs r) ++ new /\
       Forall (fun x => m_type x = MsgRequestVote /\ m_context x = CAMPAIGN_TRANSFER /\
                        m_term x = r_term r' /\ m_to x <> r_id r') new).
  { intros ci K. apply send_vote_requests_spec in K. destruct K as (A & new & B & C0).
    apply ctl_fields in A. destruct A as (_ & _ & _ & _ & A5 & _ & A7 & _).
    exists new. split.
    - rewrite B, sel_app. f_equal; [congruence|].
      clear - C0. induction C0 as [|y l (Y1 & _) _ IH]; [reflexivity|].
      unfold sel in *. cbn [filter]. rewrite Y1. change (MsgRequestVote =? MsgRequestVote) with true.
      rewrite IH. reflexivity.
    - eapply Forall_impl; [|exact C0]. cbn. intros y (Y1 & Y2 & _ & Y4 & Y5).
      repeat split; auto; [rewrite A5; apply Y5; reflexivity|congruence]. }
  destruct res.
  - inv_bind H. eapply Hsend; exact H.
  - inv_bind H. eapply Hsend; exact H.
  - inversion H; subst. apply Hnone; reflexivity.
Qed.

(* (c) a higher-term MsgRequestVote with the transfer context is never dropped by the
   lease: whatever check_quorum / leader_id / election_elapsed say, the receiver moves to
   the candidate's term as a follower and answers with exactly one vote response
   (contrast: lease_ignores_vote_requests, where nothing changes and nothing is sent) *)
Lemma become_follower_term r t l r' : become_follower r t l = Ok r' -> r_term r' = t.
Proof.
  unfold become_follower. intros H. inv_bind H. inversion H; subst; clear H. cbn.
  unfold reset in Hx. destruct (negb (r_term r =? t)) eqn:E; cbn in Hx;
  match type of Hx with match ?d with _ => _ end = _ => destruct d end;
    try discriminate; inversion Hx; subst; cbn; [reflexivity|].
  apply negb_false_iff in E. apply N.eqb_eq in E. exact E.
Qed.

Lemma maybe_commit_by_vote_follower r m r' :
  r_state r = Follower -> maybe_commit_by_vote r m = Ok r' -> r_state r' = Follower.
Proof.
  intros Hs H. unfold maybe_commit_by_vote in H.
  destruct ((m_commit m =? 0) || (m_commit_term m =? 0)); [inversion H; subst; exact Hs|].
  destruct ((m_commit m <=? committed (r_log r)) || is_leader r); [inversion H; subst; exact Hs|].
  inv_bind H. destruct x as [l' b].
  destruct (negb b); [inversion H; subst; exact Hs|].
  change (r_state (r <| r_log := l' |>)) with (r_state r) in H. rewrite Hs in H.
  cbn in H. inversion H; subst. exact Hs.
Qed.

Theorem forced_vote_bypasses_lease r m r' c :
  m_type m = MsgRequestVote -> list_eqb (m_context m) CAMPAIGN_TRANSFER = true ->
  r_term r < m_term m -> step r m = Ok (r', c) ->
  r_term r' = m_term m /\ r_state r' = Follower /\
  exists x, r_msgs r' = r_msgs r ++ [x] /\
            m_type x = MsgRequestVoteResponse /\ m_to x = m_from m.
Proof.
  intros Hty Hctx Hlt H. rewrite step_eq in H.
  assert (Hpre : step_pre r m = (r0 <- become_follower r (m_term m) INVALID_ID ;; Ok (inr r0))).
  { unfold step_pre. rewrite Hty, Hctx.
    assert (E0 : (m_term m =? 0) = false) by (apply N.eqb_neq; lia).
    assert (E1 : (r_term r <? m_term m) = true) by (apply N.ltb_lt; exact Hlt).
    rewrite E0, E1. reflexivity. }
  rewrite Hpre in H. inv_bind H. inv_bind Hx. inversion Hx; subst; clear Hx.
  pose proof (become_follower_term _ _ _ _ Hx0) as Ht.
  pose proof (become_follower_clears _ _ _ _ Hx0) as (_ & _ & Hs).
  pose proof (become_follower_msgs_log _ _ _ _ Hx0) as (Hm & _).
  unfold step_main in H. rewrite Hty in H.
  change (MsgRequestVote =? MsgHup) with false in H.
  change (MsgRequestVote =? MsgRequestVote) with true in H. cbn [orb] in H.
  inv_bind H. inv_bind H. cbn in Hx1. inversion Hx1; subst x1; clear Hx1.
  match type of H with (if ?c then _ else _) = _ => destruct c end.
  - inv_bind H. inversion H; subst; clear H. apply send_spec in Hx1.
    destruct Hx1 as (y & -> & Y1 & Y2 & _). cbn. repeat split; auto.
    exists y. rewrite Hm. auto.
  - inv_bind H. inv_bind H. inv_bind H. inversion H; subst; clear H.
    apply send_spec in Hx2. destruct Hx2 as (y & -> & Y1 & Y2 & _).
    pose proof (maybe_commit_by_vote_same_tv _ _ _ Hx3) as [T1 _].
    pose proof (maybe_commit_by_vote_msgs _ _ _ Hx3) as M1.
    apply maybe_commit_by_vote_follower in Hx3; [|exact Hs].
    cbn in T1, M1. repeat split; [congruence|exact Hx3|].
    exists y. rewrite M1, Hm. auto.
Qed.

(* ------------------------------------------------------------------ *)
(* No other entry point of Raft emits a MsgTimeoutNow (and none but [tick] and
   [load_state] touches the control fields at all) *)

Theorem tick_no_timeout_now r r' b : tick r = Ok (r', b) ->
  sel MsgTimeoutNow (r_msgs r') = sel MsgTimeoutNow (r_msgs r).
Proof.
  assert (Hstep : forall r0 m r1 c, step r0 m = Ok (r1, c) ->
            m_type m <> MsgAppendResponse -> m_type m <> MsgTransferLeader ->
            sel MsgTimeoutNow (r_msgs r1) = sel MsgTimeoutNow (r_msgs r0)).
  { intros r0 m r1 c K N1 N2. apply timeout_now_sources in K.
    destruct K as [K|(_ & [K|K] & _)]; [exact K|contradiction|contradiction]. }
  intros H. unfold tick in H.
  assert (Hel : tick_election r = Ok (r', b) ->
                sel MsgTimeoutNow (r_msgs r') = sel MsgTimeoutNow (r_msgs r)).
  { clear H. unfold tick_election. intros H.
    match type of H with (if ?c then _ else _) = _ => destruct c end;
      [inversion H; reflexivity|].
    inv_bind H. inversion H; subst; clear H. destruct x as [r1 c]. cbn [fst].
    apply Hstep in Hx; [exact Hx|discriminate|discriminate]. }
  destruct (r_state r); try (apply Hel; exact H). clear Hel.
  unfold tick_heartbeat in H.
  apply bind_ok in H. destruct H as ([ra hr] & HA & H).
  assert (Ha : sel MsgTimeoutNow (r_msgs ra) = sel MsgTimeoutNow (r_msgs r)).
  { match type of HA with (if ?c then _ else _) = _ => destruct c end;
      [|inversion HA; reflexivity].
    apply bind_ok in HA. destruct HA as ([r3 hr3] & HB & HA). inversion HA; subst; clear HA.
    assert (H3 : sel MsgTimeoutNow (r_msgs r3) = sel MsgTimeoutNow (r_msgs r)).
    { match type of HB with (if ?c then _ else _) = _ => destruct c end;
        [|inversion HB; reflexivity].
      apply bind_ok in HB. destruct HB as ([rz cz] & HC & HB). inversion HB; subst; clear HB.
      cbn [fst]. apply Hstep in HC; [exact HC|discriminate|discriminate]. }
    match goal with |- sel _ (r_msgs (if ?c then _ else _)) = _ => destruct c end; exact H3. }
  destruct (negb (is_leader ra)); [inversion H; subst; exact Ha|].
  match type of H with (if ?c then _ else _) = _ => destruct c end;
    [|inversion H; subst; exact Ha].
  apply bind_ok in H. destruct H as ([rz cz] & HD & H). inversion H; subst; clear H. cbn [fst].
  apply Hstep in HD; [|discriminate|discriminate]. rewrite HD. exact Ha.
Qed.

Lemma on_persist_entries_cf r i t r' : on_persist_entries r i t = Ok r' -> cf MsgTimeoutNow r r'.
Proof. intros H. unfold on_persist_entries in H. inv_ok H; cft_fwd; cf_solve. Qed.

Lemma on_persist_snap_cf r i r' : on_persist_snap r i = Ok r' -> cf MsgTimeoutNow r r'.
Proof. intros H. unfold on_persist_snap in H. inv_ok H; cf_solve. Qed.

Lemma commit_apply_internal_cf r a s r' : commit_apply_internal r a s = Ok r' -> cf MsgTimeoutNow r r'.
Proof.
  intros H. unfold commit_apply_internal in H. inv_bind H.
  match type of H with (if ?c then _ else _) = _ => destruct c end;
    [|inversion H; subst; cf_solve].
  inv_bind H. destruct x0 as [r1 ok]. destruct (negb ok); [discriminate|].
  inversion H; subst; clear H. cft_fwd. cf_solve.
Qed.

Lemma ping_cf r r' : ping r = Ok r' -> cf MsgTimeoutNow r r'.
Proof.
  unfold ping. intros H. destruct (is_leader r); [cft_fwd; assumption|inversion H; apply cf_refl].
Qed.

Lemma request_snapshot_cf r r' c : request_snapshot r = Ok (r', c) -> cf MsgTimeoutNow r r'.
Proof.
  intros H. unfold request_snapshot in H.
  destruct (is_leader r); [inversion H; apply cf_refl|].
  destruct (r_leader_id r =? INVALID_ID); [inversion H; apply cf_refl|].
  match type of H with (if ?c then _ else _) = _ => destruct c end; [inversion H; apply cf_refl|].
  match type of H with (if ?c then _ else _) = _ => destruct c end; [inversion H; apply cf_refl|].
  inv_bind H. destruct x; [|discriminate].
  destruct (r_term r =? a); [|inversion H; apply cf_refl].
  inv_bind H. inversion H; subst; clear H. cft_fwd. cf_solve.
Qed.

Lemma enable_group_commit_cf r e r' : enable_group_commit r e = Ok r' -> cf MsgTimeoutNow r r'.
Proof.
  intros H. unfold enable_group_commit in H.
  match type of H with (if ?c then _ else _) = _ => destruct c end;
    [|inversion H; subst; split; reflexivity].
  inv_bind H. destruct x as [r1 b]. cbn [fst snd] in H.
  apply maybe_commit_tn in Hx.
  assert (K : cf MsgTimeoutNow r (r <| r_prs := r_prs r <| t_group_commit := e |> |>))
    by (split; reflexivity).
  destruct b.
  - cft_fwd. eapply cf_trans; [exact K|]. eapply cf_trans; [exact Hx|exact H].
  - inversion H; subst. eapply cf_trans; [exact K|exact Hx].
Qed.

Lemma assign_commit_groups_cf r ids r' : assign_commit_groups r ids = Ok r' -> cf MsgTimeoutNow r r'.
Proof.
  intros H. unfold assign_commit_groups in H. inv_bind H.
  assert (K : cf MsgTimeoutNow r (r <| r_prs := r_prs r <| t_progress := x |> |>))
    by (split; reflexivity).
  match type of H with (if ?c then _ else _) = _ => destruct c end;
    [|inversion H; subst; exact K].
  inv_bind H. destruct x0 as [r1 b]. cbn [fst snd] in H. apply maybe_commit_tn in Hx0.
  destruct b.
  - cft_fwd. eapply cf_trans; [exact K|]. eapply cf_trans; [exact Hx0|exact H].
  - inversion H; subst. eapply cf_trans; [exact K|exact Hx0].
Qed.

Lemma adjust_max_inflight_msgs_cf r t c r' :
  adjust_max_inflight_msgs r t c = Ok r' -> cf MsgTimeoutNow r r'.
Proof. intros H. unfold adjust_max_inflight_msgs in H. inv_ok H; cf_solve. Qed.

Lemma maybe_free_inflight_buffers_cf r : cf MsgTimeoutNow r (maybe_free_inflight_buffers r).
Proof. split; reflexivity. Qed.

Lemma set_max_apply_unpersisted_log_limit_cf r l :
  cf MsgTimeoutNow r (set_max_apply_unpersisted_log_limit r l).
Proof. split; reflexivity. Qed.

Lemma reduce_uncommitted_size_cf r ents : cf MsgTimeoutNow r (reduce_uncommitted_size r ents).
Proof.
  unfold reduce_uncommitted_size. destruct (negb (is_leader r)); [apply cf_refl|].
  match goal with |- cf _ _ (if ?c then _ else _) => destruct c end; [apply cf_refl|].
  match goal with |- cf _ _ (if ?c then _ else _) => destruct c end; split; reflexivity.
Qed.

Lemma load_state_quiet r hs r' : load_state r hs = Ok r' ->
  r_msgs r' = r_msgs r /\ r_lead_transferee r' = r_lead_transferee r /\
  r_election_elapsed r' = r_election_elapsed r /\ r_state r' = r_state r /\ cfg r' = cfg r.
Proof.
  unfold load_state. intros H. match type of H with (if ?c then _ else _) = _ => destruct c end;
    [discriminate|]. inversion H; subst. repeat split.
Qed.

(* apply_conf_change: no TimeoutNow; on a leader the timer is untouched unless the
   transfer is cleared *)
Theorem apply_conf_change_frame r cc r' ocs :
  raft_apply_conf_change r cc = Ok (r', ocs) ->
  sel MsgTimeoutNow (r_msgs r') = sel MsgTimeoutNow (r_msgs r) /\ cfg r' = cfg r /\
  r_state r' = r_state r /\ r_election_elapsed r' = r_election_elapsed r /\
  r_vote r' = r_vote r /\
  (r_lead_transferee r' = None \/ r_lead_transferee r' = r_lead_transferee r).
Proof.
  intros H. unfold raft_apply_conf_change in H.
  match type of H with match ?d with _ => _ end = _ => destruct d as [[c' chs]|] end;
    [|inversion H; subst; repeat split; auto].
  inv_bind H. inversion H; subst; clear H. destruct x as [r1 cs1]. cbn [fst].
  apply post_conf_change_shape_tn in Hx.
  destruct Hx as [_ [[-> _]|(_ & _ & _ & r3 & [A1 A2] & ->)]].
  - repeat split; auto.
  - pose proof (ctl_cfg _ _ A2) as Hc. apply ctl_fields in A2.
    destruct A2 as (B1 & B2 & B3 & _ & _ & B6 & _).
    match type of B6 with _ = r_vote ?r0 => change (r_vote r0) with (r_vote r) in B6 end.
    match type of B1 with _ = r_state ?r0 => change (r_state r0) with (r_state r) in B1 end.
    match type of B2 with _ = r_lead_transferee ?r0 =>
      change (r_lead_transferee r0) with (r_lead_transferee r) in B2 end.
    match type of B3 with _ = r_election_elapsed ?r0 =>
      change (r_election_elapsed r0) with (r_election_elapsed r) in B3 end.
    match type of Hc with _ = cfg ?r0 => change (cfg r0) with (cfg r) in Hc end.
    match type of A1 with _ = sel _ (r_msgs ?r0) => change (r_msgs r0) with (r_msgs r) in A1 end.
    assert (Hp : sel MsgTimeoutNow (r_msgs (pcc_check r3)) = sel MsgTimeoutNow (r_msgs r3) /\
                 cfg (pcc_check r3) = cfg r3 /\ r_state (pcc_check r3) = r_state r3 /\
                 r_election_elapsed (pcc_check r3) = r_election_elapsed r3 /\
                 r_vote (pcc_check r3) = r_vote r3 /\
                 (r_lead_transferee (pcc_check r3) = None \/
                  r_lead_transferee (pcc_check r3) = r_lead_transferee r3)).
    { unfold pcc_check. destruct (r_lead_transferee r3) eqn:E; [|repeat split; auto].
      destruct (negb _); repeat split; auto. }
    destruct Hp as (P1 & P2 & P3 & P4 & P6 & P5).
    split; [congruence|]. split; [congruence|]. split; [congruence|]. split; [congruence|].
    split; [congruence|].
    destruct P5 as [P5|P5]; [left; exact P5|right; congruence].
Qed.

(* ------------------------------------------------------------------ *)
(* Only a MsgTransferLeader can create or retarget a pending transfer; every other
   input, in every state, leaves lead_transferee as it is or clears it *)
Definition lt_mono (r r' : raft) : Prop :=
  cfg r' = cfg r /\ forall t, r_lead_transferee r' = Some t -> r_lead_transferee r = Some t.

Lemma lt_mono_refl r : lt_mono r r. Proof. split; auto. Qed.
Lemma lt_mono_trans a b c : lt_mono a b -> lt_mono b c -> lt_mono a c.
Proof. intros [A B] [C0 D]. split; [congruence|auto]. Qed.
Lemma wf_lt_mono ty r r' : wf ty r r' -> lt_mono r r'.
Proof. intros (_ & A & B). split; assumption. Qed.
Lemma ctl_lt_mono r r' : ctl r' = ctl r -> lt_mono r r'.
Proof.
  intros H. split; [apply ctl_cfg; exact H|]. apply ctl_fields in H.
  destruct H as (_ & A & _). intros t. rewrite A. auto.
Qed.

Theorem step_lt_mono r m r' c :
  step r m = Ok (r', c) -> m_type m <> MsgTransferLeader -> lt_mono r r'.
Proof.
  intros H Hty. rewrite step_eq in H. inv_bind H.
  assert (Hmain : forall r0, step_main r0 m = Ok (r', c) -> lt_mono r0 r').
  { intros r0 K. apply step_main_shape in K. destruct K as [K|r1 K1 K2 K3 ->|K1 K2|K1 K2].
    - apply ctl_lt_mono. apply K.
    - eapply lt_mono_trans; [apply ctl_lt_mono; apply K3|]. split; [reflexivity|auto].
    - destruct K2 as [K|K2 K3 _ _ _|y K2 K3 _ _ _ _|o K2 _ _ _ _|K2 _]; try contradiction.
      + apply ctl_lt_mono. apply K.
      + eapply wf_lt_mono; exact K3.
      + apply ctl_lt_mono. exact K3.
    - eapply wf_lt_mono; exact K2. }
  apply step_pre_shape in Hx. destruct Hx as [->|[(r1 & c1 & -> & A)|(Hlt & r0 & l & -> & A)]].
  - apply Hmain. exact H.
  - inversion H; subst. apply ctl_lt_mono. apply A.
  - apply become_follower_tn in A. eapply lt_mono_trans; [eapply wf_lt_mono; exact A|].
    apply Hmain. exact H.
Qed.

Theorem tick_lt_mono r r' b : tick r = Ok (r', b) -> lt_mono r r'.
Proof.
  intros H. destruct (is_leader r) eqn:El.
  - apply transfer_timer_tick in H; [|exact El]. destruct H as (A & [H|(_ & B & _)]).
    + split; [exact A|]. intros t Ht. congruence.
    + split; [exact A|]. intros t. rewrite B. auto.
  - unfold tick in H.
    assert (Hs : r_state r <> Leader) by (unfold is_leader in El; destruct (r_state r); try discriminate; congruence).
    assert (He : tick_election r = Ok (r', b)) by (destruct (r_state r); try exact H; congruence).
    clear H. unfold tick_election in He.
    match type of He with (if ?c then _ else _) = _ => destruct c end.
    + inversion He; subst. split; [reflexivity|auto].
    + inv_bind He. inversion He; subst; clear He. destruct x as [r1 c]. cbn [fst].
      apply step_lt_mono in Hx; [|discriminate]. destruct Hx as [A B]. split; [exact A|exact B].
Qed.

(* ------------------------------------------------------------------ *)
(* RawNode: every entry point of M/RawNode.v as one input alphabet *)
Inductive rn_input :=
| RnStep (m : msg) | RnTick | RnCampaign
| RnPropose (ctx data : list N) | RnProposeConfChange (ctx data : list N) (ty cci : N)
| RnApplyConfChange (cc : ccv2) | RnPing | RnReady
| RnAdvance (rd : ready) | RnAdvanceAppend (rd : ready) | RnAdvanceAppendAsync (rd : ready)
| RnAdvanceApply | RnAdvanceApplyTo (a : N) | RnOnPersistReady (number : N)
| RnReportUnreachable (id : N) | RnReportSnapshot (id : N) (failure : bool)
| RnRequestSnapshot | RnTransferLeader (id : N) | RnReadIndex (rctx : list N).

Definition rn_apply (n : rawnode) (i : rn_input) : Res rawnode :=
  match i with
  | RnStep m => x <- rn_step n m ;; Ok (fst x)
  | RnTick => x <- rn_tick n ;; Ok (fst x)
  | RnCampaign => x <- rn_campaign n ;; Ok (fst x)
  | RnPropose ctx data => x <- rn_propose n ctx data ;; Ok (fst x)
  | RnProposeConfChange ctx data ty cci => x <- rn_propose_conf_change n ctx data ty cci ;; Ok (fst x)
  | RnApplyConfChange cc => x <- rn_apply_conf_change n cc ;; Ok (fst x)
  | RnPing => rn_ping n
  | RnReady => x <- rn_ready n ;; Ok (fst x)
  | RnAdvance rd => x <- rn_advance n rd ;; Ok (fst x)
  | RnAdvanceAppend rd => x <- rn_advance_append n rd ;; Ok (fst x)
  | RnAdvanceAppendAsync rd => rn_advance_append_async n rd
  | RnAdvanceApply => rn_advance_apply n
  | RnAdvanceApplyTo a => rn_advance_apply_to n a
  | RnOnPersistReady number => rn_on_persist_ready n number
  | RnReportUnreachable id => rn_report_unreachable n id
  | RnReportSnapshot id f => rn_report_snapshot n id f
  | RnRequestSnapshot => x <- rn_request_snapshot n ;; Ok (fst x)
  | RnTransferLeader id => rn_transfer_leader n id
  | RnReadIndex rctx => rn_read_index n rctx
  end.

(* the message an input hands to Raft::step, if any ([rid] = the node's own id) *)
Definition input_msg (rid : N) (i : rn_input) : option msg :=
  match i with
  | RnStep m => Some m
  | RnCampaign => Some (msg_default <| m_type := MsgHup |>)
  | RnPropose ctx data =>
      Some (msg_default <| m_type := MsgPropose |> <| m_from := rid |>
              <| m_entries := [mkEntry EntryNormal 0 0 data ctx] |> <| m_ccinfo := [0] |>)
  | RnProposeConfChange ctx data ty cci =>
      Some (msg_default <| m_type := MsgPropose |>
              <| m_entries := [mkEntry ty 0 0 data ctx] |> <| m_ccinfo := [cci] |>)
  | RnReportUnreachable id => Some (msg_default <| m_type := MsgUnreachable |> <| m_from := id |>)
  | RnReportSnapshot id f =>
      Some (msg_default <| m_type := MsgSnapStatus |> <| m_from := id |> <| m_reject := f |>)
  | RnTransferLeader id => Some (msg_default <| m_type := MsgTransferLeader |> <| m_from := id |>)
  | RnReadIndex rctx =>
      Some (msg_default <| m_type := MsgReadIndex |> <| m_entries := [mkEntry EntryNormal 0 0 rctx []] |>)
  | _ => None
  end.

(* no MsgTimeoutNow is added to the queue (the queue may be drained into a Ready) *)
Definition tn_sub (r r' : raft) : Prop :=
  incl (sel MsgTimeoutNow (r_msgs r')) (sel MsgTimeoutNow (r_msgs r)).

Definition rn_quiet (r r' : raft) : Prop := ctl r' = ctl r /\ tn_sub r r'.

Lemma rn_quiet_refl r : rn_quiet r r.
Proof. split; [reflexivity|apply incl_refl]. Qed.
Lemma rn_quiet_trans a b c : rn_quiet a b -> rn_quiet b c -> rn_quiet a c.
Proof. intros [A B] [C0 D]. split; [congruence|]. unfold tn_sub in *. eapply incl_tran; eassumption. Qed.
Lemma cf_rn_quiet r r' : cf MsgTimeoutNow r r' -> rn_quiet r r'.
Proof. intros [A B]. split; [exact B|]. unfold tn_sub. rewrite A. apply incl_refl. Qed.

Lemma gen_light_ready_quiet n n' l :
  gen_light_ready n = Ok (n', l) -> rn_quiet (rn_raft n) (rn_raft n').
Proof.
  intros H. unfold gen_light_ready in H. inv_bind H. inv_bind H. inversion H; subst; clear H.
  match goal with |- rn_quiet _ ?t =>
    change t with
      ((reduce_uncommitted_size (rn_raft n) match x with Some v => v | None => [] end)
         <| r_msgs := [] |>) end.
  eapply rn_quiet_trans; [apply cf_rn_quiet; apply reduce_uncommitted_size_cf|].
  split; [reflexivity|]. unfold tn_sub. cbn. intros y [].
Qed.

Lemma rn_ready_quiet n n' rd : rn_ready n = Ok (n', rd) -> rn_quiet (rn_raft n) (rn_raft n').
Proof.
  intros H. unfold rn_ready in H. cbn zeta in H. inv_bind H. inv_bind H.
  destruct x0 as [[[snap csi] rec_snap] ms2]. inv_bind H. destruct x0 as [n2 light].
  inversion H; subst; clear H. apply gen_light_ready_quiet in Hx1.
  cbn [rn_raft set] in Hx1 |- *.
  eapply rn_quiet_trans; [|exact Hx1]. split; [reflexivity|apply incl_refl].
Qed.

Lemma commit_ready_quiet n rd n' : commit_ready n rd = Ok n' -> rn_quiet (rn_raft n) (rn_raft n').
Proof.
  intros H. unfold commit_ready in H. cbn zeta in H.
  match type of H with match ?d with _ => _ end = _ => destruct d eqn:Er end; [discriminate|].
  match type of H with (if ?c then _ else _) = _ => destruct c end; [discriminate|].
  inv_bind H. inv_bind H. inversion H; subst; clear H. cbn [rn_raft set].
  destruct (rd_ss rd); destruct (rd_hs rd); cbn; split; try reflexivity; apply incl_refl.
Qed.

Lemma rn_on_persist_ready_quiet n num n' :
  rn_on_persist_ready n num = Ok n' -> rn_quiet (rn_raft n) (rn_raft n').
Proof.
  intros H. unfold rn_on_persist_ready in H.
  destruct (fold_records (rn_records n) num 0 0 0) as [[[recs index] t] snap_index].
  inv_bind H. inv_bind H. inversion H; subst; clear H. cbn [rn_raft set] in *.
  assert (A : rn_quiet (rn_raft n) x).
  { destruct (negb (snap_index =? 0)); [|inversion Hx; apply rn_quiet_refl].
    apply cf_rn_quiet. eapply on_persist_snap_cf. exact Hx. }
  assert (B : rn_quiet x x0).
  { destruct (negb (index =? 0)); [|inversion Hx0; apply rn_quiet_refl].
    apply cf_rn_quiet. eapply on_persist_entries_cf. exact Hx0. }
  eapply rn_quiet_trans; eassumption.
Qed.

Lemma rn_advance_append_quiet n rd n' l :
  rn_advance_append n rd = Ok (n', l) -> rn_quiet (rn_raft n) (rn_raft n').
Proof.
  intros H. unfold rn_advance_append in H. inv_bind H. inv_bind H. inv_bind H.
  destruct x1 as [n3 light].
  apply commit_ready_quiet in Hx. apply rn_on_persist_ready_quiet in Hx0.
  apply gen_light_ready_quiet in Hx1.
  assert (E : rn_raft n' = rn_raft n3).
  { match type of H with (if ?c then _ else _) = _ => destruct c end; [discriminate|].
    inv_bind H. destruct x1 as [n4 ci].
    match type of H with (if ?c then _ else _) = _ => destruct c end; [discriminate|].
    inversion H; subst; clear H.
    match type of Hx2 with (if ?c then _ else _) = _ => destruct c end;
      [inversion Hx2; reflexivity|].
    match type of Hx2 with (if ?c then _ else _) = _ => destruct c end; [discriminate|].
    inversion Hx2; reflexivity. }
  rewrite E. eapply rn_quiet_trans; [exact Hx|]. eapply rn_quiet_trans; eassumption.
Qed.

Lemma rn_advance_apply_to_quiet n a n' :
  rn_advance_apply_to n a = Ok n' -> rn_quiet (rn_raft n) (rn_raft n').
Proof.
  intros H. unfold rn_advance_apply_to, lift, commit_apply in H. inv_bind H.
  inversion H; subst; clear H. cbn [rn_raft set].
  apply cf_rn_quiet. eapply commit_apply_internal_cf. exact Hx.
Qed.

(* what one RawNode input does to the Raft inside *)
Inductive rn_effect (n : rawnode) (i : rn_input) (n' : rawnode) : Prop :=
| RE_none : i <> RnTick -> rn_raft n' = rn_raft n -> rn_effect n i n'
| RE_step m c : input_msg (r_id (rn_raft n)) i = Some m ->
    step (rn_raft n) m = Ok (rn_raft n', c) -> rn_effect n i n'
| RE_tick b : i = RnTick -> tick (rn_raft n) = Ok (rn_raft n', b) -> rn_effect n i n'
| RE_conf cc ocs : i = RnApplyConfChange cc ->
    raft_apply_conf_change (rn_raft n) cc = Ok (rn_raft n', ocs) -> rn_effect n i n'
| RE_quiet : input_msg (r_id (rn_raft n)) i = None -> i <> RnTick ->
    rn_quiet (rn_raft n) (rn_raft n') -> rn_effect n i n'.

Lemma rn_apply_effect n i n' : rn_apply n i = Ok n' -> rn_effect n i n'.
Proof.
  intros H. destruct i; cbn [rn_apply] in H.
  - (* step *) inv_bind H. inversion H; subst; clear H. unfold rn_step in Hx.
    destruct (is_local_msg (m_type m)); [inversion Hx; apply RE_none; [discriminate|reflexivity]|].
    match type of Hx with (if ?c then _ else _) = _ => destruct c end;
      [|inversion Hx; apply RE_none; [discriminate|reflexivity]].
    unfold lift2 in Hx. inv_bind Hx. inversion Hx; subst; clear Hx. destruct x0 as [r1 c].
    eapply RE_step; [reflexivity|exact Hx0].
  - inv_bind H. inversion H; subst; clear H. unfold rn_tick in Hx. inv_bind Hx.
    inversion Hx; subst; clear Hx. destruct x0 as [r1 b]. eapply RE_tick; [reflexivity|exact Hx0].
  - inv_bind H. inversion H; subst; clear H. unfold rn_campaign, lift2 in Hx. inv_bind Hx.
    inversion Hx; subst; clear Hx. destruct x0 as [r1 c]. eapply RE_step; [reflexivity|exact Hx0].
  - inv_bind H. inversion H; subst; clear H. unfold rn_propose, lift2 in Hx. inv_bind Hx.
    inversion Hx; subst; clear Hx. destruct x0 as [r1 c]. eapply RE_step; [reflexivity|exact Hx0].
  - inv_bind H. inversion H; subst; clear H. unfold rn_propose_conf_change, lift2 in Hx. inv_bind Hx.
    inversion Hx; subst; clear Hx. destruct x0 as [r1 c]. eapply RE_step; [reflexivity|exact Hx0].
  - inv_bind H. inversion H; subst; clear H. unfold rn_apply_conf_change in Hx. inv_bind Hx.
    inversion Hx; subst; clear Hx. destruct x0 as [r1 ocs]. eapply RE_conf; [reflexivity|exact Hx0].
  - unfold rn_ping, lift in H. inv_bind H. inversion H; subst; clear H.
    apply RE_quiet; [reflexivity|discriminate|]. apply cf_rn_quiet. eapply ping_cf. exact Hx.
  - inv_bind H. inversion H; subst; clear H. destruct x as [n1 rd].
    apply RE_quiet; [reflexivity|discriminate|]. eapply rn_ready_quiet. exact Hx.
  - inv_bind H. inversion H; subst; clear H. unfold rn_advance in Hx. inv_bind Hx. inv_bind Hx.
    inversion Hx; subst; clear Hx. destruct x0 as [n1 l]. cbn [fst snd] in *.
    apply RE_quiet; [reflexivity|discriminate|].
    apply rn_advance_append_quiet in Hx0. apply rn_advance_apply_to_quiet in Hx1.
    eapply rn_quiet_trans; eassumption.
  - inv_bind H. inversion H; subst; clear H. destruct x as [n1 l].
    apply RE_quiet; [reflexivity|discriminate|]. eapply rn_advance_append_quiet. exact Hx.
  - apply RE_quiet; [reflexivity|discriminate|]. eapply commit_ready_quiet. exact H.
  - apply RE_quiet; [reflexivity|discriminate|]. eapply rn_advance_apply_to_quiet. exact H.
  - apply RE_quiet; [reflexivity|discriminate|]. eapply rn_advance_apply_to_quiet. exact H.
  - apply RE_quiet; [reflexivity|discriminate|]. eapply rn_on_persist_ready_quiet. exact H.
  - unfold rn_report_unreachable in H. inv_bind H. inversion H; subst; clear H.
    destruct x as [r1 c]. eapply RE_step; [reflexivity|exact Hx].
  - unfold rn_report_snapshot in H. inv_bind H. inversion H; subst; clear H.
    destruct x as [r1 c]. eapply RE_step; [reflexivity|exact Hx].
  - inv_bind H. inversion H; subst; clear H. unfold rn_request_snapshot, lift2 in Hx. inv_bind Hx.
    inversion Hx; subst; clear Hx. destruct x0 as [r1 c].
    apply RE_quiet; [reflexivity|discriminate|]. apply cf_rn_quiet. eapply request_snapshot_cf. exact Hx0.
  - unfold rn_transfer_leader in H. inv_bind H. inversion H; subst; clear H.
    destruct x as [r1 c]. eapply RE_step; [reflexivity|exact Hx].
  - unfold rn_read_index in H. inv_bind H. inversion H; subst; clear H.
    destruct x as [r1 c]. eapply RE_step; [reflexivity|exact Hx].
Qed.

(* ------------------------------------------------------------------ *)
(* RawNode level, theorem 1: whichever entry point is called, a MsgTimeoutNow is added
   to the outbound queue only by a step of a leader on MsgAppendResponse or
   MsgTransferLeader, and then it is justified *)
Theorem rn_timeout_now_guard n i n' :
  rn_apply n i = Ok n' ->
  tn_sub (rn_raft n) (rn_raft n') \/
  exists m, input_msg (r_id (rn_raft n)) i = Some m /\ tn_source (rn_raft n) m (rn_raft n').
Proof.
  intros H. apply rn_apply_effect in H.
  destruct H as [_ E|m c E K|b E K|cc ocs E K|E1 E2 K].
  - left. unfold tn_sub. rewrite E. apply incl_refl.
  - apply timeout_now_sources in K. destruct K as [K|K].
    + left. unfold tn_sub. rewrite K. apply incl_refl.
    + right. exists m. auto.
  - left. apply tick_no_timeout_now in K. unfold tn_sub. rewrite K. apply incl_refl.
  - left. apply apply_conf_change_frame in K. destruct K as (K & _).
    unfold tn_sub. rewrite K. apply incl_refl.
  - left. apply K.
Qed.

(* ------------------------------------------------------------------ *)
(* RawNode level, theorem 3: a pending transfer does not survive election_timeout ticks *)
Fixpoint rn_run (n : rawnode) (is : list rn_input) : Res rawnode :=
  match is with
  | [] => Ok n
  | i :: rest => n1 <- rn_apply n i ;; rn_run n1 rest
  end.

Definition is_tick (i : rn_input) : bool := match i with RnTick => true | _ => false end.
Definition count_ticks (is : list rn_input) : N := N.of_nat (length (filter is_tick is)).

(* inputs that neither ask for a (new) transfer nor are a vote request that claims to
   come from the node itself *)
Definition benign (rid : N) (i : rn_input) : Prop :=
  match input_msg rid i with
  | Some m => m_type m <> MsgTransferLeader /\ (m_type m = MsgRequestVote -> m_from m <> rid)
  | None => True
  end.

Definition tr_inv (rid k : N) (r : raft) : Prop :=
  r_id r = rid /\
  (r_lead_transferee r = None \/
   (is_leader r = true /\ r_vote r = rid /\ rid <> 0 /\
    r_election_timeout r <= r_election_elapsed r + k /\ 0 < k)).

Lemma cfg_id r r' : cfg r' = cfg r -> r_id r' = r_id r /\ r_election_timeout r' = r_election_timeout r.
Proof. unfold cfg. intros H. inversion H. auto. Qed.

Lemma rn_effect_inv n i n' rid k :
  rn_effect n i n' -> benign rid i ->
  tr_inv rid (k + (if is_tick i then 1 else 0)) (rn_raft n) -> tr_inv rid k (rn_raft n').
Proof.
  intros He Hb [Hid Hinv]. unfold benign in Hb. rewrite <- Hid in Hb.
  destruct He as [E0 E|m c E K|b E K|cc ocs E K|E1 E2 K].
  - (* nothing happened to the Raft *)
    assert (Hnt : is_tick i = false) by (destruct i; try reflexivity; congruence).
    rewrite Hnt, N.add_0_r in Hinv. rewrite E. split; assumption.
  - rewrite E in Hb. destruct Hb as [Hb1 Hb2].
    assert (Hnt : is_tick i = false) by (destruct i; try reflexivity; discriminate).
    rewrite Hnt, N.add_0_r in Hinv.
    pose proof (step_lt_mono _ _ _ _ K Hb1) as [Hc Hm]. apply cfg_id in Hc. destruct Hc as [Hc1 Hc2].
    split; [congruence|].
    destruct Hinv as [Hn|(A & B & C0 & D & F)].
    + left. destruct (r_lead_transferee (rn_raft n')) eqn:El; [|reflexivity].
      specialize (Hm _ eq_refl). congruence.
    + apply transfer_timer_step in K; [|exact A].
      destruct K as (_ & [K|[(K1 & K2 & K3 & K4)|[(_ & K & _)|K]]]).
      * left. exact K.
      * right. repeat split; auto; congruence.
      * contradiction.
      * exfalso. eapply no_vote_reset; [| |apply Hb2|exact K]; try congruence.
        destruct K as (_ & K & _). exact K.
  - subst i. cbn [is_tick] in Hinv.
    pose proof (tick_lt_mono _ _ _ K) as [Hc Hm]. apply cfg_id in Hc. destruct Hc as [Hc1 Hc2].
    split; [congruence|].
    destruct Hinv as [Hn|(A & B & C0 & D & F)].
    + left. destruct (r_lead_transferee (rn_raft n')) eqn:El; [|reflexivity].
      specialize (Hm _ eq_refl). congruence.
    + apply transfer_timer_tick in K; [|exact A].
      destruct K as (_ & [K|(K1 & K2 & K3 & K4 & K5)]); [left; exact K|right].
      repeat split; auto; try congruence; lia.
  - subst i. cbn [is_tick] in Hinv. rewrite N.add_0_r in Hinv.
    apply apply_conf_change_frame in K. destruct K as (_ & Hc & K1 & K2 & K3 & K4).
    apply cfg_id in Hc. destruct Hc as [Hc1 Hc2]. split; [congruence|].
    destruct Hinv as [Hn|(A & B & C0 & D & F)].
    + left. destruct K4 as [K4|K4]; congruence.
    + destruct K4 as [K4|K4]; [left; exact K4|right].
      assert (L : is_leader (rn_raft n') = true) by (unfold is_leader in *; rewrite K1; exact A).
      repeat split; auto; congruence.
  - assert (Hnt : is_tick i = false) by (destruct i; try reflexivity; congruence).
    rewrite Hnt, N.add_0_r in Hinv. destruct K as [K _].
    pose proof (ctl_leader _ _ K) as L. apply ctl_fields in K.
    destruct K as (_ & K2 & K3 & K4 & _ & K6 & K7 & _).
    split; [congruence|].
    destruct Hinv as [Hn|(A & B & C0 & D & F)]; [left; congruence|right].
    repeat split; auto; congruence.
Qed.

Theorem transfer_expires_trace : forall is n n',
  rn_run n is = Ok n' ->
  is_leader (rn_raft n) = true ->
  r_vote (rn_raft n) = r_id (rn_raft n) -> r_id (rn_raft n) <> 0 ->
  Forall (benign (r_id (rn_raft n))) is ->
  0 < count_ticks is ->
  r_election_timeout (rn_raft n) <= r_election_elapsed (rn_raft n) + count_ticks is ->
  r_lead_transferee (rn_raft n') = None.
Proof.
  intros is n n' Hrun Hl Hv Hid Hb Hpos Hk.
  set (rid := r_id (rn_raft n)) in *.
  assert (Hinv : tr_inv rid (count_ticks is) (rn_raft n)).
  { split; [reflexivity|]. right. repeat split; auto. }
  clear Hl Hv Hid Hpos Hk. clearbody rid. revert n n' Hrun Hinv.
  induction is as [|i rest IH]; intros n n' Hrun Hinv; cbn [rn_run] in Hrun.
  - inversion Hrun; subst. destruct Hinv as [_ [H|(_ & _ & _ & _ & H)]]; [exact H|].
    unfold count_ticks in H. cbn in H. lia.
  - inv_bind Hrun. inversion Hb; subst.
    apply (IH H2 x n' Hrun). apply rn_apply_effect in Hx.
    eapply rn_effect_inv; [exact Hx|exact H1|].
    replace (count_ticks rest + (if is_tick i then 1 else 0)) with (count_ticks (i :: rest)); [exact Hinv|].
    unfold count_ticks. cbn [filter]. destruct (is_tick i); cbn [length]; lia.
Qed.

(* ------------------------------------------------------------------ *)
(* Concrete states for the non-vacuity examples of Props/C17.v.
   A 3-voter (1 2 3) + 1-learner (4) group at term 2; the log is [(1,t1) (2,t2)], all
   committed/persisted/applied.  Node 1 leads; 2 and 4 have acknowledged index 2, node 3
   only index 1.  election_timeout 10, heartbeat_timeout 1, check_quorum and pre_vote on. *)
Definition ex_store : MemStorage.mem :=
  mkMem (mkHS 2 1 2) (cs_from [1;2;3] [4])
        [mkEntry 0 1 1 [] []; mkEntry 0 2 2 [] []] 0 0 false false None.
Definition ex_log : raft_log := mkLog ex_store (u_new 3) 2 2 2 0.
Definition ex_pr (m n : N) (s : pstate) : progress :=
  mkPr m n s false 0 0 true (Inflights.new 256) 0 0.
Definition ex_tracker : tracker :=
  mkTr [(1, ex_pr 2 3 Replicate); (2, ex_pr 2 3 Replicate); (3, ex_pr 1 2 Probe);
        (4, ex_pr 2 3 Replicate)]
       (mkConf [1;2;3] [] [4] [] false) [] 256 false.
Definition ex_leader : raft :=
  mkRaft 2 1 1 [] ex_log 256 1048576 0 Leader true 1 None 0 (ro_new 0) 3 0 true true false false
         false 1 10 15 10 20 0%Z u64_max 0 2 u64_max ex_tracker [] [12;13;14;16] None.
Definition ex_follower (id : N) : raft :=
  mkRaft 2 1 id [] ex_log 256 1048576 0 Follower true 1 None 0 (ro_new 0) 0 0 true true false false
         false 1 10 15 10 20 0%Z u64_max 0 2 u64_max ex_tracker [] [12;13;14;16] None.
Definition ex_tl_msg (from : N) : msg :=
  msg_default <| m_type := MsgTransferLeader |> <| m_from := from |>.
Definition ex_after (x : Res (raft * N)) : raft :=
  match x with Ok (r, _) => r | Panic _ => ex_leader end.
(* the leader after accepting a transfer to the lagging node 3 *)
Definition ex_pending3 : raft := ex_after (step ex_leader (ex_tl_msg 3)).
Definition ex_app_resp3 : msg :=
  msg_default <| m_type := MsgAppendResponse |> <| m_from := 3 |> <| m_term := 2 |> <| m_index := 2 |>.
Definition ex_timeout_now : msg :=
  msg_default <| m_type := MsgTimeoutNow |> <| m_from := 1 |> <| m_term := 2 |>.
Definition ex_vote_req (ctx : list N) : msg :=
  msg_default <| m_type := MsgRequestVote |> <| m_from := 2 |> <| m_term := 3 |> <| m_index := 2 |>
              <| m_log_term := 2 |> <| m_context := ctx |>.
Definition ex_rn (r : raft) : rawnode :=
  mkRN r (mkSS (r_leader_id r) (r_state r)) (mkHS (r_term r) (r_vote r) 2) 0 [] 2.

Theorem other_entry_points_no_timeout_now :
  (forall r cc r' o, raft_apply_conf_change r cc = Ok (r', o) ->
     sel MsgTimeoutNow (r_msgs r') = sel MsgTimeoutNow (r_msgs r)) /\
  (forall r i t r', on_persist_entries r i t = Ok r' ->
     sel MsgTimeoutNow (r_msgs r') = sel MsgTimeoutNow (r_msgs r)) /\
  (forall r i r', on_persist_snap r i = Ok r' ->
     sel MsgTimeoutNow (r_msgs r') = sel MsgTimeoutNow (r_msgs r)) /\
  (forall r a s r', commit_apply_internal r a s = Ok r' ->
     sel MsgTimeoutNow (r_msgs r') = sel MsgTimeoutNow (r_msgs r)) /\
  (forall r r', ping r = Ok r' -> sel MsgTimeoutNow (r_msgs r') = sel MsgTimeoutNow (r_msgs r)) /\
  (forall r r' c, request_snapshot r = Ok (r', c) ->
     sel MsgTimeoutNow (r_msgs r') = sel MsgTimeoutNow (r_msgs r)) /\
  (forall r e r', enable_group_commit r e = Ok r' ->
     sel MsgTimeoutNow (r_msgs r') = sel MsgTimeoutNow (r_msgs r)) /\
  (forall r ids r', assign_commit_groups r ids = Ok r' ->
     sel MsgTimeoutNow (r_msgs r') = sel MsgTimeoutNow (r_msgs r)) /\
  (forall r t c r', adjust_max_inflight_msgs r t c = Ok r' ->
     sel MsgTimeoutNow (r_msgs r') = sel MsgTimeoutNow (r_msgs r)) /\
  (forall r hs r', load_state r hs = Ok r' -> r_msgs r' = r_msgs r).
Proof.
  repeat split; intros.
  - apply apply_conf_change_frame in H. apply H.
  - apply on_persist_entries_cf in H. apply H.
  - apply on_persist_snap_cf in H. apply H.
  - apply commit_apply_internal_cf in H. apply H.
  - apply ping_cf in H. apply H.
  - apply request_snapshot_cf in H. apply H.
  - apply enable_group_commit_cf in H. apply H.
  - apply assign_commit_groups_cf in H. apply H.
  - apply adjust_max_inflight_msgs_cf in H. apply H.
  - apply load_state_quiet in H. apply H.
Qed.

(* ------------------------------------------------------------------ *)
(* The hypothesis "the leader has voted for itself" of transfer_expires_trace is an
   invariant: VI holds of every non-leader non-candidate state and is preserved by every
   input.  (r_id <> 0 is asserted by RawNode::new and never changes.) *)
Definition VI (r : raft) : Prop :=
  (r_state r = Leader \/ r_state r = Candidate) -> r_vote r = r_id r.

Definition sv (r : raft) := (r_id r, r_state r, r_vote r).

Definition vip (r r' : raft) : Prop := r_id r' = r_id r /\ (r_id r <> 0 -> VI r -> VI r').

Lemma vip_refl r : vip r r. Proof. split; auto. Qed.
Lemma vip_trans a b c : vip a b -> vip b c -> vip a c.
Proof. intros [A B] [C0 D]. split; [congruence|]. intros H1 H2. apply D; [congruence|auto]. Qed.
Lemma sv_vip r r' : sv r' = sv r -> vip r r'.
Proof.
  unfold sv. intros H. inversion H as [[A B C0]]. split; [exact A|].
  intros _ K. unfold VI in *. rewrite A, B, C0. exact K.
Qed.
Lemma vip_same r r1 r2 : sv r2 = sv r1 -> vip r r1 -> vip r r2.
Proof. intros A B. eapply vip_trans; [exact B|apply sv_vip; exact A]. Qed.
Lemma ctl_sv r r' : ctl r' = ctl r -> sv r' = sv r.
Proof. intros H. apply ctl_fields in H. destruct H as (A & _ & _ & _ & _ & B & C0 & _). unfold sv. congruence. Qed.
Lemma ctl_vip r r' : ctl r' = ctl r -> vip r r'.
Proof. intros H. apply sv_vip, ctl_sv, H. Qed.
Lemma cf_vip ty r r' : cf ty r r' -> vip r r'.
Proof. intros [_ H]. apply ctl_vip, H. Qed.
Lemma vi_to r r' : r_id r' = r_id r -> (r_id r <> 0 -> VI r') -> vip r r'.
Proof. intros A B. split; auto. Qed.
Lemma VI_not_lc r : r_state r <> Leader -> r_state r <> Candidate -> VI r.
Proof. intros A B [C0|C0]; contradiction. Qed.

Ltac vip_peel :=
  lazymatch goal with
  | |- vip ?a ?a => idtac
  | |- vip _ (put_pr ?r1 _ _) => apply (vip_same _ r1); [solve_upd r1|]; vip_peel
  | |- vip _ (set_conf_prs ?r1 _ _) => apply (vip_same _ r1); [solve_upd r1|]; vip_peel
  | |- vip _ (set _ _ ?r1) => apply (vip_same _ r1); [solve_upd r1|]; vip_peel
  | _ => idtac
  end.

Ltac vip_chain :=
  vip_peel;
  first [ assumption | apply vip_refl
        | match goal with
          | H : vip ?a ?b |- vip _ ?b => eapply vip_trans; [|exact H]; vip_chain
          | H : cf _ ?a ?b |- vip _ ?b => eapply vip_trans; [|exact (cf_vip _ _ _ H)]; vip_chain
          end ].

Lemma reset_sv r t r' : reset r t = Ok r' ->
  r_id r' = r_id r /\ r_state r' = r_state r /\ (r_term r = t -> r_vote r' = r_vote r).
Proof.
  unfold reset. intros H. destruct (negb (r_term r =? t)) eqn:E; cbn in H;
  match type of H with match ?d with _ => _ end = _ => destruct d end;
    try discriminate; inversion H; subst; cbn; repeat split; auto.
  intros K. apply negb_true_iff in E. apply N.eqb_neq in E. contradiction.
Qed.

Lemma become_follower_vip r t l r' : become_follower r t l = Ok r' -> vip r r'.
Proof.
  intros H. pose proof (become_follower_clears _ _ _ _ H) as (_ & _ & S).
  unfold become_follower in H. inv_bind H. inversion H; subst; clear H.
  apply reset_sv in Hx. destruct Hx as (A & _). apply vi_to; [exact A|].
  intros _. apply VI_not_lc; cbn; discriminate.
Qed.

Lemma become_candidate_vip r r' : become_candidate r = Ok r' -> vip r r'.
Proof.
  unfold become_candidate. intros H. destruct (is_leader r); [discriminate|].
  inv_bind H. inversion H; subst; clear H. apply reset_sv in Hx. destruct Hx as (A & _).
  apply vi_to; [exact A|]. intros _ _. reflexivity.
Qed.

Lemma become_pre_candidate_vip r r' : become_pre_candidate r = Ok r' -> vip r r'.
Proof.
  unfold become_pre_candidate. intros H. destruct (is_leader r); [discriminate|].
  inversion H; subst; clear H. apply vi_to; [reflexivity|].
  intros _. apply VI_not_lc; cbn; discriminate.
Qed.

Lemma become_leader_vip r r' :
  become_leader r = Ok r' -> r_state r <> PreCandidate -> vip r r'.
Proof.
  unfold become_leader. intros H Hs. destruct (role_eqb (r_state r) Follower) eqn:Ef; [discriminate|].
  inv_bind H. apply reset_sv in Hx. destruct Hx as (A & B & C0). specialize (C0 eq_refl).
  match type of H with match ?d with _ => _ end = _ => destruct d end; [|discriminate].
  inv_bind H. destruct x0 as [r6 ok]. destruct ok; [|discriminate]. inversion H; subst; clear H.
  apply append_entry_tn in Hx.
  match type of Hx with cf _ ?r5 _ =>
    assert (K : cf MsgTimeoutNow (x <| r_leader_id := r_id x |> <| r_state := Leader |>) r5)
      by cf_solve
  end.
  pose proof (cf_trans _ _ _ _ K Hx) as [_ L]. apply ctl_sv in L. unfold sv in L. cbn in L.
  inversion L as [[L1 L2 L3]]. split; [congruence|].
  intros _ V _. rewrite L1, L3, C0, A. apply V.
  destruct (r_state r); cbn in Ef; try discriminate; auto. contradiction.
Qed.

Lemma poll_gen_vip rc r from v r' res :
  (forall a b, rc a = Ok b -> vip a b) ->
  poll_gen rc r from v = Ok (r', res) -> vip r r'.
Proof.
  intros Hrc H. unfold poll_gen in H. cbn zeta in H.
  match type of H with match ?d with _ => _ end = _ => destruct d end.
  - inversion H; subst; clear H. vip_chain.
  - inv_bind H. inversion H; subst; clear H. apply become_follower_vip in Hx. vip_chain.
  - match type of H with (if role_eqb ?s _ then _ else _) = _ => destruct s eqn:Es end;
      cbn [role_eqb] in H.
    1,2,3: inv_bind H; inv_bind H; inversion H; subst; clear H;
           apply become_leader_vip in Hx; [|rewrite Es; discriminate];
           apply bcast_append_tn in Hx0; vip_chain.
    inv_bind H. inversion H; subst; clear H. apply Hrc in Hx. vip_chain.
Qed.

Lemma send_vote_requests_ctl vote_msg t cmt cmt_term tl ids r r' :
  send_vote_requests ids r vote_msg t cmt cmt_term tl = Ok r' -> ctl r' = ctl r.
Proof. intros H. apply send_vote_requests_spec in H. apply H. Qed.

Lemma campaign_real_vip tl r r' : campaign_real tl r = Ok r' -> vip r r'.
Proof.
  unfold campaign_real. intros H. inv_bind H. inv_bind H. destruct x0 as [r2 res].
  apply become_candidate_vip in Hx.
  apply poll_gen_vip in Hx0; [|intros a b K; discriminate K].
  assert (K : vip x r2 -> vip r r2) by (intros K; eapply vip_trans; eassumption).
  destruct res.
  - inv_bind H. apply send_vote_requests_ctl in H. apply ctl_vip in H.
    eapply vip_trans; [apply K; exact Hx0|exact H].
  - inv_bind H. apply send_vote_requests_ctl in H. apply ctl_vip in H.
    eapply vip_trans; [apply K; exact Hx0|exact H].
  - inversion H; subst. apply K. exact Hx0.
Qed.

Lemma poll_vip r from v r' res : poll r from v = Ok (r', res) -> vip r r'.
Proof. unfold poll. apply poll_gen_vip. intros a b. apply campaign_real_vip. Qed.

Lemma campaign_pre_vip r r' : campaign_pre r = Ok r' -> vip r r'.
Proof.
  unfold campaign_pre. intros H. inv_bind H. inv_bind H. destruct x0 as [r2 res].
  apply become_pre_candidate_vip in Hx. apply poll_vip in Hx0.
  assert (K : vip r r2) by (eapply vip_trans; eassumption).
  destruct res.
  - inv_bind H. apply send_vote_requests_ctl in H. apply ctl_vip in H. eapply vip_trans; eassumption.
  - inv_bind H. apply send_vote_requests_ctl in H. apply ctl_vip in H. eapply vip_trans; eassumption.
  - inversion H; subst. exact K.
Qed.

Lemma hup_vip r tl r' : hup r tl = Ok r' -> vip r r'.
Proof.
  intros H. unfold hup in H. destruct (is_leader r); [inversion H; apply vip_refl|].
  destruct (negb (r_promotable r)); [inversion H; apply vip_refl|].
  apply bind_ok in H; destruct H as (low & _ & H).
  inv_bind H. destruct x; [inversion H; apply vip_refl|].
  destruct tl; [eapply campaign_real_vip; exact H|].
  destruct (r_pre_vote r); [eapply campaign_pre_vip; exact H|eapply campaign_real_vip; exact H].
Qed.

Lemma maybe_commit_by_vote_vip r m r' : maybe_commit_by_vote r m = Ok r' -> vip r r'.
Proof.
  intros H. unfold maybe_commit_by_vote in H.
  destruct ((m_commit m =? 0) || (m_commit_term m =? 0)); [inversion H; apply vip_refl|].
  destruct ((m_commit m <=? committed (r_log r)) || is_leader r); [inversion H; apply vip_refl|].
  inv_bind H. destruct x as [l' b].
  destruct (negb b); [inversion H; subst; vip_chain|].
  match type of H with (if ?c then _ else _) = _ => destruct c end; [inversion H; subst; vip_chain|].
  inv_bind H. destruct x; [|inversion H; subst; vip_chain].
  apply become_follower_vip in H. vip_chain.
Qed.

Lemma pcc_check_sv r3 : sv (pcc_check r3) = sv r3.
Proof.
  unfold pcc_check. destruct (r_lead_transferee r3); [|reflexivity].
  destruct (negb _); reflexivity.
Qed.

Lemma post_conf_change_vip r r' cs : post_conf_change r = Ok (r', cs) -> vip r r'.
Proof.
  intros H. apply post_conf_change_shape_tn in H.
  destruct H as [_ [[-> _]|(_ & _ & _ & r3 & A & ->)]].
  - vip_chain.
  - eapply vip_trans; [eapply cf_vip; exact A|]. apply sv_vip. apply pcc_check_sv.
Qed.

Lemma restore_vip r s r' b : restore r s = Ok (r', b) -> vip r r'.
Proof.
  intros H. unfold restore in H.
  destruct (s_index s <? committed (r_log r)); [inversion H; apply vip_refl|].
  destruct (negb (role_eqb (r_state r) Follower)).
  { inv_bind H. inversion H; subst. eapply become_follower_vip; eassumption. }
  match type of H with (if ?c then _ else _) = _ => destruct c end; [inversion H; apply vip_refl|].
  inv_bind H.
  match type of H with (if ?c then _ else _) = _ => destruct c end.
  { inv_bind H. inversion H; subst. vip_chain. }
  inv_bind H.
  match type of H with match ?d with _ => _ end = _ => destruct d as [[c' ids']|] end; [|discriminate].
  inv_bind H. destruct x1 as [r1 new_cs].
  match type of H with (if ?c then _ else _) = _ => destruct c end; [discriminate|].
  match type of H with match ?d with _ => _ end = _ => destruct d end; [|discriminate].
  destruct (next_idx p =? 0); [discriminate|]. inversion H; subst; clear H.
  apply post_conf_change_vip in Hx1. vip_chain.
Qed.

Lemma handle_snapshot_vip r m r' : handle_snapshot r m = Ok r' -> vip r r'.
Proof.
  intros H. unfold handle_snapshot in H. inv_bind H. destruct x as [r1 ok].
  apply restore_vip in Hx.
  destruct ok; apply (send_cf MsgTimeoutNow) in H; try reflexivity; vip_chain.
Qed.

Definition handle_append_entries_tn := ltac:(let L := tn handle_append_entries_cf in exact L).
Definition handle_heartbeat_tn := ltac:(let L := tn handle_heartbeat_cf in exact L).

Lemma step_candidate_vip r m r' c : step_candidate r m = Ok (r', c) -> vip r r'.
Proof.
  intros H. unfold step_candidate in H.
  destruct (m_type m =? MsgPropose); [inversion H; apply vip_refl|].
  match type of H with (if ?c then _ else _) = _ => destruct c end.
  { destruct (negb (r_term r =? m_term m)); [discriminate|].
    inv_bind H. inv_bind H. inversion H; subst; clear H. apply become_follower_vip in Hx.
    destruct (m_type m =? MsgAppend); [apply handle_append_entries_tn in Hx0; vip_chain|].
    destruct (m_type m =? MsgHeartbeat); [apply handle_heartbeat_tn in Hx0; vip_chain|].
    apply handle_snapshot_vip in Hx0. vip_chain. }
  match type of H with (if ?c then _ else _) = _ => destruct c end;
    [|inversion H; apply vip_refl].
  match type of H with (if ?c then _ else _) = _ => destruct c end;
    [inversion H; apply vip_refl|].
  inv_bind H. inv_bind H. inversion H; subst; clear H. destruct x as [r1 res].
  apply poll_vip in Hx. apply maybe_commit_by_vote_vip in Hx0. cbn [fst] in Hx0. vip_chain.
Qed.

Lemma step_follower_vip r m r' c : step_follower r m = Ok (r', c) -> vip r r'.
Proof.
  intros H. unfold step_follower in H.
  destruct (m_type m =? MsgPropose).
  { destruct (r_leader_id r =? INVALID_ID); [inversion H; apply vip_refl|].
    destruct (r_disable_proposal_forwarding r); [inversion H; apply vip_refl|].
    inv_bind H. inversion H; subst; clear H. apply send_spec in Hx.
    destruct Hx as (y & -> & _). vip_chain. }
  destruct (m_type m =? MsgAppend).
  { inv_bind H. inversion H; subst; clear H. apply handle_append_entries_tn in Hx. vip_chain. }
  destruct (m_type m =? MsgHeartbeat).
  { inv_bind H. inversion H; subst; clear H. apply handle_heartbeat_tn in Hx. vip_chain. }
  destruct (m_type m =? MsgSnapshot).
  { inv_bind H. inversion H; subst; clear H. apply handle_snapshot_vip in Hx. vip_chain. }
  destruct (m_type m =? MsgTransferLeader).
  { destruct (r_leader_id r =? INVALID_ID); [inversion H; apply vip_refl|].
    inv_bind H. inversion H; subst; clear H. apply send_spec in Hx.
    destruct Hx as (y & -> & _). vip_chain. }
  destruct (m_type m =? MsgTimeoutNow).
  { destruct (r_promotable r); [|inversion H; apply vip_refl].
    inv_bind H. inversion H; subst; clear H. eapply hup_vip; exact Hx. }
  destruct (m_type m =? MsgReadIndex).
  { destruct (r_leader_id r =? INVALID_ID); [inversion H; apply vip_refl|].
    inv_bind H. inversion H; subst; clear H. apply send_spec in Hx.
    destruct Hx as (y & -> & _). vip_chain. }
  destruct (m_type m =? MsgReadIndexResp); [|inversion H; apply vip_refl].
  destruct (m_entries m) as [|e [|e2 es]]; try (inversion H; apply vip_refl).
  inv_bind H. inversion H; subst; clear H. vip_chain.
Qed.

Lemma sl_out_vip r m r' : sl_out r m r' -> vip r r'.
Proof.
  intros [H|H1 H2 H3 H4 H5|x H1 H2 _ _ _ _|o H1 H2 H3 H4 ->|H1 H2].
  - eapply cf_vip; exact H.
  - apply vi_to; [destruct H2 as (_ & K & _); unfold cfg in K; inversion K; reflexivity|].
    intros _. apply VI_not_lc; rewrite H4; discriminate.
  - apply ctl_vip; exact H2.
  - vip_chain.
  - apply tl_started_facts in H2. destruct H2 as [A _]. apply ctl_sv in A. apply sv_vip. exact A.
Qed.

Lemma step_main_vip r m r' c : step_main r m = Ok (r', c) -> vip r r'.
Proof.
  intros H. unfold step_main in H.
  destruct (m_type m =? MsgHup).
  { inv_bind H. inversion H; subst; clear H. eapply hup_vip; exact Hx. }
  match type of H with (if ?c then _ else _) = _ => destruct c end.
  { inv_bind H. inv_bind H.
    match type of H with (if ?c then _ else _) = _ => destruct c eqn:Eg end.
    - inv_bind H. apply send_spec in Hx1. destruct Hx1 as (y & -> & _).
      destruct (m_type m =? MsgRequestVote) eqn:Ev; inversion H; subst; clear H; [|vip_chain].
      split; [reflexivity|]. intros Hid V Hs. cbn in Hs |- *. specialize (V Hs).
      apply andb_prop in Eg. destruct Eg as [Eg _]. apply andb_prop in Eg. destruct Eg as [Eg _].
      unfold vote_granted in Eg. apply N.eqb_eq in Ev. rewrite Ev in Eg.
      change (MsgRequestVote =? MsgRequestPreVote) with false in Eg. cbn [andb] in Eg.
      rewrite orb_false_r in Eg. apply orb_prop in Eg. destruct Eg as [Eg|Eg].
      + apply N.eqb_eq in Eg. congruence.
      + apply andb_prop in Eg. destruct Eg as [Eg _]. apply N.eqb_eq in Eg.
        unfold INVALID_ID in Eg. congruence.
    - inv_bind H. inv_bind H. inv_bind H. inversion H; subst; clear H.
      apply send_spec in Hx2. destruct Hx2 as (y & -> & _).
      apply maybe_commit_by_vote_vip in Hx3. vip_chain. }
  destruct (r_state r) eqn:Es.
  - eapply step_follower_vip; exact H.
  - eapply step_candidate_vip; exact H.
  - apply step_leader_shape in H. apply sl_out_vip in H. exact H.
  - eapply step_candidate_vip; exact H.
Qed.

Theorem step_vip r m r' c : step r m = Ok (r', c) -> vip r r'.
Proof.
  intros H. rewrite step_eq in H. inv_bind H.
  apply step_pre_shape in Hx. destruct Hx as [->|[(r1 & c1 & -> & A)|(Hlt & r0 & l & -> & A)]].
  - eapply step_main_vip; exact H.
  - inversion H; subst. eapply cf_vip; exact A.
  - apply become_follower_vip in A. apply step_main_vip in H. eapply vip_trans; eassumption.
Qed.

Theorem tick_vip r r' b : tick r = Ok (r', b) -> vip r r'.
Proof.
  intros H. unfold tick in H.
  assert (Hel : tick_election r = Ok (r', b) -> vip r r').
  { clear H. unfold tick_election. intros H.
    match type of H with (if ?c then _ else _) = _ => destruct c end;
      [inversion H; subst; vip_chain|].
    inv_bind H. inversion H; subst; clear H. destruct x as [r1 c]. cbn [fst].
    apply step_vip in Hx. vip_chain. }
  destruct (r_state r); try (apply Hel; exact H). clear Hel.
  unfold tick_heartbeat in H.
  apply bind_ok in H. destruct H as ([ra hr] & HA & H).
  assert (Ha : vip r ra).
  { match type of HA with (if ?c then _ else _) = _ => destruct c end;
      [|inversion HA; subst; vip_chain].
    apply bind_ok in HA. destruct HA as ([r3 hr3] & HB & HA). inversion HA; subst; clear HA.
    assert (H3 : vip r r3).
    { match type of HB with (if ?c then _ else _) = _ => destruct c end;
        [|inversion HB; subst; vip_chain].
      apply bind_ok in HB. destruct HB as ([rz cz] & HC & HB). inversion HB; subst; clear HB.
      cbn [fst]. apply step_vip in HC. vip_chain. }
    match goal with |- vip _ (if ?c then _ else _) => destruct c end; vip_chain. }
  destruct (negb (is_leader ra)); [inversion H; subst; exact Ha|].
  match type of H with (if ?c then _ else _) = _ => destruct c end;
    [|inversion H; subst; exact Ha].
  apply bind_ok in H. destruct H as ([rz cz] & HD & H). inversion H; subst; clear H. cbn [fst].
  apply step_vip in HD. vip_chain.
Qed.

Theorem rn_apply_vip n i n' : rn_apply n i = Ok n' -> vip (rn_raft n) (rn_raft n').
Proof.
  intros H. apply rn_apply_effect in H.
  destruct H as [_ E|m c E K|b E K|cc ocs E K|E1 E2 K].
  - rewrite E. apply vip_refl.
  - eapply step_vip; exact K.
  - eapply tick_vip; exact K.
  - apply apply_conf_change_frame in K. destruct K as (_ & Hc & K1 & _ & K3 & _).
    apply cfg_id in Hc. destruct Hc as [Hc _]. apply sv_vip. unfold sv. congruence.
  - apply ctl_vip. apply K.
Qed.

Theorem rn_run_vip : forall is n n', rn_run n is = Ok n' -> vip (rn_raft n) (rn_raft n').
Proof.
  induction is as [|i rest IH]; intros n n' H; cbn [rn_run] in H.
  - inversion H; apply vip_refl.
  - inv_bind H. apply rn_apply_vip in Hx. apply IH in H. eapply vip_trans; eassumption.
Qed.

(* the trace theorem without the assumption on the leader's vote: start anywhere VI holds
   (e.g. any follower), run any inputs, and once the node leads with a transfer pending,
   election_timeout - election_elapsed further ticks clear it *)
Theorem transfer_expires_from_any_start is0 is n0 n n' :
  r_id (rn_raft n0) <> 0 -> VI (rn_raft n0) ->
  rn_run n0 is0 = Ok n ->
  is_leader (rn_raft n) = true ->
  rn_run n is = Ok n' ->
  Forall (benign (r_id (rn_raft n))) is ->
  0 < count_ticks is ->
  r_election_timeout (rn_raft n) <= r_election_elapsed (rn_raft n) + count_ticks is ->
  r_lead_transferee (rn_raft n') = None.
Proof.
  intros Hid Hvi H0 Hl H1 Hb Hp Hk. apply rn_run_vip in H0. destruct H0 as [A B].
  eapply transfer_expires_trace; try eassumption.
  - apply B; auto. left. apply is_leader_state. exact Hl.
  - congruence.
Qed.

(* ------------------------------------------------------------------ *)
(* Construction: RawNode::new yields a follower with a non-zero id, no pending transfer
   and no MsgTimeoutNow queued; so VI holds initially and all the trace theorems apply to
   every execution from boot. *)
Lemma load_state_sv r hs r' : load_state r hs = Ok r' ->
  r_id r' = r_id r /\ r_state r' = r_state r.
Proof.
  unfold load_state. intros H. match type of H with (if ?c then _ else _) = _ => destruct c end;
    [discriminate|]. inversion H; subst. split; reflexivity.
Qed.

Theorem rn_new_init c st sa d n :
  rn_new c st sa d = Ok (inr n) ->
  r_id (rn_raft n) = c_id c /\ c_id c <> 0 /\ r_state (rn_raft n) = Follower /\
  r_lead_transferee (rn_raft n) = None /\
  sel MsgTimeoutNow (r_msgs (rn_raft n)) = [].
Proof.
  intros H. unfold rn_new in H. destruct (c_id c =? 0) eqn:Eid; [discriminate|].
  apply N.eqb_neq in Eid. inv_bind H. destruct x as [e|r]; [discriminate|].
  inversion H; subst; clear H. cbn [rn_raft].
  unfold raft_new in Hx. destruct (negb (cfg_validate c)); [discriminate|].
  cbn zeta in Hx. inv_bind Hx.
  match type of Hx with match ?d with _ => _ end = _ => destruct d as [[c' ids']|] end;
    [|discriminate].
  inv_bind Hx. destruct x0 as [r2 new_cs].
  match type of Hx with (if ?c then _ else _) = _ => destruct c end; [discriminate|].
  inv_bind Hx. inv_bind Hx. inv_bind Hx. inv_bind Hx. inversion Hx; subst; clear Hx.
  (* r2: post_conf_change on a follower only sets [promotable] *)
  apply post_conf_change_shape_tn in Hx1.
  destruct Hx1 as [_ [[-> _]|(K & _)]]; [|discriminate K].
  assert (H3 : r_id x0 = c_id c /\ r_state x0 = Follower /\ sel MsgTimeoutNow (r_msgs x0) = []).
  { match type of Hx2 with (if ?c then _ else _) = _ => destruct c end.
    - inversion Hx2; subst. repeat split.
    - pose proof (load_state_sv _ _ _ Hx2) as [A B]. apply load_state_quiet in Hx2.
      destruct Hx2 as (M & _). rewrite A, B, M. repeat split. }
  destruct H3 as (A3 & B3 & C3).
  assert (H4 : r_id x1 = c_id c /\ sel MsgTimeoutNow (r_msgs x1) = []).
  { match type of Hx3 with (if ?c then _ else _) = _ => destruct c end.
    - apply commit_apply_internal_cf in Hx3. destruct Hx3 as [M K]. apply ctl_fields in K.
      destruct K as (_ & _ & _ & _ & _ & _ & K7 & _). split; congruence.
    - inversion Hx3; subst. auto. }
  destruct H4 as (A4 & C4).
  pose proof (become_follower_clears _ _ _ _ Hx4) as (L & _ & S).
  pose proof (become_follower_msgs_log _ _ _ _ Hx4) as (M & _).
  apply become_follower_vip in Hx4. destruct Hx4 as [I _].
  repeat split; try assumption; congruence.
Qed.

Theorem transfer_expires_from_boot c st sa d is0 is n0 n n' :
  rn_new c st sa d = Ok (inr n0) ->
  rn_run n0 is0 = Ok n ->
  is_leader (rn_raft n) = true ->
  rn_run n is = Ok n' ->
  Forall (benign (c_id c)) is ->
  0 < count_ticks is ->
  r_election_timeout (rn_raft n) <= r_election_elapsed (rn_raft n) + count_ticks is ->
  r_lead_transferee (rn_raft n') = None.
Proof.
  intros H0 H1 Hl H2 Hb Hp Hk. apply rn_new_init in H0. destruct H0 as (A & B & C0 & _).
  pose proof (rn_run_vip _ _ _ H1) as [I _].
  apply (transfer_expires_from_any_start is0 is n0 n n'); try assumption.
  - congruence.
  - apply VI_not_lc; rewrite C0; discriminate.
  - rewrite I, A. exact Hb.
Qed.
