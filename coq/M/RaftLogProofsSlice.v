(* C14, part 4: slice / entries read the logical log: the result is
   [limit_size] of the plain range (so: the whole range without a limit, and a
   non-empty maximal prefix within the limit otherwise), whatever the split of
   the range between storage and unstable entries. *)
From RV Require Import Base.Prelude M.Util M.UtilProofs M.MemStorage M.MemStorageProofs
  M.RaftLog M.RaftLogProofs M.RaftLogProofsOps.

Local Open Scope N_scope.

Definition ll_slice (L : LL) (lo hi : N) (max : option N) : list entry :=
  limit_size (ll_range L lo hi) max.

(* ================================================================== *)
(* limit_size over a concatenation                                     *)
(* ================================================================== *)
Section LimitApp.
  Context {A : Type} (sz : A -> N).

  Lemma limit_count_app_stop : forall (a b : list A) size m,
      (limit_count sz a size m < length a)%nat ->
      limit_count sz (a ++ b) size m = limit_count sz a size m.
  Proof.
    induction a as [|e t IH]; intros b size m H; cbn [limit_count length app] in *; [lia|].
    destruct (size =? 0) eqn:E0.
    - f_equal. apply IH. lia.
    - destruct (size + sz e <=? m) eqn:E1; [|reflexivity]. f_equal. apply IH. lia.
  Qed.

  (* the storage read already stopped short: the unstable part is never reached *)
  Lemma limit_size_app_stop : forall (a b : list A) max,
      (length (limit_size_by sz a max) < length a)%nat ->
      limit_size_by sz (a ++ b) max = limit_size_by sz a max.
  Proof.
    intros a b max H. unfold limit_size_by in *.
    destruct (length a <=? 1)%nat eqn:E1; [lia|].
    destruct max as [m|]; [|lia].
    destruct (m =? NO_LIMIT) eqn:E2; [lia|].
    rewrite firstn_length in H.
    assert (Hc : (limit_count sz a 0 m < length a)%nat) by lia.
    rewrite app_length. destruct (length a + length b <=? 1)%nat eqn:E3; [lia|].
    rewrite (limit_count_app_stop a b 0 m Hc), firstn_app.
    replace (limit_count sz a 0 m - length a)%nat with O by lia.
    cbn [firstn]. apply app_nil_r.
  Qed.
End LimitApp.

(* ================================================================== *)
(* a range of [stable ++ unstable] splits into the two reads            *)
(* ================================================================== *)
Lemma range_split : forall {A} (es U : list A) (p a n : nat),
    (p <= length es)%nat ->
    firstn n (skipn a (firstn p es ++ U))
    = firstn (Nat.min n (p - a)) (skipn a es) ++ firstn (n - (p - a)) (skipn (a - p) U).
Proof.
  intros A es U p a n Hp.
  rewrite skipn_app, firstn_app, firstn_length, skipn_length, firstn_length.
  rewrite skipn_firstn_comm, firstn_firstn.
  replace (Nat.min p (length es)) with p by lia. reflexivity.
Qed.

Lemma ll_range_split : forall rw l lo hi,
    RepInv rw l -> ll_first (abs l) <= lo -> lo <= hi ->
    let off := u_offset (unst l) in
    ll_range (abs l) lo hi
    = (if lo <? off then range_of (store l) lo (N.min hi off) else [])
      ++ firstn (N.to_nat (hi - N.max lo off)) (skipn (N.to_nat (N.max lo off - off)) (u_entries (unst l))).
Proof.
  intros rw l lo hi H Hlo Hhi off. subst off.
  destruct H as [Hs _ _ Hsh _ _ _ _]. unfold ll_range, ll_first, abs in *.
  destruct (u_snapshot (unst l)) as [s|]; cbn [ll_base ll_ents] in *.
  - destruct Hsh as [Ho _]. destruct (lo <? u_offset (unst l)) eqn:E; [lia|].
    cbn [app]. f_equal; [lia|]. f_equal. lia.
  - destruct Hsh as (Hr & _ & _). pose proof (first_pos _ Hs) as Hfp.
    unfold stable_part. rewrite range_split by (unfold next_of in Hr; lia).
    f_equal.
    + destruct (lo <? u_offset (unst l)) eqn:E.
      * unfold range_of. f_equal; [lia|]. f_equal. lia.
      * replace (Nat.min (N.to_nat (hi - lo))
                   (N.to_nat (u_offset (unst l) - first_of (store l)) - N.to_nat (lo - (first_of (store l) - 1) - 1)))
          with O by lia.
        reflexivity.
    + f_equal; [lia|]. f_equal. lia.
Qed.

(* ================================================================== *)
(* slice                                                               *)
(* ================================================================== *)
Lemma check_bounds_ok : forall rw l lo hi,
    RepInv rw l -> ll_first (abs l) <= lo -> lo <= hi -> hi <= ll_last (abs l) + 1 ->
    must_check_outofbounds l lo hi = Ok None.
Proof.
  intros rw l lo hi H H1 H2 H3. unfold must_check_outofbounds.
  destruct (hi <? lo) eqn:E0; [lia|].
  rewrite (abs_base_first rw l H). cbn [bind]. rewrite (abs_last rw l H).
  unfold ll_first, ll_last in *.
  destruct (lo <? ll_base (abs l) + 1) eqn:E1; [lia|].
  destruct (ll_base (abs l) + N.of_nat (length (ll_ents (abs l))) + 1 <? ll_base (abs l) + 1) eqn:E2; [lia|].
  cbn [orb].
  destruct (_ <? hi) eqn:E3; [lia|reflexivity].
Qed.

Theorem slice_abs : forall rw l lo hi max,
    RepInv rw l -> ll_first (abs l) <= lo -> lo <= hi -> hi <= ll_last (abs l) + 1 ->
    slice l lo hi max = Ok (SOk (ll_slice (abs l) lo hi max)).
Proof.
  intros rw l lo hi max H H1 H2 H3. unfold slice, ll_slice.
  rewrite (check_bounds_ok rw l lo hi H H1 H2 H3). cbn [bind].
  destruct (lo =? hi) eqn:Eq.
  - assert (hi = lo) by lia. subst hi. unfold ll_range. rewrite N.sub_diag. reflexivity.
  - rewrite (ll_range_split rw l lo hi H H1 H2). cbv zeta.
    pose proof (ll_last_upper rw l H) as Hup.
    pose proof H as H0. destruct H0 as [Hs Hq Hct Hsh _ _ _ _].
    set (off := u_offset (unst l)) in *.
    set (B := firstn (N.to_nat (hi - N.max lo off)) (skipn (N.to_nat (N.max lo off - off)) (u_entries (unst l)))).
    assert (HB : off <? hi = true ->
                 u_slice (unst l) (N.max lo off) hi = Ok B).
    { intros Hoh. unfold u_slice, u_must_check_outofbounds. fold off.
      destruct (hi <? N.max lo off) eqn:E1; [lia|].
      destruct ((N.max lo off <? off) || (off + N.of_nat (length (u_entries (unst l))) <? hi)) eqn:E2; [lia|].
      cbn [bind]. subst B. f_equal. f_equal. lia. }
    assert (HB0 : off <? hi = false -> B = []).
    { intros Hoh. subst B. replace (N.to_nat (hi - N.max lo off)) with O by lia. reflexivity. }
    destruct (lo <? off) eqn:Elo.
    + (* the range starts in the storage *)
      assert (Hnone : u_snapshot (unst l) = None).
      { destruct (u_snapshot (unst l)) as [s|] eqn:Es; [|reflexivity]. exfalso.
        destruct Hsh as [Ho _]. unfold ll_first, abs in H1. rewrite Es in H1. cbn [ll_base] in H1.
        subst off. lia. }
      rewrite Hnone in Hsh. destruct Hsh as (Hr & _ & _). fold off in Hr.
      assert (Hf : first_of (store l) <= lo).
      { unfold ll_first, abs in H1. rewrite Hnone in H1. cbn [ll_base] in H1.
        pose proof (first_pos _ Hs). lia. }
      unfold store_entries.
      rewrite (entries_eq (store l) lo (N.min hi off) max (CtxEmpty false) Hs Hf ltac:(lia) ltac:(lia)
                 ltac:(rewrite Hq; reflexivity)).
      cbn [bind snd].
      destruct (range_of_spec (store l) lo (N.min hi off) Hs Hf ltac:(lia) ltac:(lia)) as (_ & Hlen & _).
      set (A := range_of (store l) lo (N.min hi off)) in *.
      fold (limit_size A max).
      destruct (N.of_nat (length (limit_size A max)) <? N.min hi off - lo) eqn:Eshort.
      * (* the storage read stopped short *)
        cbn [bind]. f_equal. f_equal. symmetry. unfold limit_size in *. apply limit_size_app_stop. lia.
      * cbn [bind].
        assert (Hfull : limit_size A max = A).
        { destruct (limit_size_spec entry_size A max) as ((k & Hk & Hp) & _).
          unfold limit_size. rewrite Hp. apply firstn_all2.
          unfold limit_size in Eshort. rewrite Hp, firstn_length in Eshort. lia. }
        rewrite Hfull.
        destruct (off <? hi) eqn:Eoh.
        -- rewrite (HB eq_refl). cbn [bind]. reflexivity.
        -- cbn [bind]. rewrite (HB0 eq_refl), app_nil_r. reflexivity.
    + (* the range lies in the unstable entries *)
      cbn [bind app].
      destruct (off <? hi) eqn:Eoh; [|lia].
      rewrite (HB eq_refl). cbn [bind app]. reflexivity.
Qed.

Theorem slice_compacted : forall rw l lo hi max,
    RepInv rw l -> lo < ll_first (abs l) -> lo <= hi ->
    slice l lo hi max = Ok (SErr Compacted).
Proof.
  intros rw l lo hi max H H1 H2. unfold slice, must_check_outofbounds.
  destruct (hi <? lo) eqn:E0; [lia|].
  rewrite (abs_base_first rw l H). cbn [bind].
  destruct (lo <? ll_first (abs l)) eqn:E1; [reflexivity|lia].
Qed.

Theorem slice_panics : forall rw l lo hi max,
    RepInv rw l ->
    (hi < lo -> slice l lo hi max = Panic site_l_slice_order)
    /\ (lo <= hi -> ll_first (abs l) <= lo -> ll_last (abs l) + 1 < hi ->
        slice l lo hi max = Panic site_l_slice_bound).
Proof.
  intros rw l lo hi max H. split.
  - intros Hlt. unfold slice, must_check_outofbounds.
    destruct (hi <? lo) eqn:E0; [reflexivity|lia].
  - intros H1 H2 H3. unfold slice, must_check_outofbounds.
    destruct (hi <? lo) eqn:E0; [lia|].
    rewrite (abs_base_first rw l H). cbn [bind]. rewrite (abs_last rw l H).
    unfold ll_first, ll_last in *.
    destruct (lo <? ll_base (abs l) + 1) eqn:E1; [lia|].
    destruct (ll_base (abs l) + N.of_nat (length (ll_ents (abs l))) + 1 <? ll_base (abs l) + 1) eqn:E2; [lia|].
    cbn [orb]. destruct (_ <? hi) eqn:E3; [reflexivity|lia].
Qed.

(* ================================================================== *)
(* the range itself, and size-limited reads                            *)
(* ================================================================== *)
Lemma ll_range_contig : forall L lo hi,
    ll_wf L -> ll_first L <= lo -> contiguous_from lo (ll_range L lo hi).
Proof.
  intros L lo hi Hw Hlo. unfold ll_range, ll_first, ll_wf in *.
  apply contig_firstn.
  replace lo with (ll_base L + 1 + N.of_nat (N.to_nat (lo - ll_base L - 1))) at 1 by lia.
  apply contig_skipn. exact Hw.
Qed.

Lemma ll_range_length : forall L lo hi,
    ll_first L <= lo -> lo <= hi -> hi <= ll_last L + 1 ->
    length (ll_range L lo hi) = N.to_nat (hi - lo).
Proof.
  intros L lo hi H1 H2 H3. unfold ll_range, ll_first, ll_last in *.
  rewrite firstn_length, skipn_length. lia.
Qed.

Lemma ll_range_nth : forall L lo hi j,
    ll_first L <= lo -> lo <= j < hi ->
    nth_error (ll_range L lo hi) (N.to_nat (j - lo)) = ll_get L j.
Proof.
  intros L lo hi j H1 H2. unfold ll_range, ll_get, ll_first in *.
  destruct (j <=? ll_base L) eqn:E; [lia|].
  rewrite nth_error_firstn_lt by lia. rewrite nth_error_skipn'. f_equal. lia.
Qed.

(* without a limit the whole range is returned *)
Theorem slice_unlimited : forall rw l lo hi max,
    RepInv rw l -> ll_first (abs l) <= lo -> lo <= hi -> hi <= ll_last (abs l) + 1 ->
    max = None \/ max = Some NO_LIMIT ->
    slice l lo hi max = Ok (SOk (ll_range (abs l) lo hi)).
Proof.
  intros rw l lo hi max H H1 H2 H3 Hm. rewrite (slice_abs rw l lo hi max H H1 H2 H3).
  unfold ll_slice, limit_size.
  destruct (limit_size_spec entry_size (ll_range (abs l) lo hi) max) as (_ & _ & Hu & _).
  rewrite Hu; [reflexivity|]. destruct Hm; auto.
Qed.

(* (d) a size-limited read returns a non-empty maximal prefix within the limit *)
Theorem slice_limited : forall rw l lo hi m,
    RepInv rw l -> ll_first (abs l) <= lo -> lo < hi -> hi <= ll_last (abs l) + 1 ->
    let full := ll_range (abs l) lo hi in
    exists r, slice l lo hi (Some m) = Ok (SOk r)
      /\ (exists k, (k <= length full)%nat /\ r = firstn k full)
      /\ r <> []
      /\ (m <> NO_LIMIT -> total_size entry_size r <= m \/ length r = 1%nat)
      /\ ((length r < length full)%nat -> m < total_size entry_size (firstn (S (length r)) full)).
Proof.
  intros rw l lo hi m H H1 H2 H3 full.
  exists (ll_slice (abs l) lo hi (Some m)).
  split; [apply (slice_abs rw); auto; lia|].
  unfold ll_slice, limit_size. fold full.
  destruct (limit_size_spec entry_size full (Some m)) as (Hp & Hn & _ & Hs).
  assert (Hlen : length full = N.to_nat (hi - lo)) by (apply ll_range_length; lia).
  assert (Hne : full <> []) by (intros Hnil; rewrite Hnil in Hlen; cbn in Hlen; lia).
  assert (Hhp : head_pos entry_size full).
  { pose proof (ll_range_contig (abs l) lo hi (abs_wf rw l H) H1) as Hc. fold full in Hc.
    unfold head_pos. destruct full as [|e t]; [exact I|]. destruct Hc as [He _].
    apply entry_size_pos. unfold ll_first in H1. lia. }
  destruct (Hs Hhp m eq_refl) as [Hw Hmx].
  split; [exact Hp|]. split; [apply Hn; exact Hne|]. split; assumption.
Qed.

(* ================================================================== *)
(* entries                                                             *)
(* ================================================================== *)
Theorem log_entries_abs : forall rw l i max,
    RepInv rw l -> ll_first (abs l) <= i ->
    log_entries l i max
    = Ok (SOk (if ll_last (abs l) <? i then [] else ll_slice (abs l) i (ll_last (abs l) + 1) max)).
Proof.
  intros rw l i max H Hi. unfold log_entries. rewrite (abs_last rw l H).
  pose proof (ri_bound rw l H) as Hb.
  destruct (ll_last (abs l) <? i) eqn:E; [reflexivity|].
  destruct (ll_last (abs l) =? u64_max) eqn:E2; [lia|].
  apply (slice_abs rw); auto; lia.
Qed.

Theorem log_entries_compacted : forall rw l i max,
    RepInv rw l -> i < ll_first (abs l) ->
    log_entries l i max = Ok (SErr Compacted).
Proof.
  intros rw l i max H Hi. unfold log_entries. rewrite (abs_last rw l H).
  pose proof (ri_bound rw l H) as Hb.
  destruct (ll_last (abs l) <? i) eqn:E; [unfold ll_first, ll_last in *; lia|].
  destruct (ll_last (abs l) =? u64_max) eqn:E2; [lia|].
  apply (slice_compacted rw); auto. lia.
Qed.
