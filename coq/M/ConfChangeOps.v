(* C12, part 2: whole-operation specifications of simple / enter_joint /
   leave_joint (+ apply_conf), equality of the model with them on valid
   trackers (results AND error codes), and the derived theorems
   changer_preserves, simple_delta, joint_shape, zero-id / unknown-id laws. *)
From RV Require Import Base.Prelude Base.IdSet Base.IdSetProofs M.ConfChange M.ConfChangeSpec.

Local Open Scope N_scope.

(* ------------------------------------------------------------------ *)
(* Specifications                                                      *)
(* ------------------------------------------------------------------ *)

Definition spec_simple (t : tracker) (ccs : list ccsingle) : R tracker :=
  let '(c, p) := t in
  if joint c then RErr e_simple_in_joint else
  let st := spec_loop (c, p) ccs in
  if is_empty (incoming (fst st)) then RErr e_removed_all else
  if (1 <? symdiff_count (incoming (fst st)) (incoming c))%nat then RErr e_more_than_one else
  ROk st.

Definition spec_enter (al : bool) (t : tracker) (ccs : list ccsingle) : R tracker :=
  let '(c, p) := t in
  if joint c then RErr e_already_joint else
  if is_empty (incoming c) then RErr e_zero_voter_joint else
  let st := spec_loop (set_outgoing c (incoming c), p) ccs in
  if is_empty (incoming (fst st)) then RErr e_removed_all else
  ROk (set_auto_leave (fst st) al, snd st).

Definition spec_leave (t : tracker) : R tracker :=
  let '(c, p) := t in
  if negb (joint c) then RErr e_leave_nonjoint else
  let l' := union (learners c) (learners_next c) in
  ROk (mkConf (incoming c) [] l' [] false,
       filter (fun x => mem x (incoming c) || mem x l') p).

(* ------------------------------------------------------------------ *)
(* Auxiliary validity facts                                            *)
(* ------------------------------------------------------------------ *)

Lemma joint_false_nil : forall c, joint c = false -> outgoing c = [].
Proof.
  intros c H. unfold joint in H. apply negb_false_iff in H. apply is_empty_nil. exact H.
Qed.

Lemma joint_true_notnil : forall c, joint c = true -> outgoing c <> [].
Proof.
  intros c H E. unfold joint in H. rewrite E in H. discriminate.
Qed.

Lemma is_empty_false_notnil : forall s, is_empty s = false -> s <> [].
Proof. intros s H E. subst. discriminate. Qed.

Lemma enter_valid : forall c p,
  ValidB c p -> outgoing c = [] -> incoming c <> [] ->
  ValidB (set_outgoing c (incoming c)) p.
Proof.
  intros c p V Ho Hi. destruct (vb_nj _ _ V Ho) as [Hn Ha].
  destruct c as [ci co cl cn ca]. cbn [incoming outgoing learners learners_next auto_leave] in *.
  subst co cn. unfold set_outgoing. cbn [incoming outgoing learners learners_next auto_leave].
  srt_facts V.
  constructor; cbn [incoming outgoing learners learners_next auto_leave].
  1-5: solve [eauto with srt].
  1-6: intros x; inst V x; mem_norm; bb.
  - exact (vb_zero _ _ V).
  - intros E. congruence.
Qed.

Lemma set_auto_leave_valid : forall c p al,
  ValidB c p -> outgoing c <> [] -> ValidB (set_auto_leave c al) p.
Proof.
  intros c p al V Ho. destruct V. constructor; cbn [set_auto_leave incoming outgoing learners learners_next auto_leave]; auto.
  intros E. contradiction.
Qed.

Lemma leave_valid : forall c p,
  ValidB c p ->
  ValidB (mkConf (incoming c) [] (union (learners c) (learners_next c)) [] false)
         (filter (fun x => mem x (incoming c) || mem x (union (learners c) (learners_next c))) p).
Proof.
  intros c p V.
  constructor; cbn [incoming outgoing learners learners_next auto_leave].
  1-5: solve [eauto with srt].
  1-6: intros x; inst V x; mem_norm; bb.
  - rewrite mem_filter, (vb_zero _ _ V). reflexivity.
  - auto.
Qed.

(* removals: apply_conf with only Remove entries *)
Lemma apply_conf_removals : forall l p x,
  mem x (apply_conf p (map (fun id => (id, MRemove)) l)) = mem x p && negb (mem x l).
Proof.
  induction l as [|id l IH]; intros p x; cbn [map apply_conf fold_left mem].
  - rewrite andb_true_r. reflexivity.
  - fold (apply_conf (apply_change p (id, MRemove)) (map (fun id => (id, MRemove)) l)).
    rewrite IH. unfold apply_change. cbn [fst snd]. rewrite mem_remove.
    destruct (x =? id), (mem x p), (mem x l); reflexivity.
Qed.

(* ------------------------------------------------------------------ *)
(* The model equals the specification on valid trackers                *)
(* ------------------------------------------------------------------ *)

Lemma apply_conf_eq : forall p chs p',
  sorted p = true -> sorted p' = true ->
  (forall x, contains p chs x = mem x p') -> apply_conf p chs = p'.
Proof.
  intros p chs p' Hp Hp' H. apply sorted_ext; [apply apply_conf_sorted; assumption|assumption|].
  intros x. rewrite apply_conf_contains. apply H.
Qed.

Theorem do_simple_spec : forall c p ccs,
  ValidB c p -> do_simple (c, p) ccs = spec_simple (c, p) ccs.
Proof.
  intros c p ccs V. unfold do_simple, spec_simple, simple, commit. cbn [fst snd].
  destruct (joint c) eqn:J; [reflexivity|].
  unfold check_and_copy. rewrite (check_invariants_ok c p p [] V (contains_nil p)). cbn [rbind].
  unfold apply_changes.
  destruct (apply_loop_refines p ccs c [] p V (contains_nil p)) as [H1 H2].
  pose proof (spec_loop_valid ccs c p V) as V'.
  match goal with |- context [apply_loop ?a ?b ?d] => destruct (apply_loop a b d) as [c1 chs1] end.
  destruct (spec_loop (c, p) ccs) as [c2 p2]. cbn [fst snd] in *. subst c2.
  destruct (is_empty (incoming c1)); [reflexivity|]. cbn [rbind].
  destruct (1 <? symdiff_count (incoming c1) (incoming c))%nat; [reflexivity|].
  rewrite (check_invariants_ok c1 p2 p chs1 V' H2). cbn [rbind].
  f_equal. f_equal. apply apply_conf_eq; eauto with srt.
Qed.

Theorem do_enter_joint_spec : forall al c p ccs,
  ValidB c p -> do_enter_joint al (c, p) ccs = spec_enter al (c, p) ccs.
Proof.
  intros al c p ccs V. unfold do_enter_joint, spec_enter, enter_joint, commit. cbn [fst snd].
  destruct (joint c) eqn:J; [reflexivity|].
  unfold check_and_copy. rewrite (check_invariants_ok c p p [] V (contains_nil p)). cbn [rbind].
  destruct (is_empty (incoming c)) eqn:Ei; [reflexivity|].
  pose proof (joint_false_nil _ J) as Ho.
  rewrite Ho, (union_nil_l _ (vb_si _ _ V)).
  pose proof (enter_valid c p V Ho (is_empty_false_notnil _ Ei)) as V1.
  unfold apply_changes.
  destruct (apply_loop_refines p ccs _ [] p V1 (contains_nil p)) as [H1 H2].
  pose proof (spec_loop_valid ccs _ p V1) as V'.
  pose proof (spec_loop_outgoing ccs (set_outgoing c (incoming c)) p) as Hout.
  match goal with |- context [apply_loop ?a ?b ?d] => destruct (apply_loop a b d) as [c1 chs1] end.
  destruct (spec_loop (set_outgoing c (incoming c), p) ccs) as [c2 p2]. cbn [fst snd] in *. subst c2.
  destruct (is_empty (incoming c1)); [reflexivity|]. cbn [rbind].
  assert (V3 : ValidB (set_auto_leave c1 al) p2).
  { apply set_auto_leave_valid; [assumption|]. rewrite Hout. cbn [set_outgoing outgoing].
    apply is_empty_false_notnil. assumption. }
  rewrite (check_invariants_ok _ p2 p chs1 V3 H2). cbn [rbind].
  f_equal. f_equal. apply apply_conf_eq; eauto with srt.
Qed.

Theorem do_leave_joint_spec : forall c p,
  ValidB c p -> do_leave_joint (c, p) = spec_leave (c, p).
Proof.
  intros c p V. unfold do_leave_joint, spec_leave, leave_joint, commit. cbn [fst snd].
  destruct (joint c) eqn:J; [|reflexivity]. cbn [negb].
  unfold check_and_copy. rewrite (check_invariants_ok c p p [] V (contains_nil p)). cbn [rbind].
  assert (Ee : is_empty (outgoing c) = false).
  { unfold joint in J. apply negb_true_iff in J. exact J. }
  rewrite Ee. cbn [incoming outgoing learners learners_next auto_leave].
  pose proof (leave_valid c p V) as V2.
  set (l' := union (learners c) (learners_next c)) in *.
  set (p' := filter (fun x => mem x (incoming c) || mem x l') p) in *.
  assert (Hc : forall x,
    contains p (leave_removals (mkConf (incoming c) (outgoing c) l' [] (auto_leave c))) x = mem x p').
  { intros x. rewrite <- apply_conf_contains. unfold leave_removals.
    rewrite apply_conf_removals. cbn [incoming outgoing learners].
    subst p' l'. inst V x. mem_norm. bb. }
  rewrite (check_invariants_ok _ p' p _ V2 Hc). cbn [rbind].
  f_equal. f_equal. apply apply_conf_eq; eauto with srt.
Qed.

(* ------------------------------------------------------------------ *)
(* The specifications preserve validity                                *)
(* ------------------------------------------------------------------ *)

Lemma spec_simple_valid : forall c p ccs c' p',
  ValidB c p -> spec_simple (c, p) ccs = ROk (c', p') -> Valid c' p'.
Proof.
  intros c p ccs c' p' V H. unfold spec_simple in H.
  destruct (joint c); [discriminate|].
  pose proof (spec_loop_valid ccs c p V) as V'.
  destruct (spec_loop (c, p) ccs) as [c2 p2]. cbn [fst snd] in *.
  destruct (is_empty (incoming c2)) eqn:E; [discriminate|].
  destruct (1 <? symdiff_count (incoming c2) (incoming c))%nat; [discriminate|].
  inversion H; subst. split; [assumption|apply is_empty_false_notnil; assumption].
Qed.

Lemma spec_enter_valid : forall al c p ccs c' p',
  ValidB c p -> spec_enter al (c, p) ccs = ROk (c', p') -> Valid c' p'.
Proof.
  intros al c p ccs c' p' V H. unfold spec_enter in H.
  destruct (joint c) eqn:J; [discriminate|].
  destruct (is_empty (incoming c)) eqn:Ei; [discriminate|].
  pose proof (joint_false_nil _ J) as Ho.
  pose proof (enter_valid c p V Ho (is_empty_false_notnil _ Ei)) as V1.
  pose proof (spec_loop_valid ccs _ p V1) as V'.
  pose proof (spec_loop_outgoing ccs (set_outgoing c (incoming c)) p) as Hout.
  destruct (spec_loop (set_outgoing c (incoming c), p) ccs) as [c2 p2]. cbn [fst snd] in *.
  destruct (is_empty (incoming c2)) eqn:E; [discriminate|].
  inversion H; subst. split.
  - apply set_auto_leave_valid; [assumption|]. rewrite Hout. cbn [set_outgoing outgoing].
    apply is_empty_false_notnil. assumption.
  - cbn [set_auto_leave incoming]. apply is_empty_false_notnil. assumption.
Qed.

Lemma spec_leave_valid : forall c p c' p',
  ValidB c p -> spec_leave (c, p) = ROk (c', p') -> ValidB c' p' /\ incoming c' = incoming c.
Proof.
  intros c p c' p' V H. unfold spec_leave in H.
  destruct (joint c); [|discriminate]. cbn [negb] in H. inversion H; subst.
  split; [apply leave_valid; assumption|reflexivity].
Qed.

(* ------------------------------------------------------------------ *)
(* changer_preserves                                                   *)
(* ------------------------------------------------------------------ *)

Theorem changer_preserves_simple : forall c p ccs c' chs,
  ValidB c p -> simple c p ccs = ROk (c', chs) -> Valid c' (apply_conf p chs).
Proof.
  intros c p ccs c' chs V H. pose proof (do_simple_spec c p ccs V) as E.
  unfold do_simple, commit in E. cbn [fst snd] in E. rewrite H in E.
  eapply spec_simple_valid; [exact V|symmetry; exact E].
Qed.

Theorem changer_preserves_enter : forall al c p ccs c' chs,
  ValidB c p -> enter_joint al c p ccs = ROk (c', chs) -> Valid c' (apply_conf p chs).
Proof.
  intros al c p ccs c' chs V H. pose proof (do_enter_joint_spec al c p ccs V) as E.
  unfold do_enter_joint, commit in E. cbn [fst snd] in E. rewrite H in E.
  eapply spec_enter_valid; [exact V|symmetry; exact E].
Qed.

(* leave_joint keeps the incoming voters, so a Valid (non-empty) tracker stays Valid *)
Theorem changer_preserves_leave : forall c p c' chs,
  Valid c p -> leave_joint c p = ROk (c', chs) -> Valid c' (apply_conf p chs).
Proof.
  intros c p c' chs [V Hne] H. pose proof (do_leave_joint_spec c p V) as E.
  unfold do_leave_joint, commit in E. cbn [fst snd] in E. rewrite H in E.
  destruct (spec_leave_valid c p c' (apply_conf p chs) V (eq_sym E)) as [V' Hi].
  split; [assumption|]. rewrite Hi. assumption.
Qed.

(* errors that a valid tracker can get *)
Theorem simple_errors : forall c p ccs e,
  ValidB c p -> simple c p ccs = RErr e ->
  (e = e_simple_in_joint /\ joint c = true) \/ e = e_removed_all \/ e = e_more_than_one.
Proof.
  intros c p ccs e V H. pose proof (do_simple_spec c p ccs V) as E.
  unfold do_simple, commit in E. cbn [fst snd] in E. rewrite H in E.
  unfold spec_simple in E. destruct (joint c); [inversion E; auto|].
  destruct (is_empty _); [inversion E; auto|].
  destruct (1 <? _)%nat; [inversion E; auto|].
  destruct (spec_loop (c, p) ccs); discriminate.
Qed.

Theorem enter_joint_errors : forall al c p ccs e,
  ValidB c p -> enter_joint al c p ccs = RErr e ->
  (e = e_already_joint /\ joint c = true) \/
  (e = e_zero_voter_joint /\ incoming c = []) \/ e = e_removed_all.
Proof.
  intros al c p ccs e V H. pose proof (do_enter_joint_spec al c p ccs V) as E.
  unfold do_enter_joint, commit in E. cbn [fst snd] in E. rewrite H in E.
  unfold spec_enter in E. destruct (joint c); [inversion E; auto|].
  destruct (is_empty (incoming c)) eqn:Ei; [inversion E; right; left; split; [reflexivity|apply is_empty_nil; assumption]|].
  match type of E with context [is_empty ?s] => destruct (is_empty s) end;
    [inversion E; auto|discriminate].
Qed.

Theorem leave_joint_errors : forall c p e,
  ValidB c p -> leave_joint c p = RErr e -> e = e_leave_nonjoint /\ joint c = false.
Proof.
  intros c p e V H. pose proof (do_leave_joint_spec c p V) as E.
  unfold do_leave_joint, commit in E. cbn [fst snd] in E. rewrite H in E.
  unfold spec_leave in E. destruct (joint c); [discriminate|]. inversion E; auto.
Qed.

(* ------------------------------------------------------------------ *)
(* simple_delta, joint_shape                                           *)
(* ------------------------------------------------------------------ *)

(* no validity hypothesis: the check is in the code *)
Theorem simple_delta : forall c p ccs c' chs,
  simple c p ccs = ROk (c', chs) ->
  (symdiff_count (incoming c') (incoming c) <= 1)%nat /\ outgoing c = [] /\ incoming c' <> [].
Proof.
  intros c p ccs c' chs H. unfold simple in H.
  destruct (joint c) eqn:J; [discriminate|].
  destruct (check_and_copy c p); [|discriminate]. cbn [rbind] in H.
  unfold apply_changes in H.
  match type of H with context [apply_loop ?a ?b ?d] => destruct (apply_loop a b d) as [c1 chs1] end.
  cbn [fst] in H.
  destruct (is_empty (incoming c1)) eqn:E; [discriminate|]. cbn [rbind] in H.
  destruct (1 <? symdiff_count (incoming c1) (incoming c))%nat eqn:S; [discriminate|].
  destruct (check_invariants c1 p chs1); [|discriminate]. cbn [rbind] in H.
  inversion H; subst. split; [|split].
  - apply Nat.ltb_ge in S. exact S.
  - apply joint_false_nil. assumption.
  - apply is_empty_false_notnil. assumption.
Qed.

Theorem joint_shape_enter : forall al c p ccs c' chs,
  ValidB c p -> enter_joint al c p ccs = ROk (c', chs) ->
  outgoing c = [] /\ incoming c <> [] /\
  outgoing c' = incoming c /\ auto_leave c' = al /\ incoming c' <> [].
Proof.
  intros al c p ccs c' chs V H. pose proof (do_enter_joint_spec al c p ccs V) as E.
  unfold do_enter_joint, commit in E. cbn [fst snd] in E. rewrite H in E.
  unfold spec_enter in E.
  destruct (joint c) eqn:J; [discriminate|].
  destruct (is_empty (incoming c)) eqn:Ei; [discriminate|].
  pose proof (spec_loop_outgoing ccs (set_outgoing c (incoming c)) p) as Hout.
  destruct (spec_loop (set_outgoing c (incoming c), p) ccs) as [c2 p2]. cbn [fst snd] in *.
  destruct (is_empty (incoming c2)) eqn:E2; [discriminate|].
  inversion E; subst. cbn [set_auto_leave incoming outgoing auto_leave].
  repeat split.
  - apply joint_false_nil. assumption.
  - apply is_empty_false_notnil. assumption.
  - exact Hout.
  - apply is_empty_false_notnil. assumption.
Qed.

Theorem joint_shape_leave : forall c p c' chs,
  ValidB c p -> leave_joint c p = ROk (c', chs) ->
  outgoing c <> [] /\
  incoming c' = incoming c /\ outgoing c' = [] /\
  learners c' = union (learners c) (learners_next c) /\
  learners_next c' = [] /\ auto_leave c' = false /\
  (forall x, mem x (apply_conf p chs) = mem x (incoming c) || mem x (learners c')).
Proof.
  intros c p c' chs V H. pose proof (do_leave_joint_spec c p V) as E.
  unfold do_leave_joint, commit in E. cbn [fst snd] in E. rewrite H in E.
  unfold spec_leave in E. destruct (joint c) eqn:J; [|discriminate]. cbn [negb] in E.
  inversion E as [[Hc Hp]]. rewrite Hp. cbn [incoming outgoing learners learners_next auto_leave].
  repeat split.
  - apply joint_true_notnil. assumption.
  - intros x. inst V x. mem_norm. bb.
Qed.

(* ------------------------------------------------------------------ *)
(* id 0 is skipped; removing an unknown id is a no-op                  *)
(* ------------------------------------------------------------------ *)

Definition nonzero (cc : ccsingle) : bool := negb (snd cc =? 0).

Lemma apply_one_zero : forall base st ty, apply_one base st (ty, 0) = st.
Proof. intros base [c chs] ty. reflexivity. Qed.

Lemma apply_loop_skip_zero : forall base ccs st,
  apply_loop base st ccs = apply_loop base st (filter nonzero ccs).
Proof.
  intros base. induction ccs as [|[ty id] ccs IH]; intros st; cbn [filter apply_loop fold_left].
  - reflexivity.
  - unfold nonzero at 1. cbn [snd]. destruct (N.eqb_spec id 0) as [->|Hid]; cbn [negb].
    + rewrite apply_one_zero. apply IH.
    + cbn [apply_loop fold_left]. apply IH.
Qed.

Theorem zero_ids_skipped_simple : forall c p ccs,
  simple c p ccs = simple c p (filter nonzero ccs).
Proof.
  intros. unfold simple, apply_changes. rewrite <- apply_loop_skip_zero. reflexivity.
Qed.

Theorem zero_ids_skipped_enter : forall al c p ccs,
  enter_joint al c p ccs = enter_joint al c p (filter nonzero ccs).
Proof.
  intros. unfold enter_joint, apply_changes. rewrite <- apply_loop_skip_zero. reflexivity.
Qed.

Lemma remove_unknown_one : forall base c chs id,
  contains base chs id = false -> apply_one base (c, chs) (RemoveNode, id) = (c, chs).
Proof.
  intros base c chs id H. cbn [apply_one]. destruct (id =? 0); [reflexivity|].
  unfold remove_node. rewrite H. reflexivity.
Qed.

Lemma diff_self : forall s, diff s s = [].
Proof.
  intros s. unfold diff.
  assert (H : forall l, (forall x, In x l -> mem x s = true) ->
                        filter (fun x => negb (mem x s)) l = []).
  { induction l as [|z l IH]; intros Hl; cbn [filter]; [reflexivity|].
    rewrite (Hl z (or_introl eq_refl)). cbn [negb]. apply IH. intros x Hx. apply Hl. right. exact Hx. }
  apply H. intros x Hx. apply mem_In. exact Hx.
Qed.

Theorem remove_unknown_noop : forall c p id,
  Valid c p -> joint c = false -> mem id p = false ->
  simple c p [(RemoveNode, id)] = ROk (c, []).
Proof.
  intros c p id [V Hne] J Hp. unfold simple. rewrite J.
  unfold check_and_copy. rewrite (check_invariants_ok c p p [] V (contains_nil p)). cbn [rbind].
  unfold apply_changes. cbn [apply_loop fold_left].
  rewrite remove_unknown_one by (rewrite contains_nil; exact Hp). cbn [fst].
  destruct (is_empty (incoming c)) eqn:E; [apply is_empty_nil in E; contradiction|]. cbn [rbind].
  unfold symdiff_count. rewrite diff_self. cbn [length Nat.add Nat.ltb Nat.leb].
  rewrite (check_invariants_ok c p p [] V (contains_nil p)). reflexivity.
Qed.

(* ------------------------------------------------------------------ *)
(* What |a Δ b| <= 1 means for sets                                    *)
(* ------------------------------------------------------------------ *)

Lemma diff_nil_subset : forall a b, diff a b = [] -> forall y, mem y a = true -> mem y b = true.
Proof.
  intros a b H y Hy. assert (M : mem y (diff a b) = false) by (rewrite H; reflexivity).
  unfold diff in M. rewrite mem_filter, Hy in M. cbn [andb] in M.
  apply negb_false_iff in M. exact M.
Qed.

Lemma diff_single : forall a b x, diff a b = [x] ->
  forall y, mem y a && negb (mem y b) = (y =? x).
Proof.
  intros a b x H y. assert (M : mem y (diff a b) = (y =? x)).
  { rewrite H. cbn [mem]. apply orb_false_r. }
  unfold diff in M. rewrite mem_filter in M. exact M.
Qed.

(* at most one member differs: equal, or one id added, or one id removed *)
Theorem symdiff_le1_cases : forall a b,
  sorted a = true -> sorted b = true -> (symdiff_count a b <= 1)%nat ->
  a = b \/
  (exists x, mem x b = false /\ a = insert x b) \/
  (exists x, mem x a = false /\ b = insert x a).
Proof.
  intros a b Sa Sb H. unfold symdiff_count in H.
  destruct (diff a b) as [|x [|x' l]] eqn:Da; destruct (diff b a) as [|y [|y' l']] eqn:Db;
    cbn [length] in H; try lia.
  - left. apply sorted_ext; auto. intros z.
    pose proof (diff_nil_subset _ _ Da z). pose proof (diff_nil_subset _ _ Db z).
    destruct (mem z a), (mem z b); auto; try (symmetry; auto).
  - right. right. exists y.
    pose proof (diff_single _ _ _ Db) as Hs. split.
    + pose proof (Hs y) as Hy. rewrite N.eqb_refl in Hy. apply andb_true_iff in Hy.
      destruct Hy as [_ Hy]. apply negb_true_iff in Hy. exact Hy.
    + apply sorted_ext; auto with srt. intros z. rewrite mem_insert.
      pose proof (Hs z) as Hz. pose proof (diff_nil_subset _ _ Da z) as Hsub.
      destruct (mem z a), (mem z b), (z =? y); cbn in *; auto; try discriminate;
        symmetry; auto.
  - right. left. exists x.
    pose proof (diff_single _ _ _ Da) as Hs. split.
    + pose proof (Hs x) as Hx. rewrite N.eqb_refl in Hx. apply andb_true_iff in Hx.
      destruct Hx as [_ Hx]. apply negb_true_iff in Hx. exact Hx.
    + apply sorted_ext; auto with srt. intros z. rewrite mem_insert.
      pose proof (Hs z) as Hz. pose proof (diff_nil_subset _ _ Db z) as Hsub.
      destruct (mem z a), (mem z b), (z =? x); cbn in *; auto; try discriminate;
        symmetry; auto.
Qed.

(* a successful simple change adds one voter, removes one voter, or keeps the voters *)
Theorem simple_delta_cases : forall c p ccs c' chs,
  ValidB c p -> simple c p ccs = ROk (c', chs) ->
  incoming c' = incoming c \/
  (exists x, mem x (incoming c) = false /\ incoming c' = insert x (incoming c)) \/
  (exists x, mem x (incoming c') = false /\ incoming c = insert x (incoming c')).
Proof.
  intros c p ccs c' chs V H.
  destruct (simple_delta c p ccs c' chs H) as [Hd _].
  destruct (changer_preserves_simple c p ccs c' chs V H) as [V' _].
  apply symdiff_le1_cases; eauto with srt.
Qed.
