(* Model of /repo/src/raw_node.rs (RawNode<MemStorage>, Ready, LightReady). *)
From RV Require Import Base.Prelude Base.IdSet M.Util M.Proto M.MemStorage M.Inflights
  M.Progress M.RaftLog M.Quorum M.ConfChange M.Msg M.Raft.
From RecordUpdate Require Import RecordSet.
Import RecordSetNotations.

Local Open Scope N_scope.

Definition site_rn_commit_since : site := 2101.     (* assert!(self.commit_since_index < e.get_index()) *)
Definition site_rn_record_entry : site := 2102.     (* assert_eq!(record.last_entry, None) *)
Definition site_rn_record_snap : site := 2103.      (* assert_eq!(record.snapshot, None) *)
Definition site_rn_snap_since : site := 2104.       (* assert!(self.commit_since_index <= snapshot index) *)
Definition site_rn_snap_entries : site := 2105.     (* "has snapshot but also has committed entries since" *)
Definition site_rn_records_back : site := 2106.     (* self.records.back().unwrap() *)
Definition site_rn_number : site := 2107.           (* assert!(rd_record.number == rd.number) *)
Definition site_rn_new_msg : site := 2108.          (* "not leader but has new msg after advance" *)
Definition site_rn_commit_eq : site := 2109.        (* assert!(hard_state.commit == self.prev_hs.commit) *)
Definition site_rn_hs_eq : site := 2110.            (* assert_eq!(hard_state, self.prev_hs) *)
Definition site_rn_id_zero : site := 2111.          (* assert_ne!(config.id, 0) *)

Record soft_state := mkSS { ss_leader_id : N; ss_role : role }.

Definition ss_eqb (a b : soft_state) : bool :=
  (ss_leader_id a =? ss_leader_id b) && role_eqb (ss_role a) (ss_role b).

Record ready_record := mkRR {
  rr_number : N;
  rr_last_entry : option (N * N);
  rr_snapshot : option (N * N);
  rr_hs_changed : bool            (* the Ready's hard state changes term or vote *)
}.

Record light_ready := mkLR {
  lr_commit_index : option N;
  lr_committed_entries : list entry;
  lr_messages : list msg
}.

Record ready := mkRd {
  rd_number : N;
  rd_ss : option soft_state;
  rd_hs : option hard_state;
  rd_read_states : list read_state;
  rd_entries : list entry;
  rd_snapshot : snapshot;           (* default when there is none *)
  rd_is_persisted_msg : bool;
  rd_light : light_ready;
  rd_must_sync : bool
}.

Record rawnode := mkRN {
  rn_raft : raft;
  rn_prev_ss : soft_state;
  rn_prev_hs : hard_state;
  rn_max_number : N;
  rn_records : list ready_record;    (* VecDeque, front first *)
  rn_commit_since_index : N
}.

#[export] Instance eta_rawnode : Settable _ :=
  settable! mkRN <rn_raft; rn_prev_ss; rn_prev_hs; rn_max_number; rn_records; rn_commit_since_index>.

Definition soft_state_of (r : raft) : soft_state := mkSS (r_leader_id r) (r_state r).

(* is_local_msg / is_response_msg *)
Definition is_local_msg (t : N) : bool :=
  (t =? MsgHup) || (t =? MsgBeat) || (t =? MsgUnreachable) || (t =? MsgSnapStatus) || (t =? MsgCheckQuorum).

Definition is_response_msg (t : N) : bool :=
  (t =? MsgAppendResponse) || (t =? MsgRequestVoteResponse) || (t =? MsgHeartbeatResponse)
  || (t =? MsgUnreachable) || (t =? MsgRequestPreVoteResponse).

Definition lift (n : rawnode) (x : Res raft) : Res rawnode :=
  r <- x ;; Ok (n <| rn_raft := r |>).

Definition lift2 (n : rawnode) (x : Res (raft * N)) : Res (rawnode * N) :=
  y <- x ;; Ok (n <| rn_raft := fst y |>, snd y).

(* RawNode::step *)
Definition rn_step (n : rawnode) (m : msg) : Res (rawnode * N) :=
  if is_local_msg (m_type m) then Ok (n, E_STEP_LOCAL_MSG) else
  if match get_pr (rn_raft n) (m_from m) with Some _ => true | None => false end
     || negb (is_response_msg (m_type m))
  then lift2 n (step (rn_raft n) m)
  else Ok (n, E_STEP_PEER_NOT_FOUND).

Definition rn_tick (n : rawnode) : Res (rawnode * bool) :=
  x <- tick (rn_raft n) ;; Ok (n <| rn_raft := fst x |>, snd x).

Definition rn_campaign (n : rawnode) : Res (rawnode * N) :=
  lift2 n (step (rn_raft n) (msg_default <| m_type := MsgHup |>)).

Definition rn_propose (n : rawnode) (context data : list N) : Res (rawnode * N) :=
  lift2 n (step (rn_raft n)
             (msg_default <| m_type := MsgPropose |> <| m_from := r_id (rn_raft n) |>
                <| m_entries := [mkEntry EntryNormal 0 0 data context] |> <| m_ccinfo := [0] |>)).

(* propose_conf_change: [ty] = 1 (V1) or 2 (V2); [data] = the encoded change;
   [ccinfo] = what the decoder says about [data] (see Msg.m_ccinfo) *)
Definition rn_propose_conf_change (n : rawnode) (context data : list N) (ty ccinfo : N)
  : Res (rawnode * N) :=
  lift2 n (step (rn_raft n)
             (msg_default <| m_type := MsgPropose |>
                <| m_entries := [mkEntry ty 0 0 data context] |> <| m_ccinfo := [ccinfo] |>)).

Definition rn_apply_conf_change (n : rawnode) (cc : ccv2) : Res (rawnode * option conf_state) :=
  x <- raft_apply_conf_change (rn_raft n) cc ;; Ok (n <| rn_raft := fst x |>, snd x).

Definition rn_ping (n : rawnode) : Res rawnode := lift n (ping (rn_raft n)).

(* RawNode::gen_light_ready *)
Definition gen_light_ready (n : rawnode) : Res (rawnode * light_ready) :=
  let raft := rn_raft n in
  oe <- next_entries_since (r_log raft) (rn_commit_since_index n)
          (Some (r_max_committed_size_per_ready raft)) ;;
  let ce := match oe with Some v => v | None => [] end in
  let raft := reduce_uncommitted_size raft ce in
  csi <- (match ce with
          | [] => Ok (rn_commit_since_index n)
          | _ => let e := List.last ce entry_default in
                 if rn_commit_since_index n <? e_index e then Ok (e_index e)
                 else Panic site_rn_commit_since
          end) ;;
  let msgs := r_msgs raft in
  Ok (n <| rn_raft := raft <| r_msgs := [] |> |> <| rn_commit_since_index := csi |>,
      mkLR None ce msgs).

Fixpoint check_records_empty (l : list ready_record) : Res unit :=
  match l with
  | [] => Ok tt
  | rr :: t =>
      match rr_last_entry rr with
      | Some _ => Panic site_rn_record_entry
      | None => match rr_snapshot rr with
                | Some _ => Panic site_rn_record_snap
                | None => check_records_empty t
                end
      end
  end.

(* RawNode::ready *)
Definition rn_ready (n : rawnode) : Res (rawnode * ready) :=
  let raft := rn_raft n in
  let num := rn_max_number n + 1 in
  recs <- (if negb (role_eqb (ss_role (rn_prev_ss n)) Leader) && is_leader raft then
             _ <- check_records_empty (rn_records n) ;; Ok []
           else Ok (rn_records n)) ;;
  let ss := soft_state_of raft in
  let rd_ss_ := if negb (ss_eqb ss (rn_prev_ss n)) then Some ss else None in
  let hs := Raft.hard_state_of raft in
  let hs_changed := negb (hs_eqb hs (rn_prev_hs n)) in
  let ms1 := hs_changed && (negb (hs_vote hs =? hs_vote (rn_prev_hs n))
                            || negb (hs_term hs =? hs_term (rn_prev_hs n))) in
  let rd_hs_ := if hs_changed then Some hs else None in
  let rstates := r_read_states raft in
  let raft := raft <| r_read_states := [] |> in
  x <- (match u_snapshot (unst (r_log raft)) with
        | Some s =>
            if s_index s <? rn_commit_since_index n then Panic site_rn_snap_since else
            b <- has_next_entries_since (r_log raft) (s_index s) ;;
            if b then Panic site_rn_snap_entries else
            Ok (s, s_index s, Some (s_index s, s_term s), true)
        | None => Ok (snap_default, rn_commit_since_index n, None, false)
        end) ;;
  let '(snap, csi, rec_snap, ms2) := x in
  let ents := u_entries (unst (r_log raft)) in
  let rec_last := match ents with
                  | [] => None
                  | _ => let e := List.last ents entry_default in Some (e_index e, e_term e)
                  end in
  let ms3 := match ents with [] => false | _ => true end in
  (* a leader sends before persisting, except while a Ready that changes term or
     vote (this one or an outstanding one) is not yet persisted *)
  let persisted_msg := negb (is_leader raft) || ms1 || existsb rr_hs_changed recs in
  let n1 := n <| rn_raft := raft |> <| rn_max_number := num |> <| rn_commit_since_index := csi |> in
  y <- gen_light_ready n1 ;;
  let '(n2, light) := y in
  Ok (n2 <| rn_records := recs ++ [mkRR num rec_last rec_snap ms1] |>,
      mkRd num rd_ss_ rd_hs_ rstates ents snap persisted_msg light (ms1 || ms2 || ms3)).

(* RawNode::has_ready *)
Definition rn_has_ready (n : rawnode) : Res bool :=
  let raft := rn_raft n in
  if match r_msgs raft with [] => false | _ => true end then Ok true else
  if negb (ss_eqb (soft_state_of raft) (rn_prev_ss n)) then Ok true else
  if negb (hs_eqb (Raft.hard_state_of raft) (rn_prev_hs n)) then Ok true else
  if match r_read_states raft with [] => false | _ => true end then Ok true else
  if match u_entries (unst (r_log raft)) with [] => false | _ => true end then Ok true else
  if match u_snapshot (unst (r_log raft)) with Some s => negb (s_index s =? 0) | None => false end
  then Ok true else
  has_next_entries_since (r_log raft) (rn_commit_since_index n).

(* RawNode::commit_ready: uses rd.ss, rd.hs, rd.number *)
Definition commit_ready (n : rawnode) (rd : ready) : Res rawnode :=
  let n := match rd_ss rd with Some ss => n <| rn_prev_ss := ss |> | None => n end in
  let n := match rd_hs rd with Some hs => n <| rn_prev_hs := hs |> | None => n end in
  match rn_records n with
  | [] => Panic site_rn_records_back
  | _ =>
      let rr := List.last (rn_records n) (mkRR 0 None None false) in
      if negb (rr_number rr =? rd_number rd) then Panic site_rn_number else
      l1 <- (match rr_snapshot rr with
             | Some (i, _) => stable_snap (r_log (rn_raft n)) i
             | None => Ok (r_log (rn_raft n))
             end) ;;
      l2 <- (match rr_last_entry rr with
             | Some (i, t) => stable_entries l1 i t
             | None => Ok l1
             end) ;;
      Ok (n <| rn_raft := (rn_raft n) <| r_log := l2 |> |>)
  end.

(* the record-folding loop of on_persist_ready *)
Fixpoint fold_records (recs : list ready_record) (number index t snap_index : N)
  : list ready_record * N * N * N :=
  match recs with
  | [] => ([], index, t, snap_index)
  | rr :: rest =>
      if number <? rr_number rr then (recs, index, t, snap_index) else
      let '(index, t, snap_index) :=
        match rr_snapshot rr with
        | Some (i, _) => (0, 0, i)
        | None => (index, t, snap_index)
        end in
      let '(index, t) :=
        match rr_last_entry rr with
        | Some (i, t2) => (i, t2)
        | None => (index, t)
        end in
      fold_records rest number index t snap_index
  end.

(* RawNode::on_persist_ready *)
Definition rn_on_persist_ready (n : rawnode) (number : N) : Res rawnode :=
  let '(recs, index, t, snap_index) := fold_records (rn_records n) number 0 0 0 in
  let n := n <| rn_records := recs |> in
  r1 <- (if negb (snap_index =? 0) then on_persist_snap (rn_raft n) snap_index else Ok (rn_raft n)) ;;
  r2 <- (if negb (index =? 0) then on_persist_entries r1 index t else Ok r1) ;;
  Ok (n <| rn_raft := r2 |>).

(* RawNode::advance_append *)
Definition rn_advance_append (n : rawnode) (rd : ready) : Res (rawnode * light_ready) :=
  n1 <- commit_ready n rd ;;
  n2 <- rn_on_persist_ready n1 (rn_max_number n1) ;;
  x <- gen_light_ready n2 ;;
  let '(n3, light) := x in
  if negb (is_leader (rn_raft n3)) && match lr_messages light with [] => false | _ => true end
  then Panic site_rn_new_msg else
  let hs := Raft.hard_state_of (rn_raft n3) in
  y <- (if hs_commit (rn_prev_hs n3) <? hs_commit hs then
          Ok (n3 <| rn_prev_hs := mkHS (hs_term (rn_prev_hs n3)) (hs_vote (rn_prev_hs n3)) (hs_commit hs) |>,
              Some (hs_commit hs))
        else if negb (hs_commit hs =? hs_commit (rn_prev_hs n3)) then Panic site_rn_commit_eq
        else Ok (n3, None)) ;;
  let '(n4, ci) := y in
  if negb (hs_eqb hs (rn_prev_hs n4)) then Panic site_rn_hs_eq else
  Ok (n4, mkLR ci (lr_committed_entries light) (lr_messages light)).

Definition rn_advance_apply_to (n : rawnode) (app : N) : Res rawnode :=
  lift n (commit_apply (rn_raft n) app).

Definition rn_advance_apply (n : rawnode) : Res rawnode :=
  rn_advance_apply_to n (rn_commit_since_index n).

(* RawNode::advance *)
Definition rn_advance (n : rawnode) (rd : ready) : Res (rawnode * light_ready) :=
  let app := rn_commit_since_index n in
  x <- rn_advance_append n rd ;;
  n' <- rn_advance_apply_to (fst x) app ;;
  Ok (n', snd x).

Definition rn_advance_append_async (n : rawnode) (rd : ready) : Res rawnode := commit_ready n rd.

Definition rn_report_unreachable (n : rawnode) (id : N) : Res rawnode :=
  x <- step (rn_raft n) (msg_default <| m_type := MsgUnreachable |> <| m_from := id |>) ;;
  Ok (n <| rn_raft := fst x |>).

Definition rn_report_snapshot (n : rawnode) (id : N) (failure : bool) : Res rawnode :=
  x <- step (rn_raft n) (msg_default <| m_type := MsgSnapStatus |> <| m_from := id |>
                           <| m_reject := failure |>) ;;
  Ok (n <| rn_raft := fst x |>).

Definition rn_request_snapshot (n : rawnode) : Res (rawnode * N) :=
  lift2 n (request_snapshot (rn_raft n)).

Definition rn_transfer_leader (n : rawnode) (transferee : N) : Res rawnode :=
  x <- step (rn_raft n) (msg_default <| m_type := MsgTransferLeader |> <| m_from := transferee |>) ;;
  Ok (n <| rn_raft := fst x |>).

Definition rn_read_index (n : rawnode) (rctx : list N) : Res rawnode :=
  x <- step (rn_raft n) (msg_default <| m_type := MsgReadIndex |>
                           <| m_entries := [mkEntry EntryNormal 0 0 rctx []] |>) ;;
  Ok (n <| rn_raft := fst x |>).

(* RawNode::new *)
Definition rn_new (c : config) (st : MemStorage.mem) (snap_app : option N) (draws : list N)
  : Res (N + rawnode) :=
  if c_id c =? 0 then Panic site_rn_id_zero else
  x <- raft_new c st snap_app draws ;;
  match x with
  | inl e => Ok (inl e)
  | inr r => Ok (inr (mkRN r (soft_state_of r) (Raft.hard_state_of r) 0 [] (c_applied c)))
  end.
