(* Model of the quorum arithmetic of raft-rs:
     /repo/src/util.rs            majority
     /repo/src/quorum/majority.rs Configuration::{committed_index, vote_result}
     /repo/src/quorum/joint.rs    Configuration::{committed_index, vote_result, contains}
     /repo/src/tracker.rs         ProgressTracker::{maximal_committed_index, record_vote,
                                  tally_votes, vote_result, has_quorum}

   A majority configuration is a [HashSet<u64>]; the model takes the voters as a
   LIST in the implementation's actual iteration order (the harness passes
   [raw_slice()]), because [committed_index] fills an array in iteration order and
   then sorts it with a STABLE sort keyed on the index only (so the group ids of
   equal indexes keep their iteration order, and the group-commit loop reads them).

   An [AckedIndexer] is a function [N -> option (index * group_id)]; [Index::default()]
   is (0,0).

   Panic sites: [matched[quorum - 1]] and [matched.last().unwrap()] are only reached
   for a non-empty voter set, where they are in bounds (majority n - 1 = n/2 < n);
   QuorumProofs.majority_pos_lt proves it, so the model reads them with a default
   instead of a [Res]. *)
From RV Require Import Base.Prelude.

Local Open Scope N_scope.

(* util.rs: pub fn majority(total: usize) -> usize { (total / 2) + 1 } *)
Definition majority (n : nat) : nat := (n / 2 + 1)%nat.

(* quorum.rs: struct Index { index, group_id }, as a pair *)
Definition Index := (N * N)%type.
Definition index_default : Index := (0, 0).
Definition acked_t := N -> option Index.

(* l.acked_index(v).unwrap_or_default() *)
Definition acked_or_default (a : acked_t) (v : N) : Index :=
  match a v with Some i => i | None => index_default end.

(* matched.sort_by(|a, b| b.index.cmp(&a.index)) : stable, descending by index.
   [insert_desc x l] puts x in front of the first element whose index is <= x's
   (x comes from the left of everything already in l, so among equals it stays first). *)
Fixpoint insert_desc (x : Index) (l : list Index) : list Index :=
  match l with
  | [] => [x]
  | y :: t => if fst x <? fst y then y :: insert_desc x t else x :: y :: t
  end.

Fixpoint sort_desc (l : list Index) : list Index :=
  match l with
  | [] => []
  | x :: t => insert_desc x (sort_desc t)
  end.

(* The `for m in matched.iter()` loop of the group-commit part.
   qci = quorum_commit_index, lst = matched.last().unwrap().index. *)
Fixpoint gc_loop (qci lst : N) (checked : N) (single : bool) (l : list Index)
  : N * bool :=
  match l with
  | [] => if single then (qci, false) else (lst, false)
  | m :: t =>
      if snd m =? 0 then gc_loop qci lst checked false t
      else if checked =? 0 then gc_loop qci lst (snd m) single t
      else if checked =? snd m then gc_loop qci lst checked single t
      else (N.min (fst m) qci, true)
  end.

(* majority.rs Configuration::committed_index *)
Definition committed_index (use_gc : bool) (voters : list N) (a : acked_t)
  : N * bool :=
  match voters with
  | [] => (u64_max, true)
  | _ =>
      let matched := sort_desc (map (acked_or_default a) voters) in
      let quorum := majority (length matched) in
      let quorum_index := nth (quorum - 1) matched index_default in
      if negb use_gc then (fst quorum_index, false)
      else
        gc_loop (fst quorum_index) (fst (last matched index_default))
                (snd quorum_index) true matched
  end.

(* quorum.rs VoteResult *)
Inductive vote_res := VotePending | VoteLost | VoteWon.

Definition vote_t := N -> option bool.

(* the counting loop of majority.rs vote_result: (yes, missing) *)
Fixpoint count_votes (voters : list N) (check : vote_t) : nat * nat :=
  match voters with
  | [] => (0, 0)%nat
  | v :: t =>
      let '(yes, missing) := count_votes t check in
      match check v with
      | Some true => (S yes, missing)
      | None => (yes, S missing)
      | Some false => (yes, missing)
      end
  end.

(* majority.rs Configuration::vote_result *)
Definition vote_result (voters : list N) (check : vote_t) : vote_res :=
  match voters with
  | [] => VoteWon
  | _ =>
      let '(yes, missing) := count_votes voters check in
      let q := majority (length voters) in
      if (q <=? yes)%nat then VoteWon
      else if (q <=? yes + missing)%nat then VotePending
      else VoteLost
  end.

(* joint.rs Configuration::committed_index *)
Definition joint_committed_index (use_gc : bool) (inc out : list N) (a : acked_t)
  : N * bool :=
  let '(i_idx, i_gc) := committed_index use_gc inc a in
  let '(o_idx, o_gc) := committed_index use_gc out a in
  (N.min i_idx o_idx, i_gc && o_gc).

(* joint.rs Configuration::vote_result *)
Definition joint_vote_result (inc out : list N) (check : vote_t) : vote_res :=
  match vote_result inc check, vote_result out check with
  | VoteWon, VoteWon => VoteWon
  | VoteLost, _ => VoteLost
  | _, VoteLost => VoteLost
  | _, _ => VotePending
  end.

(* joint.rs Configuration::contains *)
Definition mem (id : N) (l : list N) : bool := existsb (N.eqb id) l.
Definition joint_contains (inc out : list N) (id : N) : bool :=
  mem id inc || mem id out.

(* ---- tracker.rs ---- *)

(* HashMap<u64, V> as an association list with unique keys, newest first. *)
Fixpoint assoc {V} (m : list (N * V)) (id : N) : option V :=
  match m with
  | [] => None
  | (k, v) :: t => if k =? id then Some v else assoc t id
  end.

(* ProgressMap as AckedIndexer: (id, (matched, commit_group_id)) *)
Definition progress_map := list (N * Index).
Definition acked_of (p : progress_map) : acked_t := assoc p.

(* ProgressTracker::maximal_committed_index *)
Definition maximal_committed_index (group_commit : bool) (inc out : list N)
           (p : progress_map) : N * bool :=
  joint_committed_index group_commit inc out (acked_of p).

(* ProgressTracker::record_vote: self.votes.entry(id).or_insert(vote) *)
Definition votes_map := list (N * bool).
Definition record_vote (m : votes_map) (id : N) (vote : bool) : votes_map :=
  match assoc m id with
  | Some _ => m
  | None => (id, vote) :: m
  end.

(* ProgressTracker::vote_result *)
Definition tracker_vote_result (inc out : list N) (votes : votes_map) : vote_res :=
  joint_vote_result inc out (assoc votes).

(* the counting loop of tally_votes: (granted, rejected) over the votes map,
   skipping ids that are in neither half *)
Fixpoint tally_count (inc out : list N) (votes : votes_map) : nat * nat :=
  match votes with
  | [] => (0, 0)%nat
  | (id, vote) :: t =>
      let '(g, r) := tally_count inc out t in
      if negb (joint_contains inc out id) then (g, r)
      else if vote then (S g, r) else (g, S r)
  end.

(* ProgressTracker::tally_votes *)
Definition tally_votes (inc out : list N) (votes : votes_map)
  : nat * nat * vote_res :=
  let '(g, r) := tally_count inc out votes in
  (g, r, tracker_vote_result inc out votes).

(* ProgressTracker::has_quorum: potential_quorum is a set of ids *)
Definition has_quorum (inc out : list N) (set : list N) : bool :=
  match joint_vote_result inc out
          (fun id => if mem id set then Some true else None) with
  | VoteWon => true
  | _ => false
  end.
