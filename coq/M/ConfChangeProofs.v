(* C12: Configuration-change algebra keeps invariants and quorum overlap.
   Main proof file; the development is split over

     M/ConfChangeSpec.v     ValidB/Valid, set-algebra spec, model = spec on the apply loop,
                            check_invariants accepts every valid tracker
     M/ConfChangeOps.v      simple/enter_joint/leave_joint = their specs (incl. error codes),
                            changer_preserves_*, simple_delta, joint_shape_*, zero/unknown ids
     M/ConfChangeQuorum.v   deciding quorums, overlap_simple / overlap_enter / overlap_leave
     M/ConfChangeRestore.v  restore_roundtrip (any order / duplicates of the vectors)

   and this file adds: validity of every reachable tracker (incl. restore of an
   arbitrary ConfState), the ConfChangeV2 classification table, and the
   combined statements pinned by Props/C12.v.

   How the bootstrap configuration is treated: [ValidB] is every invariant
   except "at least one voter"; it holds of the empty tracker
   (ProgressTracker::new).  [Valid] = [ValidB] + incoming <> [].  Every
   successful simple / enter_joint from a [ValidB] tracker yields a [Valid] one
   (the changer refuses to produce a voterless configuration); leave_joint keeps
   the incoming voters.  So every reachable tracker other than the initial empty
   one is [Valid].

   A rejected change leaves everything untouched: the changer functions are
   pure; [commit] (ProgressTracker::apply_conf) is only reached on [ROk], see
   [rejected_untouched]. *)
From RV Require Import Base.Prelude Base.IdSet Base.IdSetProofs M.ConfChange.
From RV Require Import Run.RunConfChange.
From RV Require Export M.ConfChangeSpec M.ConfChangeOps M.ConfChangeQuorum M.ConfChangeRestore.

Local Open Scope N_scope.

(* ------------------------------------------------------------------ *)
(* changer_preserves, combined                                         *)
(* ------------------------------------------------------------------ *)

Theorem changer_preserves : forall c p,
  ValidB c p ->
  (forall ccs c' chs, simple c p ccs = ROk (c', chs) -> Valid c' (apply_conf p chs)) /\
  (forall al ccs c' chs, enter_joint al c p ccs = ROk (c', chs) -> Valid c' (apply_conf p chs)) /\
  (forall c' chs, leave_joint c p = ROk (c', chs) ->
     ValidB c' (apply_conf p chs) /\ incoming c' = incoming c).
Proof.
  intros c p V. split; [|split].
  - intros. eapply changer_preserves_simple; eassumption.
  - intros. eapply changer_preserves_enter; eassumption.
  - intros c' chs H. pose proof (do_leave_joint_spec c p V) as E.
    unfold do_leave_joint, commit in E. cbn [fst snd] in E. rewrite H in E.
    exact (spec_leave_valid c p c' (apply_conf p chs) V (eq_sym E)).
Qed.

Lemma check_invariants_accepts_valid : forall c p,
  ValidB c p -> check_invariants c p [] = ROk tt.
Proof. intros c p V. exact (check_invariants_ok c p p [] V (contains_nil p)). Qed.

(* the caller applies nothing on an error *)
Lemma rejected_untouched : forall t e,
  commit t (RErr e) = RErr e.
Proof. reflexivity. Qed.

Theorem joint_shape : forall c p,
  ValidB c p ->
  (forall al ccs c' chs, enter_joint al c p ccs = ROk (c', chs) ->
     outgoing c = [] /\ incoming c <> [] /\
     outgoing c' = incoming c /\ auto_leave c' = al /\ incoming c' <> []) /\
  (forall c' chs, leave_joint c p = ROk (c', chs) ->
     outgoing c <> [] /\
     incoming c' = incoming c /\ outgoing c' = [] /\
     learners c' = union (learners c) (learners_next c) /\
     learners_next c' = [] /\ auto_leave c' = false /\
     (forall x, mem x (apply_conf p chs) = mem x (incoming c) || mem x (learners c'))).
Proof.
  intros c p V. split.
  - intros. eapply joint_shape_enter; eassumption.
  - intros. eapply joint_shape_leave; eassumption.
Qed.

(* ------------------------------------------------------------------ *)
(* Every reachable tracker is valid                                    *)
(* ------------------------------------------------------------------ *)

Lemma do_simple_valid : forall c p ccs c' p',
  ValidB c p -> do_simple (c, p) ccs = ROk (c', p') -> Valid c' p'.
Proof.
  intros c p ccs c' p' V H. rewrite (do_simple_spec c p ccs V) in H.
  eapply spec_simple_valid; eassumption.
Qed.

Lemma do_enter_joint_valid : forall al c p ccs c' p',
  ValidB c p -> do_enter_joint al (c, p) ccs = ROk (c', p') -> Valid c' p'.
Proof.
  intros al c p ccs c' p' V H. rewrite (do_enter_joint_spec al c p ccs V) in H.
  eapply spec_enter_valid; eassumption.
Qed.

Lemma do_leave_joint_valid : forall c p c' p',
  ValidB c p -> do_leave_joint (c, p) = ROk (c', p') ->
  ValidB c' p' /\ incoming c' = incoming c.
Proof.
  intros c p c' p' V H. rewrite (do_leave_joint_spec c p V) in H.
  eapply spec_leave_valid; eassumption.
Qed.

(* good t: valid, and non-empty unless it is still the bootstrap tracker *)
Definition good (t : tracker) : Prop :=
  ValidB (fst t) (snd t) /\ (t = empty_tracker \/ incoming (fst t) <> []).

Lemma good_empty : good empty_tracker.
Proof. split; [apply ValidB_empty|left; reflexivity]. Qed.

Lemma Valid_good : forall c p, Valid c p -> good (c, p).
Proof. intros c p [V H]. split; [exact V|right; exact H]. Qed.

Lemma simple_each_good : forall l t t',
  good t -> simple_each t l = ROk t' -> good t'.
Proof.
  induction l as [|cc l IH]; intros t t' G H; cbn [simple_each] in H.
  - inversion H; subst. exact G.
  - destruct t as [c p]. destruct (do_simple (c, p) [cc]) as [[c1 p1]|e] eqn:E; [|discriminate].
    cbn [rbind] in H. eapply IH; [|exact H].
    apply Valid_good. eapply do_simple_valid; [apply G|exact E].
Qed.

(* restore of an ARBITRARY ConfState: if it succeeds the result is valid *)
Theorem restore_valid : forall cs t,
  restore empty_tracker cs = ROk t -> good t.
Proof.
  intros cs t H. unfold restore in H.
  destruct (to_conf_change_single cs) as [outg inc].
  destruct outg as [|cc outg].
  - eapply simple_each_good; [apply good_empty|exact H].
  - destruct (simple_each empty_tracker (cc :: outg)) as [[c1 p1]|e] eqn:E; [|discriminate].
    cbn [rbind] in H. pose proof (simple_each_good _ _ _ good_empty E) as [V1 _].
    destruct t as [c' p']. apply Valid_good.
    eapply do_enter_joint_valid; [exact V1|exact H].
Qed.

Inductive reachable : tracker -> Prop :=
| reach_empty : reachable empty_tracker
| reach_restore : forall cs t, restore empty_tracker cs = ROk t -> reachable t
| reach_simple : forall t ccs t', reachable t -> do_simple t ccs = ROk t' -> reachable t'
| reach_enter : forall t al ccs t', reachable t -> do_enter_joint al t ccs = ROk t' -> reachable t'
| reach_leave : forall t t', reachable t -> do_leave_joint t = ROk t' -> reachable t'
| reach_v2 : forall t cc t', reachable t -> apply_conf_change t cc = ROk t' -> reachable t'.

Theorem reachable_good : forall t, reachable t -> good t.
Proof.
  assert (Hl : forall t t', good t -> do_leave_joint t = ROk t' -> good t').
  { intros [c p] [c' p'] [V G] H. destruct (do_leave_joint_valid c p c' p' V H) as [V' Hi].
    split; [exact V'|]. right. cbn [fst]. rewrite Hi. destruct G as [G|G]; [|exact G].
    (* the empty tracker is not joint: leave_joint fails *)
    inversion G; subst. discriminate H. }
  induction 1 as [|cs t H|t ccs t' R IH H|t al ccs t' R IH H|t t' R IH H|t cc t' R IH H].
  - apply good_empty.
  - eapply restore_valid; eassumption.
  - destruct t as [c p], t' as [c' p']. apply Valid_good. eapply do_simple_valid; [apply IH|exact H].
  - destruct t as [c p], t' as [c' p']. apply Valid_good. eapply do_enter_joint_valid; [apply IH|exact H].
  - eapply Hl; eassumption.
  - unfold apply_conf_change in H. destruct (v2_leave_joint cc).
    + eapply Hl; eassumption.
    + destruct t as [c p], t' as [c' p']. apply Valid_good. destruct (v2_enter_joint cc).
      * eapply do_enter_joint_valid; [apply IH|exact H].
      * eapply do_simple_valid; [apply IH|exact H].
Qed.

(* the round trip for every reachable configuration *)
Theorem restore_roundtrip_reachable : forall c p,
  reachable (c, p) -> incoming c <> [] ->
  restore empty_tracker (to_conf_state c) = ROk (c, p) /\
  raft_new_restore (to_conf_state c) = Ok (ROk (c, p)).
Proof.
  intros c p R Hne. destruct (reachable_good _ R) as [V _]. cbn [fst snd] in V.
  split.
  - apply restore_to_conf_state. split; assumption.
  - apply raft_new_roundtrip; try (split; assumption); try apply same_set_refl; try reflexivity.
Qed.

(* ------------------------------------------------------------------ *)
(* ConfChangeV2 classification                                         *)
(* ------------------------------------------------------------------ *)

Theorem classify : forall tr chs,
  v2_leave_joint (mkV2 tr chs) =
    match tr, chs with Auto, [] => true | _, _ => false end /\
  v2_enter_joint (mkV2 tr chs) =
    match tr with
    | Auto => match chs with [] | [_] => None | _ => Some true end
    | Implicit => Some true
    | Explicit => Some false
    end.
Proof.
  intros tr chs. unfold v2_leave_joint, v2_enter_joint. cbn [v2_transition v2_changes].
  destruct tr; cbn [negb orb andb]; split; try reflexivity;
    destruct chs as [|a [|b chs]]; reflexivity.
Qed.

(* leave and enter are mutually exclusive; a V1 change is always simple *)
Theorem classify_exclusive : forall cc,
  v2_leave_joint cc = true -> v2_enter_joint cc = None.
Proof.
  intros [tr chs] H. destruct (classify tr chs) as [H1 H2]. rewrite H1 in H. rewrite H2.
  destruct tr; try discriminate. destruct chs; [reflexivity|discriminate].
Qed.

Theorem classify_v1 : forall ty id,
  v2_leave_joint (v1_into_v2 ty id) = false /\ v2_enter_joint (v1_into_v2 ty id) = None.
Proof. intros. split; reflexivity. Qed.

(* dispatch table of Raft::apply_conf_change *)
Theorem classify_dispatch : forall t tr chs,
  apply_conf_change t (mkV2 tr chs) =
    match tr with
    | Auto => match chs with
              | [] => do_leave_joint t
              | [_] => do_simple t chs
              | _ => do_enter_joint true t chs
              end
    | Implicit => do_enter_joint true t chs
    | Explicit => do_enter_joint false t chs
    end.
Proof.
  intros t tr chs. unfold apply_conf_change. destruct (classify tr chs) as [H1 H2].
  rewrite H1, H2. cbn [v2_changes].
  destruct tr; try reflexivity. destruct chs as [|a [|b chs]]; reflexivity.
Qed.

(* ------------------------------------------------------------------ *)
(* A non-trivial state meeting the hypotheses (for Props/C12.v)        *)
(* ------------------------------------------------------------------ *)

Definition ex_conf : conf := mkConf [1; 2; 3] [1; 2; 4; 6] [5] [4] true.
Definition ex_prs : idset := [1; 2; 3; 4; 5; 6].

Lemma ex_reachable : reachable (ex_conf, ex_prs).
Proof.
  apply (reach_restore (mkCS [3; 1; 2] [5] [6; 4; 2; 1] [4] true)). vm_compute. reflexivity.
Qed.

Lemma ex_valid : Valid ex_conf ex_prs.
Proof.
  destruct (reachable_good _ ex_reachable) as [V _]. split; [exact V|discriminate].
Qed.

(* ------------------------------------------------------------------ *)
(* The wire codec run inside Coq on two harness cases; the right-hand  *)
(* sides are the answers of the real implementation (vharness).        *)
(* ------------------------------------------------------------------ *)

Example run_sample_ops :
  run_confchange [1; 1; 1; 0; 0; 0; 0; 1; 1; 0; 3; 2; 1; 1; 0; 2; 5; 3; 2; 0; 1; 2; 1]%N
  = [0; 1; 1; 0; 0; 0; 0; 1; 1; 0; 2; 1; 3; 0; 0; 0; 0; 2; 1; 3; 1; 3; 0; 0; 3; 1; 2; 3; 2; 1; 3; 0; 0; 1; 3; 1; 2; 3; 1; 2; 0; 3; 1; 2; 3; 2; 1; 3; 0; 0; 1; 2; 1; 2; 1209]%N.
Proof. vm_compute. reflexivity. Qed.

Example run_sample_joint_restore :
  run_confchange [1; 1; 2; 0; 3; 1; 2; 3; 1; 1; 0; 4]%N
  = [0; 1; 2; 3; 1; 2; 3; 0; 1; 1; 0; 3; 1; 2; 3; 0; 1; 2; 3; 1; 2; 3; 0; 1; 1; 0; 3; 1; 2; 3]%N.
Proof. vm_compute. reflexivity. Qed.
