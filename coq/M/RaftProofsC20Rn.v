(* C20, part 3(e): RawNode bookkeeping.  [commit_ready] (advance_append_async, and the
   first step of advance / advance_append) called with the Ready just produced by
   [rn_ready], with no other call in between, never panics: the record queue is
   non-empty, the number matches, and the recorded snapshot / last entry are exactly
   what [unstable] still holds. *)
From RV Require Import Base.Prelude Base.IdSet M.Util M.Proto M.MemStorage M.Inflights
  M.Progress M.RaftLog M.Quorum M.ConfChange M.Msg M.Raft M.RawNode
  M.RaftProofs M.RaftProofsC20 M.RaftProofsC20Iff.
From RecordUpdate Require Import RecordSet.
Import RecordSetNotations.

Local Open Scope N_scope.

Lemma reduce_uncommitted_size_log r ce : r_log (reduce_uncommitted_size r ce) = r_log r.
Proof.
  unfold reduce_uncommitted_size.
  repeat match goal with |- r_log (if ?c then _ else _) = _ => destruct c end; reflexivity.
Qed.

Lemma gen_light_ready_frame n n' lr :
  gen_light_ready n = Ok (n', lr) ->
  r_log (rn_raft n') = r_log (rn_raft n) /\ rn_records n' = rn_records n /\
  rn_max_number n' = rn_max_number n.
Proof.
  unfold gen_light_ready. intros H. inv_bind H. inv_bind H. injection H as <- _.
  cbn. rewrite reduce_uncommitted_size_log. repeat split.
Qed.

Theorem commit_ready_after_ready n n' rd :
  rn_ready n = Ok (n', rd) -> exists n'', commit_ready n' rd = Ok n''.
Proof.
  unfold rn_ready. intros H. inv_bind H. rename x into recs. clear Hx.
  cbv zeta in H. inv_bind H. destruct x as [[[snap csi] rec_snap] ms2].
  inv_bind H. destruct x as [n2 light]. injection H as <- <-.
  apply gen_light_ready_frame in Hx0. cbn in Hx0. destruct Hx0 as (Hlog & Hrecs & Hnum).
  set (l := r_log (rn_raft n)) in *.
  (* what the snapshot part recorded *)
  assert (Hsnap : match rec_snap with
                  | Some (i, _) => exists s, u_snapshot (unst l) = Some s /\ s_index s = i
                  | None => u_snapshot (unst l) = None
                  end).
  { change (r_log (rn_raft n <| r_read_states := [] |>)) with l in Hx.
    destruct (u_snapshot (unst l)) as [s|] eqn:Es.
    - destruct (s_index s <? rn_commit_since_index n); [discriminate|].
      inv_bind Hx. destruct x; [discriminate|]. injection Hx as _ _ <- _. eauto.
    - injection Hx as _ _ <- _. reflexivity. }
  unfold commit_ready. cbn [rd_ss rd_hs rd_number].
  match goal with |- context [rn_records ?X] =>
    assert (Erec : rn_records X = recs ++ [mkRR (rn_max_number n + 1)
              match u_entries (unst l) with
              | [] => None
              | _ :: _ => Some (e_index (List.last (u_entries (unst l)) entry_default),
                                e_term (List.last (u_entries (unst l)) entry_default))
              end rec_snap
              (negb (hs_eqb (Raft.hard_state_of (rn_raft n <| r_read_states := [] |>)) (rn_prev_hs n))
               && (negb (hs_vote (Raft.hard_state_of (rn_raft n <| r_read_states := [] |>)) =? hs_vote (rn_prev_hs n))
                   || negb (hs_term (Raft.hard_state_of (rn_raft n <| r_read_states := [] |>)) =? hs_term (rn_prev_hs n))))]
            /\ r_log (rn_raft X) = l);
    [|destruct Erec as [Erec Elog]; rewrite Erec, Elog]
  end.
  { split.
    - destruct (if negb (ss_eqb _ _) then _ else _), (if negb (hs_eqb _ _) then _ else _); reflexivity.
    - destruct (if negb (ss_eqb _ _) then _ else _), (if negb (hs_eqb _ _) then _ else _); cbn; exact Hlog. }
  destruct (recs ++ [_]) as [|a b] eqn:Eapp; [destruct recs; discriminate|]. rewrite <- Eapp.
  rewrite List.last_last. cbn [rr_number rr_snapshot rr_last_entry].
  rewrite N.eqb_refl. cbn [negb].
  (* stable_snap *)
  assert (Hs1 : exists l1, (match rec_snap with
                            | Some (i, _) => stable_snap l i
                            | None => Ok l
                            end) = Ok l1 /\ u_snapshot (unst l1) = None /\
                           u_entries (unst l1) = u_entries (unst l)).
  { destruct rec_snap as [[i t]|].
    - destruct Hsnap as (s & Es & Ei). unfold stable_snap, u_stable_snap. rewrite Es, Ei, N.eqb_refl.
      cbn. eexists. split; [reflexivity|]. split; reflexivity.
    - exists l. auto. }
  destruct Hs1 as (l1 & -> & Hn1 & He1). cbn [bind].
  destruct (u_entries (unst l)) as [|e0 et] eqn:Ee.
  - cbn [bind]. eauto.
  - unfold stable_entries, u_stable_entries. rewrite Hn1, He1.
    change (mkEntry 0 0 0 [] []) with entry_default.
    rewrite !N.eqb_refl. cbn. eauto.
Qed.

Corollary advance_append_async_after_ready n n' rd :
  rn_ready n = Ok (n', rd) -> exists n'', rn_advance_append_async n' rd = Ok n''.
Proof. apply commit_ready_after_ready. Qed.
